/-
  QV.Props.C01 — `if` branches that `return` (early return) in the CFG-level induction over statement lists.
  A branch that returns does not reach the join block, so the conclusion of the induction is restated on the RESULT of the
  run (`ROk`): over any final code that covers the builder and has `return operand` at the exit block (`RetAt`), execution
  from the entry position returns the value the reference semantics gives to the statement list — through the final
  expression / `return`, or earlier through a returning branch.  `SOk` (reach the exit position) implies `ROk`.
-/
import QV.Proofs.SemCfgStmtIf

namespace QV.Proofs.SemCfgStmtRet
open QV.Model QV.Model.IrSem QV.Proofs.SemIr QV.Proofs.SemVisit QV.Proofs.SemWalk QV.Proofs.SemStraight QV.Proofs.SemCfg QV.Proofs.SemCfgWalk QV.Proofs.SemCfgCtl QV.Proofs.SemCfgBlock QV.Proofs.SemCfgStmt QV.Proofs.SemCfgStmtIf
open QV.Spec.Sem (Val World Host Ev Ty STy coerceTo binop unop staticTy)
set_option linter.unusedSimpArgs false

/-- the value a statement list hands to the binding: the `return` value, else the completion value -/
def outVal : QV.Spec.Sem.Outcome → Option Val
  | .ret v => some v
  | .normal (some v) => some v
  | _ => none

theorem outVal_outOf (isRet : Bool) (v : Val) : outVal (outOf isRet v) = some v := by cases isRet <;> rfl

theorem outVal_afterVal (u : Val) (o : QV.Spec.Sem.Outcome) (v : Val) (h : outVal o = some v) :
    outVal (afterVal u o) = some v := by
  cases o with
  | ret w => exact h
  | brk w => cases h
  | normal w =>
    cases w with
    | none => cases h
    | some x => exact h

theorem outVal_afterVoid (o : QV.Spec.Sem.Outcome) (v : Val) (h : outVal o = some v) : outVal (afterVoid o) = some v :=
  outVal_afterVal .void o v h

/-- the final code has `return operand` at (the end of) the builder's exit block -/
def RetAt (C : CodeBody) (b : Builder) (op : Operand) : Prop :=
  ∃ bE, C.blocks[b.currentRef]? = some bE ∧ bE.statements.length ≤ curLen b ∧
    bE.terminator = some (.ret (ensureConcreteString op))

/-- the induction hypothesis / conclusion on the RESULT of the run -/
def ROk (wc : Ctx) (sc : QV.Spec.Sem.Ctx) (ic : ICtx) (isRet : Bool) (wl : QV.Model.Locals)
    (vars : List QV.Spec.Sem.Var) (stmts : List Stmt) : Prop :=
  ∀ s s', (walkStmts wc none stmts).run s = (some true, s') → s.locals = wl → VarRel s.b.code.locals wl vars →
    VarInj wl → (∃ blk, OpenAt s.b blk) →
    ∃ (s1 : WState) (op : Operand), s'.b = finish isRet s1.b op ∧ Walked s.b s1.b ∧ OperandOk s1.b.code.locals.length op ∧
      ∀ C, Covers C s1.b s.b.currentRef → RetAt C s1.b op →
      ∀ (st : State) (sst : QV.Spec.Sem.St) (out : QV.Spec.Sem.Outcome) (sst' : QV.Spec.Sem.St),
        shapeOf sst.vars = shapeOf vars → sst.w = st.w → (∀ x q u, st.w.prop x q = some u → isCint u = false) →
        ValRel wl sst.vars st.L →
        QV.Spec.Sem.execStmts sc stmts sst = some (out, sst') →
        ∃ v, outVal out = some v ∧ ∃ d res, d ≤ s1.b.currentRef - s.b.currentRef ∧
          ∀ fuel, runAt ic C (fuel + d) s.b.currentRef (curLen s.b) st = some (v, res)

theorem rOk_of_sOk {wc : Ctx} {sc : QV.Spec.Sem.Ctx} {ic : ICtx} {isRet : Bool} {wl : QV.Model.Locals}
    {vars : List QV.Spec.Sem.Var} {stmts : List Stmt} (h : SOk wc sc ic isRet wl vars stmts) :
    ROk wc sc ic isRet wl vars stmts := by
  intro s s' hr hl hvr hinj ho
  obtain ⟨s1, op, hfin, w, hok, hsim⟩ := h s s' hr hl hvr hinj ho
  refine ⟨s1, op, hfin, w, hok, ?_⟩
  intro C hC ⟨bE, hbE, hlen, hterm⟩ st sst out sst' hvars hw hnc hval hsp
  obtain ⟨v, hout, d, st', hd, hrun, hv⟩ := hsim C hC st sst out sst' hvars hw hnc hval hsp
  refine ⟨v, by rw [hout, outVal_outOf], d, st', hd, ?_⟩
  intro fuel
  rw [hrun fuel, runAt_ret ic C _ _ _ bE _ st' hbE hlen hterm, evalOperand_ensure, hv]
  rfl

/-! ### `return` inside a branch -/

/-- `visit_return_statement` on an open block: the block gets `return operand`, a new empty block is current -/
theorem walked_visitReturn (b : Builder) (blk : BasicBlock) (op : Operand) (ho : OpenAt b blk) :
    Walked b (visitReturnStatement b op) ∧ (visitReturnStatement b op).currentRef = b.currentRef + 1 ∧
    (visitReturnStatement b op).code.blocks[b.currentRef]? =
      some { blk with terminator := some (.ret (ensureConcreteString op)) } ∧
    (visitReturnStatement b op).code.locals = b.code.locals ∧ OpenAt (visitReturnStatement b op) {} := by
  have hlenE := open_len ho
  have hvr0 : visitReturnStatement b op =
      { b with code := { b.code with
        blocks := b.code.blocks.set b.currentRef
          { blk with terminator := some (.ret (ensureConcreteString op)) } ++ [({} : BasicBlock)] } } := by
    simp only [visitReturnStatement, finalizeAt_open b _ blk _ ho.1 ho.2, Builder.newBlock]
  have hcur : (visitReturnStatement b op).currentRef = b.currentRef + 1 := by
    rw [hvr0]
    simp only [Builder.currentRef, List.length_append, List.length_set, List.length_singleton] at hlenE ⊢
    omega
  have hblocks : (visitReturnStatement b op).code.blocks = b.code.blocks.set b.currentRef
      { blk with terminator := some (.ret (ensureConcreteString op)) } ++ [({} : BasicBlock)] := by rw [hvr0]
  have hlocals : (visitReturnStatement b op).code.locals = b.code.locals := by rw [hvr0]
  have hlen0 : (b.code.blocks.set b.currentRef
      { blk with terminator := some (.ret (ensureConcreteString op)) }).length = b.currentRef + 1 := by
    rw [List.length_set, hlenE]
  have hget : ∀ i, i < b.currentRef → (visitReturnStatement b op).code.blocks[i]? = b.code.blocks[i]? := by
    intro i hi
    rw [hblocks, List.getElem?_append_left (by omega), getElem?_set_ne' _ _ _ _ (by omega)]
  have hgetE : (visitReturnStatement b op).code.blocks[b.currentRef]? =
      some { blk with terminator := some (.ret (ensureConcreteString op)) } := by
    rw [hblocks, List.getElem?_append_left (by omega)]
    exact getElem?_set_self' _ _ _ _ ho.1
  have hgetS : (visitReturnStatement b op).code.blocks[b.currentRef + 1]? = some ({} : BasicBlock) := by
    rw [hblocks, List.getElem?_append_right (by omega), hlen0]
    simp
  have hopen : OpenAt (visitReturnStatement b op) {} := by rw [OpenAt, hcur]; exact ⟨hgetS, rfl⟩
  refine ⟨⟨⟨by rw [hvr0], ⟨[], by rw [hlocals]; simp⟩, by rw [hvr0], by rw [hblocks]; simp, hget,
    blk, _, ho.1, ho.2, hgetE, [], by simp⟩, ?_, ⟨{}, hopen⟩, ?_⟩, hcur, hgetE, hlocals, hopen⟩
  · intro i hlo hhi
    have : i = b.currentRef := by omega
    subst this
    exact ⟨_, hgetE, rfl⟩
  · intro i hlo hhi bi j hbi hbr
    have : i = b.currentRef := by omega
    subst this
    rw [hgetE] at hbi
    injection hbi with hbi
    subst hbi
    simp at hbr

theorem spec_stmts_if1_ret (c : QV.Spec.Sem.Ctx) (cnd : Expr) (R rest : List Stmt)
    (s : QV.Spec.Sem.St) (out : QV.Spec.Sem.Outcome) (s' : QV.Spec.Sem.St)
    (h : QV.Spec.Sem.execStmts c (.if_ cnd (.block R) none :: rest) s = some (out, s')) :
    ∃ xc sC, QV.Spec.Sem.evalExpr c cnd s = some (.bool xc, sC) ∧
      ((xc = true ∧ ∃ o1 s1', QV.Spec.Sem.execStmts c R sC = some (o1, s1') ∧ ∀ v, o1 = .ret v → out = .ret v) ∨
       (xc = false ∧ ∃ out', QV.Spec.Sem.execStmts c rest sC = some (out', s') ∧ out = afterVal .void out')) := by
  obtain ⟨xc, sC, he, hcase⟩ := spec_stmts_if1 c cnd R rest s out s' h
  refine ⟨xc, sC, he, ?_⟩
  rcases hcase with ⟨hx, o1, s1', hx1, _⟩ | hr
  · subst hx
    refine Or.inl ⟨rfl, o1, s1', hx1, ?_⟩
    intro v hv
    subst hv
    rw [QV.Spec.Sem.execStmts.eq_def] at h
    simp only at h
    rw [QV.Spec.Sem.execStmt.eq_def] at h
    simp only [he] at h
    rw [QV.Spec.Sem.execStmt.eq_def] at h
    simp only [hx1, Option.map_some, Option.some.injEq, Prod.mk.injEq] at h
    exact h.1.symm
  · exact Or.inr hr

/-- `if (c) { …; return e }; rest` (early return) inside the induction on the result of the run -/
theorem r_if_ret (wc : Ctx) (sc : QV.Spec.Sem.Ctx) (ic : ICtx) (isRet : Bool) (wl : QV.Model.Locals)
    (vars : List QV.Spec.Sem.Var) (cnd : Expr) (R rest : List Stmt)
    (hc : WalkOk wc sc ic wl vars cnd) (hR : SOk wc sc ic true wl vars R) (hrest : ROk wc sc ic isRet wl vars rest) :
    ROk wc sc ic isRet wl vars (.if_ cnd (.block R) none :: rest) := by
  intro s s' h hl hvr hinj ho
  rw [run_stmts_cons] at h
  cases hd : (walkStmt wc none (.if_ cnd (.block R) none)).run s with
  | mk r sd =>
    rw [hd] at h
    cases r with
    | none =>
      simp only at h
      cases hq : (walkStmts wc none rest).run sd with
      | mk q sq =>
        rw [hq] at h
        cases q <;> (simp only at h; injection h with h _; cases h)
    | some u =>
      cases u
      simp only at h
      obtain ⟨cop, s1, s2, hw1, hwa, htc, hsd⟩ := run_if_none wc cnd (.block R) s sd hd
      have r1 := hc s s1 cop hw1 hl hvr ho
      obtain ⟨blkC, hoC⟩ := r1.walked.exitOpen
      have w1 : Walked s.b s1.b := r1.walked
      have hvr1 : VarRel s1.b.newBlock.2.code.locals wl vars := hvr.mono w1.locals
      -- the returning branch
      rw [run_block] at hwa
      generalize hrR : (walkStmts wc none R).run { s1 with b := s1.b.newBlock.2 } = pR at hwa
      obtain ⟨rr, sR⟩ := pR
      have hrr : rr = some true ∧ s2 = { sR with locals := s1.locals } := by
        cases rr with
        | none => simp only at hwa; injection hwa with hwa _; cases hwa
        | some ok =>
          cases ok with
          | false => simp only at hwa; injection hwa with hwa _; cases hwa
          | true => simp only at hwa; injection hwa with _ hs; exact ⟨rfl, hs.symm⟩
      obtain ⟨hrr1, hs2⟩ := hrr
      subst hrr1
      obtain ⟨sr1, opR, hfinR, wR, hokR, simR⟩ := hR _ sR hrR r1.locals hvr1 hinj ⟨{}, newBlock_open hoC⟩
      have wR : Walked s1.b.newBlock.2 sr1.b := wR
      obtain ⟨blkR, hoR⟩ := wR.exitOpen
      obtain ⟨wvr, hcurR, hgetR, hlocR, hopenR⟩ := walked_visitReturn sr1.b blkR opR hoR
      have hs2b : s2.b = visitReturnStatement sr1.b opR := by rw [hs2]; simpa [finish] using hfinR
      rw [← hs2b] at wvr hcurR hgetR hlocR hopenR
      have w2 : Walked s1.b.newBlock.2 s2.b := wR.trans wvr
      have hoA : OpenAt s2.b {} := hopenR
      have hcm1 : s1.b.newBlock.2.currentRef = s1.b.currentRef + 1 := newBlock_cur hoC
      have hCA : s1.b.currentRef + 1 ≤ s2.b.currentRef := by have := w2.cur_le; omega
      have hsC : s.b.currentRef ≤ s1.b.currentRef := w1.cur_le
      have hlenC := open_len hoC
      have hlenA := open_len hoA
      have hC2 : s2.b.code.blocks[s1.b.currentRef]? = some blkC := by
        rw [w2.below _ (by omega), newBlock_get _ _ (by omega)]; exact hoC.1
      have hCm : s2.b.newBlock.2.code.blocks[s1.b.currentRef]? = some blkC := by
        rw [newBlock_get _ _ (by omega)]; exact hC2
      have hAm : s2.b.newBlock.2.code.blocks[s2.b.currentRef]? = some ({} : BasicBlock) := by
        rw [newBlock_get _ _ (by omega)]; exact hoA.1
      obtain ⟨f2, f3, f4, f5, f6, f7, f8⟩ := visitIf1_facts s2.b.newBlock.2 cop s1.b.currentRef s2.b.currentRef blkC {}
        hCm hoC.2 hAm hoA.2 (by omega)
      have hsdb : sd.b = visitIfStatement s2.b.newBlock.2 cop s1.b.currentRef s2.b.currentRef none := by rw [hsd]
      rw [← hsdb] at f2 f3 f4 f5 f6 f7 f8
      have hnl : s2.b.newBlock.2.code.locals = s2.b.code.locals := rfl
      have hnlen : s2.b.newBlock.2.code.blocks.length = s2.b.code.blocks.length + 1 := by simp [Builder.newBlock]
      rw [hnl] at f4
      have hcF : sd.b.currentRef = s2.b.currentRef + 1 := by
        simp only [Builder.currentRef] at hlenA ⊢
        omega
      have hch1 : ∀ i, i < s1.b.currentRef → sd.b.code.blocks[i]? = s1.b.code.blocks[i]? := by
        intro i hi
        rw [f6 i (by omega) (by omega), newBlock_get _ _ (by omega), w2.below i (by omega), newBlock_get _ _ (by omega)]
      have hch2 : ∀ i, s1.b.currentRef < i → i < s2.b.currentRef → sd.b.code.blocks[i]? = s2.b.code.blocks[i]? := by
        intro i h1 h2
        rw [f6 i (by omega) (by omega), newBlock_get _ _ (by omega)]
      have hexit : sd.b.code.blocks[s2.b.currentRef + 1]? = some {} := by
        rw [f6 _ (by omega) (by omega), hlenA]; exact newBlock_last s2.b
      obtain ⟨t2, hlo2⟩ := w2.locals
      have hnl1 : s1.b.newBlock.2.code.locals = s1.b.code.locals := rfl
      rw [hnl1] at hlo2
      have hextF : Ext s1.b sd.b := by
        refine ⟨f2.trans w2.panic, ⟨t2, by rw [f4, hlo2]⟩, f3.trans w2.params, by omega, hch1,
          blkC, _, hoC.1, hoC.2, f7, [], by simp⟩
      have hwalked : Walked s.b sd.b := by
        refine ⟨w1.toExt.trans hextF, ?_, ⟨{}, by rw [OpenAt, hcF]; exact ⟨hexit, rfl⟩⟩, ?_⟩
        · intro i hlo hhi
          rcases Nat.lt_or_ge i s1.b.currentRef with hlt | hge
          · obtain ⟨bi, hbi, hti⟩ := w1.closed i hlo hlt
            exact ⟨bi, by rw [hch1 i hlt]; exact hbi, hti⟩
          · rcases Nat.eq_or_lt_of_le hge with heq | hgt
            · subst heq; exact ⟨_, f7, rfl⟩
            · rcases Nat.lt_or_ge i s2.b.currentRef with hlt2 | hge2
              · obtain ⟨bi, hbi, hti⟩ := w2.closed i (by omega) hlt2
                exact ⟨bi, by rw [hch2 i hgt hlt2]; exact hbi, hti⟩
              · have : i = s2.b.currentRef := by omega
                subst this; exact ⟨_, f8, rfl⟩
        · intro i hlo hhi bi j hbi hbr
          rcases Nat.lt_or_ge i s1.b.currentRef with hlt | hge
          · rw [hch1 i hlt] at hbi
            have := w1.brs i hlo hlt bi j hbi hbr
            omega
          · rcases Nat.eq_or_lt_of_le hge with heq | hgt
            · subst heq
              rw [f7] at hbi
              injection hbi with hbi
              subst hbi
              simp at hbr
            · rcases Nat.lt_or_ge i s2.b.currentRef with hlt2 | hge2
              · rw [hch2 i hgt hlt2] at hbi
                have := w2.brs i (by omega) hlt2 bi j hbi hbr
                omega
              · have : i = s2.b.currentRef := by omega
                subst this
                rw [f8] at hbi
                injection hbi with hbi
                subst hbi
                simp only [Option.some.injEq, Terminator.br.injEq] at hbr
                omega
      have hsdl : sd.locals = wl := by rw [hsd]; exact r1.locals
      have hvrd : VarRel sd.b.code.locals wl vars := by
        rw [f4]; exact hvr1.mono ⟨t2, by rw [hnl1]; exact hlo2⟩
      obtain ⟨s4, op4, hfin, w4, hok4, hsim4⟩ := hrest sd s' h hsdl hvrd hinj hwalked.exitOpen
      refine ⟨s4, op4, hfin, hwalked.trans w4, hok4, ?_⟩
      intro C hC hret st sst out sst' hvars hw hnc hval hsp
      have hC' : Covers C sd.b s.b.currentRef := Covers.of_ext w4.toExt hC hwalked.cur_le
      obtain ⟨xc, sC, hsc, hcase⟩ := spec_stmts_if1_ret sc cnd R rest sst out sst' hsp
      have hCv1 : Covers C s1.b s.b.currentRef :=
        Covers.sub hC' hsC (by omega) (by rw [f4, hlo2]; exact List.prefix_append _ _)
          (fun i _ hi => hch1 i hi) ⟨blkC, _, hoC.1, f7, List.prefix_refl _⟩
      have hCv2 : Covers C s2.b (s1.b.currentRef + 1) :=
        Covers.sub (hC'.mono (by omega)) hCA (by omega) (by rw [f4]; exact List.prefix_refl _)
          (fun i h1 h2 => hch2 i (by omega) h2) ⟨{}, _, hoA.1, f8, List.prefix_refl _⟩
      have hCC := hC'.closed _ hsC (by omega : s1.b.currentRef < sd.b.currentRef)
      rw [f7] at hCC
      have hlenF : curLen sd.b = 0 := by simp [curLen, hcF, hexit]
      obtain ⟨hsa, d1, st1, hd1, hrun1, hv1, hp1, hw1', ht1, _⟩ := r1.sim C hCv1 st sst sC (.bool xc) hvars hw hnc hval hsc
      subst hsa
      have hval1 : ValRel wl sC.vars st1.L := hval.mono hvr hp1
      have hkC : curLen s1.b = blkC.statements.length := curLen_of_open hoC
      have hstepC : ∀ fuel, runAt ic C (fuel + 1) s1.b.currentRef (curLen s1.b) st1 =
          runAt ic C fuel (if xc then s1.b.currentRef + 1 else s2.b.currentRef + 1) 0 st1 := by
        intro fuel
        exact runAt_brCond ic C fuel _ _ _ _ _ cop st1 xc hCC (by rw [hkC]; exact Nat.le_refl _) rfl hv1
      have hc4 := w4.cur_le
      have hcR := wR.cur_le
      rcases hcase with ⟨hxc, o1, sJ, hsbr, hretv⟩ | ⟨hxc, out', hrs, hout⟩
      · subst hxc
        simp only [if_true] at hstepC
        have hCvR : Covers C sr1.b (s1.b.currentRef + 1) := Covers.of_ext wvr.toExt hCv2 (by omega)
        obtain ⟨v, ho1, d2, st2, hd2, hrun2, hv2⟩ :=
          simR C (by show Covers C sr1.b s1.b.newBlock.2.currentRef; rw [hcm1]; exact hCvR) st1 sC o1 sJ hvars
            (hw.trans hw1'.symm) (by rw [hw1']; exact hnc) hval1 hsbr
        have hout : out = .ret v := hretv v (by rw [ho1]; rfl)
        have hd2' : d2 ≤ sr1.b.currentRef - (s1.b.currentRef + 1) := by
          have : d2 ≤ sr1.b.currentRef - s1.b.newBlock.2.currentRef := hd2
          omega
        have hrun2' : ∀ fuel, runAt ic C (fuel + d2) (s1.b.currentRef + 1) 0 st1 =
            runAt ic C fuel sr1.b.currentRef (curLen sr1.b) st2 := by
          intro fuel
          have := hrun2 fuel
          rw [show ({ s1 with b := s1.b.newBlock.2 } : WState).b = s1.b.newBlock.2 from rfl, hcm1,
            curLen_of_open (newBlock_open hoC)] at this
          exact this
        -- the block that returns is a closed block of the final code
        have hCR : C.blocks[sr1.b.currentRef]? = some { blkR with terminator := some (.ret (ensureConcreteString opR)) } := by
          rw [hC'.closed _ (by omega) (by omega), hch2 _ (by omega) (by omega)]
          exact hgetR
        refine ⟨v, by rw [hout]; rfl, d1 + 1 + d2, st2, by omega, ?_⟩
        intro fuel
        have : fuel + (d1 + 1 + d2) = (fuel + d2 + 1) + d1 := by omega
        rw [this, hrun1, hstepC, hrun2', runAt_ret ic C _ _ _ _ (ensureConcreteString opR) st2 hCR
          (by simp [curLen_of_open hoR]) rfl, evalOperand_ensure, hv2]
        rfl
      · subst hxc
        simp only [Bool.false_eq_true, if_false] at hstepC
        obtain ⟨val, hout4, d4, res, hd4, hrun4⟩ := hsim4 C (hC.mono hwalked.cur_le) hret st1 sC out' sst' hvars
          (hw.trans hw1'.symm) (by rw [hw1']; exact hnc) hval1 hrs
        refine ⟨val, by rw [hout]; exact outVal_afterVal _ _ _ hout4, d1 + 1 + d4, res, by omega, ?_⟩
        intro fuel
        have : fuel + (d1 + 1 + d4) = (fuel + d4 + 1) + d1 := by omega
        rw [this, hrun1, hstepC]
        have := hrun4 fuel
        rw [hcF, hlenF] at this
        exact this


/-! ### the other steps, on the result of the run (the proofs of `s_decl`, `s_assign`, `s_if_else`, `s_if1` with the
    continuation's conclusion in result form) -/

theorem r_decl (wc : Ctx) (sc : QV.Spec.Sem.Ctx) (ic : ICtx) (isRet : Bool) (wl : QV.Model.Locals)
    (vars : List QV.Spec.Sem.Var) (kind : DeclKind) (x : String) (e : Expr) (rest : List Stmt)
    (he : WalkOk wc sc ic wl vars e)
    (hse : ∀ vars', shapeOf vars' = shapeOf vars → staticTy sc vars' e = staticTy sc vars e)
    (hrest : ∀ (n : Nat) (sty : STy), ROk wc sc ic isRet (wl.insert x (n, kind))
      ({ name := x, sty := sty, const := kind = .const_, val := none } :: vars) rest) :
    ROk wc sc ic isRet wl vars (.lexical kind [{ name := x, ty := none, value := some e }] :: rest) := by
  intro s s' h hl hvr hinj ho
  rw [run_stmts_cons] at h
  cases hd : (walkStmt wc none (.lexical kind [{ name := x, ty := none, value := some e }])).run s with
  | mk r sd =>
    rw [hd] at h
    cases r with
    | none =>
      simp only at h
      cases hq : (walkStmts wc none rest).run sd with
      | mk q sq =>
        rw [hq] at h
        cases q <;> (simp only at h; injection h with h _; cases h)
    | some u =>
      cases u
      simp only at h
      obtain ⟨v, s1, ty, hw, htc, htynv, hb, hloc⟩ := run_let wc kind x e s sd hd
      have r1 := he s s1 v hw hl hvr ho
      obtain ⟨tx, hstx, htyx⟩ := r1.ty
      obtain ⟨blk1, ho1⟩ := r1.walked.exitOpen
      have w1 : Walked s.b s1.b := r1.walked
      obtain ⟨hop, hg, hloc3⟩ := grows_emit s1.b blk1 ty (.copy (ensureConcreteString v)) htynv ho1
      rw [decl_builder s1.b ty _ htynv] at hb
      rw [← hb] at hg hloc3
      have wd : Walked s1.b sd.b := Walked.of_grows hg
      have hcurd : sd.b.currentRef = s1.b.currentRef := hg.currentRef
      have hkty := decl_type v tx ty htyx htc
      rw [r1.locals] at hloc
      -- the variable relation with `x` added
      have hn01 := w1.locals_le
      have hvr' : VarRel sd.b.code.locals (wl.insert x (s1.b.code.locals.length, kind))
          ({ name := x, sty := tx.concrete, const := kind = .const_, val := none } :: vars) := by
        refine ⟨?_, ?_⟩
        · intro name hnone
          have hne : name ≠ x := by
            intro hc; subst hc; rw [get?_insert_self] at hnone; cases hnone
          rw [get?_insert_ne _ _ _ _ hne] at hnone
          simp only [List.find?_cons, Ne.symm hne, decide_false]
          exact hvr.none name hnone
        · intro name n k hsome
          by_cases hne : name = x
          · subst hne
            rw [get?_insert_self] at hsome
            injection hsome with hsome
            injection hsome with h1 h2
            subst h1 h2
            exact ⟨{ name := name, sty := tx.concrete, const := kind = .const_, val := none }, ty, by simp,
              by rw [hloc3]; simp, htynv, rfl, hkty⟩
          · rw [get?_insert_ne _ _ _ _ hne] at hsome
            obtain ⟨var, ty', h1, h2, h3⟩ := ((hvr.mono w1.locals).mono wd.locals).some name n k hsome
            exact ⟨var, ty', by simp only [List.find?_cons, Ne.symm hne, decide_false]; exact h1, h2, h3⟩
      have hinj' : VarInj (wl.insert x (s1.b.code.locals.length, kind)) := by
        intro y z ny ky nz kz hy hz hnn
        by_cases hyx : y = x
        · by_cases hzx : z = x
          · rw [hyx, hzx]
          · rw [hyx, get?_insert_self] at hy
            rw [get?_insert_ne _ _ _ _ hzx] at hz
            obtain ⟨_, tz, _, htz, _⟩ := hvr.some z nz kz hz
            have := lt_of_getElem? htz
            injection hy with hy; injection hy with hy _
            omega
        · by_cases hzx : z = x
          · rw [hzx, get?_insert_self] at hz
            rw [get?_insert_ne _ _ _ _ hyx] at hy
            obtain ⟨_, tz, _, htz, _⟩ := hvr.some y ny ky hy
            have := lt_of_getElem? htz
            injection hz with hz; injection hz with hz _
            omega
          · rw [get?_insert_ne _ _ _ _ hyx] at hy
            rw [get?_insert_ne _ _ _ _ hzx] at hz
            exact hinj y z ny ky nz kz hy hz hnn
      obtain ⟨s2, op2, hfin, w2, hok2, hsim2⟩ :=
        hrest s1.b.code.locals.length tx.concrete sd s' h hloc hvr' hinj' hg.open
      refine ⟨s2, op2, hfin, (w1.trans wd).trans w2, hok2, ?_⟩
      intro C hC hret st sst out sst' hvars hw' hnc hval hsp
      obtain ⟨v0, sA, tA, v', hev, hstA, hco, hrs⟩ := spec_stmts_let sc kind x e rest sst out sst' hsp
      have hCd : Covers C sd.b s.b.currentRef := Covers.of_ext w2.toExt hC (w1.trans wd).cur_le
      have hC1 : Covers C s1.b s.b.currentRef := Covers.of_ext wd.toExt hCd w1.cur_le
      obtain ⟨hsA, d1, st1, hd1, hrun1, hv1, hp1, hw1', ht1, _⟩ := r1.sim C hC1 st sst sA v0 hvars hw' hnc hval hev
      subst hsA
      rw [hse _ hvars, hstx] at hstA
      injection hstA with hstA
      subst hstA
      rw [hkty] at hco
      have hLLn : C.locals[s1.b.code.locals.length]? = some ty :=
        prefix_getElem? hCd.locals _ _ (by rw [hloc3]; simp)
      have hex : execStatements ic C.locals
          [.assign s1.b.code.locals.length (.copy (ensureConcreteString v))] st1 =
          some { st1 with L := upd st1.L s1.b.code.locals.length v' } := by
        simp [execStatements, execStatement, evalRvalue, evalOperand_ensure, hv1, hLLn, hco]
      have hstep : ∀ fuel, runAt ic C fuel s1.b.currentRef (curLen s1.b) st1 =
          runAt ic C fuel sd.b.currentRef (curLen sd.b) { st1 with L := upd st1.L s1.b.code.locals.length v' } :=
        fun fuel => runAt_emit ic C s1.b sd.b blk1 _ _ ho1 hg hCd st1 _ hex fuel
      have hval' : ValRel (wl.insert x (s1.b.code.locals.length, kind))
          ({ name := x, sty := tx.concrete, const := kind = .const_, val := some v' } :: sA.vars)
          (upd st1.L s1.b.code.locals.length v') := by
        intro name n k hsome
        by_cases hne : name = x
        · subst hne
          rw [get?_insert_self] at hsome
          injection hsome with hsome
          injection hsome with h1 h2
          subst h1 h2
          exact ⟨{ name := name, sty := tx.concrete, const := kind = .const_, val := some v' }, v', by simp, rfl,
            upd_same _ _ _, coerceTo_not_cint hco⟩
        · rw [get?_insert_ne _ _ _ _ hne] at hsome
          obtain ⟨_, ty', _, hty', _⟩ := hvr.some name n k hsome
          have hn : n < s.b.code.locals.length := lt_of_getElem? hty'
          obtain ⟨var, val, h1, h2, h3, h4⟩ := hval name n k hsome
          refine ⟨var, val, by simp only [List.find?_cons, Ne.symm hne, decide_false]; exact h1, h2, ?_, h4⟩
          rw [upd_other _ _ _ _ (by omega), hp1 n hn]
          exact h3
      obtain ⟨val, hout, d2, res, hd2, hrun2⟩ := hsim2 C (hC.mono (w1.trans wd).cur_le) hret
        { st1 with L := upd st1.L s1.b.code.locals.length v' }
        { sA with vars := { name := x, sty := tx.concrete, const := kind = .const_, val := some v' } :: sA.vars } out sst'
        (by simp only [shapeOf, List.map_cons] at hvars ⊢; rw [hvars])
        (hw'.trans hw1'.symm) (by show ∀ x q u, st1.w.prop x q = some u → _; rw [hw1']; exact hnc) hval' hrs
      have hc01 := w1.cur_le
      have hc2 := w2.cur_le
      refine ⟨val, hout, d1 + d2, res, by omega, ?_⟩
      intro fuel
      have : fuel + (d1 + d2) = (fuel + d2) + d1 := by omega
      rw [this, hrun1, hstep, hrun2]

theorem r_assign (wc : Ctx) (sc : QV.Spec.Sem.Ctx) (ic : ICtx) (isRet : Bool) (wl : QV.Model.Locals)
    (vars : List QV.Spec.Sem.Var) (x : String) (n : Nat) (k : DeclKind) (e : Expr) (rest : List Stmt)
    (hx : wl.get? x = some (n, k)) (he : WalkOk wc sc ic wl vars e) (hrest : ROk wc sc ic isRet wl vars rest) :
    ROk wc sc ic isRet wl vars (.expr (.assign (.ident x) e) :: rest) := by
  intro s s' h hl hvr hinj ho
  rw [run_stmts_cons] at h
  cases hd : (walkStmt wc none (.expr (.assign (.ident x) e))).run s with
  | mk r sd =>
    rw [hd] at h
    cases r with
    | none =>
      simp only at h
      cases hq : (walkStmts wc none rest).run sd with
      | mk q sq =>
        rw [hq] at h
        cases q <;> (simp only at h; injection h with h _; cases h)
    | some u =>
      cases u
      simp only at h
      obtain ⟨v, s1, hw, _, a, b1, hvis, hsd⟩ := run_assign_stmt wc x n k e s sd (by rw [hl]; exact hx) hd
      have r1 := he s s1 v hw hl hvr ho
      obtain ⟨blk1, ho1⟩ := r1.walked.exitOpen
      have w1 : Walked s.b s1.b := r1.walked
      obtain ⟨var0, ty, hfind0, hty0, htynv, _, hsty0⟩ := hvr.some x n k hx
      have hn : n < s.b.code.locals.length := lt_of_getElem? hty0
      have hty1 : s1.b.code.locals[n]? = some ty := by
        obtain ⟨tys, ht⟩ := w1.locals
        rw [ht]; exact prefix_getElem? (List.prefix_append _ _) n ty hty0
      -- the builder after the store
      simp only [visitLocalAssignment, hty1] at hvis
      split at hvis
      · cases hvis
      · injection hvis with hvis
        injection hvis with ha hb1
        subst ha hb1
        have hg := grows_push s1.b blk1 (.assign n (.copy (ensureConcreteString v))) ho1
        obtain ⟨blk1', ho1'⟩ := hg.open
        have wp : Walked s1.b (s1.b.pushStatement (.assign n (.copy (ensureConcreteString v)))) := Walked.of_grows hg
        obtain ⟨wc', hcur', hlen', hloc'⟩ :=
          walked_completion (s1.b.pushStatement (.assign n (.copy (ensureConcreteString v)))) blk1' .void ho1'
        have hsdb : sd.b = (s1.b.pushStatement (.assign n (.copy (ensureConcreteString v)))).setCompletionValue .void := by
          rw [hsd]; rfl
        rw [← hsdb] at wc' hcur' hlen' hloc'
        have hsdl : sd.locals = wl := by rw [hsd]; exact r1.locals
        have hvr' : VarRel sd.b.code.locals wl vars := ((hvr.mono w1.locals).mono wp.locals).mono wc'.locals
        obtain ⟨s2, op2, hfin, w2, hok2, hsim2⟩ := hrest sd s' h hsdl hvr' hinj wc'.exitOpen
        refine ⟨s2, op2, hfin, ((w1.trans wp).trans wc').trans w2, hok2, ?_⟩
        intro C hC hret st sst out sst' hvars hw' hnc hval hsp
        obtain ⟨varx, valx, hfx, _, _, _⟩ := hval x n k hx
        rcases spec_stmts_assign sc x e rest sst out sst' hsp with
          ⟨var, v0, sA, v', hlook, _, hev, hco, out', hrs, hout⟩ | hnone
        · have hCd : Covers C sd.b s.b.currentRef := Covers.of_ext w2.toExt hC ((w1.trans wp).trans wc').cur_le
          have hCp : Covers C (s1.b.pushStatement (.assign n (.copy (ensureConcreteString v)))) s.b.currentRef :=
            Covers.of_ext wc'.toExt hCd (w1.trans wp).cur_le
          have hC1 : Covers C s1.b s.b.currentRef := Covers.of_ext wp.toExt hCp w1.cur_le
          obtain ⟨hsA, d1, st1, hd1, hrun1, hv1, hp1, hw1', ht1, _⟩ := r1.sim C hC1 st sst sA v0 hvars hw' hnc hval hev
          subst hsA
          -- the type of the variable
          obtain ⟨var', hf', hsty', _⟩ := find?_some_of_shape hvars x var0 hfind0
          have hvv : var = var' := by
            simp only [QV.Spec.Sem.St.lookup] at hlook
            rw [hf'] at hlook; injection hlook with hlook; exact hlook.symm
          subst hvv
          rw [hsty', hsty0] at hco
          have hLLn : C.locals[n]? = some ty := prefix_getElem? hC1.locals n ty hty1
          have hex : execStatements ic C.locals [.assign n (.copy (ensureConcreteString v))] st1 =
              some { st1 with L := upd st1.L n v' } := by
            simp [execStatements, execStatement, evalRvalue, evalOperand_ensure, hv1, hLLn, hco]
          have hstep : ∀ fuel, runAt ic C fuel s1.b.currentRef (curLen s1.b) st1 =
              runAt ic C fuel sd.b.currentRef (curLen sd.b) { st1 with L := upd st1.L n v' } := by
            intro fuel
            rw [hcur', hlen']
            exact runAt_emit ic C s1.b _ blk1 _ _ ho1 hg hCp st1 _ hex fuel
          have hval' : ValRel wl (QV.Spec.Sem.assignVar x v' sA.vars) (upd st1.L n v') := by
            intro y ny ky hy
            by_cases hyx : y = x
            · subst hyx
              rw [hx] at hy
              injection hy with hy
              injection hy with h1 h2
              subst h1
              exact ⟨{ var with val := some v' }, v', find?_assignVar_self y v' _ var hf', rfl, upd_same _ _ _,
                coerceTo_not_cint hco⟩
            · obtain ⟨vy, valy, g1, g2, g3, g4⟩ := hval y ny ky hy
              obtain ⟨_, tyy, _, htyy, _⟩ := hvr.some y ny ky hy
              have hny : ny < s.b.code.locals.length := lt_of_getElem? htyy
              have hne : ny ≠ n := fun hc => hyx (hinj y x ny ky n k hy hx hc)
              refine ⟨vy, valy, by rw [find?_assignVar_ne x y v' hyx]; exact g1, g2, ?_, g4⟩
              rw [upd_other _ _ _ _ hne, hp1 ny hny]
              exact g3
          obtain ⟨val, hout', d2, res, hd2, hrun2⟩ := hsim2 C (hC.mono ((w1.trans wp).trans wc').cur_le) hret
            { st1 with L := upd st1.L n v' } { sA with vars := QV.Spec.Sem.assignVar x v' sA.vars } out' sst'
            (by show shapeOf (QV.Spec.Sem.assignVar x v' sA.vars) = _; rw [shapeOf_assignVar]; exact hvars)
            (hw'.trans hw1'.symm) (by show ∀ x q u, st1.w.prop x q = some u → _; rw [hw1']; exact hnc) hval' hrs
          have hc01 := w1.cur_le
          have hcp := wp.cur_le
          have hc2 := w2.cur_le
          have hcpe : (s1.b.pushStatement (.assign n (.copy (ensureConcreteString v)))).currentRef = s1.b.currentRef :=
            hg.currentRef
          refine ⟨val, by rw [hout]; exact outVal_afterVoid _ _ hout', d1 + d2, res, by omega, ?_⟩
          intro fuel
          have : fuel + (d1 + d2) = (fuel + d2) + d1 := by omega
          rw [this, hrun1, hstep, hrun2]
        · simp only [QV.Spec.Sem.St.lookup] at hnone
          rw [hfx] at hnone
          cases hnone

theorem r_if_else (wc : Ctx) (sc : QV.Spec.Sem.Ctx) (ic : ICtx) (isRet : Bool) (wl : QV.Model.Locals)
    (vars : List QV.Spec.Sem.Var) (cnd : Expr) (A B rest : List Stmt)
    (hc : WalkOk wc sc ic wl vars cnd) (hA : BodyOk wc sc ic wl vars A) (hB : BodyOk wc sc ic wl vars B)
    (hrest : ROk wc sc ic isRet wl vars rest) :
    ROk wc sc ic isRet wl vars (.if_ cnd (.block A) (some (.block B)) :: rest) := by
  intro s s' h hl hvr hinj ho
  rw [run_stmts_cons] at h
  cases hd : (walkStmt wc none (.if_ cnd (.block A) (some (.block B)))).run s with
  | mk r sd =>
    rw [hd] at h
    cases r with
    | none =>
      simp only at h
      cases hq : (walkStmts wc none rest).run sd with
      | mk q sq =>
        rw [hq] at h
        cases q <;> (simp only at h; injection h with h _; cases h)
    | some u =>
      cases u
      simp only at h
      obtain ⟨cop, s1, s2, s3, hw1, hwa, hwb, htc, hsd⟩ := run_if_else wc cnd (.block A) (.block B) s sd hd
      have r1 := hc s s1 cop hw1 hl hvr ho
      obtain ⟨blkC, hoC⟩ := r1.walked.exitOpen
      have w1 : Walked s.b s1.b := r1.walked
      have hvr1 : VarRel s1.b.newBlock.2.code.locals wl vars := hvr.mono w1.locals
      obtain ⟨hl2, w2, simA⟩ := branch_ok wc sc ic wl vars A hA { s1 with b := s1.b.newBlock.2 } s2 hwa r1.locals hvr1 hinj
        ⟨{}, newBlock_open hoC⟩
      have w2 : Walked s1.b.newBlock.2 s2.b := w2
      obtain ⟨blkA, hoA⟩ := w2.exitOpen
      have hvr2 : VarRel s2.b.newBlock.2.code.locals wl vars := hvr1.mono w2.locals
      obtain ⟨hl3, w3, simB⟩ := branch_ok wc sc ic wl vars B hB { s2 with b := s2.b.newBlock.2, locals := s1.locals } s3 hwb
        r1.locals hvr2 hinj ⟨{}, newBlock_open hoA⟩
      have w3 : Walked s2.b.newBlock.2 s3.b := w3
      obtain ⟨blkB, hoB⟩ := w3.exitOpen
      have hcm1 : s1.b.newBlock.2.currentRef = s1.b.currentRef + 1 := newBlock_cur hoC
      have hcm2 : s2.b.newBlock.2.currentRef = s2.b.currentRef + 1 := newBlock_cur hoA
      have hCA : s1.b.currentRef + 1 ≤ s2.b.currentRef := by have := w2.cur_le; omega
      have hAB : s2.b.currentRef + 1 ≤ s3.b.currentRef := by have := w3.cur_le; omega
      have hsC : s.b.currentRef ≤ s1.b.currentRef := w1.cur_le
      have hlenC := open_len hoC
      have hlenA := open_len hoA
      have hlenB := open_len hoB
      have hC2 : s2.b.code.blocks[s1.b.currentRef]? = some blkC := by
        rw [w2.below _ (by omega), newBlock_get _ _ (by omega)]; exact hoC.1
      have hC3 : s3.b.code.blocks[s1.b.currentRef]? = some blkC := by
        rw [w3.below _ (by omega), newBlock_get _ _ (by omega)]; exact hC2
      have hA3 : s3.b.code.blocks[s2.b.currentRef]? = some blkA := by
        rw [w3.below _ (by omega), newBlock_get _ _ (by omega)]; exact hoA.1
      have hCm : s3.b.newBlock.2.code.blocks[s1.b.currentRef]? = some blkC := by
        rw [newBlock_get _ _ (by omega)]; exact hC3
      have hAm : s3.b.newBlock.2.code.blocks[s2.b.currentRef]? = some blkA := by
        rw [newBlock_get _ _ (by omega)]; exact hA3
      have hBm : s3.b.newBlock.2.code.blocks[s3.b.currentRef]? = some blkB := by
        rw [newBlock_get _ _ (by omega)]; exact hoB.1
      obtain ⟨f2, f3, f4, f5, f6, f7, f8, f9⟩ := visitIf_facts s3.b.newBlock.2 cop _ _ _ blkC blkA blkB
        hCm hoC.2 hAm hoA.2 hBm hoB.2 (by omega) (by omega) (by omega)
      have hsdb : sd.b = visitIfStatement s3.b.newBlock.2 cop s1.b.currentRef s2.b.currentRef (some s3.b.currentRef) := by
        rw [hsd]
      rw [← hsdb] at f2 f3 f4 f5 f6 f7 f8 f9
      have hnl : s3.b.newBlock.2.code.locals = s3.b.code.locals := rfl
      have hnlen : s3.b.newBlock.2.code.blocks.length = s3.b.code.blocks.length + 1 := by simp [Builder.newBlock]
      rw [hnl] at f4
      have hcF : sd.b.currentRef = s3.b.currentRef + 1 := by
        simp only [Builder.currentRef] at hlenB ⊢
        omega
      have hch1 : ∀ i, i < s1.b.currentRef → sd.b.code.blocks[i]? = s1.b.code.blocks[i]? := by
        intro i hi
        rw [f6 i (by omega) (by omega) (by omega), newBlock_get _ _ (by omega), w3.below i (by omega),
          newBlock_get _ _ (by omega), w2.below i (by omega), newBlock_get _ _ (by omega)]
      have hch2 : ∀ i, s1.b.currentRef < i → i < s2.b.currentRef → sd.b.code.blocks[i]? = s2.b.code.blocks[i]? := by
        intro i h1 h2
        rw [f6 i (by omega) (by omega) (by omega), newBlock_get _ _ (by omega), w3.below i (by omega),
          newBlock_get _ _ (by omega)]
      have hch3 : ∀ i, s2.b.currentRef < i → i < s3.b.currentRef → sd.b.code.blocks[i]? = s3.b.code.blocks[i]? := by
        intro i h1 h2
        rw [f6 i (by omega) (by omega) (by omega), newBlock_get _ _ (by omega)]
      have hexit : sd.b.code.blocks[s3.b.currentRef + 1]? = some {} := by
        rw [f6 _ (by omega) (by omega) (by omega), hlenB]; exact newBlock_last s3.b
      obtain ⟨t2, hlo2⟩ := w2.locals
      obtain ⟨t3, hlo3⟩ := w3.locals
      have hnl1 : s1.b.newBlock.2.code.locals = s1.b.code.locals := rfl
      have hnl2 : s2.b.newBlock.2.code.locals = s2.b.code.locals := rfl
      rw [hnl1] at hlo2
      rw [hnl2] at hlo3
      have hextF : Ext s1.b sd.b := by
        refine ⟨f2.trans (w3.panic.trans w2.panic), ⟨t2 ++ t3, by rw [f4, hlo3, hlo2]; simp⟩,
          f3.trans (w3.params.trans w2.params), by omega, hch1, blkC, _, hoC.1, hoC.2, f7, [], by simp⟩
      have hwalked : Walked s.b sd.b := by
        refine ⟨w1.toExt.trans hextF, ?_, ⟨{}, by rw [OpenAt, hcF]; exact ⟨hexit, rfl⟩⟩, ?_⟩
        · intro i hlo hhi
          rcases Nat.lt_or_ge i s1.b.currentRef with hlt | hge
          · obtain ⟨bi, hbi, hti⟩ := w1.closed i hlo hlt
            exact ⟨bi, by rw [hch1 i hlt]; exact hbi, hti⟩
          · rcases Nat.eq_or_lt_of_le hge with heq | hgt
            · subst heq; exact ⟨_, f7, rfl⟩
            · rcases Nat.lt_or_ge i s2.b.currentRef with hlt2 | hge2
              · obtain ⟨bi, hbi, hti⟩ := w2.closed i (by omega) hlt2
                exact ⟨bi, by rw [hch2 i hgt hlt2]; exact hbi, hti⟩
              · rcases Nat.eq_or_lt_of_le hge2 with heq2 | hgt2
                · subst heq2; exact ⟨_, f8, rfl⟩
                · rcases Nat.lt_or_ge i s3.b.currentRef with hlt3 | hge3
                  · obtain ⟨bi, hbi, hti⟩ := w3.closed i (by omega) hlt3
                    exact ⟨bi, by rw [hch3 i hgt2 hlt3]; exact hbi, hti⟩
                  · have : i = s3.b.currentRef := by omega
                    subst this; exact ⟨_, f9, rfl⟩
        · intro i hlo hhi bi j hbi hbr
          rcases Nat.lt_or_ge i s1.b.currentRef with hlt | hge
          · rw [hch1 i hlt] at hbi
            have := w1.brs i hlo hlt bi j hbi hbr
            omega
          · rcases Nat.eq_or_lt_of_le hge with heq | hgt
            · subst heq
              rw [f7] at hbi
              injection hbi with hbi
              subst hbi
              simp at hbr
            · rcases Nat.lt_or_ge i s2.b.currentRef with hlt2 | hge2
              · rw [hch2 i hgt hlt2] at hbi
                have := w2.brs i (by omega) hlt2 bi j hbi hbr
                omega
              · rcases Nat.eq_or_lt_of_le hge2 with heq2 | hgt2
                · subst heq2
                  rw [f8] at hbi
                  injection hbi with hbi
                  subst hbi
                  simp only [Option.some.injEq, Terminator.br.injEq] at hbr
                  omega
                · rcases Nat.lt_or_ge i s3.b.currentRef with hlt3 | hge3
                  · rw [hch3 i hgt2 hlt3] at hbi
                    have := w3.brs i (by omega) hlt3 bi j hbi hbr
                    omega
                  · have : i = s3.b.currentRef := by omega
                    subst this
                    rw [f9] at hbi
                    injection hbi with hbi
                    subst hbi
                    simp only [Option.some.injEq, Terminator.br.injEq] at hbr
                    omega
      have hsdl : sd.locals = wl := by rw [hsd]; exact r1.locals
      have hvrd : VarRel sd.b.code.locals wl vars := by
        rw [f4]; exact hvr2.mono ⟨t3, by rw [hnl2]; exact hlo3⟩
      obtain ⟨s4, op4, hfin, w4, hok4, hsim4⟩ := hrest sd s' h hsdl hvrd hinj hwalked.exitOpen
      refine ⟨s4, op4, hfin, hwalked.trans w4, hok4, ?_⟩
      intro C hC hret st sst out sst' hvars hw hnc hval hsp
      have hC' : Covers C sd.b s.b.currentRef := Covers.of_ext w4.toExt hC hwalked.cur_le
      obtain ⟨xc, sC, o1, sJ, hsc, hsbr, hcont⟩ := spec_stmts_if sc cnd A B rest sst out sst' hsp
      have hCv1 : Covers C s1.b s.b.currentRef :=
        Covers.sub hC' hsC (by omega) (by rw [f4, hlo3, hlo2]; simp [List.append_assoc])
          (fun i _ hi => hch1 i hi) ⟨blkC, _, hoC.1, f7, List.prefix_refl _⟩
      have hCv2 : Covers C s2.b (s1.b.currentRef + 1) :=
        Covers.sub (hC'.mono (by omega)) hCA (by omega) (by rw [f4, hlo3]; exact List.prefix_append _ _)
          (fun i h1 h2 => hch2 i (by omega) h2) ⟨blkA, _, hoA.1, f8, List.prefix_refl _⟩
      have hCv3 : Covers C s3.b (s2.b.currentRef + 1) :=
        Covers.sub (hC'.mono (by omega)) hAB (by omega) (by rw [f4]; exact List.prefix_refl _)
          (fun i h1 h2 => hch3 i (by omega) h2) ⟨blkB, _, hoB.1, f9, List.prefix_refl _⟩
      have hCC := hC'.closed _ hsC (by omega : s1.b.currentRef < sd.b.currentRef)
      rw [f7] at hCC
      have hCA' := hC'.closed _ (by omega : s.b.currentRef ≤ s2.b.currentRef) (by omega : s2.b.currentRef < sd.b.currentRef)
      rw [f8] at hCA'
      have hCB' := hC'.closed _ (by omega : s.b.currentRef ≤ s3.b.currentRef) (by omega : s3.b.currentRef < sd.b.currentRef)
      rw [f9] at hCB'
      have hlenF : curLen sd.b = 0 := by simp [curLen, hcF, hexit]
      obtain ⟨hsa, d1, st1, hd1, hrun1, hv1, hp1, hw1', ht1, _⟩ := r1.sim C hCv1 st sst sC (.bool xc) hvars hw hnc hval hsc
      subst hsa
      have hval1 : ValRel wl sC.vars st1.L := hval.mono hvr hp1
      have hkC : curLen s1.b = blkC.statements.length := curLen_of_open hoC
      have hstepC : ∀ fuel, runAt ic C (fuel + 1) s1.b.currentRef (curLen s1.b) st1 =
          runAt ic C fuel (if xc then s1.b.currentRef + 1 else s2.b.currentRef + 1) 0 st1 := by
        intro fuel
        exact runAt_brCond ic C fuel _ _ _ _ _ cop st1 xc hCC (by rw [hkC]; exact Nat.le_refl _) rfl hv1
      have hc4 := w4.cur_le
      cases xc with
      | true =>
        simp only [if_true] at hsbr hstepC
        obtain ⟨⟨w, ho1⟩, hshJ, d2, st2, hd2, hrun2, hval2, hww2, hw2'⟩ :=
          simA C (by show Covers C s2.b s1.b.newBlock.2.currentRef; rw [hcm1]; exact hCv2) st1 sC o1 sJ hvars
            (hw.trans hw1'.symm) (by rw [hw1']; exact hnc) hval1 hsbr
        obtain ⟨out', hrs, hout⟩ := hcont w ho1
        have hlenJ : sJ.vars.length = sC.vars.length := by
          rw [length_of_shape hshJ, length_of_shape hvars]
        rw [leave_same sJ _ hlenJ, leave_same sJ _ hlenJ] at hrs
        have hd2' : d2 ≤ s2.b.currentRef - (s1.b.currentRef + 1) := by
          have : d2 ≤ s2.b.currentRef - s1.b.newBlock.2.currentRef := hd2
          omega
        have hrun2' : ∀ fuel, runAt ic C (fuel + d2) (s1.b.currentRef + 1) 0 st1 =
            runAt ic C fuel s2.b.currentRef (curLen s2.b) st2 := by
          intro fuel
          have := hrun2 fuel
          rw [show ({ s1 with b := s1.b.newBlock.2 } : WState).b = s1.b.newBlock.2 from rfl, hcm1,
            curLen_of_open (newBlock_open hoC)] at this
          exact this
        have hkA : curLen s2.b = blkA.statements.length := curLen_of_open hoA
        have hstepA : ∀ fuel, runAt ic C (fuel + 1) s2.b.currentRef (curLen s2.b) st2 =
            runAt ic C fuel (s3.b.currentRef + 1) 0 st2 := by
          intro fuel
          exact runAt_br ic C fuel _ _ _ _ st2 hCA' (by rw [hkA]; exact Nat.le_refl _) rfl
        obtain ⟨val, hout4, d4, res, hd4, hrun4⟩ := hsim4 C (hC.mono hwalked.cur_le) hret st2 sJ out' sst' hshJ hww2
          (by rw [hw2', hw1']; exact hnc) hval2 hrs
        refine ⟨val, by rw [hout]; exact outVal_afterVal _ _ _ hout4, d1 + 1 + d2 + 1 + d4, res, by omega, ?_⟩
        intro fuel
        have : fuel + (d1 + 1 + d2 + 1 + d4) = (fuel + d4 + 1 + d2 + 1) + d1 := by omega
        rw [this, hrun1, hstepC, hrun2', hstepA]
        have := hrun4 fuel
        rw [hcF, hlenF] at this
        exact this
      | false =>
        simp only [Bool.false_eq_true, if_false] at hsbr hstepC
        obtain ⟨⟨w, ho1⟩, hshJ, d3, st3, hd3, hrun3, hval3, hww3, hw3'⟩ :=
          simB C (by show Covers C s3.b s2.b.newBlock.2.currentRef; rw [hcm2]; exact hCv3) st1 sC o1 sJ hvars
            (hw.trans hw1'.symm) (by rw [hw1']; exact hnc) hval1 hsbr
        obtain ⟨out', hrs, hout⟩ := hcont w ho1
        have hlenJ : sJ.vars.length = sC.vars.length := by
          rw [length_of_shape hshJ, length_of_shape hvars]
        rw [leave_same sJ _ hlenJ, leave_same sJ _ hlenJ] at hrs
        have hd3' : d3 ≤ s3.b.currentRef - (s2.b.currentRef + 1) := by
          have : d3 ≤ s3.b.currentRef - s2.b.newBlock.2.currentRef := hd3
          omega
        have hrun3' : ∀ fuel, runAt ic C (fuel + d3) (s2.b.currentRef + 1) 0 st1 =
            runAt ic C fuel s3.b.currentRef (curLen s3.b) st3 := by
          intro fuel
          have := hrun3 fuel
          rw [show ({ s2 with b := s2.b.newBlock.2, locals := s1.locals } : WState).b = s2.b.newBlock.2 from rfl, hcm2,
            curLen_of_open (newBlock_open hoA)] at this
          exact this
        have hkB : curLen s3.b = blkB.statements.length := curLen_of_open hoB
        have hstepB : ∀ fuel, runAt ic C (fuel + 1) s3.b.currentRef (curLen s3.b) st3 =
            runAt ic C fuel (s3.b.currentRef + 1) 0 st3 := by
          intro fuel
          exact runAt_br ic C fuel _ _ _ _ st3 hCB' (by rw [hkB]; exact Nat.le_refl _) rfl
        obtain ⟨val, hout4, d4, res, hd4, hrun4⟩ := hsim4 C (hC.mono hwalked.cur_le) hret st3 sJ out' sst' hshJ hww3
          (by rw [hw3', hw1']; exact hnc) hval3 hrs
        refine ⟨val, by rw [hout]; exact outVal_afterVal _ _ _ hout4, d1 + 1 + d3 + 1 + d4, res, by omega, ?_⟩
        intro fuel
        have : fuel + (d1 + 1 + d3 + 1 + d4) = (fuel + d4 + 1 + d3 + 1) + d1 := by omega
        rw [this, hrun1, hstepC, hrun3', hstepB]
        have := hrun4 fuel
        rw [hcF, hlenF] at this
        exact this

theorem r_if1 (wc : Ctx) (sc : QV.Spec.Sem.Ctx) (ic : ICtx) (isRet : Bool) (wl : QV.Model.Locals)
    (vars : List QV.Spec.Sem.Var) (cnd : Expr) (A rest : List Stmt)
    (hc : WalkOk wc sc ic wl vars cnd) (hA : BodyOk wc sc ic wl vars A) (hrest : ROk wc sc ic isRet wl vars rest) :
    ROk wc sc ic isRet wl vars (.if_ cnd (.block A) none :: rest) := by
  intro s s' h hl hvr hinj ho
  rw [run_stmts_cons] at h
  cases hd : (walkStmt wc none (.if_ cnd (.block A) none)).run s with
  | mk r sd =>
    rw [hd] at h
    cases r with
    | none =>
      simp only at h
      cases hq : (walkStmts wc none rest).run sd with
      | mk q sq =>
        rw [hq] at h
        cases q <;> (simp only at h; injection h with h _; cases h)
    | some u =>
      cases u
      simp only at h
      obtain ⟨cop, s1, s2, hw1, hwa, htc, hsd⟩ := run_if_none wc cnd (.block A) s sd hd
      have r1 := hc s s1 cop hw1 hl hvr ho
      obtain ⟨blkC, hoC⟩ := r1.walked.exitOpen
      have w1 : Walked s.b s1.b := r1.walked
      have hvr1 : VarRel s1.b.newBlock.2.code.locals wl vars := hvr.mono w1.locals
      obtain ⟨hl2, w2, simA⟩ := branch_ok wc sc ic wl vars A hA { s1 with b := s1.b.newBlock.2 } s2 hwa r1.locals hvr1 hinj
        ⟨{}, newBlock_open hoC⟩
      have w2 : Walked s1.b.newBlock.2 s2.b := w2
      obtain ⟨blkA, hoA⟩ := w2.exitOpen
      have hcm1 : s1.b.newBlock.2.currentRef = s1.b.currentRef + 1 := newBlock_cur hoC
      have hCA : s1.b.currentRef + 1 ≤ s2.b.currentRef := by have := w2.cur_le; omega
      have hsC : s.b.currentRef ≤ s1.b.currentRef := w1.cur_le
      have hlenC := open_len hoC
      have hlenA := open_len hoA
      have hC2 : s2.b.code.blocks[s1.b.currentRef]? = some blkC := by
        rw [w2.below _ (by omega), newBlock_get _ _ (by omega)]; exact hoC.1
      have hCm : s2.b.newBlock.2.code.blocks[s1.b.currentRef]? = some blkC := by
        rw [newBlock_get _ _ (by omega)]; exact hC2
      have hAm : s2.b.newBlock.2.code.blocks[s2.b.currentRef]? = some blkA := by
        rw [newBlock_get _ _ (by omega)]; exact hoA.1
      obtain ⟨f2, f3, f4, f5, f6, f7, f8⟩ := visitIf1_facts s2.b.newBlock.2 cop _ _ blkC blkA
        hCm hoC.2 hAm hoA.2 (by omega)
      have hsdb : sd.b = visitIfStatement s2.b.newBlock.2 cop s1.b.currentRef s2.b.currentRef none := by rw [hsd]
      rw [← hsdb] at f2 f3 f4 f5 f6 f7 f8
      have hnl : s2.b.newBlock.2.code.locals = s2.b.code.locals := rfl
      have hnlen : s2.b.newBlock.2.code.blocks.length = s2.b.code.blocks.length + 1 := by simp [Builder.newBlock]
      rw [hnl] at f4
      have hcF : sd.b.currentRef = s2.b.currentRef + 1 := by
        simp only [Builder.currentRef] at hlenA ⊢
        omega
      have hch1 : ∀ i, i < s1.b.currentRef → sd.b.code.blocks[i]? = s1.b.code.blocks[i]? := by
        intro i hi
        rw [f6 i (by omega) (by omega), newBlock_get _ _ (by omega), w2.below i (by omega), newBlock_get _ _ (by omega)]
      have hch2 : ∀ i, s1.b.currentRef < i → i < s2.b.currentRef → sd.b.code.blocks[i]? = s2.b.code.blocks[i]? := by
        intro i h1 h2
        rw [f6 i (by omega) (by omega), newBlock_get _ _ (by omega)]
      have hexit : sd.b.code.blocks[s2.b.currentRef + 1]? = some {} := by
        rw [f6 _ (by omega) (by omega), hlenA]; exact newBlock_last s2.b
      obtain ⟨t2, hlo2⟩ := w2.locals
      have hnl1 : s1.b.newBlock.2.code.locals = s1.b.code.locals := rfl
      rw [hnl1] at hlo2
      have hextF : Ext s1.b sd.b := by
        refine ⟨f2.trans w2.panic, ⟨t2, by rw [f4, hlo2]⟩, f3.trans w2.params, by omega, hch1,
          blkC, _, hoC.1, hoC.2, f7, [], by simp⟩
      have hwalked : Walked s.b sd.b := by
        refine ⟨w1.toExt.trans hextF, ?_, ⟨{}, by rw [OpenAt, hcF]; exact ⟨hexit, rfl⟩⟩, ?_⟩
        · intro i hlo hhi
          rcases Nat.lt_or_ge i s1.b.currentRef with hlt | hge
          · obtain ⟨bi, hbi, hti⟩ := w1.closed i hlo hlt
            exact ⟨bi, by rw [hch1 i hlt]; exact hbi, hti⟩
          · rcases Nat.eq_or_lt_of_le hge with heq | hgt
            · subst heq; exact ⟨_, f7, rfl⟩
            · rcases Nat.lt_or_ge i s2.b.currentRef with hlt2 | hge2
              · obtain ⟨bi, hbi, hti⟩ := w2.closed i (by omega) hlt2
                exact ⟨bi, by rw [hch2 i hgt hlt2]; exact hbi, hti⟩
              · have : i = s2.b.currentRef := by omega
                subst this; exact ⟨_, f8, rfl⟩
        · intro i hlo hhi bi j hbi hbr
          rcases Nat.lt_or_ge i s1.b.currentRef with hlt | hge
          · rw [hch1 i hlt] at hbi
            have := w1.brs i hlo hlt bi j hbi hbr
            omega
          · rcases Nat.eq_or_lt_of_le hge with heq | hgt
            · subst heq
              rw [f7] at hbi
              injection hbi with hbi
              subst hbi
              simp at hbr
            · rcases Nat.lt_or_ge i s2.b.currentRef with hlt2 | hge2
              · rw [hch2 i hgt hlt2] at hbi
                have := w2.brs i (by omega) hlt2 bi j hbi hbr
                omega
              · have : i = s2.b.currentRef := by omega
                subst this
                rw [f8] at hbi
                injection hbi with hbi
                subst hbi
                simp only [Option.some.injEq, Terminator.br.injEq] at hbr
                omega
      have hsdl : sd.locals = wl := by rw [hsd]; exact r1.locals
      have hvrd : VarRel sd.b.code.locals wl vars := by
        rw [f4]; exact hvr1.mono ⟨t2, by rw [hnl1]; exact hlo2⟩
      obtain ⟨s4, op4, hfin, w4, hok4, hsim4⟩ := hrest sd s' h hsdl hvrd hinj hwalked.exitOpen
      refine ⟨s4, op4, hfin, hwalked.trans w4, hok4, ?_⟩
      intro C hC hret st sst out sst' hvars hw hnc hval hsp
      have hC' : Covers C sd.b s.b.currentRef := Covers.of_ext w4.toExt hC hwalked.cur_le
      obtain ⟨xc, sC, hsc, hcase⟩ := spec_stmts_if1 sc cnd A rest sst out sst' hsp
      have hCv1 : Covers C s1.b s.b.currentRef :=
        Covers.sub hC' hsC (by omega) (by rw [f4, hlo2]; exact List.prefix_append _ _)
          (fun i _ hi => hch1 i hi) ⟨blkC, _, hoC.1, f7, List.prefix_refl _⟩
      have hCv2 : Covers C s2.b (s1.b.currentRef + 1) :=
        Covers.sub (hC'.mono (by omega)) hCA (by omega) (by rw [f4]; exact List.prefix_refl _)
          (fun i h1 h2 => hch2 i (by omega) h2) ⟨blkA, _, hoA.1, f8, List.prefix_refl _⟩
      have hCC := hC'.closed _ hsC (by omega : s1.b.currentRef < sd.b.currentRef)
      rw [f7] at hCC
      have hCA' := hC'.closed _ (by omega : s.b.currentRef ≤ s2.b.currentRef) (by omega : s2.b.currentRef < sd.b.currentRef)
      rw [f8] at hCA'
      have hlenF : curLen sd.b = 0 := by simp [curLen, hcF, hexit]
      obtain ⟨hsa, d1, st1, hd1, hrun1, hv1, hp1, hw1', ht1, _⟩ := r1.sim C hCv1 st sst sC (.bool xc) hvars hw hnc hval hsc
      subst hsa
      have hval1 : ValRel wl sC.vars st1.L := hval.mono hvr hp1
      have hkC : curLen s1.b = blkC.statements.length := curLen_of_open hoC
      have hstepC : ∀ fuel, runAt ic C (fuel + 1) s1.b.currentRef (curLen s1.b) st1 =
          runAt ic C fuel (if xc then s1.b.currentRef + 1 else s2.b.currentRef + 1) 0 st1 := by
        intro fuel
        exact runAt_brCond ic C fuel _ _ _ _ _ cop st1 xc hCC (by rw [hkC]; exact Nat.le_refl _) rfl hv1
      have hc4 := w4.cur_le
      rcases hcase with ⟨hxc, o1, sJ, hsbr, hcont⟩ | ⟨hxc, out', hrs, hout⟩
      · subst hxc
        simp only [if_true] at hstepC
        obtain ⟨⟨w, ho1⟩, hshJ, d2, st2, hd2, hrun2, hval2, hww2, hw2'⟩ :=
          simA C (by show Covers C s2.b s1.b.newBlock.2.currentRef; rw [hcm1]; exact hCv2) st1 sC o1 sJ hvars
            (hw.trans hw1'.symm) (by rw [hw1']; exact hnc) hval1 hsbr
        obtain ⟨out', hrs, hout⟩ := hcont w ho1
        have hlenJ : sJ.vars.length = sC.vars.length := by
          rw [length_of_shape hshJ, length_of_shape hvars]
        rw [leave_same sJ _ hlenJ, leave_same sJ _ hlenJ] at hrs
        have hd2' : d2 ≤ s2.b.currentRef - (s1.b.currentRef + 1) := by
          have : d2 ≤ s2.b.currentRef - s1.b.newBlock.2.currentRef := hd2
          omega
        have hrun2' : ∀ fuel, runAt ic C (fuel + d2) (s1.b.currentRef + 1) 0 st1 =
            runAt ic C fuel s2.b.currentRef (curLen s2.b) st2 := by
          intro fuel
          have := hrun2 fuel
          rw [show ({ s1 with b := s1.b.newBlock.2 } : WState).b = s1.b.newBlock.2 from rfl, hcm1,
            curLen_of_open (newBlock_open hoC)] at this
          exact this
        have hkA : curLen s2.b = blkA.statements.length := curLen_of_open hoA
        have hstepA : ∀ fuel, runAt ic C (fuel + 1) s2.b.currentRef (curLen s2.b) st2 =
            runAt ic C fuel (s2.b.currentRef + 1) 0 st2 := by
          intro fuel
          exact runAt_br ic C fuel _ _ _ _ st2 hCA' (by rw [hkA]; exact Nat.le_refl _) rfl
        obtain ⟨val, hout4, d4, res, hd4, hrun4⟩ := hsim4 C (hC.mono hwalked.cur_le) hret st2 sJ out' sst' hshJ hww2
          (by rw [hw2', hw1']; exact hnc) hval2 hrs
        refine ⟨val, by rw [hout]; exact outVal_afterVal _ _ _ hout4, d1 + 1 + d2 + 1 + d4, res, by omega, ?_⟩
        intro fuel
        have : fuel + (d1 + 1 + d2 + 1 + d4) = (fuel + d4 + 1 + d2 + 1) + d1 := by omega
        rw [this, hrun1, hstepC, hrun2', hstepA]
        have := hrun4 fuel
        rw [hcF, hlenF] at this
        exact this
      · subst hxc
        simp only [Bool.false_eq_true, if_false] at hstepC
        obtain ⟨val, hout4, d4, res, hd4, hrun4⟩ := hsim4 C (hC.mono hwalked.cur_le) hret st1 sC out' sst' hvars
          (hw.trans hw1'.symm) (by rw [hw1']; exact hnc) hval1 hrs
        refine ⟨val, by rw [hout]; exact outVal_afterVal _ _ _ hout4, d1 + 1 + d4, res, by omega, ?_⟩
        intro fuel
        have : fuel + (d1 + 1 + d4) = (fuel + d4 + 1) + d1 := by omega
        rw [this, hrun1, hstepC]
        have := hrun4 fuel
        rw [hcF, hlenF] at this
        exact this

theorem spec_stmts_if_ret (c : QV.Spec.Sem.Ctx) (cnd : Expr) (A B rest : List Stmt)
    (s : QV.Spec.Sem.St) (out : QV.Spec.Sem.Outcome) (s' : QV.Spec.Sem.St)
    (h : QV.Spec.Sem.execStmts c (.if_ cnd (.block A) (some (.block B)) :: rest) s = some (out, s')) :
    ∃ xc sC o1 s1', QV.Spec.Sem.evalExpr c cnd s = some (.bool xc, sC) ∧
      QV.Spec.Sem.execStmts c (if xc then A else B) sC = some (o1, s1') ∧
      (∀ w, o1 = .normal w → ∃ out', QV.Spec.Sem.execStmts c rest ((s1'.leave sC.vars.length).leave sC.vars.length) =
        some (out', s') ∧ out = afterVal (w.getD .void) out') ∧
      (∀ v, o1 = .ret v → out = .ret v) := by
  obtain ⟨xc, sC, o1, s1', he, hx1, hcont⟩ := spec_stmts_if c cnd A B rest s out s' h
  refine ⟨xc, sC, o1, s1', he, hx1, hcont, ?_⟩
  intro v hv
  subst hv
  rw [QV.Spec.Sem.execStmts.eq_def] at h
  simp only at h
  rw [QV.Spec.Sem.execStmt.eq_def] at h
  cases xc with
  | true =>
    simp only [he] at h
    rw [QV.Spec.Sem.execStmt.eq_def] at h
    simp only [if_true] at hx1
    simp only [hx1, Option.map_some, Option.some.injEq, Prod.mk.injEq] at h
    exact h.1.symm
  | false =>
    simp only [he] at h
    rw [QV.Spec.Sem.execStmt.eq_def] at h
    simp only [Bool.false_eq_true, if_false] at hx1
    simp only [hx1, Option.map_some, Option.some.injEq, Prod.mk.injEq] at h
    exact h.1.symm

/-- `if (c) { T } else { B }; rest` with a returning consequence -/
theorem r_if_ret_else (wc : Ctx) (sc : QV.Spec.Sem.Ctx) (ic : ICtx) (isRet : Bool) (wl : QV.Model.Locals)
    (vars : List QV.Spec.Sem.Var) (cnd : Expr) (A B rest : List Stmt)
    (hc : WalkOk wc sc ic wl vars cnd) (hA : SOk wc sc ic true wl vars A) (hB : BodyOk wc sc ic wl vars B)
    (hrest : ROk wc sc ic isRet wl vars rest) :
    ROk wc sc ic isRet wl vars (.if_ cnd (.block A) (some (.block B)) :: rest) := by
  intro s s' h hl hvr hinj ho
  rw [run_stmts_cons] at h
  cases hd : (walkStmt wc none (.if_ cnd (.block A) (some (.block B)))).run s with
  | mk r sd =>
    rw [hd] at h
    cases r with
    | none =>
      simp only at h
      cases hq : (walkStmts wc none rest).run sd with
      | mk q sq =>
        rw [hq] at h
        cases q <;> (simp only at h; injection h with h _; cases h)
    | some u =>
      cases u
      simp only at h
      obtain ⟨cop, s1, s2, s3, hw1, hwa, hwb, htc, hsd⟩ := run_if_else wc cnd (.block A) (.block B) s sd hd
      have r1 := hc s s1 cop hw1 hl hvr ho
      obtain ⟨blkC, hoC⟩ := r1.walked.exitOpen
      have w1 : Walked s.b s1.b := r1.walked
      have hvr1 : VarRel s1.b.newBlock.2.code.locals wl vars := hvr.mono w1.locals
      rw [run_block] at hwa
      generalize hrRA : (walkStmts wc none A).run { s1 with b := s1.b.newBlock.2 } = pRA at hwa
      obtain ⟨rrA, sRA⟩ := pRA
      have hrrA : rrA = some true ∧ s2 = { sRA with locals := s1.locals } := by
        cases rrA with
        | none => simp only at hwa; injection hwa with hwa _; cases hwa
        | some ok =>
          cases ok with
          | false => simp only at hwa; injection hwa with hwa _; cases hwa
          | true => simp only at hwa; injection hwa with _ hs; exact ⟨rfl, hs.symm⟩
      obtain ⟨hrrA1, hs2⟩ := hrrA
      subst hrrA1
      obtain ⟨srA, opA, hfinA, wRA, hokA, simRA⟩ := hA _ sRA hrRA r1.locals hvr1 hinj ⟨{}, newBlock_open hoC⟩
      have wRA : Walked s1.b.newBlock.2 srA.b := wRA
      obtain ⟨blkRA, hoRA⟩ := wRA.exitOpen
      obtain ⟨wvrA, hcurRA, hgetRA, hlocRA, hopenRA⟩ := walked_visitReturn srA.b blkRA opA hoRA
      have hs2b : s2.b = visitReturnStatement srA.b opA := by rw [hs2]; simpa [finish] using hfinA
      rw [← hs2b] at wvrA hcurRA hgetRA hlocRA hopenRA
      have w2 : Walked s1.b.newBlock.2 s2.b := wRA.trans wvrA
      have hl2 : s2.locals = wl := by rw [hs2]; exact r1.locals
      obtain ⟨blkA, hoA⟩ := w2.exitOpen
      have hvr2 : VarRel s2.b.newBlock.2.code.locals wl vars := hvr1.mono w2.locals
      obtain ⟨hl3, w3, simB⟩ := branch_ok wc sc ic wl vars B hB { s2 with b := s2.b.newBlock.2, locals := s1.locals } s3 hwb
        r1.locals hvr2 hinj ⟨{}, newBlock_open hoA⟩
      have w3 : Walked s2.b.newBlock.2 s3.b := w3
      obtain ⟨blkB, hoB⟩ := w3.exitOpen
      have hcm1 : s1.b.newBlock.2.currentRef = s1.b.currentRef + 1 := newBlock_cur hoC
      have hcm2 : s2.b.newBlock.2.currentRef = s2.b.currentRef + 1 := newBlock_cur hoA
      have hCA : s1.b.currentRef + 1 ≤ s2.b.currentRef := by have := w2.cur_le; omega
      have hAB : s2.b.currentRef + 1 ≤ s3.b.currentRef := by have := w3.cur_le; omega
      have hsC : s.b.currentRef ≤ s1.b.currentRef := w1.cur_le
      have hlenC := open_len hoC
      have hlenA := open_len hoA
      have hlenB := open_len hoB
      have hC2 : s2.b.code.blocks[s1.b.currentRef]? = some blkC := by
        rw [w2.below _ (by omega), newBlock_get _ _ (by omega)]; exact hoC.1
      have hC3 : s3.b.code.blocks[s1.b.currentRef]? = some blkC := by
        rw [w3.below _ (by omega), newBlock_get _ _ (by omega)]; exact hC2
      have hA3 : s3.b.code.blocks[s2.b.currentRef]? = some blkA := by
        rw [w3.below _ (by omega), newBlock_get _ _ (by omega)]; exact hoA.1
      have hCm : s3.b.newBlock.2.code.blocks[s1.b.currentRef]? = some blkC := by
        rw [newBlock_get _ _ (by omega)]; exact hC3
      have hAm : s3.b.newBlock.2.code.blocks[s2.b.currentRef]? = some blkA := by
        rw [newBlock_get _ _ (by omega)]; exact hA3
      have hBm : s3.b.newBlock.2.code.blocks[s3.b.currentRef]? = some blkB := by
        rw [newBlock_get _ _ (by omega)]; exact hoB.1
      obtain ⟨f2, f3, f4, f5, f6, f7, f8, f9⟩ := visitIf_facts s3.b.newBlock.2 cop _ _ _ blkC blkA blkB
        hCm hoC.2 hAm hoA.2 hBm hoB.2 (by omega) (by omega) (by omega)
      have hsdb : sd.b = visitIfStatement s3.b.newBlock.2 cop s1.b.currentRef s2.b.currentRef (some s3.b.currentRef) := by
        rw [hsd]
      rw [← hsdb] at f2 f3 f4 f5 f6 f7 f8 f9
      have hnl : s3.b.newBlock.2.code.locals = s3.b.code.locals := rfl
      have hnlen : s3.b.newBlock.2.code.blocks.length = s3.b.code.blocks.length + 1 := by simp [Builder.newBlock]
      rw [hnl] at f4
      have hcF : sd.b.currentRef = s3.b.currentRef + 1 := by
        simp only [Builder.currentRef] at hlenB ⊢
        omega
      have hch1 : ∀ i, i < s1.b.currentRef → sd.b.code.blocks[i]? = s1.b.code.blocks[i]? := by
        intro i hi
        rw [f6 i (by omega) (by omega) (by omega), newBlock_get _ _ (by omega), w3.below i (by omega),
          newBlock_get _ _ (by omega), w2.below i (by omega), newBlock_get _ _ (by omega)]
      have hch2 : ∀ i, s1.b.currentRef < i → i < s2.b.currentRef → sd.b.code.blocks[i]? = s2.b.code.blocks[i]? := by
        intro i h1 h2
        rw [f6 i (by omega) (by omega) (by omega), newBlock_get _ _ (by omega), w3.below i (by omega),
          newBlock_get _ _ (by omega)]
      have hch3 : ∀ i, s2.b.currentRef < i → i < s3.b.currentRef → sd.b.code.blocks[i]? = s3.b.code.blocks[i]? := by
        intro i h1 h2
        rw [f6 i (by omega) (by omega) (by omega), newBlock_get _ _ (by omega)]
      have hexit : sd.b.code.blocks[s3.b.currentRef + 1]? = some {} := by
        rw [f6 _ (by omega) (by omega) (by omega), hlenB]; exact newBlock_last s3.b
      obtain ⟨t2, hlo2⟩ := w2.locals
      obtain ⟨t3, hlo3⟩ := w3.locals
      have hnl1 : s1.b.newBlock.2.code.locals = s1.b.code.locals := rfl
      have hnl2 : s2.b.newBlock.2.code.locals = s2.b.code.locals := rfl
      rw [hnl1] at hlo2
      rw [hnl2] at hlo3
      have hextF : Ext s1.b sd.b := by
        refine ⟨f2.trans (w3.panic.trans w2.panic), ⟨t2 ++ t3, by rw [f4, hlo3, hlo2]; simp⟩,
          f3.trans (w3.params.trans w2.params), by omega, hch1, blkC, _, hoC.1, hoC.2, f7, [], by simp⟩
      have hwalked : Walked s.b sd.b := by
        refine ⟨w1.toExt.trans hextF, ?_, ⟨{}, by rw [OpenAt, hcF]; exact ⟨hexit, rfl⟩⟩, ?_⟩
        · intro i hlo hhi
          rcases Nat.lt_or_ge i s1.b.currentRef with hlt | hge
          · obtain ⟨bi, hbi, hti⟩ := w1.closed i hlo hlt
            exact ⟨bi, by rw [hch1 i hlt]; exact hbi, hti⟩
          · rcases Nat.eq_or_lt_of_le hge with heq | hgt
            · subst heq; exact ⟨_, f7, rfl⟩
            · rcases Nat.lt_or_ge i s2.b.currentRef with hlt2 | hge2
              · obtain ⟨bi, hbi, hti⟩ := w2.closed i (by omega) hlt2
                exact ⟨bi, by rw [hch2 i hgt hlt2]; exact hbi, hti⟩
              · rcases Nat.eq_or_lt_of_le hge2 with heq2 | hgt2
                · subst heq2; exact ⟨_, f8, rfl⟩
                · rcases Nat.lt_or_ge i s3.b.currentRef with hlt3 | hge3
                  · obtain ⟨bi, hbi, hti⟩ := w3.closed i (by omega) hlt3
                    exact ⟨bi, by rw [hch3 i hgt2 hlt3]; exact hbi, hti⟩
                  · have : i = s3.b.currentRef := by omega
                    subst this; exact ⟨_, f9, rfl⟩
        · intro i hlo hhi bi j hbi hbr
          rcases Nat.lt_or_ge i s1.b.currentRef with hlt | hge
          · rw [hch1 i hlt] at hbi
            have := w1.brs i hlo hlt bi j hbi hbr
            omega
          · rcases Nat.eq_or_lt_of_le hge with heq | hgt
            · subst heq
              rw [f7] at hbi
              injection hbi with hbi
              subst hbi
              simp at hbr
            · rcases Nat.lt_or_ge i s2.b.currentRef with hlt2 | hge2
              · rw [hch2 i hgt hlt2] at hbi
                have := w2.brs i (by omega) hlt2 bi j hbi hbr
                omega
              · rcases Nat.eq_or_lt_of_le hge2 with heq2 | hgt2
                · subst heq2
                  rw [f8] at hbi
                  injection hbi with hbi
                  subst hbi
                  simp only [Option.some.injEq, Terminator.br.injEq] at hbr
                  omega
                · rcases Nat.lt_or_ge i s3.b.currentRef with hlt3 | hge3
                  · rw [hch3 i hgt2 hlt3] at hbi
                    have := w3.brs i (by omega) hlt3 bi j hbi hbr
                    omega
                  · have : i = s3.b.currentRef := by omega
                    subst this
                    rw [f9] at hbi
                    injection hbi with hbi
                    subst hbi
                    simp only [Option.some.injEq, Terminator.br.injEq] at hbr
                    omega
      have hsdl : sd.locals = wl := by rw [hsd]; exact r1.locals
      have hvrd : VarRel sd.b.code.locals wl vars := by
        rw [f4]; exact hvr2.mono ⟨t3, by rw [hnl2]; exact hlo3⟩
      obtain ⟨s4, op4, hfin, w4, hok4, hsim4⟩ := hrest sd s' h hsdl hvrd hinj hwalked.exitOpen
      refine ⟨s4, op4, hfin, hwalked.trans w4, hok4, ?_⟩
      intro C hC hret st sst out sst' hvars hw hnc hval hsp
      have hC' : Covers C sd.b s.b.currentRef := Covers.of_ext w4.toExt hC hwalked.cur_le
      obtain ⟨xc, sC, o1, sJ, hsc, hsbr, hcont, hretv⟩ := spec_stmts_if_ret sc cnd A B rest sst out sst' hsp
      have hCv1 : Covers C s1.b s.b.currentRef :=
        Covers.sub hC' hsC (by omega) (by rw [f4, hlo3, hlo2]; simp [List.append_assoc])
          (fun i _ hi => hch1 i hi) ⟨blkC, _, hoC.1, f7, List.prefix_refl _⟩
      have hCv2 : Covers C s2.b (s1.b.currentRef + 1) :=
        Covers.sub (hC'.mono (by omega)) hCA (by omega) (by rw [f4, hlo3]; exact List.prefix_append _ _)
          (fun i h1 h2 => hch2 i (by omega) h2) ⟨blkA, _, hoA.1, f8, List.prefix_refl _⟩
      have hCv3 : Covers C s3.b (s2.b.currentRef + 1) :=
        Covers.sub (hC'.mono (by omega)) hAB (by omega) (by rw [f4]; exact List.prefix_refl _)
          (fun i h1 h2 => hch3 i (by omega) h2) ⟨blkB, _, hoB.1, f9, List.prefix_refl _⟩
      have hCC := hC'.closed _ hsC (by omega : s1.b.currentRef < sd.b.currentRef)
      rw [f7] at hCC
      have hCA' := hC'.closed _ (by omega : s.b.currentRef ≤ s2.b.currentRef) (by omega : s2.b.currentRef < sd.b.currentRef)
      rw [f8] at hCA'
      have hCB' := hC'.closed _ (by omega : s.b.currentRef ≤ s3.b.currentRef) (by omega : s3.b.currentRef < sd.b.currentRef)
      rw [f9] at hCB'
      have hlenF : curLen sd.b = 0 := by simp [curLen, hcF, hexit]
      obtain ⟨hsa, d1, st1, hd1, hrun1, hv1, hp1, hw1', ht1, _⟩ := r1.sim C hCv1 st sst sC (.bool xc) hvars hw hnc hval hsc
      subst hsa
      have hval1 : ValRel wl sC.vars st1.L := hval.mono hvr hp1
      have hkC : curLen s1.b = blkC.statements.length := curLen_of_open hoC
      have hstepC : ∀ fuel, runAt ic C (fuel + 1) s1.b.currentRef (curLen s1.b) st1 =
          runAt ic C fuel (if xc then s1.b.currentRef + 1 else s2.b.currentRef + 1) 0 st1 := by
        intro fuel
        exact runAt_brCond ic C fuel _ _ _ _ _ cop st1 xc hCC (by rw [hkC]; exact Nat.le_refl _) rfl hv1
      have hc4 := w4.cur_le
      cases xc with
      | true =>
        simp only [if_true] at hsbr hstepC
        have hcRA := wRA.cur_le
        have hCvRA : Covers C srA.b (s1.b.currentRef + 1) := Covers.of_ext wvrA.toExt hCv2 (by omega)
        obtain ⟨v, ho1, d2, st2, hd2, hrun2, hv2⟩ :=
          simRA C (by show Covers C srA.b s1.b.newBlock.2.currentRef; rw [hcm1]; exact hCvRA) st1 sC o1 sJ hvars
            (hw.trans hw1'.symm) (by rw [hw1']; exact hnc) hval1 hsbr
        have hout : out = .ret v := hretv v (by rw [ho1]; rfl)
        have hd2' : d2 ≤ srA.b.currentRef - (s1.b.currentRef + 1) := by
          have : d2 ≤ srA.b.currentRef - s1.b.newBlock.2.currentRef := hd2
          omega
        have hrun2' : ∀ fuel, runAt ic C (fuel + d2) (s1.b.currentRef + 1) 0 st1 =
            runAt ic C fuel srA.b.currentRef (curLen srA.b) st2 := by
          intro fuel
          have := hrun2 fuel
          rw [show ({ s1 with b := s1.b.newBlock.2 } : WState).b = s1.b.newBlock.2 from rfl, hcm1,
            curLen_of_open (newBlock_open hoC)] at this
          exact this
        have hCR : C.blocks[srA.b.currentRef]? = some { blkRA with terminator := some (.ret (ensureConcreteString opA)) } := by
          rw [hC'.closed _ (by omega) (by omega), hch2 _ (by omega) (by omega)]
          exact hgetRA
        refine ⟨v, by rw [hout]; rfl, d1 + 1 + d2, st2, by omega, ?_⟩
        intro fuel
        have : fuel + (d1 + 1 + d2) = (fuel + d2 + 1) + d1 := by omega
        rw [this, hrun1, hstepC, hrun2', runAt_ret ic C _ _ _ _ (ensureConcreteString opA) st2 hCR
          (by simp [curLen_of_open hoRA]) rfl, evalOperand_ensure, hv2]
        rfl
      | false =>
        simp only [Bool.false_eq_true, if_false] at hsbr hstepC
        obtain ⟨⟨w, ho1⟩, hshJ, d3, st3, hd3, hrun3, hval3, hww3, hw3'⟩ :=
          simB C (by show Covers C s3.b s2.b.newBlock.2.currentRef; rw [hcm2]; exact hCv3) st1 sC o1 sJ hvars
            (hw.trans hw1'.symm) (by rw [hw1']; exact hnc) hval1 hsbr
        obtain ⟨out', hrs, hout⟩ := hcont w ho1
        have hlenJ : sJ.vars.length = sC.vars.length := by
          rw [length_of_shape hshJ, length_of_shape hvars]
        rw [leave_same sJ _ hlenJ, leave_same sJ _ hlenJ] at hrs
        have hd3' : d3 ≤ s3.b.currentRef - (s2.b.currentRef + 1) := by
          have : d3 ≤ s3.b.currentRef - s2.b.newBlock.2.currentRef := hd3
          omega
        have hrun3' : ∀ fuel, runAt ic C (fuel + d3) (s2.b.currentRef + 1) 0 st1 =
            runAt ic C fuel s3.b.currentRef (curLen s3.b) st3 := by
          intro fuel
          have := hrun3 fuel
          rw [show ({ s2 with b := s2.b.newBlock.2, locals := s1.locals } : WState).b = s2.b.newBlock.2 from rfl, hcm2,
            curLen_of_open (newBlock_open hoA)] at this
          exact this
        have hkB : curLen s3.b = blkB.statements.length := curLen_of_open hoB
        have hstepB : ∀ fuel, runAt ic C (fuel + 1) s3.b.currentRef (curLen s3.b) st3 =
            runAt ic C fuel (s3.b.currentRef + 1) 0 st3 := by
          intro fuel
          exact runAt_br ic C fuel _ _ _ _ st3 hCB' (by rw [hkB]; exact Nat.le_refl _) rfl
        obtain ⟨val, hout4, d4, res, hd4, hrun4⟩ := hsim4 C (hC.mono hwalked.cur_le) hret st3 sJ out' sst' hshJ hww3
          (by rw [hw3', hw1']; exact hnc) hval3 hrs
        refine ⟨val, by rw [hout]; exact outVal_afterVal _ _ _ hout4, d1 + 1 + d3 + 1 + d4, res, by omega, ?_⟩
        intro fuel
        have : fuel + (d1 + 1 + d3 + 1 + d4) = (fuel + d4 + 1 + d3 + 1) + d1 := by omega
        rw [this, hrun1, hstepC, hrun3', hstepB]
        have := hrun4 fuel
        rw [hcF, hlenF] at this
        exact this

/-- `if (c) { A } else { T }; rest` with a returning alternative -/
theorem r_if_else_ret (wc : Ctx) (sc : QV.Spec.Sem.Ctx) (ic : ICtx) (isRet : Bool) (wl : QV.Model.Locals)
    (vars : List QV.Spec.Sem.Var) (cnd : Expr) (A B rest : List Stmt)
    (hc : WalkOk wc sc ic wl vars cnd) (hA : BodyOk wc sc ic wl vars A) (hB : SOk wc sc ic true wl vars B)
    (hrest : ROk wc sc ic isRet wl vars rest) :
    ROk wc sc ic isRet wl vars (.if_ cnd (.block A) (some (.block B)) :: rest) := by
  intro s s' h hl hvr hinj ho
  rw [run_stmts_cons] at h
  cases hd : (walkStmt wc none (.if_ cnd (.block A) (some (.block B)))).run s with
  | mk r sd =>
    rw [hd] at h
    cases r with
    | none =>
      simp only at h
      cases hq : (walkStmts wc none rest).run sd with
      | mk q sq =>
        rw [hq] at h
        cases q <;> (simp only at h; injection h with h _; cases h)
    | some u =>
      cases u
      simp only at h
      obtain ⟨cop, s1, s2, s3, hw1, hwa, hwb, htc, hsd⟩ := run_if_else wc cnd (.block A) (.block B) s sd hd
      have r1 := hc s s1 cop hw1 hl hvr ho
      obtain ⟨blkC, hoC⟩ := r1.walked.exitOpen
      have w1 : Walked s.b s1.b := r1.walked
      have hvr1 : VarRel s1.b.newBlock.2.code.locals wl vars := hvr.mono w1.locals
      obtain ⟨hl2, w2, simA⟩ := branch_ok wc sc ic wl vars A hA { s1 with b := s1.b.newBlock.2 } s2 hwa r1.locals hvr1 hinj
        ⟨{}, newBlock_open hoC⟩
      have w2 : Walked s1.b.newBlock.2 s2.b := w2
      obtain ⟨blkA, hoA⟩ := w2.exitOpen
      have hvr2 : VarRel s2.b.newBlock.2.code.locals wl vars := hvr1.mono w2.locals
      rw [run_block] at hwb
      generalize hrRB : (walkStmts wc none B).run { s2 with b := s2.b.newBlock.2, locals := s1.locals } = pRB at hwb
      obtain ⟨rrB, sRB⟩ := pRB
      have hrrB : rrB = some true ∧ s3 = { sRB with locals := s1.locals } := by
        cases rrB with
        | none => simp only at hwb; injection hwb with hwb _; cases hwb
        | some ok =>
          cases ok with
          | false => simp only at hwb; injection hwb with hwb _; cases hwb
          | true => simp only at hwb; injection hwb with _ hs; exact ⟨rfl, hs.symm⟩
      obtain ⟨hrrB1, hs3⟩ := hrrB
      subst hrrB1
      obtain ⟨srB, opB, hfinB, wRB, hokB, simRB⟩ := hB _ sRB hrRB r1.locals hvr2 hinj ⟨{}, newBlock_open hoA⟩
      have wRB : Walked s2.b.newBlock.2 srB.b := wRB
      obtain ⟨blkRB, hoRB⟩ := wRB.exitOpen
      obtain ⟨wvrB, hcurRB, hgetRB, hlocRB, hopenRB⟩ := walked_visitReturn srB.b blkRB opB hoRB
      have hs3b : s3.b = visitReturnStatement srB.b opB := by rw [hs3]; simpa [finish] using hfinB
      rw [← hs3b] at wvrB hcurRB hgetRB hlocRB hopenRB
      have w3 : Walked s2.b.newBlock.2 s3.b := wRB.trans wvrB
      obtain ⟨blkB, hoB⟩ := w3.exitOpen
      have hcm1 : s1.b.newBlock.2.currentRef = s1.b.currentRef + 1 := newBlock_cur hoC
      have hcm2 : s2.b.newBlock.2.currentRef = s2.b.currentRef + 1 := newBlock_cur hoA
      have hCA : s1.b.currentRef + 1 ≤ s2.b.currentRef := by have := w2.cur_le; omega
      have hAB : s2.b.currentRef + 1 ≤ s3.b.currentRef := by have := w3.cur_le; omega
      have hsC : s.b.currentRef ≤ s1.b.currentRef := w1.cur_le
      have hlenC := open_len hoC
      have hlenA := open_len hoA
      have hlenB := open_len hoB
      have hC2 : s2.b.code.blocks[s1.b.currentRef]? = some blkC := by
        rw [w2.below _ (by omega), newBlock_get _ _ (by omega)]; exact hoC.1
      have hC3 : s3.b.code.blocks[s1.b.currentRef]? = some blkC := by
        rw [w3.below _ (by omega), newBlock_get _ _ (by omega)]; exact hC2
      have hA3 : s3.b.code.blocks[s2.b.currentRef]? = some blkA := by
        rw [w3.below _ (by omega), newBlock_get _ _ (by omega)]; exact hoA.1
      have hCm : s3.b.newBlock.2.code.blocks[s1.b.currentRef]? = some blkC := by
        rw [newBlock_get _ _ (by omega)]; exact hC3
      have hAm : s3.b.newBlock.2.code.blocks[s2.b.currentRef]? = some blkA := by
        rw [newBlock_get _ _ (by omega)]; exact hA3
      have hBm : s3.b.newBlock.2.code.blocks[s3.b.currentRef]? = some blkB := by
        rw [newBlock_get _ _ (by omega)]; exact hoB.1
      obtain ⟨f2, f3, f4, f5, f6, f7, f8, f9⟩ := visitIf_facts s3.b.newBlock.2 cop _ _ _ blkC blkA blkB
        hCm hoC.2 hAm hoA.2 hBm hoB.2 (by omega) (by omega) (by omega)
      have hsdb : sd.b = visitIfStatement s3.b.newBlock.2 cop s1.b.currentRef s2.b.currentRef (some s3.b.currentRef) := by
        rw [hsd]
      rw [← hsdb] at f2 f3 f4 f5 f6 f7 f8 f9
      have hnl : s3.b.newBlock.2.code.locals = s3.b.code.locals := rfl
      have hnlen : s3.b.newBlock.2.code.blocks.length = s3.b.code.blocks.length + 1 := by simp [Builder.newBlock]
      rw [hnl] at f4
      have hcF : sd.b.currentRef = s3.b.currentRef + 1 := by
        simp only [Builder.currentRef] at hlenB ⊢
        omega
      have hch1 : ∀ i, i < s1.b.currentRef → sd.b.code.blocks[i]? = s1.b.code.blocks[i]? := by
        intro i hi
        rw [f6 i (by omega) (by omega) (by omega), newBlock_get _ _ (by omega), w3.below i (by omega),
          newBlock_get _ _ (by omega), w2.below i (by omega), newBlock_get _ _ (by omega)]
      have hch2 : ∀ i, s1.b.currentRef < i → i < s2.b.currentRef → sd.b.code.blocks[i]? = s2.b.code.blocks[i]? := by
        intro i h1 h2
        rw [f6 i (by omega) (by omega) (by omega), newBlock_get _ _ (by omega), w3.below i (by omega),
          newBlock_get _ _ (by omega)]
      have hch3 : ∀ i, s2.b.currentRef < i → i < s3.b.currentRef → sd.b.code.blocks[i]? = s3.b.code.blocks[i]? := by
        intro i h1 h2
        rw [f6 i (by omega) (by omega) (by omega), newBlock_get _ _ (by omega)]
      have hexit : sd.b.code.blocks[s3.b.currentRef + 1]? = some {} := by
        rw [f6 _ (by omega) (by omega) (by omega), hlenB]; exact newBlock_last s3.b
      obtain ⟨t2, hlo2⟩ := w2.locals
      obtain ⟨t3, hlo3⟩ := w3.locals
      have hnl1 : s1.b.newBlock.2.code.locals = s1.b.code.locals := rfl
      have hnl2 : s2.b.newBlock.2.code.locals = s2.b.code.locals := rfl
      rw [hnl1] at hlo2
      rw [hnl2] at hlo3
      have hextF : Ext s1.b sd.b := by
        refine ⟨f2.trans (w3.panic.trans w2.panic), ⟨t2 ++ t3, by rw [f4, hlo3, hlo2]; simp⟩,
          f3.trans (w3.params.trans w2.params), by omega, hch1, blkC, _, hoC.1, hoC.2, f7, [], by simp⟩
      have hwalked : Walked s.b sd.b := by
        refine ⟨w1.toExt.trans hextF, ?_, ⟨{}, by rw [OpenAt, hcF]; exact ⟨hexit, rfl⟩⟩, ?_⟩
        · intro i hlo hhi
          rcases Nat.lt_or_ge i s1.b.currentRef with hlt | hge
          · obtain ⟨bi, hbi, hti⟩ := w1.closed i hlo hlt
            exact ⟨bi, by rw [hch1 i hlt]; exact hbi, hti⟩
          · rcases Nat.eq_or_lt_of_le hge with heq | hgt
            · subst heq; exact ⟨_, f7, rfl⟩
            · rcases Nat.lt_or_ge i s2.b.currentRef with hlt2 | hge2
              · obtain ⟨bi, hbi, hti⟩ := w2.closed i (by omega) hlt2
                exact ⟨bi, by rw [hch2 i hgt hlt2]; exact hbi, hti⟩
              · rcases Nat.eq_or_lt_of_le hge2 with heq2 | hgt2
                · subst heq2; exact ⟨_, f8, rfl⟩
                · rcases Nat.lt_or_ge i s3.b.currentRef with hlt3 | hge3
                  · obtain ⟨bi, hbi, hti⟩ := w3.closed i (by omega) hlt3
                    exact ⟨bi, by rw [hch3 i hgt2 hlt3]; exact hbi, hti⟩
                  · have : i = s3.b.currentRef := by omega
                    subst this; exact ⟨_, f9, rfl⟩
        · intro i hlo hhi bi j hbi hbr
          rcases Nat.lt_or_ge i s1.b.currentRef with hlt | hge
          · rw [hch1 i hlt] at hbi
            have := w1.brs i hlo hlt bi j hbi hbr
            omega
          · rcases Nat.eq_or_lt_of_le hge with heq | hgt
            · subst heq
              rw [f7] at hbi
              injection hbi with hbi
              subst hbi
              simp at hbr
            · rcases Nat.lt_or_ge i s2.b.currentRef with hlt2 | hge2
              · rw [hch2 i hgt hlt2] at hbi
                have := w2.brs i (by omega) hlt2 bi j hbi hbr
                omega
              · rcases Nat.eq_or_lt_of_le hge2 with heq2 | hgt2
                · subst heq2
                  rw [f8] at hbi
                  injection hbi with hbi
                  subst hbi
                  simp only [Option.some.injEq, Terminator.br.injEq] at hbr
                  omega
                · rcases Nat.lt_or_ge i s3.b.currentRef with hlt3 | hge3
                  · rw [hch3 i hgt2 hlt3] at hbi
                    have := w3.brs i (by omega) hlt3 bi j hbi hbr
                    omega
                  · have : i = s3.b.currentRef := by omega
                    subst this
                    rw [f9] at hbi
                    injection hbi with hbi
                    subst hbi
                    simp only [Option.some.injEq, Terminator.br.injEq] at hbr
                    omega
      have hsdl : sd.locals = wl := by rw [hsd]; exact r1.locals
      have hvrd : VarRel sd.b.code.locals wl vars := by
        rw [f4]; exact hvr2.mono ⟨t3, by rw [hnl2]; exact hlo3⟩
      obtain ⟨s4, op4, hfin, w4, hok4, hsim4⟩ := hrest sd s' h hsdl hvrd hinj hwalked.exitOpen
      refine ⟨s4, op4, hfin, hwalked.trans w4, hok4, ?_⟩
      intro C hC hret st sst out sst' hvars hw hnc hval hsp
      have hC' : Covers C sd.b s.b.currentRef := Covers.of_ext w4.toExt hC hwalked.cur_le
      obtain ⟨xc, sC, o1, sJ, hsc, hsbr, hcont, hretv⟩ := spec_stmts_if_ret sc cnd A B rest sst out sst' hsp
      have hCv1 : Covers C s1.b s.b.currentRef :=
        Covers.sub hC' hsC (by omega) (by rw [f4, hlo3, hlo2]; simp [List.append_assoc])
          (fun i _ hi => hch1 i hi) ⟨blkC, _, hoC.1, f7, List.prefix_refl _⟩
      have hCv2 : Covers C s2.b (s1.b.currentRef + 1) :=
        Covers.sub (hC'.mono (by omega)) hCA (by omega) (by rw [f4, hlo3]; exact List.prefix_append _ _)
          (fun i h1 h2 => hch2 i (by omega) h2) ⟨blkA, _, hoA.1, f8, List.prefix_refl _⟩
      have hCv3 : Covers C s3.b (s2.b.currentRef + 1) :=
        Covers.sub (hC'.mono (by omega)) hAB (by omega) (by rw [f4]; exact List.prefix_refl _)
          (fun i h1 h2 => hch3 i (by omega) h2) ⟨blkB, _, hoB.1, f9, List.prefix_refl _⟩
      have hCC := hC'.closed _ hsC (by omega : s1.b.currentRef < sd.b.currentRef)
      rw [f7] at hCC
      have hCA' := hC'.closed _ (by omega : s.b.currentRef ≤ s2.b.currentRef) (by omega : s2.b.currentRef < sd.b.currentRef)
      rw [f8] at hCA'
      have hCB' := hC'.closed _ (by omega : s.b.currentRef ≤ s3.b.currentRef) (by omega : s3.b.currentRef < sd.b.currentRef)
      rw [f9] at hCB'
      have hlenF : curLen sd.b = 0 := by simp [curLen, hcF, hexit]
      obtain ⟨hsa, d1, st1, hd1, hrun1, hv1, hp1, hw1', ht1, _⟩ := r1.sim C hCv1 st sst sC (.bool xc) hvars hw hnc hval hsc
      subst hsa
      have hval1 : ValRel wl sC.vars st1.L := hval.mono hvr hp1
      have hkC : curLen s1.b = blkC.statements.length := curLen_of_open hoC
      have hstepC : ∀ fuel, runAt ic C (fuel + 1) s1.b.currentRef (curLen s1.b) st1 =
          runAt ic C fuel (if xc then s1.b.currentRef + 1 else s2.b.currentRef + 1) 0 st1 := by
        intro fuel
        exact runAt_brCond ic C fuel _ _ _ _ _ cop st1 xc hCC (by rw [hkC]; exact Nat.le_refl _) rfl hv1
      have hc4 := w4.cur_le
      cases xc with
      | true =>
        simp only [if_true] at hsbr hstepC
        obtain ⟨⟨w, ho1⟩, hshJ, d2, st2, hd2, hrun2, hval2, hww2, hw2'⟩ :=
          simA C (by show Covers C s2.b s1.b.newBlock.2.currentRef; rw [hcm1]; exact hCv2) st1 sC o1 sJ hvars
            (hw.trans hw1'.symm) (by rw [hw1']; exact hnc) hval1 hsbr
        obtain ⟨out', hrs, hout⟩ := hcont w ho1
        have hlenJ : sJ.vars.length = sC.vars.length := by
          rw [length_of_shape hshJ, length_of_shape hvars]
        rw [leave_same sJ _ hlenJ, leave_same sJ _ hlenJ] at hrs
        have hd2' : d2 ≤ s2.b.currentRef - (s1.b.currentRef + 1) := by
          have : d2 ≤ s2.b.currentRef - s1.b.newBlock.2.currentRef := hd2
          omega
        have hrun2' : ∀ fuel, runAt ic C (fuel + d2) (s1.b.currentRef + 1) 0 st1 =
            runAt ic C fuel s2.b.currentRef (curLen s2.b) st2 := by
          intro fuel
          have := hrun2 fuel
          rw [show ({ s1 with b := s1.b.newBlock.2 } : WState).b = s1.b.newBlock.2 from rfl, hcm1,
            curLen_of_open (newBlock_open hoC)] at this
          exact this
        have hkA : curLen s2.b = blkA.statements.length := curLen_of_open hoA
        have hstepA : ∀ fuel, runAt ic C (fuel + 1) s2.b.currentRef (curLen s2.b) st2 =
            runAt ic C fuel (s3.b.currentRef + 1) 0 st2 := by
          intro fuel
          exact runAt_br ic C fuel _ _ _ _ st2 hCA' (by rw [hkA]; exact Nat.le_refl _) rfl
        obtain ⟨val, hout4, d4, res, hd4, hrun4⟩ := hsim4 C (hC.mono hwalked.cur_le) hret st2 sJ out' sst' hshJ hww2
          (by rw [hw2', hw1']; exact hnc) hval2 hrs
        refine ⟨val, by rw [hout]; exact outVal_afterVal _ _ _ hout4, d1 + 1 + d2 + 1 + d4, res, by omega, ?_⟩
        intro fuel
        have : fuel + (d1 + 1 + d2 + 1 + d4) = (fuel + d4 + 1 + d2 + 1) + d1 := by omega
        rw [this, hrun1, hstepC, hrun2', hstepA]
        have := hrun4 fuel
        rw [hcF, hlenF] at this
        exact this
      | false =>
        simp only [Bool.false_eq_true, if_false] at hsbr hstepC
        have hcRB := wRB.cur_le
        have hCvRB : Covers C srB.b (s2.b.currentRef + 1) := Covers.of_ext wvrB.toExt hCv3 (by omega)
        obtain ⟨v, ho1, d3, st3, hd3, hrun3, hv3⟩ :=
          simRB C (by show Covers C srB.b s2.b.newBlock.2.currentRef; rw [hcm2]; exact hCvRB) st1 sC o1 sJ hvars
            (hw.trans hw1'.symm) (by rw [hw1']; exact hnc) hval1 hsbr
        have hout : out = .ret v := hretv v (by rw [ho1]; rfl)
        have hd3' : d3 ≤ srB.b.currentRef - (s2.b.currentRef + 1) := by
          have : d3 ≤ srB.b.currentRef - s2.b.newBlock.2.currentRef := hd3
          omega
        have hrun3' : ∀ fuel, runAt ic C (fuel + d3) (s2.b.currentRef + 1) 0 st1 =
            runAt ic C fuel srB.b.currentRef (curLen srB.b) st3 := by
          intro fuel
          have := hrun3 fuel
          rw [show ({ s2 with b := s2.b.newBlock.2, locals := s1.locals } : WState).b = s2.b.newBlock.2 from rfl, hcm2,
            curLen_of_open (newBlock_open hoA)] at this
          exact this
        have hCR : C.blocks[srB.b.currentRef]? = some { blkRB with terminator := some (.ret (ensureConcreteString opB)) } := by
          rw [hC'.closed _ (by omega) (by omega), hch3 _ (by omega) (by omega)]
          exact hgetRB
        refine ⟨v, by rw [hout]; rfl, d1 + 1 + d3, st3, by omega, ?_⟩
        intro fuel
        have : fuel + (d1 + 1 + d3) = (fuel + d3 + 1) + d1 := by omega
        rw [this, hrun1, hstepC, hrun3', runAt_ret ic C _ _ _ _ (ensureConcreteString opB) st3 hCR
          (by simp [curLen_of_open hoRB]) rfl, evalOperand_ensure, hv3]
        rfl


/-- `if (c) { T1 } else { T2 }; rest` with both branches returning (`rest` is never executed) -/
theorem r_if_ret_ret (wc : Ctx) (sc : QV.Spec.Sem.Ctx) (ic : ICtx) (isRet : Bool) (wl : QV.Model.Locals)
    (vars : List QV.Spec.Sem.Var) (cnd : Expr) (A B rest : List Stmt)
    (hc : WalkOk wc sc ic wl vars cnd) (hA : SOk wc sc ic true wl vars A) (hB : SOk wc sc ic true wl vars B)
    (hrest : ROk wc sc ic isRet wl vars rest) :
    ROk wc sc ic isRet wl vars (.if_ cnd (.block A) (some (.block B)) :: rest) := by
  intro s s' h hl hvr hinj ho
  rw [run_stmts_cons] at h
  cases hd : (walkStmt wc none (.if_ cnd (.block A) (some (.block B)))).run s with
  | mk r sd =>
    rw [hd] at h
    cases r with
    | none =>
      simp only at h
      cases hq : (walkStmts wc none rest).run sd with
      | mk q sq =>
        rw [hq] at h
        cases q <;> (simp only at h; injection h with h _; cases h)
    | some u =>
      cases u
      simp only at h
      obtain ⟨cop, s1, s2, s3, hw1, hwa, hwb, htc, hsd⟩ := run_if_else wc cnd (.block A) (.block B) s sd hd
      have r1 := hc s s1 cop hw1 hl hvr ho
      obtain ⟨blkC, hoC⟩ := r1.walked.exitOpen
      have w1 : Walked s.b s1.b := r1.walked
      have hvr1 : VarRel s1.b.newBlock.2.code.locals wl vars := hvr.mono w1.locals
      rw [run_block] at hwa
      generalize hrRA : (walkStmts wc none A).run { s1 with b := s1.b.newBlock.2 } = pRA at hwa
      obtain ⟨rrA, sRA⟩ := pRA
      have hrrA : rrA = some true ∧ s2 = { sRA with locals := s1.locals } := by
        cases rrA with
        | none => simp only at hwa; injection hwa with hwa _; cases hwa
        | some ok =>
          cases ok with
          | false => simp only at hwa; injection hwa with hwa _; cases hwa
          | true => simp only at hwa; injection hwa with _ hs; exact ⟨rfl, hs.symm⟩
      obtain ⟨hrrA1, hs2⟩ := hrrA
      subst hrrA1
      obtain ⟨srA, opA, hfinA, wRA, hokA, simRA⟩ := hA _ sRA hrRA r1.locals hvr1 hinj ⟨{}, newBlock_open hoC⟩
      have wRA : Walked s1.b.newBlock.2 srA.b := wRA
      obtain ⟨blkRA, hoRA⟩ := wRA.exitOpen
      obtain ⟨wvrA, hcurRA, hgetRA, hlocRA, hopenRA⟩ := walked_visitReturn srA.b blkRA opA hoRA
      have hs2b : s2.b = visitReturnStatement srA.b opA := by rw [hs2]; simpa [finish] using hfinA
      rw [← hs2b] at wvrA hcurRA hgetRA hlocRA hopenRA
      have w2 : Walked s1.b.newBlock.2 s2.b := wRA.trans wvrA
      have hl2 : s2.locals = wl := by rw [hs2]; exact r1.locals
      obtain ⟨blkA, hoA⟩ := w2.exitOpen
      have hvr2 : VarRel s2.b.newBlock.2.code.locals wl vars := hvr1.mono w2.locals
      rw [run_block] at hwb
      generalize hrRB : (walkStmts wc none B).run { s2 with b := s2.b.newBlock.2, locals := s1.locals } = pRB at hwb
      obtain ⟨rrB, sRB⟩ := pRB
      have hrrB : rrB = some true ∧ s3 = { sRB with locals := s1.locals } := by
        cases rrB with
        | none => simp only at hwb; injection hwb with hwb _; cases hwb
        | some ok =>
          cases ok with
          | false => simp only at hwb; injection hwb with hwb _; cases hwb
          | true => simp only at hwb; injection hwb with _ hs; exact ⟨rfl, hs.symm⟩
      obtain ⟨hrrB1, hs3⟩ := hrrB
      subst hrrB1
      obtain ⟨srB, opB, hfinB, wRB, hokB, simRB⟩ := hB _ sRB hrRB r1.locals hvr2 hinj ⟨{}, newBlock_open hoA⟩
      have wRB : Walked s2.b.newBlock.2 srB.b := wRB
      obtain ⟨blkRB, hoRB⟩ := wRB.exitOpen
      obtain ⟨wvrB, hcurRB, hgetRB, hlocRB, hopenRB⟩ := walked_visitReturn srB.b blkRB opB hoRB
      have hs3b : s3.b = visitReturnStatement srB.b opB := by rw [hs3]; simpa [finish] using hfinB
      rw [← hs3b] at wvrB hcurRB hgetRB hlocRB hopenRB
      have w3 : Walked s2.b.newBlock.2 s3.b := wRB.trans wvrB
      obtain ⟨blkB, hoB⟩ := w3.exitOpen
      have hcm1 : s1.b.newBlock.2.currentRef = s1.b.currentRef + 1 := newBlock_cur hoC
      have hcm2 : s2.b.newBlock.2.currentRef = s2.b.currentRef + 1 := newBlock_cur hoA
      have hCA : s1.b.currentRef + 1 ≤ s2.b.currentRef := by have := w2.cur_le; omega
      have hAB : s2.b.currentRef + 1 ≤ s3.b.currentRef := by have := w3.cur_le; omega
      have hsC : s.b.currentRef ≤ s1.b.currentRef := w1.cur_le
      have hlenC := open_len hoC
      have hlenA := open_len hoA
      have hlenB := open_len hoB
      have hC2 : s2.b.code.blocks[s1.b.currentRef]? = some blkC := by
        rw [w2.below _ (by omega), newBlock_get _ _ (by omega)]; exact hoC.1
      have hC3 : s3.b.code.blocks[s1.b.currentRef]? = some blkC := by
        rw [w3.below _ (by omega), newBlock_get _ _ (by omega)]; exact hC2
      have hA3 : s3.b.code.blocks[s2.b.currentRef]? = some blkA := by
        rw [w3.below _ (by omega), newBlock_get _ _ (by omega)]; exact hoA.1
      have hCm : s3.b.newBlock.2.code.blocks[s1.b.currentRef]? = some blkC := by
        rw [newBlock_get _ _ (by omega)]; exact hC3
      have hAm : s3.b.newBlock.2.code.blocks[s2.b.currentRef]? = some blkA := by
        rw [newBlock_get _ _ (by omega)]; exact hA3
      have hBm : s3.b.newBlock.2.code.blocks[s3.b.currentRef]? = some blkB := by
        rw [newBlock_get _ _ (by omega)]; exact hoB.1
      obtain ⟨f2, f3, f4, f5, f6, f7, f8, f9⟩ := visitIf_facts s3.b.newBlock.2 cop _ _ _ blkC blkA blkB
        hCm hoC.2 hAm hoA.2 hBm hoB.2 (by omega) (by omega) (by omega)
      have hsdb : sd.b = visitIfStatement s3.b.newBlock.2 cop s1.b.currentRef s2.b.currentRef (some s3.b.currentRef) := by
        rw [hsd]
      rw [← hsdb] at f2 f3 f4 f5 f6 f7 f8 f9
      have hnl : s3.b.newBlock.2.code.locals = s3.b.code.locals := rfl
      have hnlen : s3.b.newBlock.2.code.blocks.length = s3.b.code.blocks.length + 1 := by simp [Builder.newBlock]
      rw [hnl] at f4
      have hcF : sd.b.currentRef = s3.b.currentRef + 1 := by
        simp only [Builder.currentRef] at hlenB ⊢
        omega
      have hch1 : ∀ i, i < s1.b.currentRef → sd.b.code.blocks[i]? = s1.b.code.blocks[i]? := by
        intro i hi
        rw [f6 i (by omega) (by omega) (by omega), newBlock_get _ _ (by omega), w3.below i (by omega),
          newBlock_get _ _ (by omega), w2.below i (by omega), newBlock_get _ _ (by omega)]
      have hch2 : ∀ i, s1.b.currentRef < i → i < s2.b.currentRef → sd.b.code.blocks[i]? = s2.b.code.blocks[i]? := by
        intro i h1 h2
        rw [f6 i (by omega) (by omega) (by omega), newBlock_get _ _ (by omega), w3.below i (by omega),
          newBlock_get _ _ (by omega)]
      have hch3 : ∀ i, s2.b.currentRef < i → i < s3.b.currentRef → sd.b.code.blocks[i]? = s3.b.code.blocks[i]? := by
        intro i h1 h2
        rw [f6 i (by omega) (by omega) (by omega), newBlock_get _ _ (by omega)]
      have hexit : sd.b.code.blocks[s3.b.currentRef + 1]? = some {} := by
        rw [f6 _ (by omega) (by omega) (by omega), hlenB]; exact newBlock_last s3.b
      obtain ⟨t2, hlo2⟩ := w2.locals
      obtain ⟨t3, hlo3⟩ := w3.locals
      have hnl1 : s1.b.newBlock.2.code.locals = s1.b.code.locals := rfl
      have hnl2 : s2.b.newBlock.2.code.locals = s2.b.code.locals := rfl
      rw [hnl1] at hlo2
      rw [hnl2] at hlo3
      have hextF : Ext s1.b sd.b := by
        refine ⟨f2.trans (w3.panic.trans w2.panic), ⟨t2 ++ t3, by rw [f4, hlo3, hlo2]; simp⟩,
          f3.trans (w3.params.trans w2.params), by omega, hch1, blkC, _, hoC.1, hoC.2, f7, [], by simp⟩
      have hwalked : Walked s.b sd.b := by
        refine ⟨w1.toExt.trans hextF, ?_, ⟨{}, by rw [OpenAt, hcF]; exact ⟨hexit, rfl⟩⟩, ?_⟩
        · intro i hlo hhi
          rcases Nat.lt_or_ge i s1.b.currentRef with hlt | hge
          · obtain ⟨bi, hbi, hti⟩ := w1.closed i hlo hlt
            exact ⟨bi, by rw [hch1 i hlt]; exact hbi, hti⟩
          · rcases Nat.eq_or_lt_of_le hge with heq | hgt
            · subst heq; exact ⟨_, f7, rfl⟩
            · rcases Nat.lt_or_ge i s2.b.currentRef with hlt2 | hge2
              · obtain ⟨bi, hbi, hti⟩ := w2.closed i (by omega) hlt2
                exact ⟨bi, by rw [hch2 i hgt hlt2]; exact hbi, hti⟩
              · rcases Nat.eq_or_lt_of_le hge2 with heq2 | hgt2
                · subst heq2; exact ⟨_, f8, rfl⟩
                · rcases Nat.lt_or_ge i s3.b.currentRef with hlt3 | hge3
                  · obtain ⟨bi, hbi, hti⟩ := w3.closed i (by omega) hlt3
                    exact ⟨bi, by rw [hch3 i hgt2 hlt3]; exact hbi, hti⟩
                  · have : i = s3.b.currentRef := by omega
                    subst this; exact ⟨_, f9, rfl⟩
        · intro i hlo hhi bi j hbi hbr
          rcases Nat.lt_or_ge i s1.b.currentRef with hlt | hge
          · rw [hch1 i hlt] at hbi
            have := w1.brs i hlo hlt bi j hbi hbr
            omega
          · rcases Nat.eq_or_lt_of_le hge with heq | hgt
            · subst heq
              rw [f7] at hbi
              injection hbi with hbi
              subst hbi
              simp at hbr
            · rcases Nat.lt_or_ge i s2.b.currentRef with hlt2 | hge2
              · rw [hch2 i hgt hlt2] at hbi
                have := w2.brs i (by omega) hlt2 bi j hbi hbr
                omega
              · rcases Nat.eq_or_lt_of_le hge2 with heq2 | hgt2
                · subst heq2
                  rw [f8] at hbi
                  injection hbi with hbi
                  subst hbi
                  simp only [Option.some.injEq, Terminator.br.injEq] at hbr
                  omega
                · rcases Nat.lt_or_ge i s3.b.currentRef with hlt3 | hge3
                  · rw [hch3 i hgt2 hlt3] at hbi
                    have := w3.brs i (by omega) hlt3 bi j hbi hbr
                    omega
                  · have : i = s3.b.currentRef := by omega
                    subst this
                    rw [f9] at hbi
                    injection hbi with hbi
                    subst hbi
                    simp only [Option.some.injEq, Terminator.br.injEq] at hbr
                    omega
      have hsdl : sd.locals = wl := by rw [hsd]; exact r1.locals
      have hvrd : VarRel sd.b.code.locals wl vars := by
        rw [f4]; exact hvr2.mono ⟨t3, by rw [hnl2]; exact hlo3⟩
      obtain ⟨s4, op4, hfin, w4, hok4, hsim4⟩ := hrest sd s' h hsdl hvrd hinj hwalked.exitOpen
      refine ⟨s4, op4, hfin, hwalked.trans w4, hok4, ?_⟩
      intro C hC hret st sst out sst' hvars hw hnc hval hsp
      have hC' : Covers C sd.b s.b.currentRef := Covers.of_ext w4.toExt hC hwalked.cur_le
      obtain ⟨xc, sC, o1, sJ, hsc, hsbr, hcont, hretv⟩ := spec_stmts_if_ret sc cnd A B rest sst out sst' hsp
      have hCv1 : Covers C s1.b s.b.currentRef :=
        Covers.sub hC' hsC (by omega) (by rw [f4, hlo3, hlo2]; simp [List.append_assoc])
          (fun i _ hi => hch1 i hi) ⟨blkC, _, hoC.1, f7, List.prefix_refl _⟩
      have hCv2 : Covers C s2.b (s1.b.currentRef + 1) :=
        Covers.sub (hC'.mono (by omega)) hCA (by omega) (by rw [f4, hlo3]; exact List.prefix_append _ _)
          (fun i h1 h2 => hch2 i (by omega) h2) ⟨blkA, _, hoA.1, f8, List.prefix_refl _⟩
      have hCv3 : Covers C s3.b (s2.b.currentRef + 1) :=
        Covers.sub (hC'.mono (by omega)) hAB (by omega) (by rw [f4]; exact List.prefix_refl _)
          (fun i h1 h2 => hch3 i (by omega) h2) ⟨blkB, _, hoB.1, f9, List.prefix_refl _⟩
      have hCC := hC'.closed _ hsC (by omega : s1.b.currentRef < sd.b.currentRef)
      rw [f7] at hCC
      have hCA' := hC'.closed _ (by omega : s.b.currentRef ≤ s2.b.currentRef) (by omega : s2.b.currentRef < sd.b.currentRef)
      rw [f8] at hCA'
      have hCB' := hC'.closed _ (by omega : s.b.currentRef ≤ s3.b.currentRef) (by omega : s3.b.currentRef < sd.b.currentRef)
      rw [f9] at hCB'
      have hlenF : curLen sd.b = 0 := by simp [curLen, hcF, hexit]
      obtain ⟨hsa, d1, st1, hd1, hrun1, hv1, hp1, hw1', ht1, _⟩ := r1.sim C hCv1 st sst sC (.bool xc) hvars hw hnc hval hsc
      subst hsa
      have hval1 : ValRel wl sC.vars st1.L := hval.mono hvr hp1
      have hkC : curLen s1.b = blkC.statements.length := curLen_of_open hoC
      have hstepC : ∀ fuel, runAt ic C (fuel + 1) s1.b.currentRef (curLen s1.b) st1 =
          runAt ic C fuel (if xc then s1.b.currentRef + 1 else s2.b.currentRef + 1) 0 st1 := by
        intro fuel
        exact runAt_brCond ic C fuel _ _ _ _ _ cop st1 xc hCC (by rw [hkC]; exact Nat.le_refl _) rfl hv1
      have hc4 := w4.cur_le
      cases xc with
      | true =>
        simp only [if_true] at hsbr hstepC
        have hcRA := wRA.cur_le
        have hCvRA : Covers C srA.b (s1.b.currentRef + 1) := Covers.of_ext wvrA.toExt hCv2 (by omega)
        obtain ⟨v, ho1, d2, st2, hd2, hrun2, hv2⟩ :=
          simRA C (by show Covers C srA.b s1.b.newBlock.2.currentRef; rw [hcm1]; exact hCvRA) st1 sC o1 sJ hvars
            (hw.trans hw1'.symm) (by rw [hw1']; exact hnc) hval1 hsbr
        have hout : out = .ret v := hretv v (by rw [ho1]; rfl)
        have hd2' : d2 ≤ srA.b.currentRef - (s1.b.currentRef + 1) := by
          have : d2 ≤ srA.b.currentRef - s1.b.newBlock.2.currentRef := hd2
          omega
        have hrun2' : ∀ fuel, runAt ic C (fuel + d2) (s1.b.currentRef + 1) 0 st1 =
            runAt ic C fuel srA.b.currentRef (curLen srA.b) st2 := by
          intro fuel
          have := hrun2 fuel
          rw [show ({ s1 with b := s1.b.newBlock.2 } : WState).b = s1.b.newBlock.2 from rfl, hcm1,
            curLen_of_open (newBlock_open hoC)] at this
          exact this
        have hCR : C.blocks[srA.b.currentRef]? = some { blkRA with terminator := some (.ret (ensureConcreteString opA)) } := by
          rw [hC'.closed _ (by omega) (by omega), hch2 _ (by omega) (by omega)]
          exact hgetRA
        refine ⟨v, by rw [hout]; rfl, d1 + 1 + d2, st2, by omega, ?_⟩
        intro fuel
        have : fuel + (d1 + 1 + d2) = (fuel + d2 + 1) + d1 := by omega
        rw [this, hrun1, hstepC, hrun2', runAt_ret ic C _ _ _ _ (ensureConcreteString opA) st2 hCR
          (by simp [curLen_of_open hoRA]) rfl, evalOperand_ensure, hv2]
        rfl
      | false =>
        simp only [Bool.false_eq_true, if_false] at hsbr hstepC
        have hcRB := wRB.cur_le
        have hCvRB : Covers C srB.b (s2.b.currentRef + 1) := Covers.of_ext wvrB.toExt hCv3 (by omega)
        obtain ⟨v, ho1, d3, st3, hd3, hrun3, hv3⟩ :=
          simRB C (by show Covers C srB.b s2.b.newBlock.2.currentRef; rw [hcm2]; exact hCvRB) st1 sC o1 sJ hvars
            (hw.trans hw1'.symm) (by rw [hw1']; exact hnc) hval1 hsbr
        have hout : out = .ret v := hretv v (by rw [ho1]; rfl)
        have hd3' : d3 ≤ srB.b.currentRef - (s2.b.currentRef + 1) := by
          have : d3 ≤ srB.b.currentRef - s2.b.newBlock.2.currentRef := hd3
          omega
        have hrun3' : ∀ fuel, runAt ic C (fuel + d3) (s2.b.currentRef + 1) 0 st1 =
            runAt ic C fuel srB.b.currentRef (curLen srB.b) st3 := by
          intro fuel
          have := hrun3 fuel
          rw [show ({ s2 with b := s2.b.newBlock.2, locals := s1.locals } : WState).b = s2.b.newBlock.2 from rfl, hcm2,
            curLen_of_open (newBlock_open hoA)] at this
          exact this
        have hCR : C.blocks[srB.b.currentRef]? = some { blkRB with terminator := some (.ret (ensureConcreteString opB)) } := by
          rw [hC'.closed _ (by omega) (by omega), hch3 _ (by omega) (by omega)]
          exact hgetRB
        refine ⟨v, by rw [hout]; rfl, d1 + 1 + d3, st3, by omega, ?_⟩
        intro fuel
        have : fuel + (d1 + 1 + d3) = (fuel + d3 + 1) + d1 := by omega
        rw [this, hrun1, hstepC, hrun3', runAt_ret ic C _ _ _ _ (ensureConcreteString opB) st3 hCR
          (by simp [curLen_of_open hoRB]) rfl, evalOperand_ensure, hv3]
        rfl


/-! ### from the result of the run to the value of the binding -/

/-- from the exit position of a walk that started in the initial builder to the value of the binding, when the program
    ends in an expression statement: the operand becomes the completion value of the exit block,
    `finalize_completion_values` turns it into `return operand`, nothing else changes -/
theorem ir_of_expr_finish_r (ic : ICtx) (s1 : WState) (op : Operand) (w : World) (P : Val → Prop)
    (hwalked : Walked ({} : WState).b s1.b)
    (hsim : ∀ C, Covers C s1.b ({} : WState).b.currentRef → RetAt C s1.b op → ∃ val d res, P val ∧
      d ≤ s1.b.currentRef - ({} : WState).b.currentRef ∧
      ∀ fuel, runAt ic C (fuel + d) ({} : WState).b.currentRef (curLen ({} : WState).b)
          { w := w, L := fun _ => none, trace := [] } = some (val, res)) :
    ∃ val st', P val ∧ IrSem.run ic (finalizeCompletionValues (visitExpressionStatement s1.b op).code
      (visitExpressionStatement s1.b op).currentRef).1 w [] = some (val, st') := by
  obtain ⟨blkE, hoE⟩ := hwalked.exitOpen
  have hlenE := open_len hoE
  have hves0 : visitExpressionStatement s1.b op =
      { s1.b with code := { s1.b.code with
        blocks := s1.b.code.blocks.set s1.b.currentRef { blkE with completionValue := some (ensureConcreteString op) } } } := by
    simp only [visitExpressionStatement, Builder.setCompletionValue, Builder.blockHasTerminator, Builder.modifyBlock,
      hoE.1, hoE.2, Option.isSome_none, Bool.false_eq_true, ↓reduceIte]
  have hves : (visitExpressionStatement s1.b op).code.blocks =
      s1.b.code.blocks.set s1.b.currentRef { blkE with completionValue := some (ensureConcreteString op) } ∧
      (visitExpressionStatement s1.b op).code.locals = s1.b.code.locals ∧
      (visitExpressionStatement s1.b op).currentRef = s1.b.currentRef := by
    rw [hves0]
    exact ⟨rfl, rfl, by simp [Builder.currentRef]⟩
  obtain ⟨hvb, hvl, hvc⟩ := hves
  have hfin := QV.Proofs.SemFold.return_of_completion (visitExpressionStatement s1.b op).code s1.b.currentRef
    { blkE with completionValue := some (ensureConcreteString op) } (ensureConcreteString op)
    (by rw [hvb]; exact getElem?_set_self' _ _ _ _ hoE.1) hoE.2 rfl
  rw [hvc, hfin]
  simp only
  have key : ∀ Cfin : CodeBody,
      Cfin.blocks = s1.b.code.blocks.set s1.b.currentRef
        { statements := blkE.statements, terminator := some (.ret (ensureConcreteString op)) } →
      Cfin.locals = s1.b.code.locals → ∃ val st', P val ∧ IrSem.run ic Cfin w [] = some (val, st') := by
    intro Cfin hCb hCl
    have hCE : Cfin.blocks[s1.b.currentRef]? =
        some { statements := blkE.statements, terminator := some (.ret (ensureConcreteString op)) } := by
      rw [hCb]; exact getElem?_set_self' _ _ _ _ hoE.1
    have hcov : Covers Cfin s1.b ({} : WState).b.currentRef := by
      refine ⟨by rw [hCl]; exact List.prefix_refl _, ?_, blkE, _, hoE.1, hCE, List.prefix_refl _⟩
      intro i _ hi
      rw [hCb, getElem?_set_ne' _ _ _ _ (by omega)]
    obtain ⟨val, d, res, hP, hd, hrunE⟩ := hsim Cfin hcov ⟨_, hCE, by simp [curLen_of_open hoE], rfl⟩
    have hinit : initLocals Cfin [] = fun _ => none := by funext n; simp [initLocals]
    have hlenC : Cfin.blocks.length = s1.b.currentRef + 1 := by rw [hCb, List.length_set, hlenE]
    have hcur0 : ({} : WState).b.currentRef = 0 := rfl
    have hlen0 : curLen ({} : WState).b = 0 := rfl
    have hd' : d ≤ s1.b.currentRef := by rw [hcur0] at hd; omega
    refine ⟨val, res, hP, ?_⟩
    simp only [IrSem.run, hinit, hlenC]
    rw [runFrom_eq_runAt]
    have hsplit : s1.b.currentRef + 1 = (s1.b.currentRef + 1 - d) + d := by omega
    rw [hsplit]
    have h2 := hrunE (s1.b.currentRef + 1 - d)
    rw [hcur0, hlen0] at h2
    rw [h2]
  exact key _ (by simp only [hvb, List.set_set]) hvl

/-- from the exit position of a walk that started in the initial builder to the value of the binding, when the program
    ends in `return e`: the exit block is terminated by `return operand`, an empty block is pushed, which
    `finalize_completion_values` marks unreachable; nothing else changes -/
theorem ir_of_return_finish_r (ic : ICtx) (s1 : WState) (op : Operand) (w : World) (P : Val → Prop)
    (hwalked : Walked ({} : WState).b s1.b)
    (hsim : ∀ C, Covers C s1.b ({} : WState).b.currentRef → RetAt C s1.b op → ∃ val d res, P val ∧
      d ≤ s1.b.currentRef - ({} : WState).b.currentRef ∧
      ∀ fuel, runAt ic C (fuel + d) ({} : WState).b.currentRef (curLen ({} : WState).b)
          { w := w, L := fun _ => none, trace := [] } = some (val, res)) :
    ∃ val st', P val ∧ IrSem.run ic (finalizeCompletionValues (visitReturnStatement s1.b op).code
      (visitReturnStatement s1.b op).currentRef).1 w [] = some (val, st') := by
  obtain ⟨blkE, hoE⟩ := hwalked.exitOpen
  have hlenE := open_len hoE
  have hvr0 : visitReturnStatement s1.b op =
      { s1.b with code := { s1.b.code with
        blocks := s1.b.code.blocks.set s1.b.currentRef
          { blkE with terminator := some (.ret (ensureConcreteString op)) } ++ [{}] } } := by
    simp only [visitReturnStatement, finalizeAt_open s1.b _ blkE _ hoE.1 hoE.2, Builder.newBlock]
  have hcur : (visitReturnStatement s1.b op).currentRef = s1.b.currentRef + 1 := by
    rw [hvr0]
    simp only [Builder.currentRef, List.length_append, List.length_set, List.length_singleton] at hlenE ⊢
    omega
  have hblocks : (visitReturnStatement s1.b op).code.blocks = s1.b.code.blocks.set s1.b.currentRef
      { blkE with terminator := some (.ret (ensureConcreteString op)) } ++ [({} : BasicBlock)] := by rw [hvr0]
  have hlocals : (visitReturnStatement s1.b op).code.locals = s1.b.code.locals := by rw [hvr0]
  have hlen0 : (s1.b.code.blocks.set s1.b.currentRef
      { blkE with terminator := some (.ret (ensureConcreteString op)) }).length = s1.b.currentRef + 1 := by
    rw [List.length_set, hlenE]
  have hget : ∀ i, i < s1.b.currentRef → (visitReturnStatement s1.b op).code.blocks[i]? = s1.b.code.blocks[i]? := by
    intro i hi
    rw [hblocks, List.getElem?_append_left (by omega), getElem?_set_ne' _ _ _ _ (by omega)]
  have hgetE : (visitReturnStatement s1.b op).code.blocks[s1.b.currentRef]? =
      some { blkE with terminator := some (.ret (ensureConcreteString op)) } := by
    rw [hblocks, List.getElem?_append_left (by omega)]
    exact getElem?_set_self' _ _ _ _ hoE.1
  have hgetS : (visitReturnStatement s1.b op).code.blocks[s1.b.currentRef + 1]? = some ({} : BasicBlock) := by
    rw [hblocks, List.getElem?_append_right (by omega), hlen0]
    simp
  obtain ⟨term, hfin⟩ := finalize_after_return (visitReturnStatement s1.b op).code (s1.b.currentRef + 1) hgetS (by
    intro i bi hbi hbr
    rcases Nat.lt_or_ge i s1.b.currentRef with hlt | hge
    · rw [hget i hlt] at hbi
      have := hwalked.brs i (Nat.zero_le _) hlt bi _ hbi hbr
      omega
    · rcases Nat.eq_or_lt_of_le hge with heq | hgt
      · subst heq
        rw [hgetE] at hbi
        injection hbi with hbi
        subst hbi
        simp at hbr
      · rcases Nat.eq_or_lt_of_le (Nat.succ_le_of_lt hgt) with heq2 | hgt2
        · rw [← heq2] at hbi
          rw [hgetS] at hbi
          injection hbi with hbi
          subst hbi
          simp at hbr
        · have : (visitReturnStatement s1.b op).code.blocks[i]? = none := by
            rw [hblocks]
            apply List.getElem?_eq_none
            simp only [List.length_append, hlen0, List.length_singleton]
            omega
          rw [this] at hbi
          cases hbi)
  rw [hcur, hfin]
  have key : ∀ Cfin : CodeBody,
      Cfin.blocks = setBlock (visitReturnStatement s1.b op).code.blocks (s1.b.currentRef + 1) { terminator := some term } →
      Cfin.locals = s1.b.code.locals → ∃ val st', P val ∧ IrSem.run ic Cfin w [] = some (val, st') := by
    intro Cfin hCb hCl
    have hCE : Cfin.blocks[s1.b.currentRef]? =
        some { blkE with terminator := some (.ret (ensureConcreteString op)) } := by
      rw [hCb, setBlock, getElem?_set_ne' _ _ _ _ (by omega)]; exact hgetE
    have hcov : Covers Cfin s1.b ({} : WState).b.currentRef := by
      refine ⟨by rw [hCl]; exact List.prefix_refl _, ?_, blkE, _, hoE.1, hCE, List.prefix_refl _⟩
      intro i _ hi
      rw [hCb, setBlock, getElem?_set_ne' _ _ _ _ (by omega)]
      exact hget i hi
    obtain ⟨val, d, res, hP, hd, hrunE⟩ := hsim Cfin hcov ⟨_, hCE, by simp [curLen_of_open hoE], rfl⟩
    have hinit : initLocals Cfin [] = fun _ => none := by funext n; simp [initLocals]
    have hlenC : Cfin.blocks.length = s1.b.currentRef + 2 := by
      rw [hCb, setBlock, List.length_set, hblocks, List.length_append, hlen0]; rfl
    have hcur0 : ({} : WState).b.currentRef = 0 := rfl
    have hlen00 : curLen ({} : WState).b = 0 := rfl
    have hd' : d ≤ s1.b.currentRef := by rw [hcur0] at hd; omega
    refine ⟨val, res, hP, ?_⟩
    simp only [IrSem.run, hinit, hlenC]
    rw [runFrom_eq_runAt]
    have hsplit : s1.b.currentRef + 2 = (s1.b.currentRef + 2 - d) + d := by omega
    rw [hsplit]
    have h2 := hrunE (s1.b.currentRef + 2 - d)
    rw [hcur0, hlen00] at h2
    rw [h2]
  exact key _ rfl hlocals

/-! ### the fragment with early returns and the induction -/

/-- statement lists
      S ::= e | return e | let x = e; S | const x = e; S | x = e; S | if (e) { A } else { A }; S | if (e) { A }; S
          | if (e) { T }; S | if (e) { T } else { A }; S | if (e) { A } else { T }; S | if (e) { T } else { T }; S
                                                              (early returns; after two returning branches S is dead)
      T ::= S that ends in `return e` and has no early return itself (`IFrag wc true`)
      A ::= ε | x = e; A -/
inductive RFrag (wc : Ctx) : Bool → List String → List Stmt → Prop
  | expr (scope : List String) (e : Expr) : CfgFrag wc scope e → RFrag wc false scope [.expr e]
  | ret (scope : List String) (e : Expr) : CfgFrag wc scope e → RFrag wc true scope [.return_ (some e)]
  | decl (isRet : Bool) (scope : List String) (kind : DeclKind) (x : String) (e : Expr) (rest : List Stmt) :
      CfgFrag wc scope e → RFrag wc isRet (x :: scope) rest →
      RFrag wc isRet scope (.lexical kind [{ name := x, ty := none, value := some e }] :: rest)
  | assign (isRet : Bool) (scope : List String) (x : String) (e : Expr) (rest : List Stmt) :
      x ∈ scope → CfgFrag wc scope e → RFrag wc isRet scope rest →
      RFrag wc isRet scope (.expr (.assign (.ident x) e) :: rest)
  | ifElse (isRet : Bool) (scope : List String) (cnd : Expr) (A B rest : List Stmt) :
      CfgFrag wc scope cnd → BodyFrag wc scope A → BodyFrag wc scope B → RFrag wc isRet scope rest →
      RFrag wc isRet scope (.if_ cnd (.block A) (some (.block B)) :: rest)
  | if1 (isRet : Bool) (scope : List String) (cnd : Expr) (A rest : List Stmt) :
      CfgFrag wc scope cnd → BodyFrag wc scope A → RFrag wc isRet scope rest →
      RFrag wc isRet scope (.if_ cnd (.block A) none :: rest)
  | ifRet (isRet : Bool) (scope : List String) (cnd : Expr) (T rest : List Stmt) :
      CfgFrag wc scope cnd → IFrag wc true scope T → RFrag wc isRet scope rest →
      RFrag wc isRet scope (.if_ cnd (.block T) none :: rest)
  | ifRetElse (isRet : Bool) (scope : List String) (cnd : Expr) (T B rest : List Stmt) :
      CfgFrag wc scope cnd → IFrag wc true scope T → BodyFrag wc scope B → RFrag wc isRet scope rest →
      RFrag wc isRet scope (.if_ cnd (.block T) (some (.block B)) :: rest)
  | ifElseRet (isRet : Bool) (scope : List String) (cnd : Expr) (A T rest : List Stmt) :
      CfgFrag wc scope cnd → BodyFrag wc scope A → IFrag wc true scope T → RFrag wc isRet scope rest →
      RFrag wc isRet scope (.if_ cnd (.block A) (some (.block T)) :: rest)
  | ifRetRet (isRet : Bool) (scope : List String) (cnd : Expr) (T1 T2 rest : List Stmt) :
      CfgFrag wc scope cnd → IFrag wc true scope T1 → IFrag wc true scope T2 → RFrag wc isRet scope rest →
      RFrag wc isRet scope (.if_ cnd (.block T1) (some (.block T2)) :: rest)

theorem iFrag_rFrag {wc : Ctx} {isRet : Bool} {scope : List String} {stmts : List Stmt}
    (h : IFrag wc isRet scope stmts) : RFrag wc isRet scope stmts := by
  induction h with
  | expr scope e he => exact .expr scope e he
  | ret scope e he => exact .ret scope e he
  | decl isRet scope kind x e rest he _ ih => exact .decl isRet scope kind x e rest he ih
  | assign isRet scope x e rest hx he _ ih => exact .assign isRet scope x e rest hx he ih
  | ifElse isRet scope cnd A B rest hc hA hB _ ih => exact .ifElse isRet scope cnd A B rest hc hA hB ih
  | if1 isRet scope cnd A rest hc hA _ ih => exact .if1 isRet scope cnd A rest hc hA ih

/-- THE INDUCTION over the statement lists with early returns, on the result of the run -/
theorem walk_r (wc : Ctx) (sc : QV.Spec.Sem.Ctx) (ic : ICtx) (hag : Agree wc sc ic) (isRet : Bool)
    (scope : List String) (stmts : List Stmt) (hf : RFrag wc isRet scope stmts) :
    ∀ (wl : QV.Model.Locals) (vars : List QV.Spec.Sem.Var), ScopeOf scope wl → ROk wc sc ic isRet wl vars stmts := by
  induction hf with
  | expr scope e he =>
    intro wl vars hsc
    exact rOk_of_sOk (walk_i wc sc ic hag false scope _ (.expr scope e he) wl vars hsc)
  | ret scope e he =>
    intro wl vars hsc
    exact rOk_of_sOk (walk_i wc sc ic hag true scope _ (.ret scope e he) wl vars hsc)
  | decl isRet scope kind x e rest he _ ih =>
    intro wl vars hsc
    exact r_decl wc sc ic isRet wl vars kind x e rest (walk_cfg wc sc ic hag scope wl vars hsc e he)
      (fun vars' h => sty_shape wc sc scope vars vars' h e he)
      (fun n sty => ih _ _ (scopeOf_insert hsc x (n, kind)))
  | assign isRet scope x e rest hx he _ ih =>
    intro wl vars hsc
    have := (hsc x).mp hx
    cases hg : wl.get? x with
    | none => rw [hg] at this; cases this
    | some nk =>
      exact r_assign wc sc ic isRet wl vars x nk.1 nk.2 e rest hg (walk_cfg wc sc ic hag scope wl vars hsc e he)
        (ih wl vars hsc)
  | ifElse isRet scope cnd A B rest hc hA hB _ ih =>
    intro wl vars hsc
    exact r_if_else wc sc ic isRet wl vars cnd A B rest (walk_cfg wc sc ic hag scope wl vars hsc cnd hc)
      (walk_body wc sc ic hag scope wl vars hsc A hA) (walk_body wc sc ic hag scope wl vars hsc B hB) (ih wl vars hsc)
  | if1 isRet scope cnd A rest hc hA _ ih =>
    intro wl vars hsc
    exact r_if1 wc sc ic isRet wl vars cnd A rest (walk_cfg wc sc ic hag scope wl vars hsc cnd hc)
      (walk_body wc sc ic hag scope wl vars hsc A hA) (ih wl vars hsc)
  | ifRet isRet scope cnd T rest hc hT _ ih =>
    intro wl vars hsc
    exact r_if_ret wc sc ic isRet wl vars cnd T rest (walk_cfg wc sc ic hag scope wl vars hsc cnd hc)
      (walk_i wc sc ic hag true scope T hT wl vars hsc) (ih wl vars hsc)
  | ifRetElse isRet scope cnd T B rest hc hT hB _ ih =>
    intro wl vars hsc
    exact r_if_ret_else wc sc ic isRet wl vars cnd T B rest (walk_cfg wc sc ic hag scope wl vars hsc cnd hc)
      (walk_i wc sc ic hag true scope T hT wl vars hsc) (walk_body wc sc ic hag scope wl vars hsc B hB) (ih wl vars hsc)
  | ifElseRet isRet scope cnd A T rest hc hA hT _ ih =>
    intro wl vars hsc
    exact r_if_else_ret wc sc ic isRet wl vars cnd A T rest (walk_cfg wc sc ic hag scope wl vars hsc cnd hc)
      (walk_body wc sc ic hag scope wl vars hsc A hA) (walk_i wc sc ic hag true scope T hT wl vars hsc) (ih wl vars hsc)
  | ifRetRet isRet scope cnd T1 T2 rest hc hT1 hT2 _ ih =>
    intro wl vars hsc
    exact r_if_ret_ret wc sc ic isRet wl vars cnd T1 T2 rest (walk_cfg wc sc ic hag scope wl vars hsc cnd hc)
      (walk_i wc sc ic hag true scope T1 hT1 wl vars hsc) (walk_i wc sc ic hag true scope T2 hT2 wl vars hsc)
      (ih wl vars hsc)

end QV.Proofs.SemCfgStmtRet
