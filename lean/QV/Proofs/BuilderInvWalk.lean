/-
  C06, the builder for ALL programs — part 3: the induction over the walk (typedexpr.rs as modelled in QV.Model.Walk).
  For every expression and every statement the walk accepts:
    * the builder only advances (blocks are added, closed blocks stay closed, the invariant `Inv` is kept), and
    * every block from the one that was current at the start up to (excluding) the one that is current at the end
      has been closed — by the construct that opened it.
-/
import QV.Proofs.BuilderInvVisit

set_option linter.unusedSimpArgs false
set_option linter.unusedVariables false

namespace QV.Proofs.BuilderInv
open QV.Model QV.Model.Cfg

/-- progress of a walk from builder `b` to `b'`: every block from the one current in `b` up to (excluding) the one
    current in `b'` is closed, except the pending branch points `P` (each of which has a successor block already) -/
structure GoodP (b b' : Builder) (P : List Nat) : Prop where
  adv : Adv b b'
  cov : ∀ j, len b - 1 ≤ j → j + 1 < len b' → Closed b' j ∨ j ∈ P
  pend : ∀ r ∈ P, r + 1 < len b'

theorem GoodP.of_same {b b' : Builder} (h : Same b b') : GoodP b b' [] :=
  ⟨h.adv, fun j h1 h2 => by rw [h.eq] at h2; omega, by simp⟩

theorem GoodP.refl (b : Builder) : GoodP b b [] := GoodP.of_same (Same.refl b)

theorem GoodP.trans {a b c : Builder} {P1 P2 : List Nat} (h1 : GoodP a b P1) (h2 : GoodP b c P2) : GoodP a c (P1 ++ P2) where
  adv := h1.adv.trans h2.adv
  cov := fun j hj1 hj2 => by
    by_cases hlt : j + 1 < len b
    · rcases h1.cov j hj1 hlt with h | h
      · exact Or.inl (h2.adv.closed j h)
      · exact Or.inr (List.mem_append.2 (Or.inl h))
    · rcases h2.cov j (by omega) hj2 with h | h
      · exact Or.inl h
      · exact Or.inr (List.mem_append.2 (Or.inr h))
  pend := fun r hr => by
    rcases List.mem_append.1 hr with h | h
    · exact Nat.lt_of_lt_of_le (h1.pend r h) h2.adv.mono
    · exact h2.pend r h

theorem GoodP.mark (b : Builder) (hpos : 0 < len b) : GoodP b b.newBlock.2 [len b - 1] :=
  ⟨adv_newBlock b, fun j h1 h2 => by simp at h2; right; simp; omega, fun r hr => by simp at hr; subst hr; simp; omega⟩

/-- a control-flow visitor closes the pending branch points -/
theorem GoodP.close {a b b' : Builder} {P L : List Nat} (h : GoodP a b P) (hc : Ctl b b' L) (hs : ∀ r ∈ P, r ∈ L) : GoodP a b' [] where
  adv := h.adv.trans hc.adv
  cov := fun j h1 h2 => by
    rw [hc.eq] at h2
    rcases h.cov j h1 h2 with hx | hx
    · exact Or.inl (hc.adv.closed j hx)
    · exact Or.inl (hc.now j (hs j hx))
  pend := by simp

theorem GoodP.inv {b b' : Builder} {P : List Nat} (h : GoodP b b' P) (hi : Inv b) : Inv b' := h.adv.inv hi

/-! ### small steps -/

theorem markBranchPoint_good {s s' : WState} {l : Nat} (hi : Inv s.b) (h : run markBranchPoint s = (some l, s')) :
    l = len s.b - 1 ∧ GoodP s.b s'.b [l] := by
  unfold markBranchPoint at h
  obtain ⟨b, s1, h1, h2⟩ := bind_ok h
  simp at h1
  obtain ⟨rfl, rfl⟩ := h1
  simp only at h2
  obtain ⟨u, s2, h3, h4⟩ := bind_ok h2
  simp at h3 h4
  have hl : l = len s.b - 1 := by rw [← h4.1]; rfl
  rw [← h4.2, ← h3, hl]
  exact ⟨rfl, GoodP.mark _ hi.pos⟩

theorem consume_same {r : VisitResult} {s s' : WState} {a : Operand} (h : run (consume r) s = (some a, s'))
    (hs : ∀ a b', r = .ok (a, b') → Same s.b b') : GoodP s.b s'.b [] := by
  obtain ⟨b', h1, rfl⟩ := consume_ok h
  exact GoodP.of_same (hs a b' h1)

theorem checkConditionType_ok {a : Operand} {s s' : WState} (h : run (checkConditionType a) s = (some (), s')) : s' = s := by
  unfold checkConditionType at h
  split at h
  · simp at h; exact h.symm
  · simp at h

theorem processTypeAnnotation_ok {c : Ctx} {cs : List String} {s s' : WState} {k : TypeKind}
    (h : run (processTypeAnnotation c cs) s = (some k, s')) : s' = s := by
  unfold processTypeAnnotation at h
  split at h
  · simp at h; exact h.2.symm
  · simp at h

theorem processRef_ok {r : RefKind} {n : String} {s s' : WState} {i : Inter} (h : run (processRef r n) s = (some i, s')) : s' = s := by
  cases r <;> simp [processRef] at h <;> exact h.2.symm

theorem processIdentifier_ok {c : Ctx} {n : String} {s s' : WState} {i : Inter}
    (h : run (processIdentifier c n) s = (some i, s')) : s' = s := by
  unfold processIdentifier at h
  obtain ⟨ls, s1, h1, h2⟩ := bind_ok h
  simp at h1
  obtain ⟨rfl, rfl⟩ := h1
  split at h2
  · simp at h2; exact h2.2.symm
  · split at h2
    · exact processRef_ok h2
    · split at h2
      · simp at h2; exact h2.2.symm
      · simp at h2

theorem processItemProperty_ok {c : Ctx} {item : Operand} {n : String} {ik : ExprKind} {s s' : WState} {i : Inter}
    (h : run (processItemProperty c item n ik) s = (some i, s')) : s' = s := by
  unfold processItemProperty at h
  simp only at h
  repeat' split at h
  all_goals first
    | (simp at h; done)
    | (simp at h; exact h.2.symm)

theorem processNamespaceName_ok {k : NamespaceKind} {n : String} {s s' : WState} {i : Inter}
    (h : run (processNamespaceName k n) s = (some i, s')) : s' = s := by
  unfold processNamespaceName at h
  cases k <;> simp only at h <;> repeat' split at h
  all_goals first
    | (simp at h; done)
    | (simp at h; exact h.2.symm)

theorem processTypeMember_ok {c : Ctx} {t : NamedTy} {n : String} {s s' : WState} {i : Inter}
    (h : run (processTypeMember c t n) s = (some i, s')) : s' = s := by
  unfold processTypeMember at h
  split at h
  · exact processRef_ok h
  · simp at h

/-- turning what an expression denotes into a value: straight-line code only -/
theorem interToRvalue_good {i : Inter} {s s' : WState} {a : Operand} (h : run (interToRvalue i) s = (some a, s')) :
    GoodP s.b s'.b [] := by
  cases i with
  | item x => simp [interToRvalue] at h; rw [← h.2]; exact GoodP.refl _
  | «local» l k =>
    simp only [interToRvalue] at h
    obtain ⟨b, s1, h1, h2⟩ := bind_ok h
    simp at h1
    obtain ⟨rfl, rfl⟩ := h1
    exact consume_same h2 (fun a b' hr => visitLocalRef_same hr)
  | boundProperty it p rk =>
    simp only [interToRvalue] at h
    obtain ⟨b, s1, h1, h2⟩ := bind_ok h
    simp at h1
    obtain ⟨rfl, rfl⟩ := h1
    exact consume_same h2 (fun a b' hr => visitObjectProperty_same hr)
  | boundSubscript it ix k =>
    simp only [interToRvalue] at h
    obtain ⟨b, s1, h1, h2⟩ := bind_ok h
    simp at h1
    obtain ⟨rfl, rfl⟩ := h1
    exact consume_same h2 (fun a b' hr => visitObjectSubscript_same hr)
  | boundMethod it ms => simp [interToRvalue] at h
  | builtinFunction f => simp [interToRvalue] at h
  | builtinNamespace k => simp [interToRvalue] at h
  | type t => simp [interToRvalue] at h


/-! ### expressions -/

def ExprGood (c : Ctx) (e : Expr) : Prop :=
  ∀ s s' i, Inv s.b → run (walkExpr c e) s = (some i, s') → GoodP s.b s'.b []

def RvalGood (c : Ctx) (e : Expr) : Prop :=
  ∀ s s' a, Inv s.b → run (walkRvalue c e) s = (some a, s') → GoodP s.b s'.b []

def RvalsGood (c : Ctx) (es : List Expr) : Prop :=
  ∀ s s' as, Inv s.b → run (walkRvalues c es) s = (some as, s') → GoodP s.b s'.b []

theorem rvalue_of_expr {c : Ctx} {e : Expr} (he : ExprGood c e) : RvalGood c e := by
  intro s s' a hinv h
  simp only [walkRvalue] at h
  obtain ⟨i, s1, h1, h2⟩ := bind_ok h
  have g1 := he s s1 i hinv h1
  have g2 := interToRvalue_good h2
  simpa using g1.trans g2

/-- `getB` followed by a `consume` of a straight-line visitor and a `pure` -/
theorem visit_step {α} {s s' : WState} {f : Builder → VisitResult} {k : Operand → α} {r : α}
    (h : run (do let b ← getB; let a ← consume (f b); pure (k a)) s = (some r, s'))
    (hs : ∀ a b', f s.b = .ok (a, b') → Same s.b b') : GoodP s.b s'.b [] := by
  obtain ⟨b, s1, h1, h2⟩ := bind_ok h
  simp at h1
  obtain ⟨rfl, rfl⟩ := h1
  obtain ⟨a, s2, h3, h4⟩ := bind_ok h2
  simp at h4
  rw [← h4.2]
  exact consume_same h3 hs

theorem goodP_setB (s0 : WState) (b1 b : Builder) (P : List Nat) (h : GoodP b1 b P) :
    GoodP b1 ({ b := b, diags := s0.diags, locals := s0.locals, userUninit := s0.userUninit } : WState).b P := h

theorem t0 {a b : Builder} (h : GoodP a b ([] ++ [])) : GoodP a b [] := by simpa using h

mutual

theorem good_expr (c : Ctx) : (e : Expr) → ExprGood c e
  | .ident n => by
    intro s s' i hinv h
    simp only [walkExpr] at h
    rw [processIdentifier_ok h]; exact GoodP.refl _
  | .this => by
    intro s s' i hinv h
    simp only [walkExpr] at h
    split at h <;> simp at h
    rw [← h.2]; exact GoodP.refl _
  | .integer v => by
    intro s s' i hinv h
    simp only [walkExpr] at h
    exact visit_step h (fun a b' hr => visitInteger_same hr)
  | .float v => by
    intro s s' i hinv h
    simp [walkExpr] at h
    rw [← h.2]; exact GoodP.refl _
  | .string v => by
    intro s s' i hinv h
    simp [walkExpr] at h
    rw [← h.2]; exact GoodP.refl _
  | .bool v => by
    intro s s' i hinv h
    simp [walkExpr] at h
    rw [← h.2]; exact GoodP.refl _
  | .null => by
    intro s s' i hinv h
    simp [walkExpr] at h
    rw [← h.2]; exact GoodP.refl _
  | .function => by
    intro s s' i hinv h
    simp [walkExpr] at h
  | .array es => by
    intro s s' i hinv h
    simp only [walkExpr] at h
    obtain ⟨els, s1, h1, h2⟩ := bind_ok h
    have g1 := good_rvalues c es s s1 els hinv h1
    have g2 := visit_step h2 (fun a b' hr => visitArray_same hr)
    exact t0 (g1.trans g2)
  | .member o n => by
    intro s s' i hinv h
    simp only [walkExpr] at h
    obtain ⟨x, s1, h1, h2⟩ := bind_ok h
    have g1 := good_expr c o s s1 x hinv h1
    cases x with
    | item it => simp only at h2; rw [processItemProperty_ok h2]; exact g1
    | «local» l k =>
      simp only at h2
      obtain ⟨b, s2, h3, h4⟩ := bind_ok h2
      simp at h3
      obtain ⟨rfl, rfl⟩ := h3
      obtain ⟨it, s3, h5, h6⟩ := bind_ok h4
      have g2 := consume_same h5 (fun a b' hr => visitLocalRef_same hr)
      rw [processItemProperty_ok h6]
      exact t0 (g1.trans g2)
    | boundProperty it p rk =>
      simp only at h2
      obtain ⟨b, s2, h3, h4⟩ := bind_ok h2
      simp at h3
      obtain ⟨rfl, rfl⟩ := h3
      obtain ⟨ov, s3, h5, h6⟩ := bind_ok h4
      have g2 := consume_same h5 (fun a b' hr => visitObjectProperty_same hr)
      rw [processItemProperty_ok h6]
      exact t0 (g1.trans g2)
    | boundSubscript it ix k =>
      simp only at h2
      obtain ⟨b, s2, h3, h4⟩ := bind_ok h2
      simp at h3
      obtain ⟨rfl, rfl⟩ := h3
      obtain ⟨ov, s3, h5, h6⟩ := bind_ok h4
      have g2 := consume_same h5 (fun a b' hr => visitObjectSubscript_same hr)
      rw [processItemProperty_ok h6]
      exact t0 (g1.trans g2)
    | boundMethod it ms => simp at h2
    | builtinFunction f => simp at h2
    | builtinNamespace k => simp only at h2; rw [processNamespaceName_ok h2]; exact g1
    | type t => simp only at h2; rw [processTypeMember_ok h2]; exact g1
  | .subscript o ix => by
    intro s s' i hinv h
    simp only [walkExpr] at h
    obtain ⟨ok, s2, hA, hB⟩ := bind_ok h
    have gobj : GoodP s.b s2.b [] := by
      obtain ⟨x, s1, h1, h2⟩ := bind_ok hA
      have g1 := good_expr c o s s1 x hinv h1
      cases x with
      | item it => simp at h2; rw [← h2.2]; exact g1
      | «local» l k =>
        simp only at h2
        obtain ⟨b, s3, h3, h4⟩ := bind_ok h2
        simp at h3
        obtain ⟨rfl, rfl⟩ := h3
        obtain ⟨it, s4, h5, h6⟩ := bind_ok h4
        have g2 := consume_same h5 (fun a b' hr => visitLocalRef_same hr)
        simp at h6
        rw [← h6.2]
        exact t0 (g1.trans g2)
      | boundProperty it p rk =>
        simp only at h2
        obtain ⟨b, s3, h3, h4⟩ := bind_ok h2
        simp at h3
        obtain ⟨rfl, rfl⟩ := h3
        obtain ⟨it', s4, h5, h6⟩ := bind_ok h4
        have g2 := consume_same h5 (fun a b' hr => visitObjectProperty_same hr)
        simp at h6
        rw [← h6.2]
        exact t0 (g1.trans g2)
      | boundSubscript it jx k =>
        simp only at h2
        obtain ⟨b, s3, h3, h4⟩ := bind_ok h2
        simp at h3
        obtain ⟨rfl, rfl⟩ := h3
        obtain ⟨it', s4, h5, h6⟩ := bind_ok h4
        have g2 := consume_same h5 (fun a b' hr => visitObjectSubscript_same hr)
        simp at h6
        rw [← h6.2]
        exact t0 (g1.trans g2)
      | boundMethod it ms => simp at h2
      | builtinFunction f => simp at h2
      | builtinNamespace k => simp at h2
      | type t => simp at h2
    obtain ⟨index, s3, h8, h9⟩ := bind_ok hB
    have g3 := rvalue_of_expr (good_expr c ix) s2 s3 index (gobj.inv hinv) h8
    simp at h9
    rw [← h9.2]
    exact t0 (gobj.trans g3)
  | .call f args => by
    intro s s' i hinv h
    simp only [walkExpr] at h
    obtain ⟨argv, s1, h1, h2⟩ := bind_ok h
    have g1 := good_rvalues c args s s1 argv hinv h1
    obtain ⟨x, s2, h3, h4⟩ := bind_ok h2
    have g2 := good_expr c f s1 s2 x (g1.inv hinv) h3
    have g12 := t0 (g1.trans g2)
    cases x with
    | boundMethod it ms =>
      simp only at h4
      exact t0 (g12.trans (visit_step h4 (fun a b' hr => visitObjectMethodCall_same hr)))
    | builtinFunction bf =>
      simp only at h4
      exact t0 (g12.trans (visit_step h4 (fun a b' hr => visitBuiltinCall_same hr)))
    | item it => simp at h4
    | «local» l k => simp at h4
    | boundProperty it p rk => simp at h4
    | boundSubscript it jx k => simp at h4
    | builtinNamespace k => simp at h4
    | type t => simp at h4
  | .assign l r => by
    intro s s' i hinv h
    simp only [walkExpr] at h
    obtain ⟨x, s1, h0, h2⟩ := bind_ok h
    have g1 := good_expr c l s s1 x hinv h0
    obtain ⟨rv, s2, h3, h4⟩ := bind_ok h2
    have g2 := rvalue_of_expr (good_expr c r) s1 s2 rv (g1.inv hinv) h3
    have g12 := t0 (g1.trans g2)
    cases x with
    | «local» lc k =>
      cases k with
      | const_ => simp at h4
      | let_ =>
        simp only at h4
        exact t0 (g12.trans (visit_step h4 (fun a b' hr => visitLocalAssignment_same hr)))
    | boundProperty it p rk =>
      simp only at h4
      split at h4
      · simp at h4
      · exact t0 (g12.trans (visit_step h4 (fun a b' hr => visitObjectPropertyAssignment_same hr)))
    | boundSubscript it jx k =>
      simp only at h4
      split at h4
      · exact t0 (g12.trans (visit_step h4 (fun a b' hr => visitObjectSubscriptAssignment_same hr)))
      · simp at h4
    | item it => simp at h4
    | boundMethod it ms => simp at h4
    | builtinFunction f => simp at h4
    | builtinNamespace k => simp at h4
    | type t => simp at h4
  | .unary tok a => by
    intro s s' i hinv h
    simp only [walkExpr] at h
    obtain ⟨arg, s1, h1, h2⟩ := bind_ok h
    have g1 := rvalue_of_expr (good_expr c a) s s1 arg hinv h1
    split at h2
    · simp at h2
    · exact t0 (g1.trans (visit_step h2 (fun a b' hr => visitUnaryExpression_same hr)))
  | .binary tok l r => by
    intro s s' i hinv h
    simp only [walkExpr] at h
    cases hop : tok.toOp with
    | none => simp [hop] at h
    | some op =>
      by_cases hlog : ∃ lo, op = .logical lo
      · obtain ⟨lo, rfl⟩ := hlog
        simp only [hop] at h
        obtain ⟨left, s1, h1, h2⟩ := bind_ok h
        have g1 := rvalue_of_expr (good_expr c l) s s1 left hinv h1
        obtain ⟨ll, s2, h3, h4⟩ := bind_ok h2
        obtain ⟨hll, m1⟩ := markBranchPoint_good (g1.inv hinv) h3
        have g12 := g1.trans m1
        obtain ⟨right, s3, h5, h6⟩ := bind_ok h4
        have g3 := rvalue_of_expr (good_expr c r) s2 s3 right (g12.inv hinv) h5
        obtain ⟨rl, s4, h7, h8⟩ := bind_ok h6
        obtain ⟨hrl, m2⟩ := markBranchPoint_good ((g12.trans g3).inv hinv) h7
        have g4 := (g12.trans g3).trans m2
        obtain ⟨u1, s5, h9, h10⟩ := bind_ok h8
        rw [checkConditionType_ok h9] at h10
        obtain ⟨u2, s6, h11, h12⟩ := bind_ok h10
        rw [checkConditionType_ok h11] at h12
        obtain ⟨bb, s7, h13, h14⟩ := bind_ok h12
        simp at h13
        obtain ⟨rfl, rfl⟩ := h13
        obtain ⟨u3, s8, h15, h16⟩ := bind_ok h14
        simp at h15 h16
        have hc := visitBinaryLogicalExpression_ctl s4.b lo left right ll rl (g4.pend ll (by simp)) (g4.pend rl (by simp))
        have key : GoodP s.b (visitBinaryLogicalExpression s4.b lo left ll right rl).2 [] := g4.close hc (by simp)
        rw [← h16.2, ← h15]
        exact goodP_setB _ _ _ _ key
      · have hlog' : ∀ lo, op ≠ .logical lo := fun lo hx => hlog ⟨lo, hx⟩
        have hsplit : run (do
            let left ← walkRvalue c l
            let right ← walkRvalue c r
            return .item (← consume (visitBinaryExpression c.F c.env (← getB) op left right))) s = (some i, s') := by
          cases op with
          | logical lo => exact absurd rfl (hlog' lo)
          | _ => simpa only [hop] using h
        obtain ⟨left, s1, h1, h2⟩ := bind_ok hsplit
        have g1 := rvalue_of_expr (good_expr c l) s s1 left hinv h1
        obtain ⟨right, s2, h3, h4⟩ := bind_ok h2
        have g2 := rvalue_of_expr (good_expr c r) s1 s2 right (g1.inv hinv) h3
        exact t0 ((t0 (g1.trans g2)).trans (visit_step h4 (fun a b' hr => visitBinaryExpression_same hr)))
  | .as_ v ty => by
    intro s s' i hinv h
    simp only [walkExpr] at h
    obtain ⟨val, s1, h1, h2⟩ := bind_ok h
    have g1 := rvalue_of_expr (good_expr c v) s s1 val hinv h1
    obtain ⟨k, s2, h3, h4⟩ := bind_ok h2
    have := processTypeAnnotation_ok h3
    subst this
    exact t0 (g1.trans (visit_step h4 (fun a b' hr => visitAsExpression_same hr)))
  | .ternary cnd a b => by
    intro s s' i hinv h
    simp only [walkExpr] at h
    obtain ⟨cv, s1, h1, h2⟩ := bind_ok h
    have g1 := rvalue_of_expr (good_expr c cnd) s s1 cv hinv h1
    obtain ⟨cl, s2, h3, h4⟩ := bind_ok h2
    obtain ⟨_, m1⟩ := markBranchPoint_good (g1.inv hinv) h3
    have g2 := g1.trans m1
    obtain ⟨av, s3, h5, h6⟩ := bind_ok h4
    have g3 := g2.trans (rvalue_of_expr (good_expr c a) s2 s3 av (g2.inv hinv) h5)
    obtain ⟨al, s4, h7, h8⟩ := bind_ok h6
    obtain ⟨_, m2⟩ := markBranchPoint_good (g3.inv hinv) h7
    have g4 := g3.trans m2
    obtain ⟨bv, s5, h9, h10⟩ := bind_ok h8
    have g5 := g4.trans (rvalue_of_expr (good_expr c b) s4 s5 bv (g4.inv hinv) h9)
    obtain ⟨bl, s6, h11, h12⟩ := bind_ok h10
    obtain ⟨_, m3⟩ := markBranchPoint_good (g5.inv hinv) h11
    have g6 := g5.trans m3
    obtain ⟨u1, s7, h13, h14⟩ := bind_ok h12
    rw [checkConditionType_ok h13] at h14
    obtain ⟨bb, s8, h15, h16⟩ := bind_ok h14
    simp at h15
    obtain ⟨rfl, rfl⟩ := h15
    obtain ⟨x, s9, h17, h18⟩ := bind_ok h16
    simp at h18
    rw [← h18.2]
    obtain ⟨b', h19, rfl⟩ := consume_ok h17
    have hc := visitTernaryExpression_ctl (g6.pend cl (by simp)) (g6.pend al (by simp)) (g6.pend bl (by simp)) h19
    exact g6.close hc (by simp)

theorem good_rvalues (c : Ctx) : (es : List Expr) → RvalsGood c es
  | [] => by
    intro s s' as hinv h
    simp [walkRvalues] at h
    rw [← h.2]; exact GoodP.refl _
  | e :: es => by
    intro s s' as hinv h
    simp only [walkRvalues] at h
    obtain ⟨a, s1, h1, h2⟩ := bind_ok h
    have g1 := rvalue_of_expr (good_expr c e) s s1 a hinv h1
    obtain ⟨rest, s2, h3, h4⟩ := bind_ok h2
    have g2 := good_rvalues c es s1 s2 rest (g1.inv hinv) h3
    simp at h4
    rw [← h4.2]
    exact t0 (g1.trans g2)

end

end QV.Proofs.BuilderInv
