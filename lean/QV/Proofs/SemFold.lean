/-
  Helper lemmas for QV.Props.C01 (re-stated there): folding of integer constants agrees with the reference semantics,
  `unop` keeps typed values typed, `finalize_completion_values` on a start block with a completion value, the
  reference semantics of `o.p`.
-/
import QV.Proofs.SemVisit
import QV.Props.C03

namespace QV.Proofs.SemFold
open QV.Model QV.Model.IrSem QV.Proofs.SemIr QV.Proofs.SemVisit
open QV.Spec.Sem (Val World Host Ev Ty STy coerceTo binop unop)

theorem tokOf_toOp (op : BinaryOp) : (QV.Spec.Sem.tokOf op).toOp = some op := by
  cases op with
  | arith o => cases o <;> rfl
  | bitwise o => cases o <;> rfl
  | shift o => cases o <;> rfl
  | logical o => cases o <;> rfl
  | cmp o => cases o <;> rfl

theorem binop_cint (F : FloatOps) (op : BinaryOp) (hlog : ∀ lop, op ≠ .logical lop) (a c : Int) :
    binop F op (.cint a) (.cint c) = QV.Spec.Sem.constBinary F op a c := by
  cases op with
  | logical lop => exact absurd rfl (hlog lop)
  | arith o => simp [binop, QV.Spec.Sem.unify]
  | bitwise o => simp [binop, QV.Spec.Sem.unify]
  | shift o => simp [binop]
  | cmp o => simp [binop, QV.Spec.Sem.unify]

/-- folding of a binary operator on integer constants: no code is emitted and the operand produced denotes the
    value the reference semantics gives to the operator application -/
theorem fold_agrees_spec (ic : ICtx) (L : IrSem.Locals) (F : FloatOps) (env : Env) (b : Builder) (op : BinaryOp)
    (hlog : ∀ lop, op ≠ .logical lop) (a c : Int) (ha : QV.Spec.ConstSem.representable a = true)
    (res : Operand) (b' : Builder)
    (h : visitBinaryExpression F env b op (.const (.integer a)) (.const (.integer c)) = .ok (res, b')) :
    b' = b ∧ ∃ v, evalOperand ic L res = some v ∧ binop F op (.cint a) (.cint c) = some v := by
  obtain ⟨hb, cst, hres, _, hval⟩ :=
    QV.Props.C03.fold_binary_sound F env b (QV.Spec.Sem.tokOf op) op (tokOf_toOp op) hlog (.integer a) (.integer c) ha res b' h
  refine ⟨hb, ?_⟩
  rw [binop_cint F op hlog]
  subst hres
  simp only [QV.Proofs.ConstFold.valOf] at hval
  unfold QV.Spec.Sem.constBinary
  rw [hval]
  cases cst with
  | integer v => simp [evalOperand]
  | bool v => simp [evalOperand]
  | _ =>
    exfalso
    cases op with
    | logical lop => exact absurd rfl (hlog lop)
    | arith o =>
      cases o <;> simp [QV.Spec.Sem.tokOf, QV.Spec.Sem.tokOfArith, QV.Spec.ConstSem.binary, QV.Spec.ConstSem.binInt,
        QV.Spec.ConstSem.intRes] at hval <;> (repeat' split at hval) <;> simp_all
    | bitwise o =>
      cases o <;> simp [QV.Spec.Sem.tokOf, QV.Spec.Sem.tokOfBit, QV.Spec.ConstSem.binary, QV.Spec.ConstSem.binInt] at hval
    | shift o =>
      cases o <;> simp [QV.Spec.Sem.tokOf, QV.Spec.Sem.tokOfShift, QV.Spec.ConstSem.binary, QV.Spec.ConstSem.binInt,
        QV.Spec.ConstSem.intRes] at hval <;> (repeat' split at hval) <;> simp_all
    | cmp o =>
      cases o <;> simp [QV.Spec.Sem.tokOf, QV.Spec.Sem.tokOfCmp, QV.Spec.ConstSem.binary, QV.Spec.ConstSem.binInt,
        QV.Spec.ConstSem.cmpRes, QV.Spec.ConstSem.isCmp] at hval

/-- the same for unary operators on an integer constant -/
theorem fold_unary_agrees_spec (ic : ICtx) (L : IrSem.Locals) (F : FloatOps) (b : Builder) (op : UnaryOp) (a : Int)
    (ha : QV.Spec.ConstSem.representable a = true) (res : Operand) (b' : Builder)
    (h : visitUnaryExpression F b op (.const (.integer a)) = .ok (res, b')) :
    b' = b ∧ ∃ v, evalOperand ic L res = some v ∧ unop F op (.cint a) = some v := by
  cases op with
  | plus =>
    simp [visitUnaryExpression, evalUnaryArith] at h
    obtain ⟨rfl, rfl⟩ := h
    exact ⟨rfl, _, rfl, rfl⟩
  | minus =>
    simp only [visitUnaryExpression, evalUnaryArith] at h
    rcases QV.Proofs.ConstFold.checked_cases (-a) with ⟨hr, hc, _⟩ | ⟨hr, hc, _⟩
    · simp [hc] at h
      obtain ⟨rfl, rfl⟩ := h
      exact ⟨rfl, _, rfl, by simp [unop, hr]⟩
    · simp [hc] at h
  | bitNot =>
    simp [visitUnaryExpression, evalUnaryBitwise] at h
    obtain ⟨rfl, rfl⟩ := h
    exact ⟨rfl, _, rfl, rfl⟩
  | logNot => simp [visitUnaryExpression, evalUnaryLogical] at h

theorem unop_not_cint (F : FloatOps) (op : UnaryOp) (a v : Val) (ha : isCint a = false) (h : unop F op a = some v) :
    isCint v = false := by
  cases op <;> cases a <;> simp_all [unop, isCint, QV.Spec.Sem.mkUintWrap] <;>
    (first | (subst h; rfl) | (have := mkInt_eq h; subst this; rfl))

/-- `finalize_completion_values` when the start block has a completion value (the program is an expression statement,
    or ends in one in its last block): the value becomes `return value`, nothing else changes -/
theorem return_of_completion (code : CodeBody) (startRef : Nat) (start : BasicBlock) (a : Operand)
    (hb : code.blocks[startRef]? = some start) (ht : start.terminator = none) (hc : start.completionValue = some a) :
    finalizeCompletionValues code startRef =
      ({ code with blocks := code.blocks.set startRef { start with completionValue := none, terminator := some (.ret a) } },
       none) := by
  simp [finalizeCompletionValues, hb, ht, hc, setBlock]

/-- the reference semantics of `o.p` -/
theorem spec_member_ident (c : QV.Spec.Sem.Ctx) (o p : String) (s : QV.Spec.Sem.St) :
    QV.Spec.Sem.evalExpr c (.member (.ident o) p) s =
      match QV.Spec.Sem.resolveIdent c o s with
      | some r => (match QV.Spec.Sem.memberRef c r p s with | some (.val v) => some (v, s) | _ => none)
      | none => none := by
  rw [QV.Spec.Sem.evalExpr.eq_def]
  simp only
  rw [QV.Spec.Sem.evalRef.eq_def]
  simp only
  cases QV.Spec.Sem.resolveIdent c o s <;> rfl

end QV.Proofs.SemFold
