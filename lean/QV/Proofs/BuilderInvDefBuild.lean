/-
  C06, the builder for ALL programs — define-before-use, part 6: whole programs, `finalize_completion_values`, and the
  theorem about `tir::build` / `tir::build_callback`.
-/
import QV.Proofs.BuilderInvDefStmt
import QV.Proofs.BuilderInvBuild

set_option linter.unusedSimpArgs false
set_option linter.unusedVariables false

namespace QV.Proofs.BuilderInv
open QV.Model QV.Model.Cfg QV.Proofs.Cfg

/-! ### whole programs -/

theorem d_params (c : Ctx) : (ps : List (String × Option (List String))) → ∀ n s s' m ins, DPre s ins →
    np s.b ≤ s.b.code.locals.length →
    run (walkCallbackFunction.params c n ps) s = (some m, s') → SStep s ins s' ins ∧ np s'.b ≤ s'.b.code.locals.length
  | [], n, s, s', m, ins, hp, hnp, h => by
    simp [walkCallbackFunction.params] at h
    rw [← h.2]; exact ⟨SStep.refl hp, hnp⟩
  | (name, ty) :: rest, n, s, s', m, ins, hp, hnp, h => by
    simp only [walkCallbackFunction.params] at h
    obtain ⟨ls, s1, h1, h2⟩ := bind_ok h
    simp at h1
    obtain ⟨hls, hs1⟩ := h1
    subst hs1
    have diag : ∀ (msg : String) (k : Nat), run (do pushDiag msg; walkCallbackFunction.params c k rest) s = (some m, s') →
        SStep s ins s' ins ∧ np s'.b ≤ s'.b.code.locals.length := by
      intro msg k hk
      obtain ⟨u, s2, h3, h4⟩ := bind_ok hk
      rw [run_pushDiag] at h3
      simp at h3
      have hp2 : DPre s2 ins := by rw [← h3]; exact ⟨hp.inv, hp.d, hp.loc⟩
      obtain ⟨st, hn⟩ := d_params c rest k s2 s' m ins hp2 (by rw [← h3]; exact hnp) h4
      refine ⟨⟨st.pre, ?_, ?_, ?_⟩, hn⟩
      · have := st.le; rw [← h3] at this; exact this
      · have := st.m; rw [← h3] at this; exact this
      · have := st.uu; rw [← h3] at this; exact this
    split at h2
    · exact diag _ _ h2
    · cases ty with
      | none =>
        simp only at h2
        exact diag _ _ h2
      | some t =>
        simp only at h2
        obtain ⟨k, s2, h3, h4⟩ := bind_ok h2
        rw [processTypeAnnotation_ok h3] at h4
        obtain ⟨b0, s3, h5, h6⟩ := bind_ok h4
        simp at h5
        obtain ⟨hb0, hs3⟩ := h5
        subst hs3
        subst hb0
        obtain ⟨l, s4, h7, h8⟩ := bind_ok h6
        obtain ⟨b1, h9, hs4⟩ := consumeLocal_ok h7
        obtain ⟨hds, hlnp, hnp1⟩ := visitFunctionParameter_d (U := UU s) (ins := ins) h9 hp.d hnp
        have hsame := visitFunctionParameter_same h9
        obtain ⟨ls2, s5, h10, h11⟩ := bind_ok h8
        simp at h10
        obtain ⟨hls2, hs5⟩ := h10
        subst hs5
        obtain ⟨u, s6, h12, h13⟩ := bind_ok h11
        simp at h12
        have hb6 : s6.b = b1 := by rw [← h12, hs4]
        have hl6 : s6.locals = ls2.insert name (l, .let_) := by rw [← h12]
        have hu6 : s6.userUninit = s.userUninit := by rw [← h12, hs4]
        have hls2' : ls2 = s.locals := by rw [← hls2, hs4]
        have hp6 : DPre s6 ins := by
          refine ⟨by rw [hb6]; exact hsame.adv.inv hp.inv, by rw [hb6, UU_eq hu6]; exact hds.d, fun e he => ?_⟩
          rw [hl6, hls2'] at he
          rw [hb6, UU_eq hu6]
          rcases mem_insert he with h | h
          · right
            rw [h]
            right; right
            exact hlnp
          · rcases hp.loc e h with h' | h'
            · exact Or.inl h'
            · exact Or.inr (hds.cur h')
        have st6 : SStep s ins s6 ins :=
          ⟨hp6, by rw [hb6]; exact LeB.of_ds hds, fun x hx => by rw [hb6]; exact hds.cur hx, fun x hx => by rw [UU_eq hu6]; exact hx⟩
        obtain ⟨st, hn⟩ := d_params c rest (n + 1) s6 s' m ins hp6 (by rw [hb6]; exact hnp1) h13
        exact ⟨st6.trans st, hn⟩

theorem d_program (c : Ctx) (callback : Bool) (p : Program) (s s' : WState) (ins : Ins) (hp : DPre s ins)
    (hnp : np s.b ≤ s.b.code.locals.length) (h : run (walkProgram c callback p) s = (some (), s')) :
    ∃ ins', SStep s ins s' ins' := by
  cases p with
  | stmt st =>
    simp only [walkProgram] at h
    exact d_stmt c none st s s' ins hp (by intro l hl; cases hl) h
  | function f =>
    simp only [walkProgram] at h
    cases callback with
    | false => simp at h
    | true =>
      simp only [if_true, walkCallbackFunction] at h
      split at h
      · simp at h
      · obtain ⟨u, s1, h1, h2⟩ := bind_ok h
        simp at h1
        have hp1 : DPre s1 ins := by
          rw [← h1]
          exact ⟨hp.inv, hp.d, fun e he => by simp at he⟩
        have st1 : SStep s ins s1 ins := by
          refine ⟨hp1, ?_, ?_, ?_⟩
          · rw [← h1]; exact LeB.refl _ _
          · rw [← h1]; exact fun x hx => hx
          · rw [← h1]; exact fun x hx => hx
        obtain ⟨n, s2, h3, h4⟩ := bind_ok h2
        obtain ⟨st2, hnp2⟩ := d_params c f.params 0 s1 s2 n ins hp1 (by rw [← h1]; exact hnp) h3
        split at h4
        · simp at h4
        · cases hb : f.body with
          | expr e =>
            simp only [hb] at h4
            have := expr_stmt_d c none e s2 s' ins st2.pre (by intro l hl; cases hl) (by simpa only [walkStmt] using h4)
            obtain ⟨ins', st'⟩ := this
            exact ⟨ins', (st1.trans st2).trans st'⟩
          | stmt st =>
            simp only [hb] at h4
            obtain ⟨ins', st'⟩ := d_stmt c none st s2 s' ins st2.pre (by intro l hl; cases hl) h4
            exact ⟨ins', (st1.trans st2).trans st'⟩

theorem stmtsOf_init (j : Nat) : stmtsOf ({} : Builder) j = [] := by
  unfold stmtsOf
  cases j with
  | zero => rfl
  | succ k => rfl

theorem complOf_init (j : Nat) : complOf ({} : Builder) j = none := by
  unfold complOf
  cases j with
  | zero => rfl
  | succ k => rfl

theorem dpre_init : DPre ({} : WState) (fun _ _ => False) := by
  refine ⟨inv_init, ⟨fun i => ?_, fun i t h => ?_, fun i a h => ?_⟩, fun e he => ?_⟩
  · show Cov _ (stmtsOf ({} : Builder) i) _
    rw [stmtsOf_init]; exact Cov.nil _ _
  · have : termOf ({} : Builder) i = none := termOf_init i
    rw [this] at h; cases h
  · have : complOf ({} : Builder) i = none := complOf_init i
    rw [this] at h; cases h
  · cases he

/-- the claim that comes out of the walk -/
theorem walk_cert (c : Ctx) (callback : Bool) (p : Program) (st : WState)
    (h : (walkProgram c callback p).run {} = (some (), st)) :
    ∃ ins : Ins, DInv (UU st) ins st.b ∧ ∀ x, ¬ ins 0 x := by
  obtain ⟨ins, ss⟩ := d_program c callback p {} st _ dpre_init (by simp [np]) h
  refine ⟨ins, ss.pre.d, fun x hx => ?_⟩
  have := ss.le.ext 0 (by simp [len])
  rw [this] at hx
  exact hx

/-! ### `finalize_completion_values` keeps the statements; a terminator it installs is the `return` of the block's
    completion value, a `return` without a value, or the marker -/

structure FinRel (old new : BasicBlock) : Prop where
  st : new.statements = old.statements
  cv : new.completionValue = old.completionValue ∨ new.completionValue = none
  tm : new.terminator = old.terminator ∨ (∃ a, old.completionValue = some a ∧ new.terminator = some (.ret a)) ∨
       new.terminator = some (.ret .void) ∨ new.terminator = some .unreachable

theorem FinRel.refl (b : BasicBlock) : FinRel b b := ⟨rfl, Or.inl rfl, Or.inl rfl⟩

theorem FinRel.trans {a b c : BasicBlock} (h1 : FinRel a b) (h2 : FinRel b c) : FinRel a c := by
  refine ⟨h2.st.trans h1.st, ?_, ?_⟩
  · rcases h2.cv with h | h
    · rw [h]; exact h1.cv
    · exact Or.inr h
  · rcases h2.tm with h | ⟨x, hx, h⟩ | h | h
    · rw [h]; exact h1.tm
    · rcases h1.cv with h' | h'
      · exact Or.inr (Or.inl ⟨x, by rw [← h']; exact hx, h⟩)
      · rw [h'] at hx; cases hx
    · exact Or.inr (Or.inr (Or.inl h))
    · exact Or.inr (Or.inr (Or.inr h))

def FinRelL (olds news : List BasicBlock) : Prop :=
  news.length = olds.length ∧ ∀ (j : Nat) (o : BasicBlock), olds[j]? = some o → ∃ n, news[j]? = some n ∧ FinRel o n

theorem FinRelL.refl (l : List BasicBlock) : FinRelL l l := ⟨rfl, fun j o h => ⟨o, h, FinRel.refl o⟩⟩

theorem FinRelL.trans {a b c : List BasicBlock} (h1 : FinRelL a b) (h2 : FinRelL b c) : FinRelL a c := by
  refine ⟨h2.1.trans h1.1, fun j o ho => ?_⟩
  obtain ⟨n, hn, r1⟩ := h1.2 j o ho
  obtain ⟨m, hm, r2⟩ := h2.2 j n hn
  exact ⟨m, hm, r1.trans r2⟩

theorem FinRelL.set {blocks : List BasicBlock} {i : Nat} {b nb : BasicBlock} (hb : blocks[i]? = some b) (hr : FinRel b nb) :
    FinRelL blocks (setBlock blocks i nb) := by
  have hi : i < blocks.length := (List.getElem?_eq_some_iff.1 hb).1
  refine ⟨by simp, fun j o ho => ?_⟩
  unfold setBlock
  by_cases hj : j = i
  · subst hj
    rw [hb] at ho
    cases ho
    exact ⟨nb, by simp [hi], hr⟩
  · exact ⟨o, by rw [List.getElem?_set_ne (Ne.symm hj)]; exact ho, FinRel.refl o⟩

theorem loop_rel (reachable : List Bool) : ∀ (fuel : Nat) (stack : List Nat) (incoming : List (List Nat))
    (blocks : List BasicBlock) (panic : Option String),
    FinRelL blocks (finalizeLoop reachable fuel stack incoming blocks panic).1
  | 0, stack, incoming, blocks, panic => by
    simp [finalizeLoop]; exact FinRelL.refl _
  | fuel + 1, stack, incoming, blocks, panic => by
    simp only [finalizeLoop]
    cases hs : stack.getLast? with
    | none => simp; exact FinRelL.refl _
    | some i =>
      simp only
      cases hb : blocks[i]? with
      | none => simp; exact FinRelL.refl _
      | some b =>
        simp only
        have step : ∀ (nb : BasicBlock) (st' : List Nat) (inc' : List (List Nat)) (p' : Option String), FinRel b nb →
            FinRelL blocks (finalizeLoop reachable fuel st' inc' (setBlock blocks i nb) p').1 :=
          fun nb st' inc' p' hr => (FinRelL.set hb hr).trans (loop_rel reachable fuel st' inc' _ p')
        cases hcv : b.completionValue with
        | some a => simp only; exact step _ _ _ _ ⟨rfl, Or.inr rfl, Or.inr (Or.inl ⟨a, hcv, rfl⟩)⟩
        | none =>
          simp only
          have hr : ∀ t, (t = Terminator.ret .void ∨ t = Terminator.unreachable) →
              FinRel b { statements := b.statements, completionValue := none, terminator := some t } := by
            intro t ht
            refine ⟨rfl, Or.inr rfl, ?_⟩
            rcases ht with rfl | rfl
            · exact Or.inr (Or.inr (Or.inl rfl))
            · exact Or.inr (Or.inr (Or.inr rfl))
          split
          · refine step _ _ _ _ (hr _ ?_)
            split
            · exact Or.inl rfl
            · exact Or.inr rfl
          · refine step _ _ _ _ (hr _ ?_)
            split
            · exact Or.inl rfl
            · exact Or.inr rfl

theorem finalize_rel (code : CodeBody) (startRef : Nat) :
    FinRelL code.blocks (finalizeCompletionValues code startRef).1.blocks ∧
      (finalizeCompletionValues code startRef).1.parameterCount = code.parameterCount := by
  unfold finalizeCompletionValues
  cases hb : code.blocks[startRef]? with
  | none => simp; exact FinRelL.refl _
  | some start =>
    simp only
    cases hcv : start.completionValue with
    | some a =>
      simp only
      exact ⟨FinRelL.set hb ⟨rfl, Or.inr rfl, Or.inr (Or.inl ⟨a, hcv, rfl⟩)⟩, by first | rfl | trivial⟩
    | none =>
      simp only
      exact ⟨loop_rel _ _ _ _ _ _, by first | rfl | trivial⟩

/-! ### the certificate of a finished body, and what it means for every path -/

structure DCert (U : Nat → Prop) (ins : Ins) (n : Nat) (blocks : List BasicBlock) : Prop where
  sc : ∀ i b, blocks[i]? = some b → Cov U b.statements (fun x => ins i x ∨ x < n)
  tc : ∀ i b t, blocks[i]? = some b → b.terminator = some t →
        (∀ x ∈ termReads t, ¬ U x → x ∈ defsOf b.statements ∨ ins i x ∨ x < n) ∧
        (∀ j ∈ successors (some t), ∀ x, ins j x → x ∈ defsOf b.statements ∨ ins i x ∨ x < n)

theorem dcert_of_rel {U : Nat → Prop} {ins : Ins} {b : Builder} {blocks : List BasicBlock} (hd : DInv U ins b)
    (hr : FinRelL b.code.blocks blocks) : DCert U ins (np b) blocks := by
  have old : ∀ (i : Nat) (n : BasicBlock), blocks[i]? = some n → ∃ o, b.code.blocks[i]? = some o ∧ FinRel o n := by
    intro i n hn
    have hi : i < blocks.length := (List.getElem?_eq_some_iff.1 hn).1
    have hi' : i < b.code.blocks.length := by rw [← hr.1]; exact hi
    obtain ⟨n', hn', rel⟩ := hr.2 i _ (List.getElem?_eq_getElem hi')
    rw [hn] at hn'
    cases hn'
    exact ⟨_, List.getElem?_eq_getElem hi', rel⟩
  refine ⟨fun i n hn => ?_, fun i n t hn ht => ?_⟩
  · obtain ⟨o, ho, rel⟩ := old i n hn
    have := hd.sc i
    unfold stmtsOf at this
    rw [ho] at this
    rw [rel.st]
    exact this
  · obtain ⟨o, ho, rel⟩ := old i n hn
    have hso : stmtsOf b i = o.statements := by unfold stmtsOf; rw [ho]; rfl
    have hout : ∀ x, Out ins b i x → x ∈ defsOf n.statements ∨ ins i x ∨ x < np b := by
      intro x hx
      unfold Out at hx
      rw [hso, ← rel.st] at hx
      exact hx
    rcases rel.tm with h | ⟨a, ha, h⟩ | h | h
    · have hto : termOf b i = some t := by unfold termOf; rw [ho]; simp; rw [← h]; exact ht
      obtain ⟨h1, h2⟩ := hd.tc i t hto
      exact ⟨fun x hx hu => hout x (h1 x hx hu), fun j hj x hx => hout x (h2 j hj x hx)⟩
    · rw [h] at ht
      cases ht
      have hco : complOf b i = some a := by unfold complOf; rw [ho]; exact ha
      exact ⟨fun x hx hu => hout x (hd.cc i a hco x (by simpa [termReads] using hx) hu), fun j hj => by simp [successors] at hj⟩
    · rw [h] at ht
      cases ht
      exact ⟨fun x hx => by simp [termReads, operandReads] at hx, fun j hj => by simp [successors] at hj⟩
    · rw [h] at ht
      cases ht
      exact ⟨fun x hx => by simp [termReads] at hx, fun j hj => by simp [successors] at hj⟩

theorem dcert_reaches {c : CodeBody} {U : Nat → Prop} {ins : Ins} (hc : DCert U ins c.parameterCount c.blocks)
    (h0 : ∀ x, ¬ ins 0 x) : ∀ {i : Nat} {A : List Nat}, Reaches c i A → ∀ x, ins i x ∨ x < c.parameterCount → x ∈ A := by
  intro i A hr
  induction hr with
  | entry =>
    intro x hx
    rcases hx with h | h
    · exact absurd h (h0 x)
    · simpa using h
  | @step i j A b _ hb hj ih =>
    intro x hx
    rw [List.mem_append]
    rcases hx with hx | hx
    · cases ht : b.terminator with
      | none => rw [ht] at hj; simp [successors] at hj
      | some t =>
        rw [ht] at hj
        rcases (hc.tc i b t hb ht).2 j hj x hx with h | h | h
        · exact Or.inl h
        · exact Or.inr (ih x (Or.inl h))
        · exact Or.inr (ih x (Or.inr h))
    · exact Or.inr (ih x (Or.inr hx))

/-- **(3) define before use, for every output of the builder and every path**: a read of a local that the user did
    not declare without initialiser is preceded, on the path, by an assignment (parameters are assigned on entry) -/
theorem build_defines_before_use (ctx : Ctx) (callback : Bool) (p : Program) (code : CodeBody)
    (h : (build ctx callback p).code = some code) :
    ∀ (i : Nat) (A : List Nat), Reaches code i A → ∀ b, code.blocks[i]? = some b →
      (∀ (k : Nat) (s : Statement), b.statements[k]? = some s →
        ∀ x ∈ stmtReads s, x ∉ (build ctx callback p).userUninit → x ∈ defsOf (b.statements.take k) ++ A) ∧
      (∀ t, b.terminator = some t →
        ∀ x ∈ termReads t, x ∉ (build ctx callback p).userUninit → x ∈ defsOf b.statements ++ A) := by
  unfold build at h ⊢
  generalize hrun : (walkProgram ctx callback p).run {} = res at h ⊢
  rcases res with ⟨r, st⟩
  cases r with
  | none => simp at h
  | some u =>
    simp only at h ⊢
    obtain ⟨ins, hd, h0⟩ := walk_cert ctx callback p st hrun
    obtain ⟨hrel, hnp⟩ := finalize_rel st.b.code st.b.currentRef
    generalize hfin : finalizeCompletionValues st.b.code st.b.currentRef = fin at h hrel hnp ⊢
    rcases fin with ⟨code', panic'⟩
    simp at h
    subst h
    simp only at hrel hnp
    have hc : DCert (UU st) ins code'.parameterCount code'.blocks := by
      rw [hnp]; exact dcert_of_rel hd hrel
    intro i A hr b hb
    have hA := dcert_reaches hc h0 hr
    refine ⟨fun k s hk x hx hu => ?_, fun t ht x hx hu => ?_⟩
    · rw [List.mem_append]
      rcases hc.sc i b hb k s hk x hx hu with h | h
      · exact Or.inl h
      · exact Or.inr (hA x h)
    · rw [List.mem_append]
      rcases (hc.tc i b t hb ht).1 x hx hu with h | h | h
      · exact Or.inl h
      · exact Or.inr (hA x (Or.inl h))
      · exact Or.inr (hA x (Or.inr h))

end QV.Proofs.BuilderInv
