/- Soundness of the CFG certificate checker (C06). Core Lean only. -/
import QV.Model.Cfg

namespace QV.Proofs.Cfg
open QV.Model QV.Model.Cfg

/-- `Reaches c i A`: some execution path from the entry arrives at the start of block `i` having assigned
    (at least) the locals `A` — parameters on entry, then the assignments of every block passed. -/
inductive Reaches (c : CodeBody) : Nat → List Nat → Prop where
  | entry : Reaches c 0 (List.range c.parameterCount)
  | step {i j : Nat} {A : List Nat} {b : BasicBlock} :
      Reaches c i A → c.blocks[i]? = some b → j ∈ successors b.terminator →
      Reaches c j (defsOf b.statements ++ A)

theorem blocksOk_get {n params : Nat} {reach : List Bool} {ins : List (List Nat)} :
    ∀ (blocks : List BasicBlock) (off : Nat), blocksOk n params reach ins off blocks = true →
      ∀ (k : Nat) (b : BasicBlock), blocks[k]? = some b → blockOk n params reach ins (off + k) b = true := by
  intro blocks
  induction blocks with
  | nil => intro off _ k b h; simp at h
  | cons x rest ih =>
    intro off h k b hk
    simp only [blocksOk, Bool.and_eq_true] at h
    cases k with
    | zero => simp at hk; subst hk; simpa using h.1
    | succ k =>
      simp at hk
      have := ih (off + 1) h.2 k b hk
      rw [show off + (k + 1) = off + 1 + k by omega]
      exact this

theorem subsetOf_mem {a b : List Nat} (h : subsetOf a b = true) : ∀ x ∈ a, x ∈ b := by
  intro x hx
  simp only [subsetOf, List.all_eq_true] at h
  simpa using h x hx

structure Cert (c : CodeBody) (reach : List Bool) (ins : List (List Nat)) : Prop where
  ok : checkCfg c reach ins = true

/-- the analysis facts hold along every path: a reached block is marked reachable, and everything the
    certificate claims to be assigned at its entry really has been assigned -/
theorem reaches_inv {c : CodeBody} {reach : List Bool} {ins : List (List Nat)} (h : checkCfg c reach ins = true) :
    ∀ {i : Nat} {A : List Nat}, Reaches c i A →
      reach.getD i false = true ∧ ∀ x ∈ ins.getD i [] ++ List.range c.parameterCount, x ∈ A := by
  simp only [checkCfg, Bool.and_eq_true, decide_eq_true_eq] at h
  obtain ⟨⟨⟨⟨_, h0⟩, hin0⟩, _⟩, hblocks⟩ := h
  intro i A hr
  induction hr with
  | entry =>
    refine ⟨h0, ?_⟩
    intro x hx
    have h00 : ins.getD 0 [] = [] := by simpa using hin0
    rw [h00] at hx
    simpa using hx
  | @step i j A b _ hb hj ih =>
    obtain ⟨hri, hsub⟩ := ih
    have hbo := blocksOk_get c.blocks 0 hblocks i b hb
    simp only [Nat.zero_add, blockOk, hri, if_true] at hbo
    cases ht : b.terminator with
    | none => simp [ht] at hbo
    | some t =>
      cases t with
      | unreachable => simp [ht] at hbo
      | br l =>
        simp only [ht, Bool.and_eq_true, List.all_eq_true] at hbo
        have hj' : j ∈ successors (some (Terminator.br l)) := by simpa [ht] using hj
        have := hbo.2 j hj'
        simp only [Bool.and_eq_true, decide_eq_true_eq] at this
        refine ⟨this.1.2, ?_⟩
        intro x hx
        simp only [List.mem_append] at hx
        rcases hx with hx | hx
        · have := subsetOf_mem this.2 x hx
          simp only [List.mem_append] at this ⊢
          rcases this with h | h
          · exact Or.inl h
          · exact Or.inr (hsub x (by simpa [List.mem_append] using h))
        · exact List.mem_append.mpr (Or.inr (hsub x (List.mem_append.mpr (Or.inr hx))))
      | brCond cnd x y =>
        simp only [ht, Bool.and_eq_true, List.all_eq_true] at hbo
        have hj' : j ∈ successors (some (Terminator.brCond cnd x y)) := by simpa [ht] using hj
        have := hbo.2 j hj'
        simp only [Bool.and_eq_true, decide_eq_true_eq] at this
        refine ⟨this.1.2, ?_⟩
        intro z hz
        simp only [List.mem_append] at hz
        rcases hz with hz | hz
        · have := subsetOf_mem this.2 z hz
          simp only [List.mem_append] at this ⊢
          rcases this with h | h
          · exact Or.inl h
          · exact Or.inr (hsub z (by simpa [List.mem_append] using h))
        · exact List.mem_append.mpr (Or.inr (hsub z (List.mem_append.mpr (Or.inr hz))))
      | ret a => simp [ht, successors] at hj

/-- reads covered w.r.t. a smaller known-set are covered w.r.t. a larger one -/
theorem stmtsOk_mono : ∀ (stmts : List Statement) (k1 k2 : List Nat), (∀ x ∈ k1, x ∈ k2) →
    stmtsOk stmts k1 = true → stmtsOk stmts k2 = true := by
  intro stmts
  induction stmts with
  | nil => intro _ _ _ _; rfl
  | cons s rest ih =>
    intro k1 k2 hsub h
    simp only [stmtsOk, Bool.and_eq_true, List.all_eq_true] at h ⊢
    refine ⟨fun x hx => ?_, ih _ _ ?_ h.2⟩
    · have := h.1 x hx
      simp only [List.contains_iff_mem] at this ⊢
      exact hsub x this
    · intro x hx
      simp only [List.mem_append] at hx ⊢
      rcases hx with hx | hx
      · exact Or.inl hx
      · exact Or.inr (hsub x hx)

/-- what `stmtsOk` means: the k-th statement reads only locals that are known or defined by earlier statements -/
theorem stmtsOk_reads : ∀ (stmts : List Statement) (known : List Nat), stmtsOk stmts known = true →
    ∀ (k : Nat) (s : Statement), stmts[k]? = some s →
      ∀ x ∈ stmtReads s, x ∈ defsOf (stmts.take k) ++ known := by
  intro stmts
  induction stmts with
  | nil => intro _ _ k s h; simp at h
  | cons s0 rest ih =>
    intro known h k s hk x hx
    simp only [stmtsOk, Bool.and_eq_true, List.all_eq_true] at h
    cases k with
    | zero =>
      simp at hk; subst hk
      have := h.1 x hx
      simpa [defsOf] using this
    | succ k =>
      simp at hk
      have := ih (stmtDef s0 ++ known) h.2 k s hk x hx
      simp only [List.take_succ_cons, defsOf, List.flatMap_cons, List.mem_append] at this ⊢
      rcases this with h1 | h1 | h1
      · exact Or.inl (Or.inr h1)
      · exact Or.inl (Or.inl h1)
      · exact Or.inr h1

theorem retsOk_get {reach : List Bool} :
    ∀ (blocks : List BasicBlock) (off : Nat), retsOk reach off blocks = true →
      ∀ (k : Nat) (b : BasicBlock), blocks[k]? = some b → reach.getD (off + k) false = true →
        b.terminator ≠ some (.ret .void) := by
  intro blocks
  induction blocks with
  | nil => intro off _ k b h; simp at h
  | cons x rest ih =>
    intro off h k b hk hr
    simp only [retsOk, Bool.and_eq_true] at h
    cases k with
    | zero =>
      simp at hk; subst hk
      simp only [Nat.add_zero] at hr
      have h1 := h.1
      simp only [hr, if_true] at h1
      intro he
      simp [he] at h1
    | succ k =>
      simp at hk
      rw [show off + (k + 1) = off + 1 + k by omega] at hr
      exact ih (off + 1) h.2 k b hk hr

end QV.Proofs.Cfg
