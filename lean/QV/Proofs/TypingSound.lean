/-
  C05 (b): soundness of the checker's model w.r.t. the specification — if the walk (QV.Model.Walk) accepts an
  expression then `Spec.Typing` types it, with the same type.
-/
import QV.Model.Walk
import QV.Proofs.TypingConst

set_option linter.unusedSimpArgs false

namespace QV.Proofs.TypingSound
open QV.Model QV.Spec.Typing QV.Proofs.TypingRules QV.Proofs.TypingConst

/-- running a walk computation on a state -/
def run {α} (m : W α) (s : WState) : Option α × WState := m s

@[simp] theorem run_pure {α} (a : α) (s : WState) : run (pure a : W α) s = (some a, s) := rfl

theorem run_bind {α β} (m : W α) (f : α → W β) (s : WState) :
    run (m >>= f) s = (match run m s with
      | (some a, s1) => run (f a) s1
      | (none, s1) => (none, s1)) := by
  show (m >>= f) s = _
  simp only [bind, OptionT.bind, OptionT.mk, StateT.bind, run]
  rcases h : m s with ⟨o, s1⟩
  cases o <;> simp [h] <;> rfl

@[simp] theorem run_err {α} (msg : String) (s : WState) :
    run (err msg : W α) s = (none, { s with diags := s.diags ++ [msg] }) := rfl

@[simp] theorem run_getB (s : WState) : run getB s = (some s.b, s) := rfl
@[simp] theorem run_setB (b : Builder) (s : WState) : run (setB b) s = (some (), { s with b := b }) := rfl
@[simp] theorem run_getLocals (s : WState) : run getLocals s = (some s.locals, s) := rfl


theorem bind_ok {α β} {m : W α} {f : α → W β} {s s' : WState} {r : β}
    (h : run (m >>= f) s = (some r, s')) : ∃ a s1, run m s = (some a, s1) ∧ run (f a) s1 = (some r, s') := by
  rw [run_bind] at h
  rcases hm : run m s with ⟨o, s1⟩
  rw [hm] at h
  cases o with
  | none => simp at h
  | some a => exact ⟨a, s1, rfl, h⟩

theorem consume_ok {r : VisitResult} {s s' : WState} {a : Operand} (h : run (consume r) s = (some a, s')) :
    ∃ b', r = .ok (a, b') ∧ s' = { s with b := b' } := by
  cases r with
  | error e => simp [consume] at h
  | ok p =>
    rcases p with ⟨a', b'⟩
    simp only [consume] at h
    obtain ⟨x, s1, h1, h2⟩ := bind_ok h
    simp at h1 h2
    obtain ⟨rfl, rfl⟩ := h1
    exact ⟨b', by rw [h2.1], h2.2.symm⟩

/-! ### the builder's table of locals only grows -/

@[simp] theorem locals_fail (b : Builder) (m : String) : (b.fail m).code.locals = b.code.locals := rfl

@[simp] theorem locals_modifyBlock (b : Builder) (i : Nat) (f : BasicBlock → BasicBlock) :
    (b.modifyBlock i f).code.locals = b.code.locals := by
  unfold Builder.modifyBlock
  split <;> rfl

@[simp] theorem locals_pushStatementAt (b : Builder) (i : Nat) (st : Statement) :
    (b.pushStatementAt i st).code.locals = b.code.locals := by
  unfold Builder.pushStatementAt
  split <;> simp

@[simp] theorem locals_pushStatement (b : Builder) (st : Statement) : (b.pushStatement st).code.locals = b.code.locals := by
  simp [Builder.pushStatement]

@[simp] theorem locals_finalizeAt (b : Builder) (i : Nat) (t : Terminator) : (b.finalizeAt i t).code.locals = b.code.locals := by
  unfold Builder.finalizeAt
  split <;> simp

@[simp] theorem locals_setCompletionValue (b : Builder) (v : Operand) : (b.setCompletionValue v).code.locals = b.code.locals := by
  unfold Builder.setCompletionValue
  simp only []
  split <;> simp

@[simp] theorem locals_newBlock (b : Builder) : b.newBlock.2.code.locals = b.code.locals := rfl

/-- `b'` has the locals of `b`, possibly more -/
def Grows (b b' : Builder) : Prop := ∃ extra, b'.code.locals = b.code.locals ++ extra

theorem Grows.refl (b : Builder) : Grows b b := ⟨[], by simp⟩
theorem Grows.trans {a b c : Builder} (h1 : Grows a b) (h2 : Grows b c) : Grows a c := by
  obtain ⟨x, hx⟩ := h1
  obtain ⟨y, hy⟩ := h2
  exact ⟨x ++ y, by rw [hy, hx, List.append_assoc]⟩
theorem Grows.of_eq {b b' : Builder} (h : b'.code.locals = b.code.locals) : Grows b b' := ⟨[], by simp [h]⟩

theorem Grows.get {b b' : Builder} (h : Grows b b') {l : Nat} {t : TypeKind} (hl : b.code.locals[l]? = some t) :
    b'.code.locals[l]? = some t := by
  obtain ⟨x, hx⟩ := h
  rw [hx]
  exact List.getElem?_append_left (by
    have := List.getElem?_eq_some_iff.1 hl
    exact this.1) ▸ hl

theorem grows_alloca (b : Builder) (ty : TypeKind) : Grows b (b.alloca ty).2 := by
  unfold Builder.alloca
  split
  · exact ⟨[ty], rfl⟩
  · exact Grows.refl b

theorem grows_emitResult (b : Builder) (ty : TypeKind) (rv : Rvalue) : Grows b (b.emitResult ty rv).2 := by
  unfold Builder.emitResult Builder.alloca
  by_cases h : ty = .void
  · subst h; simp; exact Grows.of_eq (by simp)
  · simp [h]
    exact ⟨[ty], by simp⟩


/-! ### the visitors, one by one: what success means in terms of the specification -/

theorem emit_ok {b b' : Builder} {ty : TypeKind} {rv : Rvalue} {a : Operand} (h : b.emitResult ty rv = (a, b')) :
    a.typeDesc = .concrete ty ∧ Grows b b' := by
  refine ⟨typeDesc_of_emitResult h, ?_⟩
  have := grows_emitResult b ty rv
  rw [h] at this
  exact this

theorem assignable_strDefault (env : Env) (k : TypeKind) (t : TypeDesc) :
    assignable env k (strDefault t) = assignable env k t := by
  cases t <;> simp [strDefault]
  simp only [assignable, TypeDesc.string, litFits]
  by_cases h : k = .string
  · subst h; simp
  · have h' : ¬ TypeKind.string = k := fun x => h x.symm
    simp only [h, h', decide_false, Bool.false_or]
    cases k with
    | just n => cases n <;> simp [TypeKind.string]
    | _ => simp [TypeKind.string]

theorem visitInteger_ok {b b' : Builder} {v : Nat} {a : Operand} (h : visitInteger b v = .ok (a, b')) :
    b' = b ∧ a.typeDesc = .constInteger ∧ v ≤ 9223372036854775807 := by
  unfold visitInteger at h
  split at h
  · rename_i hv
    simp at h
    obtain ⟨rfl, rfl⟩ := h
    refine ⟨rfl, rfl, ?_⟩
    simp [i64Max] at hv
    omega
  · simp at h

theorem visitLocalRef_ok {b : Builder} {l : Nat} {t : TypeKind} (hl : b.code.locals[l]? = some t) :
    visitLocalRef b l = .ok (.local l t, b) := by
  simp [visitLocalRef, hl]

theorem visitObjectProperty_ok {b b' : Builder} {o a : Operand} {p : PropInfo}
    (h : visitObjectProperty b o p = .ok (a, b')) :
    p.readable = true ∧ a.typeDesc = .concrete p.ty ∧ Grows b b' := by
  unfold visitObjectProperty at h
  split at h
  · simp at h
  · rename_i hr
    simp at h hr
    exact ⟨hr, emit_ok h⟩

theorem checkObjectSubscriptType_eq (o i : Operand) (t : TypeKind) :
    checkObjectSubscriptType o i = .ok t ↔ elemType o.typeDesc i.typeDesc = .ok t := by
  unfold checkObjectSubscriptType elemType
  simp only [toConcrete, toConcreteType_eq]
  cases concreteOf o.typeDesc with
  | none => simp
  | some k =>
    cases k with
    | list et =>
      simp only
      cases hi : i.typeDesc with
      | concrete ik =>
        simp only [intTy, intK]
        by_cases h1 : ik = .int
        · simp [h1]
        · by_cases h2 : ik = .uint
          · simp [h2]
          · simp [h1, h2]
      | _ => simp [intTy]
    | _ => simp

theorem visitObjectSubscript_ok {b b' : Builder} {o i a : Operand} (h : visitObjectSubscript b o i = .ok (a, b')) :
    ∃ t, elemType o.typeDesc i.typeDesc = .ok t ∧ a.typeDesc = .concrete t ∧ Grows b b' := by
  unfold visitObjectSubscript at h
  cases hc : checkObjectSubscriptType o i with
  | error e => simp [hc] at h
  | ok t =>
    simp [hc] at h
    exact ⟨t, (checkObjectSubscriptType_eq o i t).1 hc, emit_ok h⟩

theorem map_ensure_typeDesc (args : List Operand) :
    (args.map ensureConcreteString).map (·.typeDesc) = (args.map (·.typeDesc)).map strDefault := by
  simp [List.map_map, Function.comp_def, ensureConcreteString_typeDesc]

theorem argsFit_strDefault (env : Env) (ps : List TypeKind) (ts : List TypeDesc) :
    argsFit env ps (ts.map strDefault) = argsFit env ps ts := by
  unfold argsFit
  simp only [List.length_map]
  congr 1
  induction ps generalizing ts with
  | nil => simp
  | cons p ps ih =>
    cases ts with
    | nil => simp
    | cons t ts => simp [List.zip_cons_cons, assignable_strDefault, ih]

theorem compatible_eq (env : Env) (m : MethodInfo) (args : List Operand) :
    (decide (m.args.length = args.length) && (m.args.zip args).all fun (ty, v) => isAssignable env ty v.typeDesc) =
      argsFit env m.args (args.map (·.typeDesc)) := by
  unfold argsFit
  simp only [List.length_map, isAssignable_eq]
  congr 1
  induction m.args generalizing args with
  | nil => simp
  | cons p ps ih =>
    cases args with
    | nil => simp
    | cons t ts => simp only [List.zip_cons_cons, List.all_cons, List.map_cons, ih]

theorem visitObjectMethodCall_ok {env : Env} {b b' : Builder} {o a : Operand} {ms : List MethodInfo} {args : List Operand}
    (h : visitObjectMethodCall env b o ms args = .ok (a, b')) :
    callMethod env (sigsOf ms) (args.map (·.typeDesc)) = .ok a.typeDesc ∧ Grows b b' := by
  unfold visitObjectMethodCall at h
  simp only at h
  split at h
  · rename_i m hm
    simp at h
    have hfind : (sigsOf ms).find? (fun s => argsFit env s.1 (args.map (·.typeDesc))) = some (m.args, m.ret) := by
      unfold sigsOf
      rw [List.find?_map]
      have : ((fun s : List TypeKind × TypeKind => argsFit env s.1 (args.map (·.typeDesc))) ∘ fun m : MethodInfo => (m.args, m.ret)) =
          fun m => (decide (m.args.length = (args.map ensureConcreteString).length) &&
            (m.args.zip (args.map ensureConcreteString)).all fun (ty, v) => isAssignable env ty v.typeDesc) := by
        funext m
        simp only [Function.comp]
        rw [compatible_eq, map_ensure_typeDesc, argsFit_strDefault]
      rw [this, hm]
      rfl
    obtain ⟨h1, h2⟩ := emit_ok h
    refine ⟨?_, h2⟩
    unfold callMethod
    rw [hfind]
    simp only
    rw [h1]
  · simp at h


theorem visitBuiltinCall_ok {env : Env} {b b' : Builder} {f : Builtin} {args : List Operand} {a : Operand}
    (h : visitBuiltinCall env b f args = .ok (a, b')) :
    callBuiltin env f (args.map (·.typeDesc)) = .ok a.typeDesc ∧ Grows b b' := by
  unfold visitBuiltinCall at h
  cases f with
  | consoleLog lv =>
    simp at h
    obtain ⟨h1, h2⟩ := emit_ok h
    exact ⟨by simp [callBuiltin, h1, TypeDesc.void], h2⟩
  | tr =>
    simp only at h
    split at h
    · rename_i x
      split at h
      · rename_i hx
        simp at h
        obtain ⟨h1, h2⟩ := emit_ok h
        exact ⟨by simp [callBuiltin, hx, h1, TypeDesc.string], h2⟩
      · simp at h
    · simp at h
  | max =>
    simp only at h
    split at h
    · rename_i a0 a1
      split at h
      · simp at h
      · rename_i ty hd
        have hc := (deduceConcrete_ok_iff env _ _ _ ty).1 hd
        rw [ensureConcreteString_typeDesc, ensureConcreteString_typeDesc, common_strDefault_concrete] at hc
        split at h
        · rename_i hty
          simp at h
          obtain ⟨h1, h2⟩ := emit_ok h
          refine ⟨?_, h2⟩
          simp only [callBuiltin, List.map_cons, List.map_nil, hc, h1]
          rcases hty with rfl | rfl | rfl | rfl | rfl <;>
            simp [numK, TypeKind.bool, TypeKind.int, TypeKind.uint, TypeKind.double, TypeKind.string]
        · simp at h
    · simp at h
  | min =>
    simp only at h
    split at h
    · rename_i a0 a1
      split at h
      · simp at h
      · rename_i ty hd
        have hc := (deduceConcrete_ok_iff env _ _ _ ty).1 hd
        rw [ensureConcreteString_typeDesc, ensureConcreteString_typeDesc, common_strDefault_concrete] at hc
        split at h
        · rename_i hty
          simp at h
          obtain ⟨h1, h2⟩ := emit_ok h
          refine ⟨?_, h2⟩
          simp only [callBuiltin, List.map_cons, List.map_nil, hc, h1]
          rcases hty with rfl | rfl | rfl | rfl | rfl <;>
            simp [numK, TypeKind.bool, TypeKind.int, TypeKind.uint, TypeKind.double, TypeKind.string]
        · simp at h
    · simp at h

theorem visitLocalAssignment_ok {env : Env} {b b' : Builder} {l : Nat} {t : TypeKind} {r a : Operand}
    (hl : b.code.locals[l]? = some t) (h : visitLocalAssignment env b l r = .ok (a, b')) :
    assignable env t r.typeDesc = true ∧ a.typeDesc = .void ∧ Grows b b' := by
  unfold visitLocalAssignment at h
  simp only [hl] at h
  split at h
  · simp at h
  · rename_i ha
    simp at h
    simp [isAssignable_eq, ensureConcreteString_typeDesc, assignable_strDefault] at ha
    obtain ⟨rfl, rfl⟩ := h
    exact ⟨ha, rfl, Grows.of_eq (by simp)⟩

theorem visitObjectPropertyAssignment_ok {env : Env} {b b' : Builder} {o r a : Operand} {p : PropInfo}
    (h : visitObjectPropertyAssignment env b o p r = .ok (a, b')) :
    p.writable = true ∧ assignable env p.ty r.typeDesc = true ∧ a.typeDesc = .void ∧ Grows b b' := by
  unfold visitObjectPropertyAssignment at h
  split at h
  · simp at h
  · rename_i hw
    simp only at h
    split at h
    · simp at h
    · rename_i ha
      simp at h hw
      simp [isAssignable_eq, ensureConcreteString_typeDesc, assignable_strDefault] at ha
      obtain ⟨h1, h2⟩ := emit_ok h
      exact ⟨hw, ha, h1, h2⟩

theorem visitObjectSubscriptAssignment_ok {env : Env} {b b' : Builder} {o i r a : Operand}
    (h : visitObjectSubscriptAssignment env b o i r = .ok (a, b')) :
    ∃ t, elemType o.typeDesc i.typeDesc = .ok t ∧ assignable env t r.typeDesc = true ∧ a.typeDesc = .void ∧ Grows b b' := by
  unfold visitObjectSubscriptAssignment at h
  cases hc : checkObjectSubscriptType o i with
  | error e => simp [hc] at h
  | ok t =>
    simp only [hc] at h
    split at h
    · simp at h
    · rename_i ha
      simp at h
      simp [isAssignable_eq] at ha
      obtain ⟨rfl, rfl⟩ := h
      exact ⟨t, (checkObjectSubscriptType_eq o i t).1 hc, ha, rfl, Grows.of_eq (by simp)⟩

/-- a non-constant operand has a concrete type -/
theorem nonconst_concrete {a : Operand} (h : ¬ ∃ x, a = .const x) : ∃ k, a.typeDesc = .concrete k := by
  cases a with
  | const v => exact absurd ⟨v, rfl⟩ h
  | enumVariant e v => exact ⟨_, rfl⟩
  | «local» n t => exact ⟨_, rfl⟩
  | namedObject n c => exact ⟨_, rfl⟩
  | void => exact ⟨_, rfl⟩

theorem unaryType_concrete {op : UnaryOp} {k : TypeKind} {t : TypeDesc} (h : unaryType op (.concrete k) = some t) :
    ∃ k', t = .concrete k' := by
  cases op <;> simp [unaryType] at h
  · exact ⟨k, h.2.symm⟩
  · exact ⟨k, h.2.symm⟩
  · exact ⟨k, h.2.symm⟩
  · exact ⟨_, h.2.symm⟩

theorem concreteOf_concrete {t : TypeDesc} {k k' : TypeKind} (h1 : t = .concrete k') (h2 : concreteOf t = some k) :
    t = .concrete k := by
  subst h1
  simp [concreteOf] at h2
  rw [h2]

theorem visitUnaryExpression_ok {F : FloatOps} {b b' : Builder} {op : UnaryOp} {arg a : Operand}
    (h : visitUnaryExpression F b op arg = .ok (a, b')) :
    unaryType op arg.typeDesc = some a.typeDesc ∧ Grows b b' := by
  by_cases hc : ∃ x, arg = .const x
  · obtain ⟨x, rfl⟩ := hc
    rw [visitUnary_const] at h
    cases he : cevalUnary F op x with
    | error e => simp [he] at h
    | ok v =>
      simp [he] at h
      obtain ⟨rfl, rfl⟩ := h
      exact ⟨cevalUnary_type F op x v he, Grows.refl _⟩
  · rw [visitUnary_dynamic F b op arg hc] at h
    obtain ⟨t, k, h1, h2, h3⟩ := emitUnary_type b op arg a b' h
    obtain ⟨k0, hk0⟩ := nonconst_concrete hc
    rw [hk0] at h1
    obtain ⟨k', hk'⟩ := unaryType_concrete h1
    have := concreteOf_concrete hk' h2
    refine ⟨by rw [hk0, h1, this, h3], ?_⟩
    unfold emitUnaryExpression at h
    simp only at h
    split at h
    · simp at h
    · simp at h
      exact (emit_ok h).2


theorem common_cc {env : Env} {a b : TypeKind} {t : TypeDesc} (h : common env (.concrete a) (.concrete b) = some t) :
    t = .concrete a := by
  unfold common at h
  simp only at h
  split at h
  · simpa using h.symm
  · split at h
    · split at h <;> simp at h
      exact h.symm
    · simp at h

theorem common_concrete {env : Env} {l r t : TypeDesc} (hc : (∃ k, l = .concrete k) ∨ (∃ k, r = .concrete k))
    (h : common env l r = some t) : ∃ k, t = .concrete k := by
  rcases hc with ⟨k, rfl⟩ | ⟨k, rfl⟩
  · cases r with
    | concrete b => exact ⟨k, common_cc h⟩
    | _ =>
      unfold common at h
      simp only at h
      split at h <;> simp at h
      exact ⟨k, h.symm⟩
  · cases l with
    | concrete a => exact ⟨a, common_cc h⟩
    | _ =>
      unfold common at h
      simp only at h
      split at h <;> simp at h
      exact ⟨k, h.symm⟩


theorem binaryType_concrete {env : Env} {op : BinaryOp} {l r t : TypeDesc}
    (hc : (∃ k, l = .concrete k) ∨ (∃ k, r = .concrete k)) (h : binaryType env op l r = some t) :
    ∃ k, t = .concrete k := by
  cases op with
  | arith a => exact common_concrete hc (binaryType_common env _ _ _ _ (Or.inl ⟨a, rfl⟩) h)
  | bitwise o => exact common_concrete hc (binaryType_common env _ _ _ _ (Or.inr ⟨o, rfl⟩) h)
  | logical o =>
    simp only [binaryType] at h
    split at h <;> simp at h
    exact ⟨_, h.symm⟩
  | cmp c =>
    unfold binaryType at h
    cases hcm : common env l r with
    | none => simp [hcm] at h
    | some u =>
      simp only [hcm, Option.bind_some] at h
      split at h
      · simp at h; exact ⟨_, h.symm⟩
      · split at h <;> simp at h
        exact ⟨_, h.symm⟩
  | shift o =>
    simp only [binaryType] at h
    split at h
    · rename_i hint
      simp only [Bool.and_eq_true] at hint
      simp only [Option.some.injEq] at h
      split at h
      · exact ⟨_, h.symm⟩
      · rename_i hnc
        cases l with
        | concrete k' => exact ⟨k', h.symm⟩
        | constInteger =>
          -- then r is concrete, hence not a constant integer: contradiction with hnc
          rcases hc with ⟨k, hk⟩ | ⟨k, hk⟩
          · cases hk
          · exact absurd (by simp [hk]) hnc
        | _ => simp [intTy] at hint
    · simp at h


theorem grows_emitBinary {env : Env} {b b' : Builder} {op : BinaryOp} {l r a : Operand}
    (hlog : ∀ o, op ≠ .logical o) (h : emitBinaryExpression env b op l r = .ok (a, b')) : Grows b b' := by
  unfold emitBinaryExpression at h
  simp only at h
  split at h
  · simp at h
  · rename_i tyR ty b0 heq
    simp at h
    have hb0 : b0 = b := by
      cases op with
      | logical o => exact absurd rfl (hlog o)
      | arith o =>
        simp only at heq
        split at heq
        · simp at heq
        · split at heq
          · simp at heq; exact heq.2.symm
          · split at heq
            · split at heq <;> simp at heq; exact heq.2.symm
            · simp at heq
      | bitwise o =>
        simp only at heq
        split at heq
        · simp at heq
        · split at heq <;> simp at heq; exact heq.2.symm
      | shift o =>
        simp only at heq
        split at heq
        · simp at heq
        · split at heq <;> simp at heq; exact heq.2.symm
      | cmp o =>
        simp only at heq
        split at heq
        · simp at heq
        · split at heq <;> simp at heq; exact heq.2.symm
    subst hb0
    exact (emit_ok h).2

theorem visitBinaryExpression_ok {F : FloatOps} {env : Env} {b b' : Builder} {op : BinaryOp} {l r a : Operand}
    (hlog : ∀ o, op ≠ .logical o)
    (h : visitBinaryExpression F env b op l r = .ok (a, b')) :
    binaryType env op l.typeDesc r.typeDesc = some a.typeDesc ∧ Grows b b' := by
  by_cases hc : (∃ x, l = .const x) ∧ (∃ y, r = .const y)
  · obtain ⟨⟨x, rfl⟩, ⟨y, rfl⟩⟩ := hc
    rw [visitBinary_const F env b op x y hlog] at h
    cases he : cevalBinary F op x y with
    | error e => simp [he] at h
    | ok v =>
      simp [he] at h
      obtain ⟨rfl, rfl⟩ := h
      exact ⟨cevalBinary_type F env op x y v hlog he, Grows.refl _⟩
  · rw [visitBinary_dynamic F env b op l r hc] at h
    have hcc : (∃ k, l.typeDesc = .concrete k) ∨ (∃ k, r.typeDesc = .concrete k) := by
      by_cases hl : ∃ x, l = .const x
      · right
        exact nonconst_concrete (fun hr => hc ⟨hl, hr⟩)
      · left
        exact nonconst_concrete hl
    have hnn : ¬ (l.typeDesc = .nullPointer ∧ r.typeDesc = .nullPointer) := by
      rintro ⟨h1, h2⟩
      rcases hcc with ⟨k, hk⟩ | ⟨k, hk⟩
      · rw [hk] at h1; cases h1
      · rw [hk] at h2; cases h2
    obtain ⟨t, k, h1, h2, h3⟩ := emitBinary_type env b op l r hlog hnn a b' h
    obtain ⟨k', hk'⟩ := binaryType_concrete hcc h1
    have := concreteOf_concrete hk' h2
    exact ⟨by rw [h1, this, h3], grows_emitBinary hlog h⟩

theorem castable_strDefault (env : Env) (k : TypeKind) (t : TypeDesc) :
    castable env k (strDefault t) = castable env k t := by
  cases t <;> simp [strDefault]
  unfold castable castKind
  rw [← assignable_strDefault env k .constString]
  simp only [strDefault, TypeDesc.string]
  cases k with
  | just n => cases n with
    | prim p => cases p <;> simp [assignable, numK, intK, enumK, TypeKind.string, TypeKind.void, TypeKind.int, TypeKind.uint,
        TypeKind.double, TypeKind.bool, TypeKind.variant]
    | _ => simp [assignable, numK, intK, enumK, TypeKind.string, TypeKind.void, TypeKind.int, TypeKind.uint,
        TypeKind.double, TypeKind.bool, TypeKind.variant]
  | _ => simp [assignable, numK, intK, enumK, TypeKind.string, TypeKind.void, TypeKind.int, TypeKind.uint,
        TypeKind.double, TypeKind.bool, TypeKind.variant]

theorem pickTypeCast_noop {env : Env} {k : TypeKind} {t : TypeDesc} (h : pickTypeCast env k t = .noop) : t = .concrete k := by
  cases t with
  | concrete a =>
    by_cases hk : k = a
    · rw [hk]
    · exfalso
      revert h
      unfold pickTypeCast pickConcreteTypeCast
      simp only [hk, if_false]
      repeat' split
      all_goals simp
  | _ =>
    exfalso
    revert h
    unfold pickTypeCast
    simp only
    repeat' split
    all_goals simp

theorem visitAsExpression_ok {env : Env} {b b' : Builder} {v a : Operand} {ty : TypeKind}
    (h : visitAsExpression env b v ty = .ok (a, b')) :
    castable env ty v.typeDesc = true ∧ a.typeDesc = .concrete ty ∧ Grows b b' := by
  unfold visitAsExpression at h
  simp only [ensureConcreteString_typeDesc] at h
  have hcast : pickTypeCast env ty (strDefault v.typeDesc) ≠ .invalid → castable env ty v.typeDesc = true := by
    intro hne
    rw [← castable_strDefault]
    cases hc : castable env ty (strDefault v.typeDesc) with
    | true => rfl
    | false => exact absurd ((pickTypeCast_invalid_iff env ty _).2 hc) hne
  cases hp : pickTypeCast env ty (strDefault v.typeDesc) with
  | noop =>
    simp [hp] at h
    obtain ⟨rfl, rfl⟩ := h
    exact ⟨hcast (by rw [hp]; simp), by rw [ensureConcreteString_typeDesc]; exact pickTypeCast_noop hp, Grows.refl _⟩
  | implicit => simp [hp] at h; exact ⟨hcast (by rw [hp]; simp), emit_ok h⟩
  | static => simp [hp] at h; exact ⟨hcast (by rw [hp]; simp), emit_ok h⟩
  | variant => simp [hp] at h; exact ⟨hcast (by rw [hp]; simp), emit_ok h⟩
  | invalid => simp [hp] at h


theorem visitTernaryExpression_ok {env : Env} {b b' : Builder} {c x y res : Operand} {cr xr yr : Nat}
    (h : visitTernaryExpression env b c cr x xr y yr = .ok (res, b')) :
    ∃ k, commonConcrete env x.typeDesc y.typeDesc = some k ∧ res.typeDesc = .concrete k ∧ Grows b b' := by
  unfold visitTernaryExpression at h
  simp only [ensureConcreteString_typeDesc] at h
  split at h
  · simp at h
  · rename_i ty hd
    have hc := (deduceConcrete_ok_iff env _ _ _ ty).1 hd
    rw [common_strDefault_concrete] at hc
    simp at h
    obtain ⟨h1, h2⟩ := h
    refine ⟨ty, hc, ?_, ?_⟩
    · rw [← h1]
      unfold Builder.alloca
      by_cases hv : ty = .void
      · subst hv; simp [Operand.typeDesc, TypeDesc.void]
      · simp [hv, Operand.typeDesc]
    · rw [← h2]
      have hg := grows_alloca b ty
      refine Grows.trans hg (Grows.of_eq ?_)
      cases (b.alloca ty).1 with
      | none => simp
      | some o => cases o <;> simp

theorem visitBinaryLogicalExpression_ok (b : Builder) (op : LogicOp) (l r : Operand) (lr rr : Nat) :
    (visitBinaryLogicalExpression b op l lr r rr).1.typeDesc = .bool ∧
      Grows b (visitBinaryLogicalExpression b op l lr r rr).2 := by
  unfold visitBinaryLogicalExpression
  generalize hb0 : (if l.typeDesc ≠ .bool ∨ r.typeDesc ≠ .bool then b.fail "logical operand must be bool" else b) = b0
  have hl : b0.code.locals = b.code.locals := by rw [← hb0]; split <;> rfl
  have hb : TypeKind.bool ≠ TypeKind.void := by simp [TypeKind.bool, TypeKind.void]
  have ha : b0.alloca .bool = (some (.local b0.code.locals.length .bool),
      { b0 with code := { b0.code with locals := b0.code.locals ++ [TypeKind.bool] } }) := by
    simp [Builder.alloca, hb]
  simp only [ha]
  cases op <;> simp only [] <;> refine ⟨rfl, ⟨[TypeKind.bool], ?_⟩⟩ <;> simp [hl]

theorem visitArray_go_eq (env : Env) (known : TypeDesc) (i : Nat) (ops : List Operand) (t : TypeDesc)
    (h : visitArray.go env known i ops = .ok t) : arrayType.go env known (ops.map (·.typeDesc)) = .ok t := by
  induction ops generalizing known i with
  | nil => simpa [visitArray.go, arrayType.go] using h
  | cons a as ih =>
    simp only [visitArray.go, deduceType_eq] at h
    simp only [List.map_cons, arrayType.go]
    cases hc : common env known a.typeDesc with
    | none => simp [hc] at h
    | some u =>
      simp only [hc] at h ⊢
      exact ih u (i + 1) h

theorem visitArray_ok {env : Env} {b b' : Builder} {els : List Operand} {a : Operand}
    (h : visitArray env b els = .ok (a, b')) :
    arrayType env ((els.map (·.typeDesc)).map strDefault) = .ok a.typeDesc ∧ Grows b b' := by
  unfold visitArray at h
  simp only at h
  rw [← map_ensure_typeDesc]
  generalize els.map ensureConcreteString = ops at h ⊢
  cases ops with
  | nil =>
    simp at h
    obtain ⟨rfl, rfl⟩ := h
    exact ⟨rfl, Grows.refl _⟩
  | cons first rest =>
    simp only at h
    cases hg : visitArray.go env first.typeDesc 1 rest with
    | error e => simp [hg] at h
    | ok elemT =>
      simp only [hg, toConcrete, toConcreteType_eq] at h
      have hspec := visitArray_go_eq env _ _ _ _ hg
      cases hco : concreteOf elemT with
      | none => simp [hco] at h
      | some et =>
        simp [hco] at h
        obtain ⟨h1, h2⟩ := emit_ok h
        refine ⟨?_, h2⟩
        simp only [List.map_cons, arrayType, hspec, hco, h1]


/-! ### states, scopes and what an expression denotes -/

def worldOf (c : Ctx) : World := { env := c.env, objects := c.objects, thisObj := c.thisObj }

/-- the walk's map of local names agrees with the specification's scope -/
def Inv (s : WState) (sc : Scope) : Prop :=
  ∀ n, match s.locals.get? n with
    | some (l, k) => ∃ t, s.b.code.locals[l]? = some t ∧ sc.find n = some (t, k)
    | none => sc.find n = none

/-- an expression walk does not touch the name map and only adds locals (temporaries) -/
structure Ext (s s' : WState) : Prop where
  locals : s'.locals = s.locals
  grows : Grows s.b s'.b

theorem Ext.refl (s : WState) : Ext s s := ⟨rfl, Grows.refl _⟩
theorem Ext.trans {a b c : WState} (h1 : Ext a b) (h2 : Ext b c) : Ext a c :=
  ⟨h2.locals.trans h1.locals, h1.grows.trans h2.grows⟩

theorem Inv.ext {s s' : WState} {sc : Scope} (h : Inv s sc) (e : Ext s s') : Inv s' sc := by
  intro n
  have := h n
  rw [e.locals]
  cases hg : s.locals.get? n with
  | none => simpa [hg] using this
  | some p =>
    rcases p with ⟨l, k⟩
    simp only [hg] at this ⊢
    obtain ⟨t, h1, h2⟩ := this
    exact ⟨t, e.grows.get h1, h2⟩

/-- correspondence between the walk's intermediate results and the specification's -/
inductive Rel (L : List TypeKind) : Inter → Res → Prop
  | item (a : Operand) : Rel L (.item a) (.val a.typeDesc)
  | loc (l : Nat) (k : DeclKind) (t : TypeKind) : L[l]? = some t → Rel L (.local l k) (.loc t k)
  | prop (it : Operand) (p : PropInfo) (rk : ReceiverKind) : Rel L (.boundProperty it p rk) (.prop p (decide (rk = .gadget .rvalue)))
  | elem (it i : Operand) (k : ExprKind) : Rel L (.boundSubscript it i k) (.elem it.typeDesc i.typeDesc (decide (k = .lvalue)))
  | methods (it : Operand) (ms : List MethodInfo) (sigs) : sigs = sigsOf ms → Rel L (.boundMethod it ms) (.methods sigs)
  | fn (f : Builtin) : Rel L (.builtinFunction f) (.fn f)
  | math : Rel L (.builtinNamespace .math) (.nsp .math)
  | console : Rel L (.builtinNamespace .console) (.nsp .console)
  | type (t : NamedTy) : Rel L (.type t) (.type t)

theorem Rel.mono {L : List TypeKind} {i : Inter} {r : Res} (h : Rel L i r) (extra : List TypeKind) : Rel (L ++ extra) i r := by
  cases h with
  | loc l k t hl =>
    refine Rel.loc l k t ?_
    rw [List.getElem?_append_left (List.getElem?_eq_some_iff.1 hl).1]
    exact hl
  | item a => exact Rel.item a
  | prop it p rk => exact Rel.prop it p rk
  | elem it i k => exact Rel.elem it i k
  | methods it ms sigs h => exact Rel.methods it ms sigs h
  | fn f => exact Rel.fn f
  | math => exact Rel.math
  | console => exact Rel.console
  | type t => exact Rel.type t

theorem Rel.grows {b b' : Builder} {i : Inter} {r : Res} (h : Rel b.code.locals i r) (g : Grows b b') :
    Rel b'.code.locals i r := by
  obtain ⟨x, hx⟩ := g
  rw [hx]
  exact h.mono x

theorem processRef_ok {r : RefKind} {n : String} {s s' : WState} {i : Inter} (h : run (processRef r n) s = (some i, s')) :
    s' = s ∧ i = (match r with
      | .type t => .type t
      | .enumVariant e => .item (.enumVariant e n)
      | .object cls => .item (.namedObject n cls)
      | .objectProperty cls on p => .boundProperty (.namedObject on cls) p .object
      | .objectMethod cls on ms => .boundMethod (.namedObject on cls) ms) := by
  cases r <;> simp [processRef] at h <;> exact ⟨h.2.symm, h.1.symm⟩

theorem processIdentifier_ok {c : Ctx} {n : String} {s s' : WState} {sc : Scope} {i : Inter} (hinv : Inv s sc)
    (h : run (processIdentifier c n) s = (some i, s')) :
    s' = s ∧ ∃ r, resolveName (worldOf c) sc n = .ok r ∧ Rel s.b.code.locals i r := by
  unfold processIdentifier at h
  obtain ⟨ls, s1, h1, h2⟩ := bind_ok h
  simp at h1
  obtain ⟨rfl, rfl⟩ := h1
  have hi := hinv n
  unfold resolveName
  cases hg : s.locals.get? n with
  | some p =>
    rcases p with ⟨l, k⟩
    simp only [hg] at h2 hi
    simp at h2
    obtain ⟨t, ht1, ht2⟩ := hi
    simp only [ht2]
    exact ⟨h2.2.symm, _, rfl, by rw [← h2.1]; exact Rel.loc l k t ht1⟩
  | none =>
    simp only [hg] at h2 hi
    simp only [hi, worldOf]
    unfold Ctx.getRef at h2
    cases ho : c.objects.find? (·.1 = n) with
    | some oc =>
      rcases oc with ⟨on, cls⟩
      simp only [ho] at h2 ⊢
      obtain ⟨h3, h4⟩ := processRef_ok h2
      exact ⟨h3, _, rfl, by rw [h4]; exact Rel.item _⟩
    | none =>
      simp only [ho] at h2 ⊢
      -- the tail shared by all remaining cases: type names, then the global names
      have tail : ∀ {s s' : WState} {i : Inter},
          run (match (c.env.types.find? (·.1 = n)).map (fun p => RefKind.type p.2) with
            | some r => processRef r n
            | none => match lookupGlobalName n with
              | some x => (pure x : W Inter)
              | none => err "undefined reference") s = (some i, s') →
          s' = s ∧ ∃ r, (match c.env.types.find? (·.1 = n) with
            | some (_, t) => (Except.ok (Res.type t) : Except Err Res)
            | none => if n = "Math" then .ok (.nsp .math) else if n = "console" then .ok (.nsp .console)
              else if n = "qsTr" then .ok (.fn .tr) else .error .undefinedName) = .ok r ∧ Rel s.b.code.locals i r := by
        intro s s' i h
        cases ht : c.env.types.find? (·.1 = n) with
        | some p =>
          rcases p with ⟨tn, t⟩
          simp only [ht, Option.map_some] at h ⊢
          obtain ⟨h3, h4⟩ := processRef_ok h
          exact ⟨h3, _, rfl, by rw [h4]; exact Rel.type t⟩
        | none =>
          simp only [ht, Option.map_none] at h ⊢
          unfold lookupGlobalName at h
          by_cases hm : n = "Math"
          · simp [hm] at h ⊢; exact ⟨h.2.symm, by rw [← h.1]; exact Rel.math⟩
          · by_cases hc : n = "console"
            · simp [hm, hc] at h ⊢; exact ⟨h.2.symm, by rw [← h.1]; exact Rel.console⟩
            · by_cases hq : n = "qsTr"
              · simp [hm, hc, hq] at h ⊢; exact ⟨h.2.symm, by rw [← h.1]; exact Rel.fn _⟩
              · simp [hm, hc, hq] at h
      cases hth : c.thisObj with
      | none =>
        simp only [hth] at h2 ⊢
        exact tail h2
      | some tp =>
        rcases tp with ⟨tcls, tname⟩
        simp only [hth] at h2 ⊢
        simp only [Env.findClass] at h2
        cases hci : c.env.classes.find? (·.name = tcls) with
        | none =>
          simp only [hci, Option.bind_none] at h2 ⊢
          exact tail h2
        | some ci =>
          simp only [hci, Option.bind_some] at h2 ⊢
          cases hp : ci.props.find? (·.name = n) with
          | some p =>
            simp only [hp] at h2 ⊢
            obtain ⟨h3, h4⟩ := processRef_ok h2
            exact ⟨h3, _, rfl, by rw [h4]; exact Rel.prop _ p .object⟩
          | none =>
            simp only [hp] at h2 ⊢
            cases hm : ci.methods.find? (·.1 = n) with
            | some m =>
              rcases m with ⟨mn, ms⟩
              simp only [hm, Option.map_some] at h2 ⊢
              obtain ⟨h3, h4⟩ := processRef_ok h2
              exact ⟨h3, _, rfl, by rw [h4]; exact Rel.methods _ ms _ rfl⟩
            | none =>
              simp only [hm, Option.map_none] at h2 ⊢
              exact tail h2


theorem classOfType_eq (c : Ctx) (k : TypeKind) : c.classOfType k = memberClass k := by
  unfold Ctx.classOfType memberClass
  split <;> simp_all

theorem processItemProperty_ok {c : Ctx} {item : Operand} {n : String} {ik : ExprKind} {s s' : WState} {i : Inter}
    (h : run (processItemProperty c item n ik) s = (some i, s')) :
    s' = s ∧ ∃ r, valueMember c.env item.typeDesc (decide (ik = .lvalue)) n = .ok r ∧ ∀ L, Rel L i r := by
  unfold processItemProperty at h
  unfold valueMember
  simp only [toConcreteType_eq] at h
  cases hk : concreteOf item.typeDesc with
  | none => simp [hk] at h
  | some k =>
    simp only [hk, classOfType_eq] at h ⊢
    cases hm : memberClass k with
    | none => simp [hm] at h
    | some cls =>
      simp only [hm, Env.findClass, Option.bind_some] at h ⊢
      cases hci : c.env.classes.find? (·.name = cls) with
      | none => simp [hci] at h
      | some ci =>
        simp only [hci] at h ⊢
        cases hp : ci.props.find? (·.name = n) with
        | some p =>
          simp only [hp] at h ⊢
          simp at h
          refine ⟨h.2.symm, _, rfl, fun L => ?_⟩
          rw [← h.1]
          have : (!ptrK k && !decide (ik = ExprKind.lvalue)) =
              decide ((if k.isPointer = true then ReceiverKind.object else ReceiverKind.gadget ik) = ReceiverKind.gadget ExprKind.rvalue) := by
            cases k <;> cases ik <;> simp [ptrK, TypeKind.isPointer]
          rw [this]
          exact Rel.prop _ _ _
        | none =>
          simp only [hp] at h ⊢
          cases hmm : ci.methods.find? (·.1 = n) with
          | none => simp [hmm] at h
          | some m =>
            rcases m with ⟨mn, ms⟩
            simp only [hmm] at h ⊢
            simp at h
            refine ⟨h.2.symm, _, rfl, fun L => ?_⟩
            rw [← h.1]
            refine Rel.methods _ _ _ ?_
            cases k <;> simp [sigsOf, List.map_map, Function.comp_def]

theorem processNamespaceName_ok {k : NamespaceKind} {n : String} {s s' : WState} {i : Inter}
    (h : run (processNamespaceName k n) s = (some i, s')) :
    s' = s ∧ ∃ r, nsMember (match k with | .math => .math | .console => .console) n = .ok r ∧ ∀ L, Rel L i r := by
  unfold processNamespaceName at h
  unfold nsMember
  cases k with
  | math =>
    simp only at h ⊢
    by_cases h1 : n = "max"
    · simp [h1] at h ⊢; exact ⟨h.2.symm, fun L => by rw [← h.1]; exact Rel.fn _⟩
    · by_cases h2 : n = "min"
      · simp [h1, h2] at h ⊢; exact ⟨h.2.symm, fun L => by rw [← h.1]; exact Rel.fn _⟩
      · simp [h1, h2] at h
  | console =>
    simp only at h ⊢
    by_cases h1 : n = "debug"
    · simp [h1] at h ⊢; exact ⟨h.2.symm, fun L => by rw [← h.1]; exact Rel.fn _⟩
    · by_cases h2 : n = "error"
      · simp [h1, h2] at h ⊢; exact ⟨h.2.symm, fun L => by rw [← h.1]; exact Rel.fn _⟩
      · by_cases h3 : n = "info"
        · simp [h1, h2, h3] at h ⊢; exact ⟨h.2.symm, fun L => by rw [← h.1]; exact Rel.fn _⟩
        · by_cases h4 : n = "log"
          · simp [h1, h2, h3, h4] at h ⊢; exact ⟨h.2.symm, fun L => by rw [← h.1]; exact Rel.fn _⟩
          · by_cases h5 : n = "warn"
            · simp [h1, h2, h3, h4, h5] at h ⊢; exact ⟨h.2.symm, fun L => by rw [← h.1]; exact Rel.fn _⟩
            · simp [h1, h2, h3, h4, h5] at h

theorem processTypeMember_ok {c : Ctx} {t : NamedTy} {n : String} {s s' : WState} {i : Inter}
    (h : run (processTypeMember c t n) s = (some i, s')) :
    s' = s ∧ ∃ r, typeMember c.env t n = .ok r ∧ ∀ L, Rel L i r := by
  unfold processTypeMember at h
  unfold Ctx.typeGetRef at h
  unfold typeMember
  have clsCase : ∀ cn : String,
      run (match (match c.env.findClass cn with
          | none => none
          | some ci => match ci.nested.find? (fun (x : String × NamedTy) => x.1 = n) with
            | some (_, nt) => some (RefKind.type nt)
            | none => (ci.variants.find? (fun (x : String × String) => x.1 = n)).map fun p => RefKind.enumVariant p.2) with
        | some r => processRef r n
        | none => err "undefined reference") s = (some i, s') →
      s' = s ∧ ∃ r, (match c.env.classes.find? (·.name = cn) with
        | none => (Except.error Err.undefinedName : Except Err Res)
        | some ci => match ci.nested.find? (fun (x : String × NamedTy) => x.1 = n) with
          | some (_, nt) => .ok (.type nt)
          | none => match ci.variants.find? (fun (x : String × String) => x.1 = n) with
            | some (_, e) => .ok (.val (.concrete (.just (.enum e))))
            | none => .error .undefinedName) = .ok r ∧ ∀ L, Rel L i r := by
    intro cn h
    simp only [Env.findClass] at h
    cases hci : c.env.classes.find? (·.name = cn) with
    | none => simp [hci] at h
    | some ci =>
      simp only [hci] at h ⊢
      cases hn : ci.nested.find? (·.1 = n) with
      | some p =>
        rcases p with ⟨nn, nt⟩
        simp only [hn] at h ⊢
        obtain ⟨h3, h4⟩ := processRef_ok h
        exact ⟨h3, _, rfl, fun L => by rw [h4]; exact Rel.type nt⟩
      | none =>
        simp only [hn] at h ⊢
        cases hv : ci.variants.find? (·.1 = n) with
        | none => simp [hv] at h
        | some p =>
          rcases p with ⟨vn, e⟩
          simp only [hv, Option.map_some] at h ⊢
          obtain ⟨h3, h4⟩ := processRef_ok h
          exact ⟨h3, _, rfl, fun L => by rw [h4]; exact Rel.item (.enumVariant e n)⟩
  cases t with
  | cls cn => exact clsCase cn h
  | ns cn => exact clsCase cn h
  | enum e =>
    simp only [Env.findEnum] at h ⊢
    cases he : c.env.enums.find? (·.name = e) with
    | none => simp [he] at h
    | some ei =>
      simp only [he] at h ⊢
      by_cases hc : (ei.isScoped && ei.variants.contains n) = true
      · simp only [hc, if_true] at h ⊢
        obtain ⟨h3, h4⟩ := processRef_ok h
        exact ⟨h3, _, rfl, fun L => by rw [h4]; exact Rel.item (.enumVariant e n)⟩
      · exfalso
        have hc' : ¬ (ei.isScoped = true ∧ n ∈ ei.variants) := by
          intro ⟨h1, h2⟩
          exact hc (by simp [h1, h2])
        simp [hc'] at h
  | prim p => simp at h
  | comp cn => simp at h

theorem interToRvalue_ok {i : Inter} {r : Res} {s s' : WState} {a : Operand} (hrel : Rel s.b.code.locals i r)
    (h : run (interToRvalue i) s = (some a, s')) : Ext s s' ∧ valueOf r = .ok a.typeDesc := by
  cases hrel with
  | item x =>
    simp [interToRvalue] at h
    obtain ⟨rfl, rfl⟩ := h
    exact ⟨Ext.refl _, rfl⟩
  | loc l k t hl =>
    simp only [interToRvalue] at h
    obtain ⟨b, s1, h1, h2⟩ := bind_ok h
    simp at h1
    obtain ⟨rfl, rfl⟩ := h1
    obtain ⟨b', h3, h4⟩ := consume_ok h2
    rw [visitLocalRef_ok hl] at h3
    simp at h3
    obtain ⟨rfl, rfl⟩ := h3
    subst h4
    exact ⟨⟨rfl, Grows.refl _⟩, rfl⟩
  | prop it p rk =>
    simp only [interToRvalue] at h
    obtain ⟨b, s1, h1, h2⟩ := bind_ok h
    simp at h1
    obtain ⟨rfl, rfl⟩ := h1
    obtain ⟨b', h3, h4⟩ := consume_ok h2
    obtain ⟨hr, ht, hg⟩ := visitObjectProperty_ok h3
    subst h4
    exact ⟨⟨rfl, hg⟩, by simp [valueOf, hr, ht]⟩
  | elem it ix k =>
    simp only [interToRvalue] at h
    obtain ⟨b, s1, h1, h2⟩ := bind_ok h
    simp at h1
    obtain ⟨rfl, rfl⟩ := h1
    obtain ⟨b', h3, h4⟩ := consume_ok h2
    obtain ⟨t, he, ht, hg⟩ := visitObjectSubscript_ok h3
    subst h4
    exact ⟨⟨rfl, hg⟩, by simp [valueOf, he, ht, Except.map]⟩
  | methods it ms sigs hs => simp [interToRvalue] at h
  | fn f => simp [interToRvalue] at h
  | math => simp [interToRvalue] at h
  | console => simp [interToRvalue] at h
  | type t => simp [interToRvalue] at h


/-! ### small steps of the walk -/

theorem markBranchPoint_ok {s s' : WState} {l : Nat} (h : run markBranchPoint s = (some l, s')) : Ext s s' := by
  unfold markBranchPoint at h
  obtain ⟨b, s1, h1, h2⟩ := bind_ok h
  simp at h1
  obtain ⟨rfl, rfl⟩ := h1
  simp only at h2
  obtain ⟨u, s2, h3, h4⟩ := bind_ok h2
  simp at h3 h4
  rw [← h4.2, ← h3]
  exact ⟨rfl, Grows.of_eq (by simp)⟩

theorem checkConditionType_ok {a : Operand} {s s' : WState} (h : run (checkConditionType a) s = (some (), s')) :
    s' = s ∧ a.typeDesc = .bool := by
  unfold checkConditionType at h
  split at h
  · rename_i hb
    simp at h
    exact ⟨h.symm, hb⟩
  · simp at h

theorem joinWith_scoped (cs : List String) : joinWith "::" cs = scopedName cs := by
  induction cs with
  | nil => rfl
  | cons x xs ih =>
    cases xs with
    | nil => rfl
    | cons y ys => simp only [joinWith, scopedName, ih]

theorem processTypeAnnotation_ok {c : Ctx} {cs : List String} {s s' : WState} {k : TypeKind}
    (h : run (processTypeAnnotation c cs) s = (some k, s')) : s' = s ∧ annotated c.env cs = .ok k := by
  unfold processTypeAnnotation at h
  unfold Ctx.annotatedType at h
  unfold annotated
  rw [joinWith_scoped] at h
  cases hf : c.env.types.find? (·.1 = scopedName cs) with
  | none => simp [hf] at h
  | some p =>
    rcases p with ⟨n, t⟩
    simp only [hf, Option.map_some] at h ⊢
    simp at h
    refine ⟨h.2.symm, ?_⟩
    rw [← h.1]
    cases t <;> simp [Env.findClass] <;> (split <;> simp_all)

/-! ### the statements of the induction -/

def ExprSound (c : Ctx) (e : Expr) : Prop :=
  ∀ s s' sc i, Inv s sc → run (walkExpr c e) s = (some i, s') →
    Ext s s' ∧ ∃ r, resolve (worldOf c) sc e = .ok r ∧ Rel s'.b.code.locals i r

def RvalSound (c : Ctx) (e : Expr) : Prop :=
  ∀ s s' sc a, Inv s sc → run (walkRvalue c e) s = (some a, s') →
    Ext s s' ∧ typeOf (worldOf c) sc e = .ok a.typeDesc

def RvalsSound (c : Ctx) (es : List Expr) : Prop :=
  ∀ s s' sc as, Inv s sc → run (walkRvalues c es) s = (some as, s') →
    Ext s s' ∧ typeOfList (worldOf c) sc es = .ok (as.map (·.typeDesc))

theorem rvalue_of_expr {c : Ctx} {e : Expr} (he : ExprSound c e) : RvalSound c e := by
  intro s s' sc a hinv h
  simp only [walkRvalue] at h
  obtain ⟨i, s1, h1, h2⟩ := bind_ok h
  obtain ⟨hext, r, hr, hrel⟩ := he s s1 sc i hinv h1
  obtain ⟨hext2, hv⟩ := interToRvalue_ok hrel h2
  exact ⟨hext.trans hext2, by simp only [typeOf, hr, valueOfR, hv]⟩

end QV.Proofs.TypingSound
