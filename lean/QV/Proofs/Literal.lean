/- Helper lemmas for C03 (literals): the parser returns the ECMAScript MV. Core Lean only. -/
import QV.Model.Literal
import QV.Spec.Ecma

namespace QV.Proofs.Literal
open QV.Model.Literal QV.Spec.Ecma

theorem char_eq_ofNat (c : Char) : c = Char.ofNat c.toNat := by simp

theorem toDigit_none_of_ge (radix : Nat) (c : Char) (h : ¬ c.toNat < 128) : toDigit radix c = none := by
  have hv : digitVal36 c = none := by
    simp only [digitVal36]
    split
    · omega
    · split
      · omega
      · split
        · omega
        · rfl
  simp [toDigit, hv]

theorem digitIn_none_of_ge (radix : Nat) (c : Char) (h : ¬ c.toNat < 128) : digitIn radix c = none := by
  have hv : digitValue c = none := by
    have e : c.val.toNat = c.toNat := rfl
    simp only [digitValue, Char.le_def, UInt32.le_iff_toNat_le, e]
    split
    · rename_i h1; simp at h1; omega
    · split
      · rename_i h1; simp at h1; omega
      · split
        · rename_i h1; simp at h1; omega
        · rfl
  simp [digitIn, hv]

/-- the two digit readings agree for the radixes the parser uses -/
theorem toDigit_eq (radix : Nat) (hr : radix = 2 ∨ radix = 8 ∨ radix = 10 ∨ radix = 16) (c : Char) :
    toDigit radix c = digitIn radix c := by
  by_cases h : c.toNat < 128
  · rw [char_eq_ofNat c]
    generalize c.toNat = n at h
    rcases hr with rfl | rfl | rfl | rfl <;> (revert n; decide +kernel)
  · rw [toDigit_none_of_ge _ _ h, digitIn_none_of_ge _ _ h]

theorem underscore_not_digit (radix : Nat) : digitIn radix '_' = none := by
  have : digitValue '_' = none := by decide
  simp [digitIn, this]

theorem digitIn_lt {radix : Nat} {c : Char} {d : Nat} (h : digitIn radix c = some d) : d < radix := by
  simp only [digitIn] at h
  split at h
  · split at h
    · simp at h; omega
    · simp at h
  · simp at h

/-- the value only grows along the digits -/
theorem digits_ge {radix : Nat} (hr : 1 ≤ radix) : ∀ (s : List Char) (acc v : Nat), digits radix s acc = some v → acc ≤ v
  | [], acc, v, h => by simp [digits] at h; omega
  | c :: cs, acc, v, h => by
    simp only [digits] at h
    split at h
    · have := digits_ge hr cs _ v h
      have : acc ≤ acc * radix := Nat.le_mul_of_pos_right acc hr
      omega
    · simp at h

theorem radix_pos {radix : Nat} (hr : radix = 2 ∨ radix = 8 ∨ radix = 10 ∨ radix = 16) : 1 ≤ radix := by omega

/-- the checked loop returns the positional value, or nothing when it exceeds u64 -/
theorem loop_eq_digits {radix : Nat} (hr : radix = 2 ∨ radix = 8 ∨ radix = 10 ∨ radix = 16) :
    ∀ (s : List Char) (acc v : Nat), acc ≤ u64Max → digits radix s acc = some v →
      digitsLoop radix s acc = if v ≤ u64Max then some v else none
  | [], acc, v, ha, h => by
    simp [digits] at h; subst h
    simp [digitsLoop, ha]
  | c :: cs, acc, v, ha, h => by
    simp only [digits] at h
    simp only [digitsLoop, toDigit_eq radix hr]
    split at h
    · rename_i d hd
      simp only [hd]
      split
      · rename_i hle
        exact loop_eq_digits hr cs _ v hle h
      · rename_i hgt
        have := digits_ge (radix_pos hr) cs _ v h
        have : ¬ v ≤ u64Max := by omega
        simp [this]
    · simp at h

/-- a string the loop accepts has no separator -/
theorem loop_no_underscore {radix : Nat} (hr : radix = 2 ∨ radix = 8 ∨ radix = 10 ∨ radix = 16) :
    ∀ (s : List Char) (acc v : Nat), digitsLoop radix s acc = some v → s.filter (· ≠ '_') = s
  | [], _, _, _ => rfl
  | c :: cs, acc, v, h => by
    simp only [digitsLoop, toDigit_eq radix hr] at h
    split at h
    · simp at h
    · rename_i d hd
      split at h
      · have hc : c ≠ '_' := by
          intro e; subst e; simp [underscore_not_digit] at hd
        have := loop_no_underscore hr cs _ v h
        simp only [List.filter_eq_self] at this ⊢
        intro a ha
        simp at ha
        rcases ha with rfl | ha
        · simpa using hc
        · exact this a ha
      · simp at h

/-- `Digits[+Sep]` is `Digits[~Sep]` of the text with the separators removed -/
theorem sep_filter (radix : Nat) : ∀ (s : List Char) (b : Bool) (acc v : Nat),
    digitsSep radix b s acc = some v → digits radix (s.filter (· ≠ '_')) acc = some v
  | [], b, acc, v, h => by
    simp only [digitsSep] at h
    split at h
    · simpa [digits] using h
    · simp at h
  | c :: cs, b, acc, v, h => by
    simp only [digitsSep] at h
    split at h
    · rename_i hc
      subst hc
      split at h
      · have := sep_filter radix cs false acc v h
        simpa [List.filter] using this
      · simp at h
    · rename_i hc
      split at h
      · rename_i d hd
        have := sep_filter radix cs true _ v h
        simp [List.filter, hc, digits, hd]
        simpa using this
      · simp at h

/-- a `Digits[+Sep]` text starts with a digit when no digit precedes it -/
theorem sep_head (radix : Nat) (s : List Char) (acc v : Nat) (h : digitsSep radix false s acc = some v) :
    ∃ c cs d, s = c :: cs ∧ digitIn radix c = some d := by
  cases s with
  | nil => simp [digitsSep] at h
  | cons c cs =>
    simp only [digitsSep] at h
    split at h
    · simp at h
    · split at h
      · rename_i d hd
        exact ⟨c, cs, d, rfl, hd⟩
      · simp at h

theorem digits_no_underscore (radix : Nat) : ∀ (s : List Char) (acc v : Nat),
    digits radix s acc = some v → s.filter (· ≠ '_') = s
  | [], _, _, _ => rfl
  | c :: cs, acc, v, h => by
    simp only [digits] at h
    split at h
    · rename_i d hd
      have hc : c ≠ '_' := by
        intro e; subst e; simp [underscore_not_digit] at hd
      have := digits_no_underscore radix cs _ v h
      simp only [List.filter_eq_self] at this ⊢
      intro a ha
      simp at ha
      rcases ha with rfl | ha
      · simpa using hc
      · exact this a ha
    · simp at h

theorem plus_not_digit (radix : Nat) : digitIn radix '+' = none := by
  have : digitValue '+' = none := by decide
  simp [digitIn, this]

theorem minus_not_digit (radix : Nat) : digitIn radix '-' = none := by
  have : digitValue '-' = none := by decide
  simp [digitIn, this]

/-- on a text starting with a digit, `from_str_radix` is the checked loop -/
theorem fromStrRadix_digit {radix : Nat} {c : Char} {cs : List Char} {d : Nat} (hd : digitIn radix c = some d) :
    fromStrRadix radix (c :: cs) = digitsLoop radix (c :: cs) 0 := by
  have h1 : c ≠ '+' := by intro e; subst e; simp [plus_not_digit] at hd
  have h2 : c ≠ '-' := by intro e; subst e; simp [minus_not_digit] at hd
  unfold fromStrRadix
  split <;> simp_all

/-- a sign-free digit text without separators -/
theorem parseInteger_digits {radix : Nat} (hr : radix = 2 ∨ radix = 8 ∨ radix = 10 ∨ radix = 16)
    {c : Char} {cs : List Char} {d v : Nat} (hd : digitIn radix c = some d)
    (h : digits radix (c :: cs) 0 = some v) :
    parseIntegerStrRadix (c :: cs) radix = if v ≤ u64Max then some v else none := by
  have hf := digits_no_underscore radix _ _ _ h
  have hl := loop_eq_digits hr _ 0 v (by simp [u64Max]) h
  simp only [parseIntegerStrRadix, hf, fromStrRadix_digit hd, hl]
  by_cases hv : v ≤ u64Max <;> simp [hv]

/-- a digit text with separators -/
theorem parseInteger_sep {radix : Nat} (hr : radix = 2 ∨ radix = 8 ∨ radix = 10 ∨ radix = 16)
    {s : List Char} {v : Nat} (h : digitsSep radix false s 0 = some v) :
    parseIntegerStrRadix s radix = if v ≤ u64Max then some v else none := by
  obtain ⟨c, cs, d, rfl, hd⟩ := sep_head radix s 0 v h
  have hc : c ≠ '_' := by intro e; subst e; simp [underscore_not_digit] at hd
  have hfd := sep_filter radix _ false 0 v h
  have hfe : (c :: cs).filter (· ≠ '_') = c :: cs.filter (· ≠ '_') := by simp [List.filter, hc]
  rw [hfe] at hfd
  have hl := loop_eq_digits hr _ 0 v (by simp [u64Max]) hfd
  simp only [parseIntegerStrRadix, fromStrRadix_digit hd, hfe]
  cases h1 : digitsLoop radix (c :: cs) 0 with
  | some w =>
    have := loop_no_underscore hr _ _ _ h1
    rw [hfe] at this
    rw [this] at hl
    simp [← hl, h1]
  | none => simpa using hl

theorem isOctal_eq (c : Char) : isOctalDigit c = isOctal c := by
  have e : c.val.toNat = c.toNat := rfl
  simp only [isOctalDigit, isOctal, Char.le_def, UInt32.le_iff_toNat_le, e]
  rfl

theorem strip_zero (t : List Char)
    (h1 : ∀ u, t = 'b' :: u → False) (h2 : ∀ u, t = 'B' :: u → False) (h3 : ∀ u, t = 'o' :: u → False)
    (h4 : ∀ u, t = 'O' :: u → False) (h5 : ∀ u, t = 'x' :: u → False) (h6 : ∀ u, t = 'X' :: u → False) :
    stripRadixPrefix ('0' :: t) = if !t.isEmpty && ('0' :: t).all isOctalDigit then some (8, t) else none := by
  unfold stripRadixPrefix
  split <;> simp_all

theorem strip_nonzero (c : Char) (t : List Char) (h : c ≠ '0') : stripRadixPrefix (c :: t) = none := by
  unfold stripRadixPrefix
  split <;> simp_all

theorem digits_chars (radix : Nat) : ∀ (s : List Char) (acc v : Nat), digits radix s acc = some v →
    ∀ a ∈ s, (digitIn radix a).isSome
  | [], _, _, _ => by simp
  | c :: cs, acc, v, h => by
    simp only [digits] at h
    split at h
    · rename_i d hd
      intro a ha
      simp at ha
      rcases ha with rfl | ha
      · simp [hd]
      · exact digits_chars radix cs _ v h a ha
    · simp at h

theorem sep_chars (radix : Nat) : ∀ (s : List Char) (b : Bool) (acc v : Nat), digitsSep radix b s acc = some v →
    ∀ a ∈ s, a = '_' ∨ (digitIn radix a).isSome
  | [], _, _, _, _ => by simp
  | c :: cs, b, acc, v, h => by
    simp only [digitsSep] at h
    intro a ha
    simp at ha
    split at h
    · rename_i hc
      split at h
      · rcases ha with rfl | ha
        · exact Or.inl hc
        · exact sep_chars radix cs false acc v h a ha
      · simp at h
    · split at h
      · rename_i d hd
        rcases ha with rfl | ha
        · exact Or.inr (by simp [hd])
        · exact sep_chars radix cs true _ v h a ha
      · simp at h

theorem no_float_marks (s : List Char) (h : ∀ a ∈ s, a = '_' ∨ (digitIn 10 a).isSome) :
    (s.contains 'e' || s.contains '.') = false := by
  have he : digitIn 10 'e' = none := by decide
  have hd : digitIn 10 '.' = none := by decide
  simp only [Bool.or_eq_false_iff, List.contains_eq_mem, decide_eq_false_iff_not]
  constructor
  · intro hm
    rcases h _ hm with h' | h'
    · simp at h'
    · simp [he] at h'
  · intro hm
    rcases h _ hm with h' | h'
    · simp at h'
    · simp [hd] at h'

theorem opt_map_ite (v : Nat) : Option.map Number.integer (if v ≤ u64Max then some v else none) = if v ≤ u64Max then some (.integer v) else none := by
  split <;> rfl

theorem digits_head {radix : Nat} {t : List Char} {v : Nat} (hne : t ≠ []) (h : digits radix t 0 = some v) :
    ∃ c cs d, t = c :: cs ∧ digitIn radix c = some d := by
  cases t with
  | nil => exact absurd rfl hne
  | cons c cs =>
    simp only [digits] at h
    split at h
    · rename_i d hd; exact ⟨c, cs, d, rfl, hd⟩
    · simp at h

theorem parseNumber_mv (floatOk : List Char → Bool) (s : List Char) (v : Nat) (h : mv s = some v) :
    parseNumberStr floatOk s = if v ≤ u64Max then some (.integer v) else none := by
  unfold mv at h
  split at h
  · split at h
    · simp at h
    · simp [parseNumberStr, stripRadixPrefix, parseInteger_sep (Or.inl rfl) h]
  · split at h
    · simp at h
    · simp [parseNumberStr, stripRadixPrefix, parseInteger_sep (Or.inl rfl) h]
  · split at h
    · simp at h
    · simp [parseNumberStr, stripRadixPrefix, parseInteger_sep (Or.inr (Or.inl rfl)) h]
  · split at h
    · simp at h
    · simp [parseNumberStr, stripRadixPrefix, parseInteger_sep (Or.inr (Or.inl rfl)) h]
  · split at h
    · simp at h
    · simp [parseNumberStr, stripRadixPrefix, parseInteger_sep (Or.inr (Or.inr (Or.inr rfl))) h]
  · split at h
    · simp at h
    · simp [parseNumberStr, stripRadixPrefix, parseInteger_sep (Or.inr (Or.inr (Or.inr rfl))) h]
  · simp at h; subst h
    simp [parseNumberStr, stripRadixPrefix, isOctalDigit, parseIntegerStrRadix, fromStrRadix, digitsLoop, toDigit, digitVal36, u64Max]
  · rename_i t h1 h2 h3 h4 h5 h6 hne
    have hne' : t ≠ [] := fun e => hne e
    have hstrip := strip_zero t h1 h2 h3 h4 h5 h6
    have hz : isOctalDigit '0' = true := by decide
    have hall : t.all isOctalDigit = t.all isOctal := by simp [funext isOctal_eq]
    split at h
    · rename_i hoct
      obtain ⟨c, cs, d, rfl, hd⟩ := digits_head hne' h
      have : stripRadixPrefix ('0' :: c :: cs) = some (8, c :: cs) := by
        rw [hstrip]
        simp only [List.all_cons, hz, Bool.true_and]
        rw [← List.all_cons, hall, hoct]
        simp
      simp only [parseNumberStr, this, parseInteger_digits (Or.inr (Or.inl rfl)) hd h, opt_map_ite]
    · rename_i hoct
      split at h
      · rename_i hdec
        have : stripRadixPrefix ('0' :: t) = none := by
          rw [hstrip]
          simp only [List.all_cons, hz, Bool.true_and, hall]
          simp [hoct]
        have h0 : digitIn 10 '0' = some 0 := by decide
        have hd' : digits 10 ('0' :: t) 0 = some v := by simpa [digits, h0] using h
        have hm := no_float_marks ('0' :: t) (fun a ha => Or.inr (digits_chars 10 _ _ _ hd' a ha))
        simp only [parseNumberStr, this, hm, parseInteger_digits (Or.inr (Or.inr (Or.inl rfl))) h0 hd', opt_map_ite]
        simp
      · simp at h
  · rename_i c cs _ _ _ _ _ _ _ _
    split at h
    · rename_i hc
      have hc0 : c ≠ '0' := by
        intro e; subst e; revert hc; decide
      have hm := no_float_marks _ (sep_chars 10 _ _ _ _ h)
      simp only [parseNumberStr, strip_nonzero c cs hc0, hm, parseInteger_sep (Or.inr (Or.inr (Or.inl rfl))) h, opt_map_ite]
      simp
    · simp at h
  · simp at h

theorem digitIn_of_isDigit (c : Char) (h : c.isDigit = true) : digitIn 10 c = some (c.toNat - '0'.toNat) := by
  have hlt : c.toNat < 128 := by
    simp [Char.isDigit] at h
    have e : c.val.toNat = c.toNat := rfl
    have := h.2
    rw [UInt32.le_iff_toNat_le] at this
    simp at this; omega
  rw [char_eq_ofNat c] at h ⊢
  generalize c.toNat = n at hlt h
  revert n
  decide +kernel

theorem digits_eq_ofDigitChars : ∀ (l : List Char) (acc : Nat), (∀ c ∈ l, c.isDigit = true) →
    digits 10 l acc = some (Nat.ofDigitChars 10 l acc)
  | [], acc, _ => by simp [digits]
  | c :: cs, acc, h => by
    have hc := digitIn_of_isDigit c (h c (by simp))
    simp only [digits, hc, Nat.ofDigitChars_cons]
    rw [Nat.mul_comm acc 10]
    exact digits_eq_ofDigitChars cs _ (fun a ha => h a (by simp [ha]))

theorem digits_toDigits (n : Nat) : digits 10 (Nat.toDigits 10 n) 0 = some n := by
  rw [digits_eq_ofDigitChars _ _ (fun c hc => Nat.isDigit_of_mem_toDigits (by decide) (by decide) hc)]
  simp [Nat.ofDigitChars_ten_toDigits]

/-- the decimal text written for an integer reads back as that integer -/
theorem readInt_formatInt (v : Int) : readInt (formatInt v) = some v := by
  unfold formatInt
  split
  · rename_i hneg
    have hne : (Nat.toDigits 10 v.natAbs).isEmpty = false := by
      cases h : Nat.toDigits 10 v.natAbs with
      | nil => exact absurd h Nat.toDigits_ne_nil
      | cons _ _ => rfl
    simp only [readInt, hne, digits_toDigits]
    simp; omega
  · rename_i hpos
    have hne := @Nat.toDigits_ne_nil v.natAbs 10
    cases h : Nat.toDigits 10 v.natAbs with
    | nil => exact absurd h hne
    | cons c cs =>
      have hc : c ≠ '-' := by
        intro e
        have : c.isDigit = true := Nat.isDigit_of_mem_toDigits (b := 10) (n := v.natAbs) (by decide) (by decide) (by simp [h])
        subst e
        revert this; decide
      have hd := digits_toDigits v.natAbs
      rw [h] at hd
      unfold readInt
      split
      · rename_i heq; simp at heq; exact absurd heq.1 hc
      · simp [hd]; omega

theorem hex16 : (16 = 2 ∨ 16 = 8 ∨ 16 = 10 ∨ 16 = 16) := by decide

/-- a successful 32-bit loop read exactly the positional value -/
theorem loop32_digits : ∀ (s : List Char) (acc n : Nat), digitsLoop32 16 s acc = some n → digits 16 s acc = some n
  | [], acc, n, h => by simpa [digitsLoop32, digits] using h
  | c :: cs, acc, n, h => by
    simp only [digitsLoop32, toDigit_eq 16 hex16] at h
    simp only [digits]
    split at h
    · simp at h
    · rename_i d hd
      simp only [hd]
      split at h
      · exact loop32_digits cs _ n h
      · simp at h

/-- all characters of a text the spec reads as digits are ASCII -/
theorem digit_ascii {radix : Nat} {c : Char} {d : Nat} (h : digitIn radix c = some d) : c.utf8Size = 1 := by
  by_cases hc : c.toNat < 128
  · have e : c.val.toNat = c.toNat := rfl
    have : c.val ≤ 127 := by rw [UInt32.le_iff_toNat_le]; simp; omega
    simp [Char.utf8Size, this]
  · rw [digitIn_none_of_ge _ _ hc] at h; simp at h

theorem digits_bytes {radix : Nat} : ∀ (s : List Char) (acc n : Nat), digits radix s acc = some n →
    (s.map Char.utf8Size).sum = s.length
  | [], _, _, _ => rfl
  | c :: cs, acc, n, h => by
    simp only [digits] at h
    split at h
    · rename_i d hd
      simp [digit_ascii hd, digits_bytes cs _ n h]; omega
    · simp at h

theorem digits_lt_pow : ∀ (s : List Char) (acc n : Nat), digits 16 s acc = some n → n < (acc + 1) * 16 ^ s.length
  | [], acc, n, h => by simp [digits] at h; subst h; simp
  | c :: cs, acc, n, h => by
    simp only [digits] at h
    split at h
    · rename_i d hd
      have hd' := digitIn_lt hd
      have := digits_lt_pow cs _ n h
      simp only [List.length_cons, Nat.pow_succ]
      calc n < (acc * 16 + d + 1) * 16 ^ cs.length := this
        _ ≤ ((acc + 1) * 16) * 16 ^ cs.length := Nat.mul_le_mul_right _ (by omega)
        _ = (acc + 1) * (16 ^ cs.length * 16) := by rw [Nat.mul_assoc, Nat.mul_comm 16]
    · simp at h

theorem toNat_ofNat_valid (n : Nat) (h : n < 0xD800 ∨ (0xE000 ≤ n ∧ n < 0x110000)) : (Char.ofNat n).toNat = n := by
  have hv : n.isValidChar := by
    rcases h with h | h
    · exact Or.inl h
    · exact Or.inr ⟨by omega, h.2⟩
  simp [Char.ofNat, hv, Char.ofNatAux, Char.toNat]

theorem charFromU32_some {n : Nat} {c : Char} (h : charFromU32 n = some c) :
    c.toNat = n ∧ (n < 0xD800 ∨ (0xE000 ≤ n ∧ n < 0x110000)) := by
  simp only [charFromU32] at h
  split at h
  · rename_i hv
    simp at h; subst h
    exact ⟨toNat_ofNat_valid n hv, hv⟩
  · simp at h

/-- without a sign, `from_str_radix` is the loop -/
theorem fromStrRadix32_nosign {s : List Char} {n : Nat} (hp : '+' ∉ s) (h : fromStrRadix32 16 s = some n) :
    s ≠ [] ∧ digitsLoop32 16 s 0 = some n := by
  unfold fromStrRadix32 at h
  split at h
  · simp at h
  · simp at h
  · simp at h
  · simp at hp
  · rename_i h1 h2 h3 h4
    exact ⟨fun e => h1 e, h⟩

theorem charFromStrRadix_some {s : List Char} {c : Char} (hp : '+' ∉ s) (h : charFromStrRadix s 16 = some c) :
    ∃ n, s ≠ [] ∧ digits 16 s 0 = some n ∧ c.toNat = n ∧ (n < 0xD800 ∨ (0xE000 ≤ n ∧ n < 0x110000)) := by
  simp only [charFromStrRadix] at h
  split at h
  · rename_i n hn
    obtain ⟨hne, hl⟩ := fromStrRadix32_nosign hp hn
    obtain ⟨h1, h2⟩ := charFromU32_some h
    exact ⟨n, hne, loop32_digits _ _ _ hl, h1, h2⟩
  · simp at h

theorem utf8Size_pos (c : Char) : 1 ≤ c.utf8Size := by
  simp only [Char.utf8Size]; split <;> (try split) <;> (try split) <;> omega

theorem sum_one_singleton : ∀ (l : List Char), (l.map Char.utf8Size).sum = 1 → ∃ c, l = [c] ∧ c.utf8Size = 1
  | [], h => by simp at h
  | [c], h => ⟨c, rfl, by simpa using h⟩
  | a :: b :: rest, h => by
    have ha := utf8Size_pos a
    have hb := utf8Size_pos b
    simp at h; omega

theorem utf8Size_one_lt (c : Char) (h : c.utf8Size = 1) : c.toNat < 128 := by
  have e : c.val.toNat = c.toNat := rfl
  simp only [Char.utf8Size] at h
  split at h
  · rename_i h1; rw [UInt32.le_iff_toNat_le] at h1; simp at h1; omega
  · split at h
    · omega
    · split at h <;> omega

def singleOk (n : Nat) : Bool :=
  match unescapeChar ['\\', Char.ofNat n] with
  | some c => decide (escapeValue ['\\', Char.ofNat n] = some (units16 [c]))
  | none => true

/-- single-character escapes: finite table, checked by kernel evaluation over all ASCII characters -/
theorem single_escape_table : ∀ n, n < 128 → singleOk n = true := by
  decide +kernel

theorem units16_single (c : Char) : units16 [c] = utf16Encode c.toNat := by simp [units16]

/-- C03, string escapes: whenever `unescape_char` accepts an escape sequence, the character it yields is the
    ECMAScript value of that escape sequence (no sign characters: guaranteed by the lexer's escape pattern) -/
theorem unescape_sound (e : List Char) (c : Char) (hp : '+' ∉ e) (h : unescapeChar e = some c) :
    escapeValue e = some (units16 [c]) := by
  unfold unescapeChar at h
  split at h
  · rename_i tail
    by_cases hl : (tail.map Char.utf8Size).sum = 1
    · obtain ⟨c0, rfl, h0⟩ := sum_one_singleton tail hl
      have hn := utf8Size_one_lt c0 h0
      have ht := single_escape_table c0.toNat hn
      unfold singleOk at ht
      rw [← char_eq_ofNat c0] at ht
      have hm : unescapeChar ['\\', c0] = some c := h
      simp only [hm, decide_eq_true_eq] at ht
      exact ht
    · simp only [hl, if_false] at h
      have hbrace : digitIn 16 '{' = none := by decide
      split at h
      · -- \u{…}
        rename_i rest
        have hp' : '+' ∉ rest := fun hm => hp (by simp [hm])
        split at h
        · rename_i hlast
          have hp'' : '+' ∉ rest.dropLast := fun hm => hp' (List.dropLast_subset _ hm)
          obtain ⟨n, hne, hd, hcn, hv⟩ := charFromStrRadix_some hp'' h
          have hne' : rest.dropLast.isEmpty = false := by
            cases hdl : rest.dropLast with
            | nil => exact absurd hdl hne
            | cons _ _ => rfl
          have hle : n ≤ 1114111 := by omega
          simp only [escapeValue, hlast, hne', hd, hle, if_true, units16_single, hcn]
          simp
        · split at h
          · have hp'' : '+' ∉ ('{' :: rest) := by
              intro hm; simp at hm; exact hp' hm
            obtain ⟨n, _, hd, _, _⟩ := charFromStrRadix_some hp'' h
            simp [digits, hbrace] at hd
          · simp at h
      · -- \uHHHH
        rename_i rest hnb
        split at h
        · rename_i hlen
          have hp' : '+' ∉ rest := fun hm => hp (by simp [hm])
          obtain ⟨n, hne, hd, hcn, hv⟩ := charFromStrRadix_some hp' h
          have hb := digits_bytes rest 0 n hd
          have hu : 'u'.utf8Size = 1 := by decide
          have hlen4 : rest.length = 4 := by simp [hu] at hlen; omega
          have hlt := digits_lt_pow rest 0 n hd
          rw [hlen4] at hlt
          have hn : n < 65536 := by omega
          cases rest with
          | nil => simp at hlen4
          | cons r rs =>
            have hr : r ≠ '{' := fun e => hnb rs (by rw [e])
            simp only [escapeValue, hlen4, hd, units16_single, hcn, utf16Encode, hn]
            simp
        · simp at h
      · -- \xHH
        rename_i rest
        split at h
        · rename_i hlen
          have hp' : '+' ∉ rest := fun hm => hp (by simp [hm])
          obtain ⟨n, hne, hd, hcn, hv⟩ := charFromStrRadix_some hp' h
          have hb := digits_bytes rest 0 n hd
          have hx : 'x'.utf8Size = 1 := by decide
          have hlen2 : rest.length = 2 := by simp [hx] at hlen; omega
          have hlt := digits_lt_pow rest 0 n hd
          rw [hlen2] at hlt
          have hn : n < 65536 := by omega
          simp only [escapeValue, hlen2, hd, units16_single, hcn, utf16Encode, hn]
          simp
        · simp at h
      · simp at h
  · simp at h

theorem units16_append (a b : List Char) : units16 (a ++ b) = units16 a ++ units16 b := by
  induction a with
  | nil => rfl
  | cons c cs ih => simp [units16, ih]

def toSeg : Segment → Seg
  | .fragment s => .fragment s
  | .escape s => .escape s

def signFree : List Segment → Prop
  | [] => True
  | .fragment _ :: rest => signFree rest
  | .escape e :: rest => '+' ∉ e ∧ signFree rest

/-- C03, string literals: whenever `parse_string` accepts a literal, the string it yields is the ECMAScript string
    value of the literal (UTF-16 code units) -/
theorem parseString_sound : ∀ (segs : List Segment) (s : List Char), signFree segs → parseString segs = some s →
    stringValue (segs.map toSeg) = some (units16 s)
  | [], s, _, h => by simp [parseString] at h; subst h; rfl
  | .fragment f :: rest, s, hs, h => by
    simp only [parseString] at h
    cases hr : parseString rest with
    | none => simp [hr] at h
    | some t =>
      simp [hr] at h; subst h
      have := parseString_sound rest t hs hr
      simp [toSeg, stringValue, this, units16_append]
  | .escape e :: rest, s, hs, h => by
    simp only [parseString] at h
    cases he : unescapeChar e with
    | none => simp [he] at h
    | some c =>
      simp only [he] at h
      cases hr : parseString rest with
      | none => simp [hr] at h
      | some t =>
        simp [hr] at h; subst h
        have h1 := unescape_sound e c hs.1 he
        have h2 := parseString_sound rest t hs.2 hr
        simp [toSeg, stringValue, h1, h2, units16]

end QV.Proofs.Literal
