/- Helper lemmas for C03 (literals): the parser returns the ECMAScript MV. Core Lean only. -/
import QV.Model.Literal
import QV.Spec.Ecma

namespace QV.Proofs.Literal
open QV.Model.Literal QV.Spec.Ecma

theorem char_eq_ofNat (c : Char) : c = Char.ofNat c.toNat := by simp

theorem toDigit_none_of_ge (radix : Nat) (c : Char) (h : ¬ c.toNat < 128) : toDigit radix c = none := by
  have hv : digitVal36 c = none := by
    simp only [digitVal36]
    split
    · omega
    · split
      · omega
      · split
        · omega
        · rfl
  simp [toDigit, hv]

theorem digitIn_none_of_ge (radix : Nat) (c : Char) (h : ¬ c.toNat < 128) : digitIn radix c = none := by
  have hv : digitValue c = none := by
    have e : c.val.toNat = c.toNat := rfl
    simp only [digitValue, Char.le_def, UInt32.le_iff_toNat_le, e]
    split
    · rename_i h1; simp at h1; omega
    · split
      · rename_i h1; simp at h1; omega
      · split
        · rename_i h1; simp at h1; omega
        · rfl
  simp [digitIn, hv]

/-- the two digit readings agree for the radixes the parser uses -/
theorem toDigit_eq (radix : Nat) (hr : radix = 2 ∨ radix = 8 ∨ radix = 10 ∨ radix = 16) (c : Char) :
    toDigit radix c = digitIn radix c := by
  by_cases h : c.toNat < 128
  · rw [char_eq_ofNat c]
    generalize c.toNat = n at h
    rcases hr with rfl | rfl | rfl | rfl <;> (revert n; decide +kernel)
  · rw [toDigit_none_of_ge _ _ h, digitIn_none_of_ge _ _ h]

theorem underscore_not_digit (radix : Nat) : digitIn radix '_' = none := by
  have : digitValue '_' = none := by decide
  simp [digitIn, this]

theorem digitIn_lt {radix : Nat} {c : Char} {d : Nat} (h : digitIn radix c = some d) : d < radix := by
  simp only [digitIn] at h
  split at h
  · split at h
    · simp at h; omega
    · simp at h
  · simp at h

/-- the value only grows along the digits -/
theorem digits_ge {radix : Nat} (hr : 1 ≤ radix) : ∀ (s : List Char) (acc v : Nat), digits radix s acc = some v → acc ≤ v
  | [], acc, v, h => by simp [digits] at h; omega
  | c :: cs, acc, v, h => by
    simp only [digits] at h
    split at h
    · have := digits_ge hr cs _ v h
      have : acc ≤ acc * radix := Nat.le_mul_of_pos_right acc hr
      omega
    · simp at h

theorem radix_pos {radix : Nat} (hr : radix = 2 ∨ radix = 8 ∨ radix = 10 ∨ radix = 16) : 1 ≤ radix := by omega

/-- the checked loop returns the positional value, or nothing when it exceeds u64 -/
theorem loop_eq_digits {radix : Nat} (hr : radix = 2 ∨ radix = 8 ∨ radix = 10 ∨ radix = 16) :
    ∀ (s : List Char) (acc v : Nat), acc ≤ u64Max → digits radix s acc = some v →
      digitsLoop radix s acc = if v ≤ u64Max then some v else none
  | [], acc, v, ha, h => by
    simp [digits] at h; subst h
    simp [digitsLoop, ha]
  | c :: cs, acc, v, ha, h => by
    simp only [digits] at h
    simp only [digitsLoop, toDigit_eq radix hr]
    split at h
    · rename_i d hd
      simp only [hd]
      split
      · rename_i hle
        exact loop_eq_digits hr cs _ v hle h
      · rename_i hgt
        have := digits_ge (radix_pos hr) cs _ v h
        have : ¬ v ≤ u64Max := by omega
        simp [this]
    · simp at h

/-- a string the loop accepts has no separator -/
theorem loop_no_underscore {radix : Nat} (hr : radix = 2 ∨ radix = 8 ∨ radix = 10 ∨ radix = 16) :
    ∀ (s : List Char) (acc v : Nat), digitsLoop radix s acc = some v → s.filter (· ≠ '_') = s
  | [], _, _, _ => rfl
  | c :: cs, acc, v, h => by
    simp only [digitsLoop, toDigit_eq radix hr] at h
    split at h
    · simp at h
    · rename_i d hd
      split at h
      · have hc : c ≠ '_' := by
          intro e; subst e; simp [underscore_not_digit] at hd
        have := loop_no_underscore hr cs _ v h
        simp only [List.filter_eq_self] at this ⊢
        intro a ha
        simp at ha
        rcases ha with rfl | ha
        · simpa using hc
        · exact this a ha
      · simp at h

/-- `Digits[+Sep]` is `Digits[~Sep]` of the text with the separators removed -/
theorem sep_filter (radix : Nat) : ∀ (s : List Char) (b : Bool) (acc v : Nat),
    digitsSep radix b s acc = some v → digits radix (s.filter (· ≠ '_')) acc = some v
  | [], b, acc, v, h => by
    simp only [digitsSep] at h
    split at h
    · simpa [digits] using h
    · simp at h
  | c :: cs, b, acc, v, h => by
    simp only [digitsSep] at h
    split at h
    · rename_i hc
      subst hc
      split at h
      · have := sep_filter radix cs false acc v h
        simpa [List.filter] using this
      · simp at h
    · rename_i hc
      split at h
      · rename_i d hd
        have := sep_filter radix cs true _ v h
        simp [List.filter, hc, digits, hd]
        simpa using this
      · simp at h

/-- a `Digits[+Sep]` text starts with a digit when no digit precedes it -/
theorem sep_head (radix : Nat) (s : List Char) (acc v : Nat) (h : digitsSep radix false s acc = some v) :
    ∃ c cs d, s = c :: cs ∧ digitIn radix c = some d := by
  cases s with
  | nil => simp [digitsSep] at h
  | cons c cs =>
    simp only [digitsSep] at h
    split at h
    · simp at h
    · split at h
      · rename_i d hd
        exact ⟨c, cs, d, rfl, hd⟩
      · simp at h

theorem digits_no_underscore (radix : Nat) : ∀ (s : List Char) (acc v : Nat),
    digits radix s acc = some v → s.filter (· ≠ '_') = s
  | [], _, _, _ => rfl
  | c :: cs, acc, v, h => by
    simp only [digits] at h
    split at h
    · rename_i d hd
      have hc : c ≠ '_' := by
        intro e; subst e; simp [underscore_not_digit] at hd
      have := digits_no_underscore radix cs _ v h
      simp only [List.filter_eq_self] at this ⊢
      intro a ha
      simp at ha
      rcases ha with rfl | ha
      · simpa using hc
      · exact this a ha
    · simp at h

theorem plus_not_digit (radix : Nat) : digitIn radix '+' = none := by
  have : digitValue '+' = none := by decide
  simp [digitIn, this]

theorem minus_not_digit (radix : Nat) : digitIn radix '-' = none := by
  have : digitValue '-' = none := by decide
  simp [digitIn, this]

/-- on a text starting with a digit, `from_str_radix` is the checked loop -/
theorem fromStrRadix_digit {radix : Nat} {c : Char} {cs : List Char} {d : Nat} (hd : digitIn radix c = some d) :
    fromStrRadix radix (c :: cs) = digitsLoop radix (c :: cs) 0 := by
  have h1 : c ≠ '+' := by intro e; subst e; simp [plus_not_digit] at hd
  have h2 : c ≠ '-' := by intro e; subst e; simp [minus_not_digit] at hd
  unfold fromStrRadix
  split <;> simp_all

/-- a sign-free digit text without separators -/
theorem parseInteger_digits {radix : Nat} (hr : radix = 2 ∨ radix = 8 ∨ radix = 10 ∨ radix = 16)
    {c : Char} {cs : List Char} {d v : Nat} (hd : digitIn radix c = some d)
    (h : digits radix (c :: cs) 0 = some v) :
    parseIntegerStrRadix (c :: cs) radix = if v ≤ u64Max then some v else none := by
  have hf := digits_no_underscore radix _ _ _ h
  have hl := loop_eq_digits hr _ 0 v (by simp [u64Max]) h
  simp only [parseIntegerStrRadix, hf, fromStrRadix_digit hd, hl]
  by_cases hv : v ≤ u64Max <;> simp [hv]

/-- a digit text with separators -/
theorem parseInteger_sep {radix : Nat} (hr : radix = 2 ∨ radix = 8 ∨ radix = 10 ∨ radix = 16)
    {s : List Char} {v : Nat} (h : digitsSep radix false s 0 = some v) :
    parseIntegerStrRadix s radix = if v ≤ u64Max then some v else none := by
  obtain ⟨c, cs, d, rfl, hd⟩ := sep_head radix s 0 v h
  have hc : c ≠ '_' := by intro e; subst e; simp [underscore_not_digit] at hd
  have hfd := sep_filter radix _ false 0 v h
  have hfe : (c :: cs).filter (· ≠ '_') = c :: cs.filter (· ≠ '_') := by simp [List.filter, hc]
  rw [hfe] at hfd
  have hl := loop_eq_digits hr _ 0 v (by simp [u64Max]) hfd
  simp only [parseIntegerStrRadix, fromStrRadix_digit hd, hfe]
  cases h1 : digitsLoop radix (c :: cs) 0 with
  | some w =>
    have := loop_no_underscore hr _ _ _ h1
    rw [hfe] at this
    rw [this] at hl
    simp [← hl, h1]
  | none => simpa using hl

theorem isOctal_eq (c : Char) : isOctalDigit c = isOctal c := by
  have e : c.val.toNat = c.toNat := rfl
  simp only [isOctalDigit, isOctal, Char.le_def, UInt32.le_iff_toNat_le, e]
  rfl

theorem strip_zero (t : List Char)
    (h1 : ∀ u, t = 'b' :: u → False) (h2 : ∀ u, t = 'B' :: u → False) (h3 : ∀ u, t = 'o' :: u → False)
    (h4 : ∀ u, t = 'O' :: u → False) (h5 : ∀ u, t = 'x' :: u → False) (h6 : ∀ u, t = 'X' :: u → False) :
    stripRadixPrefix ('0' :: t) = if !t.isEmpty && ('0' :: t).all isOctalDigit then some (8, t) else none := by
  unfold stripRadixPrefix
  split <;> simp_all

theorem strip_nonzero (c : Char) (t : List Char) (h : c ≠ '0') : stripRadixPrefix (c :: t) = none := by
  unfold stripRadixPrefix
  split <;> simp_all

theorem digits_chars (radix : Nat) : ∀ (s : List Char) (acc v : Nat), digits radix s acc = some v →
    ∀ a ∈ s, (digitIn radix a).isSome
  | [], _, _, _ => by simp
  | c :: cs, acc, v, h => by
    simp only [digits] at h
    split at h
    · rename_i d hd
      intro a ha
      simp at ha
      rcases ha with rfl | ha
      · simp [hd]
      · exact digits_chars radix cs _ v h a ha
    · simp at h

theorem sep_chars (radix : Nat) : ∀ (s : List Char) (b : Bool) (acc v : Nat), digitsSep radix b s acc = some v →
    ∀ a ∈ s, a = '_' ∨ (digitIn radix a).isSome
  | [], _, _, _, _ => by simp
  | c :: cs, b, acc, v, h => by
    simp only [digitsSep] at h
    intro a ha
    simp at ha
    split at h
    · rename_i hc
      split at h
      · rcases ha with rfl | ha
        · exact Or.inl hc
        · exact sep_chars radix cs false acc v h a ha
      · simp at h
    · split at h
      · rename_i d hd
        rcases ha with rfl | ha
        · exact Or.inr (by simp [hd])
        · exact sep_chars radix cs true _ v h a ha
      · simp at h

theorem no_float_marks (s : List Char) (h : ∀ a ∈ s, a = '_' ∨ (digitIn 10 a).isSome) :
    (s.contains 'e' || s.contains '.') = false := by
  have he : digitIn 10 'e' = none := by decide
  have hd : digitIn 10 '.' = none := by decide
  simp only [Bool.or_eq_false_iff, List.contains_eq_mem, decide_eq_false_iff_not]
  constructor
  · intro hm
    rcases h _ hm with h' | h'
    · simp at h'
    · simp [he] at h'
  · intro hm
    rcases h _ hm with h' | h'
    · simp at h'
    · simp [hd] at h'

theorem opt_map_ite (v : Nat) : Option.map Number.integer (if v ≤ u64Max then some v else none) = if v ≤ u64Max then some (.integer v) else none := by
  split <;> rfl

theorem digits_head {radix : Nat} {t : List Char} {v : Nat} (hne : t ≠ []) (h : digits radix t 0 = some v) :
    ∃ c cs d, t = c :: cs ∧ digitIn radix c = some d := by
  cases t with
  | nil => exact absurd rfl hne
  | cons c cs =>
    simp only [digits] at h
    split at h
    · rename_i d hd; exact ⟨c, cs, d, rfl, hd⟩
    · simp at h

theorem parseNumber_mv (floatOk : List Char → Bool) (s : List Char) (v : Nat) (h : mv s = some v) :
    parseNumberStr floatOk s = if v ≤ u64Max then some (.integer v) else none := by
  unfold mv at h
  split at h
  · split at h
    · simp at h
    · simp [parseNumberStr, stripRadixPrefix, parseInteger_sep (Or.inl rfl) h]
  · split at h
    · simp at h
    · simp [parseNumberStr, stripRadixPrefix, parseInteger_sep (Or.inl rfl) h]
  · split at h
    · simp at h
    · simp [parseNumberStr, stripRadixPrefix, parseInteger_sep (Or.inr (Or.inl rfl)) h]
  · split at h
    · simp at h
    · simp [parseNumberStr, stripRadixPrefix, parseInteger_sep (Or.inr (Or.inl rfl)) h]
  · split at h
    · simp at h
    · simp [parseNumberStr, stripRadixPrefix, parseInteger_sep (Or.inr (Or.inr (Or.inr rfl))) h]
  · split at h
    · simp at h
    · simp [parseNumberStr, stripRadixPrefix, parseInteger_sep (Or.inr (Or.inr (Or.inr rfl))) h]
  · simp at h; subst h
    simp [parseNumberStr, stripRadixPrefix, isOctalDigit, parseIntegerStrRadix, fromStrRadix, digitsLoop, toDigit, digitVal36, u64Max]
  · rename_i t h1 h2 h3 h4 h5 h6 hne
    have hne' : t ≠ [] := fun e => hne e
    have hstrip := strip_zero t h1 h2 h3 h4 h5 h6
    have hz : isOctalDigit '0' = true := by decide
    have hall : t.all isOctalDigit = t.all isOctal := by simp [funext isOctal_eq]
    split at h
    · rename_i hoct
      obtain ⟨c, cs, d, rfl, hd⟩ := digits_head hne' h
      have : stripRadixPrefix ('0' :: c :: cs) = some (8, c :: cs) := by
        rw [hstrip]
        simp only [List.all_cons, hz, Bool.true_and]
        rw [← List.all_cons, hall, hoct]
        simp
      simp only [parseNumberStr, this, parseInteger_digits (Or.inr (Or.inl rfl)) hd h, opt_map_ite]
    · rename_i hoct
      split at h
      · rename_i hdec
        have : stripRadixPrefix ('0' :: t) = none := by
          rw [hstrip]
          simp only [List.all_cons, hz, Bool.true_and, hall]
          simp [hoct]
        have h0 : digitIn 10 '0' = some 0 := by decide
        have hd' : digits 10 ('0' :: t) 0 = some v := by simpa [digits, h0] using h
        have hm := no_float_marks ('0' :: t) (fun a ha => Or.inr (digits_chars 10 _ _ _ hd' a ha))
        simp only [parseNumberStr, this, hm, parseInteger_digits (Or.inr (Or.inr (Or.inl rfl))) h0 hd', opt_map_ite]
        simp
      · simp at h
  · rename_i c cs _ _ _ _ _ _ _ _
    split at h
    · rename_i hc
      have hc0 : c ≠ '0' := by
        intro e; subst e; revert hc; decide
      have hm := no_float_marks _ (sep_chars 10 _ _ _ _ h)
      simp only [parseNumberStr, strip_nonzero c cs hc0, hm, parseInteger_sep (Or.inr (Or.inr (Or.inl rfl))) h, opt_map_ite]
      simp
    · simp at h
  · simp at h

theorem digitIn_of_isDigit (c : Char) (h : c.isDigit = true) : digitIn 10 c = some (c.toNat - '0'.toNat) := by
  have hlt : c.toNat < 128 := by
    simp [Char.isDigit] at h
    have e : c.val.toNat = c.toNat := rfl
    have := h.2
    rw [UInt32.le_iff_toNat_le] at this
    simp at this; omega
  rw [char_eq_ofNat c] at h ⊢
  generalize c.toNat = n at hlt h
  revert n
  decide +kernel

theorem digits_eq_ofDigitChars : ∀ (l : List Char) (acc : Nat), (∀ c ∈ l, c.isDigit = true) →
    digits 10 l acc = some (Nat.ofDigitChars 10 l acc)
  | [], acc, _ => by simp [digits]
  | c :: cs, acc, h => by
    have hc := digitIn_of_isDigit c (h c (by simp))
    simp only [digits, hc, Nat.ofDigitChars_cons]
    rw [Nat.mul_comm acc 10]
    exact digits_eq_ofDigitChars cs _ (fun a ha => h a (by simp [ha]))

theorem digits_toDigits (n : Nat) : digits 10 (Nat.toDigits 10 n) 0 = some n := by
  rw [digits_eq_ofDigitChars _ _ (fun c hc => Nat.isDigit_of_mem_toDigits (by decide) (by decide) hc)]
  simp [Nat.ofDigitChars_ten_toDigits]

/-- the decimal text written for an integer reads back as that integer -/
theorem readInt_formatInt (v : Int) : readInt (formatInt v) = some v := by
  unfold formatInt
  split
  · rename_i hneg
    have hne : (Nat.toDigits 10 v.natAbs).isEmpty = false := by
      cases h : Nat.toDigits 10 v.natAbs with
      | nil => exact absurd h Nat.toDigits_ne_nil
      | cons _ _ => rfl
    simp only [readInt, hne, digits_toDigits]
    simp; omega
  · rename_i hpos
    have hne := @Nat.toDigits_ne_nil v.natAbs 10
    cases h : Nat.toDigits 10 v.natAbs with
    | nil => exact absurd h hne
    | cons c cs =>
      have hc : c ≠ '-' := by
        intro e
        have : c.isDigit = true := Nat.isDigit_of_mem_toDigits (b := 10) (n := v.natAbs) (by decide) (by decide) (by simp [h])
        subst e
        revert this; decide
      have hd := digits_toDigits v.natAbs
      rw [h] at hd
      unfold readInt
      split
      · rename_i heq; simp at heq; exact absurd heq.1 hc
      · simp [hd]; omega

end QV.Proofs.Literal
