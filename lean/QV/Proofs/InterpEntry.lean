/-
  tir/interpret.rs `evaluate_code` (QV.Model.evaluateCode): when is a body evaluated as a constant?
  The constant fast path looks at the ENTRY block (`basic_blocks[0]`); otherwise the interpreter walks from the entry
  block and gives up at the first conditional branch and at the first property read.  So a body whose entry block
  ends in a conditional branch, or assigns a property read, is never evaluated as a constant — whatever its other
  blocks (for instance the last one) end in.  (Round-4 seed C02/7 made the fast path look at the LAST block.)
-/
import QV.Model.Finalize

set_option linter.unusedSimpArgs false
set_option linter.unusedVariables false

namespace QV.Proofs.InterpEntry
open QV.Model

/-- the statement loop goes on after a statement only with some table of locals -/
theorem evalStatements_cons (env : Env) (s : Statement) (rest : List Statement) (L L' : List (Option EvaluatedValue))
    (h : evalStatements env (s :: rest) L = some L') : ∃ L'', evalStatements env rest L'' = some L' := by
  cases s with
  | exec r => exact ⟨L, by simpa [evalStatements] using h⟩
  | observeProperty o l m => exact ⟨L, by simpa [evalStatements] using h⟩
  | assign l r =>
    simp only [evalStatements] at h
    split at h
    · cases h
    · exact ⟨_, h⟩

/-- … and it stops (`return None`) at a property read -/
theorem evalStatements_read (env : Env) (l : Nat) (a : Operand) (p : PropInfo) (rest : List Statement)
    (L : List (Option EvaluatedValue)) : evalStatements env (.assign l (.readProperty a p) :: rest) L = none := by
  simp [evalStatements]

theorem evalStatements_no_read (env : Env) : ∀ (stmts : List Statement) (L L' : List (Option EvaluatedValue)),
    evalStatements env stmts L = some L' → ∀ l a p, Statement.assign l (.readProperty a p) ∉ stmts
  | [], _, _, _, _, _, _ => by simp
  | s :: rest, L, L', h, l, a, p => by
    intro hm
    rcases List.mem_cons.1 hm with he | hr
    · subst he
      rw [evalStatements_read] at h
      cases h
    · obtain ⟨L'', h'⟩ := evalStatements_cons env s rest L L' h
      exact evalStatements_no_read env rest L'' L' h' l a p hr

theorem getD_replicate_false (n : Nat) : (List.replicate n false).getD 0 false = false := by
  cases n <;> simp

/-- **A body that is evaluated as a constant**: its ENTRY block ends in the `return` of a constant (the fast path; the
    value is that constant), or the entry block neither ends in a conditional branch nor assigns a property read -/
theorem evaluated_constant_entry (env : Env) (code : CodeBody) (v : EvaluatedValue)
    (h : evaluateCode env code = .value (some v)) :
    ∃ b0, code.blocks[0]? = some b0 ∧
      ((∃ cv, b0.terminator = some (.ret (.const cv)) ∧ toEvaluatedValue env [] (.const cv) .noTr = some v) ∨
       ((∀ c x y, b0.terminator ≠ some (.brCond c x y)) ∧
        ∀ l a p, Statement.assign l (.readProperty a p) ∉ b0.statements)) := by
  unfold evaluateCode at h
  cases hb : code.blocks[0]? with
  | none => simp [hb] at h
  | some b0 =>
    refine ⟨b0, rfl, ?_⟩
    simp only [hb] at h
    have slow : evaluateCode.loop env code (code.blocks.length + 1) 0 (List.replicate code.blocks.length false)
        (List.replicate code.locals.length none) = .value (some v) →
        (∀ c x y, b0.terminator ≠ some (.brCond c x y)) ∧
        ∀ l a p, Statement.assign l (.readProperty a p) ∉ b0.statements := by
      intro hl
      unfold evaluateCode.loop at hl
      simp only [getD_replicate_false, Bool.false_eq_true, if_false, hb] at hl
      cases hs : evalStatements env b0.statements (List.replicate code.locals.length none) with
      | none => simp [hs] at hl
      | some L' =>
        simp only [hs] at hl
        refine ⟨fun c x y ht => ?_, evalStatements_no_read env _ _ _ hs⟩
        simp [ht] at hl
    cases ht : b0.terminator with
    | none => simp [ht] at h
    | some t =>
      cases t with
      | ret a =>
        cases a with
        | const cv =>
          left
          simp only [ht] at h
          injection h with h
          exact ⟨cv, rfl, h⟩
        | _ => right; simp only [ht] at h; have r := slow h; rw [ht] at r; exact r
      | _ => right; simp only [ht] at h; have r := slow h; rw [ht] at r; exact r

/-- in particular: **a body whose entry block branches on a condition is never evaluated as a constant** -/
theorem branching_entry_not_constant (env : Env) (code : CodeBody) (b0 : BasicBlock) (c : Operand) (x y : Nat)
    (hb : code.blocks[0]? = some b0) (ht : b0.terminator = some (.brCond c x y)) :
    ∀ v, evaluateCode env code ≠ .value (some v) := by
  intro v h
  obtain ⟨b, hb', hc⟩ := evaluated_constant_entry env code v h
  rw [hb] at hb'
  cases hb'
  rcases hc with ⟨cv, h1, _⟩ | ⟨h1, _⟩
  · rw [ht] at h1; cases h1
  · exact h1 c x y ht

/-- … and neither is a body whose entry block assigns a property read -/
theorem reading_entry_not_constant (env : Env) (code : CodeBody) (b0 : BasicBlock) (l : Nat) (a : Operand) (p : PropInfo)
    (hb : code.blocks[0]? = some b0) (hs : Statement.assign l (.readProperty a p) ∈ b0.statements)
    (hne : ∀ cv, b0.terminator ≠ some (.ret (.const cv))) :
    ∀ v, evaluateCode env code ≠ .value (some v) := by
  intro v h
  obtain ⟨b, hb', hc⟩ := evaluated_constant_entry env code v h
  rw [hb] at hb'
  cases hb'
  rcases hc with ⟨cv, h1, _⟩ | ⟨_, h2⟩
  · exact hne cv h1
  · exact h2 l a p hs

end QV.Proofs.InterpEntry
