/-
  C06, the builder for ALL programs — part 4: statements (`let`/`const`, blocks, `if`, `switch`, `break`, `return`) and
  whole programs.
-/
import QV.Proofs.BuilderInvWalk

set_option linter.unusedSimpArgs false
set_option linter.unusedVariables false

namespace QV.Proofs.BuilderInv
open QV.Model QV.Model.Cfg

/-! ### declarations -/

theorem good_decls (c : Ctx) (kind : DeclKind) : (ds : List Decl) → ∀ s s', Inv s.b →
    run (walkDecls c kind ds) s = (some (), s') → GoodP s.b s'.b []
  | [], s, s', hinv, h => by
    simp [walkDecls] at h
    rw [← h]; exact GoodP.refl _
  | d :: rest, s, s', hinv, h => by
    simp only [walkDecls] at h
    obtain ⟨rvalue, s1, h1, h2⟩ := bind_ok h
    have g1 : GoodP s.b s1.b [] := by
      cases hv : d.value with
      | some e =>
        simp only [hv] at h1
        obtain ⟨v, s1', h3, h4⟩ := bind_ok h1
        simp at h4
        rw [← h4.2]
        exact rvalue_of_expr (good_expr c e) s s1' v hinv h3
      | none =>
        simp only [hv] at h1
        split at h1 <;> simp at h1
        rw [← h1.2]; exact GoodP.refl _
    obtain ⟨ty, s2, h5, h6⟩ := bind_ok h2
    have e2 : s2 = s1 := by
      cases ha : d.ty with
      | some a => simp only [ha] at h5; exact processTypeAnnotation_ok h5
      | none =>
        simp only [ha] at h5
        split at h5
        · split at h5 <;> simp at h5
          exact h5.2.symm
        · simp at h5
    subst e2
    obtain ⟨b0, s3, h7, h8⟩ := bind_ok h6
    simp at h7
    obtain ⟨rfl, rfl⟩ := h7
    obtain ⟨l, s4, h9, h10⟩ := bind_ok h8
    obtain ⟨b1, h11, rfl⟩ := consumeLocal_ok h9
    have g2 : GoodP s2.b b1 [] := GoodP.of_same (visitLocalDeclaration_same h11)
    obtain ⟨ls, s5, h12, h13⟩ := bind_ok h10
    simp at h12
    obtain ⟨rfl, rfl⟩ := h12
    obtain ⟨u, s6, h14, h15⟩ := bind_ok h13
    simp at h14
    have g12 : GoodP s.b s6.b [] := by rw [← h14]; exact t0 (g1.trans g2)
    cases hr : rvalue with
    | none =>
      simp only [hr] at h15
      obtain ⟨u2, s7, h16, h17⟩ := bind_ok h15
      have hb7 : s7.b = s6.b := by
        have := congrArg Prod.snd h16
        have e7 : s7 = { s6 with userUninit := s6.userUninit ++ [l] } := by
          simpa [run, modify, modifyGet, MonadStateOf.modifyGet, StateT.modifyGet, OptionT.lift, liftM, monadLift, MonadLift.monadLift,
            OptionT.mk, bind, StateT.bind, pure, StateT.pure, getModify] using this.symm
        rw [e7]
      have g7 : GoodP s.b s7.b [] := by rw [hb7]; exact g12
      exact t0 (g7.trans (good_decls c kind rest s7 s' (g7.inv hinv) h17))
    | some v =>
      simp only [hr] at h15
      obtain ⟨bq, s8, h18, h19⟩ := bind_ok h15
      simp at h18
      obtain ⟨rfl, rfl⟩ := h18
      obtain ⟨u3, s9, h20, h17⟩ := bind_ok h19
      have g3 := consume_same h20 (fun a b' hr => visitLocalAssignment_same hr)
      have g9 := t0 (g12.trans g3)
      exact t0 (g9.trans (good_decls c kind rest s9 s' (g9.inv hinv) h17))

/-! ### `filter_map` over the clauses: nothing is gained by a failure -/

theorem caseConditions_length (c : Ctx) (left : Operand) : (cl : List (Option Expr × List Stmt)) → ∀ s s' conds,
    run (walkCaseConditions c left cl) s = (some conds, s') → conds.length ≤ (cl.filter (·.1.isSome)).length
  | [], s, s', conds, h => by
    simp [walkCaseConditions] at h
    simp [← h.1]
  | (none, body) :: rest, s, s', conds, h => by
    simp only [walkCaseConditions] at h
    have := caseConditions_length c left rest s s' conds h
    simpa using this
  | (some v, body) :: rest, s, s', conds, h => by
    simp only [walkCaseConditions] at h
    obtain ⟨r, s1, h1, h2⟩ := bind_ok h
    obtain ⟨others, s2, h3, h4⟩ := bind_ok h2
    have := caseConditions_length c left rest s1 s2 others h3
    cases r with
    | none => simp at h4; rw [← h4.1]; simp; omega
    | some x => simp at h4; rw [← h4.1]; simp; omega

theorem bodies_length (c : Ctx) (bl : Option Nat) : (cl : List (Option Expr × List Stmt)) → ∀ s s' bodies,
    run (walkBodies c bl cl) s = (some bodies, s') → bodies.length ≤ cl.length
  | [], s, s', bodies, h => by
    simp [walkBodies] at h
    simp [← h.1]
  | (cv, body) :: rest, s, s', bodies, h => by
    simp only [walkBodies] at h
    obtain ⟨outer, s0, h0, h0'⟩ := bind_ok h
    obtain ⟨ok, s1a, h1, h1'⟩ := bind_ok h0'
    obtain ⟨u, s1, hset, h2⟩ := bind_ok h1'
    cases ok with
    | false =>
      simp only [Bool.false_eq_true, if_false] at h2
      have := bodies_length c bl rest s1 s' bodies h2
      simp; omega
    | true =>
      simp only [if_true] at h2
      obtain ⟨l, s2, h3, h4⟩ := bind_ok h2
      obtain ⟨others, s3, h5, h6⟩ := bind_ok h4
      have := bodies_length c bl rest s2 s3 others h5
      simp at h6
      rw [← h6.1]
      simp; omega

/-- the case conditions: each one ends in a pending branch point -/
theorem good_caseConditions (c : Ctx) (left : Operand) : (cl : List (Option Expr × List Stmt)) → ∀ s s' conds, Inv s.b →
    run (walkCaseConditions c left cl) s = (some conds, s') →
    conds.length = (cl.filter (·.1.isSome)).length → GoodP s.b s'.b (conds.map (·.2))
  | [], s, s', conds, hinv, h, hlen => by
    simp [walkCaseConditions] at h
    rw [h.1, ← h.2]; exact GoodP.refl _
  | (none, body) :: rest, s, s', conds, hinv, h, hlen => by
    simp only [walkCaseConditions] at h
    exact good_caseConditions c left rest s s' conds hinv h (by simpa using hlen)
  | (some v, body) :: rest, s, s', conds, hinv, h, hlen => by
    simp only [walkCaseConditions] at h
    obtain ⟨r, s1, h1, h2⟩ := bind_ok h
    obtain ⟨others, s2, h3, h4⟩ := bind_ok h2
    have hle := caseConditions_length c left rest s1 s2 others h3
    cases r with
    | none =>
      simp at h4
      rw [← h4.1] at hlen
      simp at hlen
      omega
    | some x =>
      simp at h4
      obtain ⟨rfl, rfl⟩ := h4
      have hx := attempt_ok h1
      obtain ⟨right, s3, h5, h6⟩ := bind_ok hx
      have g1 := rvalue_of_expr (good_expr c v) s s3 right hinv h5
      obtain ⟨b0, s4, h7, h8⟩ := bind_ok h6
      simp at h7
      obtain ⟨rfl, rfl⟩ := h7
      obtain ⟨cnd, s5, h9, h10⟩ := bind_ok h8
      have g2 := t0 (g1.trans (consume_same h9 (fun a b' hr => visitBinaryExpression_same hr)))
      obtain ⟨lbl, s6, h12, h13⟩ := bind_ok h10
      obtain ⟨_, m1⟩ := markBranchPoint_good (g2.inv hinv) h12
      simp at h13
      have g3 := g2.trans m1
      have g4 := good_caseConditions c left rest s1 s2 others (by rw [← h13.2]; exact g3.inv hinv) h3 (by simp at hlen; omega)
      have : GoodP s.b s2.b (([] ++ [lbl]) ++ others.map (·.2)) := by
        refine GoodP.trans ?_ g4
        rw [← h13.2]; exact g3
      rw [← h13.1]
      simpa using this

/-! ### the induction over statements -/

def StmtGood (c : Ctx) (bl : Option Nat) (st : Stmt) : Prop :=
  ∀ s s', Inv s.b → (∀ l, bl = some l → l < len s.b) → run (walkStmt c bl st) s = (some (), s') → GoodP s.b s'.b []

def StmtsGood (c : Ctx) (bl : Option Nat) (ss : List Stmt) : Prop :=
  ∀ s s', Inv s.b → (∀ l, bl = some l → l < len s.b) → run (walkStmts c bl ss) s = (some true, s') → GoodP s.b s'.b []

def BodiesGood (c : Ctx) (bl : Option Nat) (cl : List (Option Expr × List Stmt)) : Prop :=
  ∀ s s' bodies, Inv s.b → (∀ l, bl = some l → l < len s.b) → run (walkBodies c bl cl) s = (some bodies, s') →
    bodies.length = cl.length → GoodP s.b s'.b bodies

theorem count_split : ∀ (l : List (Option Expr × List Stmt)),
    (l.filter (·.1.isSome)).length + (l.filter (·.1.isNone)).length = l.length
  | [] => rfl
  | (none, b) :: rest => by have := count_split rest; simp; omega
  | (some e, b) :: rest => by have := count_split rest; simp; omega

theorem setLocals_b (s : WState) (l : Locals) : ({ s with locals := l } : WState).b = s.b := rfl

mutual

theorem good_stmt (c : Ctx) (bl : Option Nat) : (st : Stmt) → StmtGood c bl st
  | .expr e => by
    intro s s' hinv hbl h
    simp only [walkStmt] at h
    obtain ⟨v, s1, h1, h2⟩ := bind_ok h
    have g1 := rvalue_of_expr (good_expr c e) s s1 v hinv h1
    obtain ⟨b, s2, h3, h4⟩ := bind_ok h2
    simp at h3 h4
    obtain ⟨rfl, rfl⟩ := h3
    rw [← h4]
    exact goodP_setB _ _ _ _ (t0 (g1.trans (GoodP.of_same (visitExpressionStatement_same _ _))))
  | .lexical kind ds => by
    intro s s' hinv hbl h
    simp only [walkStmt] at h
    exact good_decls c kind ds s s' hinv h
  | .break_ labeled => by
    intro s s' hinv hbl h
    simp only [walkStmt] at h
    cases labeled with
    | true => simp at h
    | false =>
      simp only [Bool.false_eq_true, if_false] at h
      cases bl with
      | none => simp at h
      | some l =>
        simp only at h
        obtain ⟨b, s1, h1, h2⟩ := bind_ok h
        simp at h1 h2
        obtain ⟨rfl, rfl⟩ := h1
        rw [← h2]
        obtain ⟨hadv, hlen, hcl⟩ := visitBreakStatement_adv s.b l (hbl l rfl) hinv.pos
        refine goodP_setB _ _ _ _ ⟨hadv, fun j h1 h2 => ?_, by simp⟩
        rw [hlen] at h2
        have : j = len s.b - 1 := by omega
        rw [this]; exact Or.inl hcl
  | .return_ e => by
    intro s s' hinv hbl h
    simp only [walkStmt] at h
    obtain ⟨v, s1, h1, h2⟩ := bind_ok h
    obtain ⟨b, s2, h3, h4⟩ := bind_ok h2
    simp at h3 h4
    obtain ⟨rfl, rfl⟩ := h3
    have g1 : GoodP s.b s1.b [] := by
      cases e with
      | none => simp at h1; rw [← h1.2]; exact GoodP.refl _
      | some x => simp only at h1; exact rvalue_of_expr (good_expr c x) s s1 v hinv h1
    rw [← h4]
    obtain ⟨hadv, hlen, hcl⟩ := visitReturnStatement_adv s1.b v (g1.inv hinv).pos
    have g2 : GoodP s1.b (visitReturnStatement s1.b v) [] := ⟨hadv, fun j h1 h2 => by
      rw [hlen] at h2
      have : j = len s1.b - 1 := by omega
      rw [this]; exact Or.inl hcl, by simp⟩
    exact goodP_setB _ _ _ _ (t0 (g1.trans g2))
  | .block ss => by
    intro s s' hinv hbl h
    simp only [walkStmt] at h
    obtain ⟨outer, s1, h1, h2⟩ := bind_ok h
    simp at h1
    obtain ⟨rfl, rfl⟩ := h1
    obtain ⟨ok, s2, h3, h4⟩ := bind_ok h2
    obtain ⟨u, s3, h5, h6⟩ := bind_ok h4
    simp at h5
    cases ok with
    | false => simp at h6
    | true =>
      simp at h6
      have g := good_stmts c bl ss s s2 hinv hbl h3
      rw [← h6, ← h5]
      exact g
  | .if_ cnd a b => by
    intro s s' hinv hbl h
    simp only [walkStmt] at h
    obtain ⟨cv, s1, h1, h2⟩ := bind_ok h
    have g1 := rvalue_of_expr (good_expr c cnd) s s1 cv hinv h1
    obtain ⟨cl, s2, h3, h4⟩ := bind_ok h2
    obtain ⟨_, m1⟩ := markBranchPoint_good (g1.inv hinv) h3
    have g2 := g1.trans m1
    obtain ⟨outer, s3, h5, h6⟩ := bind_ok h4
    simp at h5
    obtain ⟨rfl, rfl⟩ := h5
    obtain ⟨r, s4, h7, h8⟩ := bind_ok h6
    have hx := attempt_ok h7
    obtain ⟨u, s5, h9, h10⟩ := bind_ok h8
    simp at h9
    cases r with
    | none => simp at h10
    | some u0 =>
      simp only at h10
      have hbl2 : ∀ l, bl = some l → l < len s2.b := fun l hl => Nat.lt_of_lt_of_le (hbl l hl) g2.adv.mono
      have ga := good_stmt c bl a s2 s4 (g2.inv hinv) hbl2 hx
      have g5 : GoodP s.b s5.b ([] ++ [cl] ++ []) := by rw [← h9]; exact g2.trans ga
      obtain ⟨al, s6, h11, h12⟩ := bind_ok h10
      obtain ⟨_, m2⟩ := markBranchPoint_good (g5.inv hinv) h11
      have g6 := g5.trans m2
      obtain ⟨alt, s7, h13, h14⟩ := bind_ok h12
      cases b with
      | none =>
        simp at h13
        rw [← h13.2] at h14
        obtain ⟨u1, s8, h15, h16⟩ := bind_ok h14
        rw [checkConditionType_ok h15] at h16
        obtain ⟨bb, s9, h17, h18⟩ := bind_ok h16
        simp at h17 h18
        rw [← h18, ← h17.2, ← h17.1, ← h13.1]
        have hc := visitIfStatement_ctl s6.b cv cl al none (g6.pend cl (by simp)) (g6.pend al (by simp)) (by simp)
        exact goodP_setB _ _ _ _ (g6.close hc (by simp))
      | some bs =>
        simp only at h13
        obtain ⟨r2, s8, h15, h16⟩ := bind_ok h13
        have hx2 := attempt_ok h15
        obtain ⟨u2, s9, h17, h18⟩ := bind_ok h16
        simp at h17
        cases r2 with
        | none => simp at h18
        | some u3 =>
          simp only at h18
          have hbl6 : ∀ l, bl = some l → l < len s6.b := fun l hl => Nat.lt_of_lt_of_le (hbl l hl) g6.adv.mono
          have gb := good_stmt c bl bs s6 s8 (g6.inv hinv) hbl6 hx2
          have g9 : GoodP s.b s9.b ([] ++ [cl] ++ [] ++ [al] ++ []) := by rw [← h17]; exact g6.trans gb
          obtain ⟨lb, s10, h19, h20⟩ := bind_ok h18
          obtain ⟨_, m3⟩ := markBranchPoint_good (g9.inv hinv) h19
          have g10 := g9.trans m3
          simp at h20
          rw [← h20.2] at h14
          obtain ⟨u1, s11, h21, h22⟩ := bind_ok h14
          rw [checkConditionType_ok h21] at h22
          obtain ⟨bb, s12, h23, h24⟩ := bind_ok h22
          simp at h23 h24
          rw [← h24, ← h23.2, ← h23.1, ← h20.1]
          have hc := visitIfStatement_ctl s10.b cv cl al (some lb) (g10.pend cl (by simp)) (g10.pend al (by simp))
            (by intro y hy; simp at hy; subst hy; exact g10.pend lb (by simp))
          exact goodP_setB _ _ _ _ (g10.close hc (by simp))
  | .switch v cl => by
    intro s s' hinv hbl h
    simp only [walkStmt] at h
    by_cases hmd : (cl.filter (·.1.isNone)).length > 1
    · simp [hmd] at h
    · simp only [hmd, if_false] at h
      obtain ⟨left, s1, h1, h2⟩ := bind_ok h
      obtain ⟨conds, s2, h3, h4⟩ := bind_ok h2
      obtain ⟨hr, s3, h5, h6⟩ := bind_ok h4
      obtain ⟨er, s4, h7, h8⟩ := bind_ok h6
      obtain ⟨outer, s5, h9, h10⟩ := bind_ok h8
      simp at h9
      obtain ⟨rfl, rfl⟩ := h9
      obtain ⟨bodies?, s6, h11, h12⟩ := bind_ok h10
      have hx := attempt_ok h11
      obtain ⟨u, s7, h13, h14⟩ := bind_ok h12
      simp at h13
      cases bodies? with
      | none => simp at h14
      | some bodies =>
        simp only at h14
        by_cases hlen : (cl.filter (·.1.isSome)).length = conds.length ∧ cl.length = bodies.length
        · simp only [hlen, and_self, if_true] at h14
          obtain ⟨bb, s8, h15, h16⟩ := bind_ok h14
          simp at h15 h16
          have g1 := rvalue_of_expr (good_expr c v) s s1 left hinv h1
          have g2 := g1.trans (good_caseConditions c left cl s1 s2 conds (g1.inv hinv) h3 hlen.1.symm)
          obtain ⟨_, m1⟩ := markBranchPoint_good (g2.inv hinv) h5
          have g3 := g2.trans m1
          obtain ⟨_, m2⟩ := markBranchPoint_good (g3.inv hinv) h7
          have g4 := g3.trans m2
          have her : er < len s4.b := by have := g4.pend er (by simp); omega
          have g6 := g4.trans (good_bodies c (some er) cl s4 s6 bodies (g4.inv hinv)
            (by intro l hl; simp at hl; subst hl; exact her) hx hlen.2.symm)
          have hb7 : s7.b = s6.b := by rw [← h13]
          rw [← h16, ← h15.2, ← h15.1, hb7]
          -- the counts fit
          have hsplit := count_split cl
          have hcount : match cl.findIdx? (·.1.isNone) with
              | none => conds.length = bodies.length
              | some p => p < bodies.length ∧ conds.length + 1 = bodies.length := by
            cases hfi : cl.findIdx? (·.1.isNone) with
            | none =>
              have hall := List.findIdx?_eq_none_iff.1 hfi
              have : (cl.filter (·.1.isNone)).length = 0 := by
                rw [List.length_eq_zero_iff, List.filter_eq_nil_iff]
                intro x hx
                have := hall x hx
                cases hx1 : x.1 <;> simp_all
              simp only
              omega
            | some p =>
              have hp := List.findIdx?_eq_some_iff_getElem.1 hfi
              have hpos : 0 < (cl.filter (·.1.isNone)).length := by
                rw [List.length_pos_iff_exists_mem]
                exact ⟨cl[p]'hp.1, List.mem_filter.2 ⟨List.getElem_mem _, hp.2.1⟩⟩
              simp only
              have := hp.1
              omega
          have g6' : GoodP s.b s6.b (conds.map (·.2) ++ [hr, er] ++ bodies) := by simpa using g6
          have hc := visitSwitchStatement_ctl s6.b conds bodies (cl.findIdx? (·.1.isNone)) hr er
            (fun x hx => g6'.pend x.2 (List.mem_append_left _ (List.mem_append_left _ (List.mem_map_of_mem hx))))
            (fun r hr' => g6'.pend r (List.mem_append_right _ hr'))
            (by have := g6'.pend hr (List.mem_append_left _ (List.mem_append_right _ (by simp))); omega)
            (g6'.pend er (List.mem_append_left _ (List.mem_append_right _ (by simp))))
            hcount
          exact goodP_setB _ _ _ _ (g6'.close hc (by
            intro r hr'
            rcases List.mem_append.1 hr' with hr' | hr'
            · rcases List.mem_append.1 hr' with hr' | hr'
              · exact List.mem_append_left _ (List.mem_append_left _ hr')
              · exact List.mem_append_right _ hr'
            · exact List.mem_append_left _ (List.mem_append_right _ hr')))
        · simp [hlen] at h14

theorem good_stmts (c : Ctx) (bl : Option Nat) : (ss : List Stmt) → StmtsGood c bl ss
  | [] => by
    intro s s' hinv hbl h
    simp [walkStmts] at h
    rw [← h]; exact GoodP.refl _
  | st :: rest => by
    intro s s' hinv hbl h
    simp only [walkStmts] at h
    obtain ⟨r, s1, h1, h2⟩ := bind_ok h
    have hx := attempt_ok h1
    cases r with
    | none =>
      simp only at h2
      obtain ⟨u, s2, h3, h4⟩ := bind_ok h2
      simp at h4
    | some u =>
      simp only at h2
      have g1 := good_stmt c bl st s s1 hinv hbl hx
      have hbl1 : ∀ l, bl = some l → l < len s1.b := fun l hl => Nat.lt_of_lt_of_le (hbl l hl) g1.adv.mono
      exact t0 (g1.trans (good_stmts c bl rest s1 s' (g1.inv hinv) hbl1 h2))

theorem good_bodies (c : Ctx) (bl : Option Nat) : (cl : List (Option Expr × List Stmt)) → BodiesGood c bl cl
  | [] => by
    intro s s' bodies hinv hbl h hlen
    simp [walkBodies] at h
    rw [h.1, ← h.2]; exact GoodP.refl _
  | (cv, body) :: rest => by
    intro s s' bodies hinv hbl h hlen
    simp only [walkBodies] at h
    obtain ⟨outer, s0, h0, h0'⟩ := bind_ok h
    simp at h0
    obtain ⟨rfl, rfl⟩ := h0
    obtain ⟨ok, s1a, h1, h1'⟩ := bind_ok h0'
    obtain ⟨u, s1, hset, h2⟩ := bind_ok h1'
    simp at hset
    cases ok with
    | false =>
      simp only [Bool.false_eq_true, if_false] at h2
      have := bodies_length c bl rest s1 s' bodies h2
      simp at hlen
      omega
    | true =>
      simp only [if_true] at h2
      obtain ⟨l, s2, h3, h4⟩ := bind_ok h2
      obtain ⟨others, s3, h5, h6⟩ := bind_ok h4
      simp at h6
      have g1 : GoodP s.b s1.b [] := by
        have := good_stmts c bl body s s1a hinv hbl h1
        rw [← hset]; exact this
      obtain ⟨_, m1⟩ := markBranchPoint_good (g1.inv hinv) h3
      have g2 := g1.trans m1
      have hbl2 : ∀ l, bl = some l → l < len s2.b := fun l hl => Nat.lt_of_lt_of_le (hbl l hl) g2.adv.mono
      have g3 := good_bodies c bl rest s2 s3 others (g2.inv hinv) hbl2 h5 (by rw [← h6.1] at hlen; simp at hlen; exact hlen)
      rw [← h6.1, ← h6.2]
      simpa using g2.trans g3

end


/-! ### whole programs -/

theorem run_pushDiag (m : String) (s : WState) : run (pushDiag m) s = (some (), { s with diags := s.diags ++ [m] }) := rfl

theorem good_params (c : Ctx) : (ps : List (String × Option (List String))) → ∀ n s s' m, Inv s.b →
    run (walkCallbackFunction.params c n ps) s = (some m, s') → GoodP s.b s'.b []
  | [], n, s, s', m, hinv, h => by
    simp [walkCallbackFunction.params] at h
    rw [← h.2]; exact GoodP.refl _
  | (name, ty) :: rest, n, s, s', m, hinv, h => by
    simp only [walkCallbackFunction.params] at h
    obtain ⟨ls, s1, h1, h2⟩ := bind_ok h
    simp at h1
    obtain ⟨rfl, rfl⟩ := h1
    split at h2
    · obtain ⟨u, s2, h3, h4⟩ := bind_ok h2
      rw [run_pushDiag] at h3
      simp at h3
      have := good_params c rest n s2 s' m (by rw [← h3]; exact hinv) h4
      rw [← h3] at this
      exact this
    · cases ty with
      | none =>
        simp only at h2
        obtain ⟨u, s2, h3, h4⟩ := bind_ok h2
        rw [run_pushDiag] at h3
        simp at h3
        have := good_params c rest n s2 s' m (by rw [← h3]; exact hinv) h4
        rw [← h3] at this
        exact this
      | some t =>
        simp only at h2
        obtain ⟨k, s2, h3, h4⟩ := bind_ok h2
        rw [processTypeAnnotation_ok h3] at h4
        obtain ⟨b0, s3, h5, h6⟩ := bind_ok h4
        simp at h5
        obtain ⟨rfl, rfl⟩ := h5
        obtain ⟨l, s4, h7, h8⟩ := bind_ok h6
        obtain ⟨b1, h9, rfl⟩ := consumeLocal_ok h7
        have g1 : GoodP s.b b1 [] := GoodP.of_same (visitFunctionParameter_same h9)
        obtain ⟨ls, s5, h10, h11⟩ := bind_ok h8
        simp at h10
        obtain ⟨rfl, rfl⟩ := h10
        obtain ⟨u, s6, h12, h13⟩ := bind_ok h11
        simp at h12
        have g6 : GoodP s.b s6.b [] := by rw [← h12]; exact g1
        exact t0 (g6.trans (good_params c rest (n + 1) s6 s' m (g6.inv hinv) h13))

theorem good_program (c : Ctx) (callback : Bool) (p : Program) (s s' : WState) (hinv : Inv s.b)
    (h : run (walkProgram c callback p) s = (some (), s')) : GoodP s.b s'.b [] := by
  cases p with
  | stmt st =>
    simp only [walkProgram] at h
    exact good_stmt c none st s s' hinv (by simp) h
  | function f =>
    simp only [walkProgram] at h
    cases callback with
    | false => simp at h
    | true =>
      simp only [if_true, walkCallbackFunction] at h
      split at h
      · simp at h
      · obtain ⟨u, s1, h1, h2⟩ := bind_ok h
        simp at h1
        obtain ⟨n, s2, h3, h4⟩ := bind_ok h2
        have g1 : GoodP s.b s2.b [] := by
          have := good_params c f.params 0 s1 s2 n (by rw [← h1]; exact hinv) h3
          rw [← h1] at this
          exact this
        split at h4
        · simp at h4
        · cases hb : f.body with
          | expr e =>
            simp only [hb] at h4
            obtain ⟨v, s3, h5, h6⟩ := bind_ok h4
            have g2 := rvalue_of_expr (good_expr c e) s2 s3 v (g1.inv hinv) h5
            obtain ⟨b, s4, h7, h8⟩ := bind_ok h6
            simp at h7 h8
            obtain ⟨rfl, rfl⟩ := h7
            rw [← h8]
            exact goodP_setB _ _ _ _ (t0 ((t0 (g1.trans g2)).trans (GoodP.of_same (visitExpressionStatement_same _ _))))
          | stmt st =>
            simp only [hb] at h4
            exact t0 (g1.trans (good_stmt c none st s2 s' (g1.inv hinv) (by simp) h4))

theorem termOf_init (j : Nat) : termOf ({} : Builder) j = none := by
  unfold termOf
  cases j with
  | zero => rfl
  | succ k => rfl

theorem inv_init : Inv ({} : Builder) :=
  ⟨by simp [len], fun j t h => by rw [termOf_init] at h; cases h⟩

/-- after the walk: the invariant holds and every block but the last one is closed -/
theorem walk_result (c : Ctx) (callback : Bool) (p : Program) (st : WState)
    (h : (walkProgram c callback p).run {} = (some (), st)) :
    Inv st.b ∧ ∀ j, j + 1 < len st.b → Closed st.b j := by
  have g := good_program c callback p {} st inv_init h
  refine ⟨g.inv inv_init, fun j hj => ?_⟩
  rcases g.cov j (by simp [len]) hj with h | h
  · exact h
  · simp at h

end QV.Proofs.BuilderInv
