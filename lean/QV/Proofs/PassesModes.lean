/-
  Lemmas about the mode switch of `QV.Model.Passes.run` (C14) and about per-object edits of a document (C20):
  the shape of `run`, the per-entry facts about `cxxEntry` / `rejectEntry`, their lifting through the lists, and the
  lifting of a per-object invariance through `place`.
-/
import QV.Proofs.Passes

namespace QV.Proofs.Passes
open QV.Model.Passes

/-! ### the shape of `run` -/

/-- the documents `run` processes: one root object whose type resolves -/
def valid : Forest → Bool
  | .cons root _ .nil => root.resolves
  | _ => false

theorem valid_iff (doc : Forest) :
    valid doc = true ↔ ∃ root ch, doc = .cons root ch .nil ∧ root.resolves = true := by
  constructor
  · intro h
    cases doc with
    | nil => simp [valid] at h
    | cons root ch rest =>
      cases rest with
      | nil => exact ⟨root, ch, rfl, h⟩
      | cons _ _ _ => simp [valid] at h
  · rintro ⟨root, ch, rfl, hr⟩
    exact hr

theorem run_omit (doc : Forest) (h : valid doc = true) :
    run .omit doc =
      { built := true, panic := anyPanic (place .root doc).1, objects := (place .root doc).1, support := none
        diags := commonDiags (place .root doc).1 (place .root doc).2 ++ (cxxAll (place .root doc).1).diags } := by
  obtain ⟨root, ch, rfl, hr⟩ := (valid_iff doc).1 h
  simp [run, hr]

theorem run_reject (doc : Forest) (h : valid doc = true) :
    run .reject doc =
      { built := true, panic := anyPanic (place .root doc).1, objects := (place .root doc).1, support := none
        diags := commonDiags (place .root doc).1 (place .root doc).2 ++ rejectAll (place .root doc).1 } := by
  obtain ⟨root, ch, rfl, hr⟩ := (valid_iff doc).1 h
  simp [run, hr]

theorem run_generate (doc : Forest) (h : valid doc = true) :
    run .generate doc =
      { built := true, panic := anyPanic (place .root doc).1, objects := (place .root doc).1
        support := some { bindings := (cxxAll (place .root doc).1).bindings
                          generated := (cxxAll (place .root doc).1).generated
                          repeated := (cxxAll (place .root doc).1).repeated
                          connected := connectedAll (place .root doc).1 }
        diags := commonDiags (place .root doc).1 (place .root doc).2 ++ (cxxAll (place .root doc).1).diags } := by
  obtain ⟨root, ch, rfl, hr⟩ := (valid_iff doc).1 h
  simp [run, hr]

/-- any other document is refused before the passes start, in the same way in every mode -/
theorem run_invalid (doc : Forest) (h : valid doc = false) (m : Mode) :
    run m doc = run .omit doc ∧ (run m doc).built = false ∧ (run m doc).panic = false ∧
      (run m doc).objects = [] ∧ (run m doc).support = none := by
  cases doc with
  | nil => simp [run, noResult]
  | cons root ch rest =>
    cases rest with
    | cons _ _ _ => simp [run, noResult]
    | nil =>
      have hr : root.resolves = false := h
      simp [run, hr, noResult]

/-- the state the form is computed from is fixed before the mode switch -/
theorem run_state (m : Mode) (doc : Forest) :
    (run m doc).objects = (run .omit doc).objects ∧ (run m doc).built = (run .omit doc).built ∧
      (run m doc).panic = (run .omit doc).panic := by
  cases h : valid doc
  · rw [(run_invalid doc h m).1]; exact ⟨rfl, rfl, rfl⟩
  · cases m
    · rw [run_generate doc h, run_omit doc h]; exact ⟨rfl, rfl, rfl⟩
    · rw [run_reject doc h, run_omit doc h]; exact ⟨rfl, rfl, rfl⟩
    · exact ⟨rfl, rfl, rfl⟩

theorem form_congr (r1 r2 : Result) (ho : r1.objects = r2.objects) (hb : r1.built = r2.built)
    (hp : r1.panic = r2.panic) : r1.form = r2.form := by
  simp [Result.form, ho, hb, hp]

/-! ### per-entry facts about the mode switch -/

theorem rejectEntry_nil_iff (e : EntryOut) : rejectEntry e = [] ↔ e.evalConst = true := by
  unfold rejectEntry
  cases h : e.evalConst
  · cases e <;> simp
  · simp

theorem cxxEntry_of_evalConst (e : EntryOut) (h : e.evalConst = true) : cxxEntry e = {} := by
  simp [cxxEntry, h]

/-- a binding that is not an evaluated constant leaves a trace in the support code: a binding or an error -/
theorem cxxEntry_trace (e : EntryOut) (h : e.evalConst = false) :
    (cxxEntry e).bindings ≠ [] ∨ (cxxEntry e).diags ≠ [] := by
  unfold cxxEntry
  rw [if_neg (by simp [h])]
  cases e with
  | leaf l o x =>
    simp only
    cases cxxLeaf l <;> simp
  | group g o =>
    simp only
    split
    · simp
    · by_cases hr : g.readable = true <;> by_cases hw : g.writable = true <;> simp [hr, hw]

theorem cxxEntry_quiet_iff (e : EntryOut) :
    ((cxxEntry e).bindings = [] ∧ (cxxEntry e).diags = []) ↔ e.evalConst = true := by
  constructor
  · intro ⟨hb, hd⟩
    cases h : e.evalConst
    · rcases cxxEntry_trace e h with h' | h'
      · exact absurd hb h'
      · exact absurd hd h'
    · rfl
  · intro h
    rw [cxxEntry_of_evalConst e h]
    exact ⟨rfl, rfl⟩

theorem cxxLeaf_kind (l : Leaf) (k : DK) (h : cxxLeaf l = some k) :
    k = .cxxRetType ∨ k = .cxxNotReadable ∨ k = .cxxNotWritable := by
  unfold cxxLeaf at h
  split at h
  · simp at h; simp [← h]
  · split at h
    · simp at h; simp [← h]
    · split at h
      · simp at h; simp [← h]
      · simp at h

/-- the four diagnostic classes of the C++ pass -/
def isCxxKind (d : Diag) : Prop :=
  d.kind = .cxxRetType ∨ d.kind = .cxxNotReadable ∨ d.kind = .cxxNotWritable ∨ d.kind = .cxxNested

theorem cxxMember_diags (p : Leaf × LeafOut) : ∀ d ∈ (cxxMember p).diags, isCxxKind d := by
  intro d hd
  unfold cxxMember at hd
  split at hd
  · rename_i k hk
    simp at hd
    subst hd
    rcases cxxLeaf_kind _ _ hk with h | h | h <;> simp [isCxxKind, h]
  · split at hd <;> simp at hd

theorem cxxMembers_diags (ms : List (Leaf × LeafOut)) : ∀ d ∈ (cxxMembers ms).diags, isCxxKind d := by
  induction ms with
  | nil => intro d hd; simp [cxxMembers] at hd
  | cons m rest ih =>
    intro d hd
    simp only [cxxMembers, Cxx.append, List.mem_append] at hd
    rcases hd with hd | hd
    · exact cxxMember_diags m d hd
    · exact ih d hd

theorem cxxEntry_diags (e : EntryOut) : ∀ d ∈ (cxxEntry e).diags, isCxxKind d := by
  intro d hd
  unfold cxxEntry at hd
  split at hd
  · simp at hd
  · cases e with
    | leaf l o x =>
      simp only at hd
      split at hd
      · rename_i k hk
        simp at hd
        subst hd
        rcases cxxLeaf_kind _ _ hk with h | h | h <;> simp [isCxxKind, h]
      · simp at hd
    | group g o =>
      simp only at hd
      split at hd
      · simp at hd; subst hd; simp [isCxxKind]
      · split at hd
        · simp only [List.mem_append, List.mem_singleton] at hd
          rcases hd with hd | hd
          · exact cxxMembers_diags _ d hd
          · subst hd; simp [isCxxKind]
        · split at hd
          · simp only [List.mem_append, List.mem_singleton] at hd
            rcases hd with hd | hd
            · exact cxxMembers_diags _ d hd
            · subst hd; simp [isCxxKind]
          · exact cxxMembers_diags _ d hd

/-! ### lifting through the lists -/

theorem rejectEntries_nil_iff (es : List EntryOut) :
    rejectEntries es = [] ↔ ∀ e ∈ es, e.evalConst = true := by
  induction es with
  | nil => simp [rejectEntries]
  | cons e rest ih => simp [rejectEntries, rejectEntry_nil_iff, ih]

theorem cxxEntries_quiet_iff (es : List EntryOut) :
    ((cxxEntries es).bindings = [] ∧ (cxxEntries es).diags = []) ↔ ∀ e ∈ es, e.evalConst = true := by
  induction es with
  | nil => simp [cxxEntries]
  | cons e rest ih =>
    rw [List.forall_mem_cons, ← ih, ← cxxEntry_quiet_iff]
    simp only [cxxEntries, Cxx.append, List.append_eq_nil_iff]
    constructor
    · rintro ⟨⟨a, b⟩, c, d⟩; exact ⟨⟨a, c⟩, b, d⟩
    · rintro ⟨⟨a, c⟩, b, d⟩; exact ⟨⟨a, b⟩, c, d⟩

theorem cxxEntries_diags (es : List EntryOut) : ∀ d ∈ (cxxEntries es).diags, isCxxKind d := by
  induction es with
  | nil => intro d hd; simp [cxxEntries] at hd
  | cons e rest ih =>
    intro d hd
    simp only [cxxEntries, Cxx.append, List.mem_append] at hd
    rcases hd with hd | hd
    · exact cxxEntry_diags e d hd
    · exact ih d hd

theorem cxxAll_diags (ps : List Placed) : ∀ d ∈ (cxxAll ps).diags, isCxxKind d := by
  induction ps with
  | nil => intro d hd; simp [cxxAll] at hd
  | cons p rest ih =>
    intro d hd
    simp only [cxxAll, Cxx.append, List.mem_append] at hd
    rcases hd with hd | hd
    · exact cxxEntries_diags _ d hd
    · exact ih d hd

/-- the three diagnostic classes of the reject pass -/
def isRejKind (d : Diag) : Prop :=
  d.kind = .rejDynamic ∨ d.kind = .rejNotWritable ∨ d.kind = .rejCallback

theorem rejectEntries_diags (es : List EntryOut) : ∀ d ∈ rejectEntries es, isRejKind d := by
  induction es with
  | nil => intro d hd; simp [rejectEntries] at hd
  | cons e rest ih =>
    intro d hd
    simp only [rejectEntries, List.mem_append] at hd
    rcases hd with hd | hd
    · unfold rejectEntry at hd
      split at hd
      · simp at hd
      · cases e <;> simp only [List.mem_singleton] at hd <;> subst hd <;> simp only [isRejKind] <;>
          split <;> simp
    · exact ih d hd

theorem rejectAll_diags (ps : List Placed) : ∀ d ∈ rejectAll ps, isRejKind d := by
  induction ps with
  | nil => intro d hd; simp [rejectAll] at hd
  | cons p rest ih =>
    intro d hd
    simp only [rejectAll, List.mem_append, List.mem_map] at hd
    rcases hd with (hd | ⟨c, _, rfl⟩) | hd
    · exact rejectEntries_diags _ d hd
    · simp [isRejKind]
    · exact ih d hd

/-- if reject mode adds no diagnostic, every top-level property of every object is an evaluated constant -/
theorem rejectAll_entries_nil (ps : List Placed) (h : rejectAll ps = []) :
    ∀ p ∈ ps, ∀ e ∈ p.props, e.evalConst = true := by
  induction ps with
  | nil => intro p hp; simp at hp
  | cons q rest ih =>
    simp only [rejectAll, List.append_eq_nil_iff] at h
    intro p hp e he
    rcases List.mem_cons.1 hp with rfl | hp
    · exact (rejectEntries_nil_iff _).1 h.1.1 e he
    · exact ih h.2 p hp e he

/-- the reject pass is silent exactly when the support code would be empty and error-free -/
theorem rejectAll_nil_iff (ps : List Placed) :
    rejectAll ps = [] ↔
      ((cxxAll ps).diags = [] ∧ (cxxAll ps).bindings = [] ∧ connectedAll ps = []) := by
  induction ps with
  | nil => simp [rejectAll, cxxAll, connectedAll]
  | cons p rest ih =>
    simp only [rejectAll, cxxAll, connectedAll, Cxx.append, List.append_eq_nil_iff, ih, List.map_eq_nil_iff,
      rejectEntries_nil_iff]
    rw [← cxxEntries_quiet_iff]
    constructor
    · rintro ⟨⟨⟨a, b⟩, c⟩, d, e, f⟩; exact ⟨⟨b, d⟩, ⟨a, e⟩, c, f⟩
    · rintro ⟨⟨b, d⟩, ⟨a, e⟩, c, f⟩; exact ⟨⟨⟨a, b⟩, c⟩, d, e, f⟩

/-! ### the common phases lose no diagnostic -/

theorem mem_commonDiags_tree (ps : List Placed) (t : List Diag) (d : Diag) (h : d ∈ t) : d ∈ commonDiags ps t := by
  simp [commonDiags, h]

theorem mem_commonDiags_obj (ps : List Placed) (t : List Diag) (p : Placed) (hp : p ∈ ps) (d : Diag)
    (h : d ∈ codeMapDiags p.obj ∨ d ∈ p.formDiags ∨ d ∈ leftoverDiags p) : d ∈ commonDiags ps t := by
  simp only [commonDiags, List.mem_append, List.mem_flatMap]
  rcases h with h | h | h
  · exact .inl (.inl (.inr ⟨p, hp, h⟩))
  · exact .inl (.inr ⟨p, hp, h⟩)
  · exact .inr ⟨p, hp, h⟩

/-! ### per-object edits of a document -/

theorem objs_mapObj (f : Obj → Obj) (F : Forest) : objs (mapObj f F) = (objs F).map f := by
  induction F with
  | nil => rfl
  | cons o ch rest ihc ihr => simp [objs, mapObj, ihc, ihr]

theorem mapObj_id (F : Forest) : mapObj id F = F := by
  induction F with
  | nil => rfl
  | cons o ch rest ihc ihr => simp [mapObj, ihc, ihr]

/-- the two objects have the same identity and kind: everything `dispatch`, `childReach` and the tree walk read -/
structure SameFlags (a b : Obj) : Prop where
  oid : a.oid = b.oid
  resolves : a.resolves = b.resolves
  isAction : a.isAction = b.isAction
  isLayout : a.isLayout = b.isLayout
  isMenu : a.isMenu = b.isMenu
  isWidget : a.isWidget = b.isWidget
  isSpacer : a.isSpacer = b.isSpacer
  layoutKind : a.layoutKind = b.layoutKind
  isTabWidget : a.isTabWidget = b.isTabWidget

/-- … and the same class-dependent exclude lists: everything the constant pass reads besides the code map -/
structure SameView (a b : Obj) : Prop where
  flags : SameFlags a b
  comboOrList : a.comboOrList = b.comboOrList
  tableView : a.tableView = b.tableView
  treeView : a.treeView = b.treeView

theorem dispatch_congr {a b : Obj} (h : SameFlags a b) (reach : Reach) : dispatch reach a = dispatch reach b := by
  unfold dispatch
  rw [h.isAction, h.isLayout, h.isMenu, h.isWidget, h.isSpacer]

theorem childReach_congr {a b : Obj} (h : SameFlags a b) (d : Disp) : childReach d a = childReach d b := by
  unfold childReach
  rw [h.layoutKind, h.isTabWidget]

theorem dispatch_action (reach : Reach) (o : Obj) (h : (dispatch reach o).1 = .action) : o.isAction = true := by
  unfold dispatch at h
  cases reach <;> simp only at h <;> (repeat' split at h) <;> simp_all

theorem hasResolving_mapObj₂ (f g : Obj → Obj) (h : ∀ o, (f o).resolves = (g o).resolves) (F : Forest) :
    hasResolving (mapObj f F) = hasResolving (mapObj g F) := by
  induction F with
  | nil => rfl
  | cons o ch rest _ ihr => simp [mapObj, hasResolving, h, ihr]

theorem placeOne_disp (reach : Reach) (o : Obj) (hc : Bool) : (placeOne reach o hc).disp = (dispatch reach o).1 := rfl
theorem placeOne_obj (reach : Reach) (o : Obj) (hc : Bool) : (placeOne reach o hc).obj = o := rfl

/-- **Lifting**: an observation of placed objects that two edits `f`, `g` agree on object by object is the same
    on the two edited documents, provided the edits do not touch identity and kind. -/
theorem place_obs_congr {α : Type} (obs : Placed → α) (f g : Obj → Obj) (hfl : ∀ o, SameFlags (f o) (g o)) :
    ∀ F : Forest,
      (∀ o ∈ objs F, ∀ reach hc, obs (placeOne reach (f o) hc) = obs (placeOne reach (g o) hc)) →
      ∀ reach, (place reach (mapObj f F)).1.map obs = (place reach (mapObj g F)).1.map obs := by
  intro F
  induction F with
  | nil => intro _ _; rfl
  | cons o ch rest ihc ihr =>
    intro hobs reach
    have hc' := ihc (fun o' ho' => hobs o' (by simp [objs, ho']))
    have hr' := ihr (fun o' ho' => hobs o' (by simp [objs, ho']))
    have ho := hobs o (by simp [objs])
    simp only [mapObj, place]
    rw [(hfl o).resolves]
    by_cases h : (g o).resolves = true
    · simp only [h, if_true, List.map_cons, List.map_append, placeOne_disp]
      rw [hasResolving_mapObj₂ f g (fun o => (hfl o).resolves) ch, ho, dispatch_congr (hfl o),
        childReach_congr (hfl o), hc', hr']
    · have h' : (g o).resolves = false := by simpa using h
      simp only [h', Bool.false_eq_true, if_false]
      exact hr' reach

theorem valid_mapObj₂ (f g : Obj → Obj) (h : ∀ o, (f o).resolves = (g o).resolves) (doc : Forest) :
    valid (mapObj f doc) = valid (mapObj g doc) := by
  cases doc with
  | nil => rfl
  | cons root ch rest =>
    cases rest with
    | nil => exact h root
    | cons _ _ _ => rfl

/-- what of a placed object is in the form -/
def formKey (p : Placed) : Nat × Disp × List (Nat × Value) := (p.obj.oid, p.disp, embOf p)

def panicOf (p : Placed) : Bool := p.allOuts.any (·.panic)

theorem anyPanic_eq (ps : List Placed) : anyPanic ps = (ps.map panicOf).any id := by
  simp [anyPanic, List.any_map, panicOf, Function.comp_def]

/-- two edits that agree, object by object, on the embedded values and on the panic outcome give the same form -/
theorem form_omit_congr (f g : Obj → Obj) (hfl : ∀ o, SameFlags (f o) (g o)) (doc : Forest)
    (hemb : ∀ o ∈ objs doc, ∀ reach hc, embOf (placeOne reach (f o) hc) = embOf (placeOne reach (g o) hc))
    (hpan : ∀ o ∈ objs doc, ∀ reach hc, panicOf (placeOne reach (f o) hc) = panicOf (placeOne reach (g o) hc)) :
    (run .omit (mapObj f doc)).form = (run .omit (mapObj g doc)).form := by
  have hv := valid_mapObj₂ f g (fun o => (hfl o).resolves) doc
  cases h : valid (mapObj g doc)
  · have h1 := (run_invalid _ (hv.trans h) .omit).2.1
    have h2 := (run_invalid _ h .omit).2.1
    simp [Result.form, h1, h2]
  · rw [run_omit _ (hv.trans h), run_omit _ h]
    have hk := place_obs_congr formKey f g hfl doc (fun o ho reach hc => by
      simp only [formKey, placeOne_obj, placeOne_disp, (hfl o).oid, dispatch_congr (hfl o), hemb o ho]) .root
    have hp := place_obs_congr panicOf f g hfl doc hpan .root
    have hk' : (place .root (mapObj f doc)).1.map (fun p => (p.obj.oid, p.disp, embOf p)) =
        (place .root (mapObj g doc)).1.map (fun p => (p.obj.oid, p.disp, embOf p)) := hk
    simp only [Result.form, anyPanic_eq, hp, hk']

/-- the lifting lemma for the form key, single edit: identity, kind and embedded values of every placed object -/
theorem place_formKey_congr (f : Obj → Obj) (hfl : ∀ o, SameFlags (f o) o)
    (hemb : ∀ reach o hc, embOf (placeOne reach (f o) hc) = embOf (placeOne reach o hc)) (reach : Reach)
    (F : Forest) :
    ((place reach (mapObj f F)).1.map fun p => (p.obj.oid, p.disp, embOf p)) =
      ((place reach F).1.map fun p => (p.obj.oid, p.disp, embOf p)) := by
  have := place_obs_congr formKey f id hfl F (fun o _ reach hc => by
    simp only [formKey, placeOne_obj, placeOne_disp, (hfl o).oid, dispatch_congr (hfl o), hemb reach o hc, id]) reach
  rw [mapObj_id] at this
  exact this

/-- single-edit form of `form_omit_congr` -/
theorem form_omit_congr₁ (f : Obj → Obj) (hfl : ∀ o, SameFlags (f o) o) (doc : Forest)
    (hemb : ∀ o ∈ objs doc, ∀ reach hc, embOf (placeOne reach (f o) hc) = embOf (placeOne reach o hc))
    (hpan : ∀ o ∈ objs doc, ∀ reach hc, panicOf (placeOne reach (f o) hc) = panicOf (placeOne reach o hc)) :
    (run .omit (mapObj f doc)).form = (run .omit doc).form := by
  have := form_omit_congr f id hfl doc hemb hpan
  rwa [mapObj_id] at this

/-! ### what the constant pass reads of an object -/

theorem constProps_congr {a b : Obj} (h : SameView a b) (d : Disp) (sole : Bool) (es : List Entry) :
    constProps d a sole es = constProps d b sole es := by
  induction es with
  | nil => rfl
  | cons e rest ih =>
    cases e <;>
      simp only [constProps, propLeafRoute, propLeafExtra, propGroupRoute, h.flags.layoutKind, h.comboOrList,
        h.tableView, h.treeView, ih]

theorem constProps_append (d : Disp) (o : Obj) (sole : Bool) (xs ys : List Entry) :
    constProps d o sole (xs ++ ys) = constProps d o sole xs ++ constProps d o sole ys := by
  induction xs with
  | nil => rfl
  | cons e rest ih => cases e <;> simp [constProps, ih]

/-- `is_action_separator` only matters for an action -/
theorem constProps_sole (d : Disp) (o : Obj) (s s' : Bool) (hd : d ≠ .action) (es : List Entry) :
    constProps d o s es = constProps d o s' es := by
  induction es with
  | nil => rfl
  | cons e rest ih =>
    cases e
    · cases d <;> simp_all [constProps, propLeafRoute]
    · simp [constProps, ih]

/-- the constant pass sees an object through its kind and its code map -/
theorem placeOne_outs_congr {a b : Obj} (h : SameView a b) (hcm : codeMap a = codeMap b) (reach : Reach)
    (hc : Bool) : (placeOne reach a hc).allOuts = (placeOne reach b hc).allOuts := by
  simp only [placeOne, Placed.allOuts, hcm, dispatch_congr h.flags, constProps_congr h]

theorem embOf_outs_congr {p q : Placed} (h : p.allOuts = q.allOuts) : embOf p = embOf q := by
  simp only [embOf, h]

theorem panicOf_outs_congr {p q : Placed} (h : p.allOuts = q.allOuts) : panicOf p = panicOf q := by
  simp only [panicOf, h]

/-- an edit that changes neither kind nor code map changes no form -/
theorem form_omit_of_codeMap (f g : Obj → Obj) (hv : ∀ o, SameView (f o) (g o))
    (hcm : ∀ o, codeMap (f o) = codeMap (g o)) (doc : Forest) :
    (run .omit (mapObj f doc)).form = (run .omit (mapObj g doc)).form :=
  form_omit_congr f g (fun o => (hv o).flags) doc
    (fun o _ reach hc => embOf_outs_congr (placeOne_outs_congr (hv o) (hcm o) reach hc))
    (fun o _ reach hc => panicOf_outs_congr (placeOne_outs_congr (hv o) (hcm o) reach hc))

theorem form_omit_of_codeMap₁ (f : Obj → Obj) (hv : ∀ o, SameView (f o) o)
    (hcm : ∀ o, codeMap (f o) = codeMap o) (doc : Forest) :
    (run .omit (mapObj f doc)).form = (run .omit doc).form := by
  have := form_omit_of_codeMap f id hv hcm doc
  rwa [mapObj_id] at this

theorem SameView.refl (o : Obj) : SameView o o := ⟨⟨rfl, rfl, rfl, rfl, rfl, rfl, rfl, rfl, rfl⟩, rfl, rfl, rfl⟩

/-! ### code maps under appended bindings -/

theorem liveEntries_append (xs ys : List Entry) : liveEntries (xs ++ ys) = liveEntries xs ++ liveEntries ys := by
  induction xs with
  | nil => rfl
  | cons e rest ih => cases e <;> simp only [List.cons_append, liveEntries, ih] <;> split <;> rfl

theorem liveAttached_append (xs ys : List AttMap) :
    liveAttached (xs ++ ys) = liveAttached xs ++ liveAttached ys := by
  induction xs with
  | nil => rfl
  | cons a rest ih => simp only [List.cons_append, liveAttached, ih]; split <;> rfl

theorem entriesBuildDiags_append (xs ys : List Entry) :
    entriesBuildDiags (xs ++ ys) = entriesBuildDiags xs ++ entriesBuildDiags ys := by
  induction xs with
  | nil => rfl
  | cons e rest ih => simp [entriesBuildDiags, ih]

theorem callbacksBuildDiags_append (xs ys : List Callback) :
    callbacksBuildDiags (xs ++ ys) = callbacksBuildDiags xs ++ callbacksBuildDiags ys := by
  induction xs with
  | nil => rfl
  | cons e rest ih => simp [callbacksBuildDiags, ih]

theorem attBuildDiags_append (xs ys : List AttMap) :
    attBuildDiags (xs ++ ys) = attBuildDiags xs ++ attBuildDiags ys := by
  induction xs with
  | nil => rfl
  | cons e rest ih => simp [attBuildDiags, ih]

/-! ### embedded values and panics of a list of entry results -/

def embOuts (es : List EntryOut) : List (Nat × Value) :=
  (es.flatMap (·.leafOuts)).filterMap fun (l, o) => o.emb.map fun v => (l.id, v)

theorem embOf_eq (p : Placed) : embOf p = embOuts p.allOuts := rfl

theorem embOuts_append (xs ys : List EntryOut) : embOuts (xs ++ ys) = embOuts xs ++ embOuts ys := by
  simp [embOuts, List.flatMap_append, List.filterMap_append]

/-- a constant whose typed conversion fails is evaluated (when reached), reported, and embeds nothing -/
theorem constLeaf_fail (r : Route) (l : Leaf) (h : l.const = some .fail) :
    (constLeaf r l).emb = none ∧ (constLeaf r l).panic = false := by
  unfold constLeaf
  cases r <;> simp [h]

/-! ### a constant whose typed conversion fails, appended to an object -/

theorem allOuts_extra_leaf {o' o : Obj} (hv : SameView o' o) (l : Leaf)
    (hcm : codeMap o' = { codeMap o with props := (codeMap o).props ++ [.leaf l] })
    (reach : Reach) (hc : Bool) (hd : (dispatch reach o).1 ≠ .action) :
    ∃ r x, (placeOne reach o' hc).allOuts =
      (placeOne reach o hc).props ++ [.leaf l (constLeaf r l) x] ++ (placeOne reach o hc).attached.flatten := by
  refine ⟨propLeafRoute (dispatch reach o).1 o (soleSeparator (codeMap o)) l,
    propLeafExtra (dispatch reach o).1 o l, ?_⟩
  simp only [placeOne, Placed.allOuts, dispatch_congr hv.flags, constProps_congr hv]
  rw [constProps_sole _ _ _ (soleSeparator (codeMap o)) hd, hcm]
  simp only [constProps_append, constProps]

theorem codeMap_append_leaf (o : Obj) (l : Leaf) (he : l.enters = true) (hm : o.mapFault = false) :
    codeMap { o with entries := o.entries ++ [.leaf l] } =
      { codeMap o with props := (codeMap o).props ++ [.leaf l] } := by
  simp [codeMap, hm, liveEntries_append, liveEntries, he]

theorem codeMap_append_leaf_fault (o : Obj) (l : Leaf) (hm : o.mapFault = true) :
    codeMap { o with entries := o.entries ++ [.leaf l] } = codeMap o := by
  simp [codeMap, hm]

/-- appending a failing constant to an object that is not an action changes neither its embedded values nor
    its panic outcome -/
theorem placeOne_append_fail (o : Obj) (l : Leaf) (he : l.enters = true) (hf : l.const = some .fail)
    (ha : o.isAction = false) (reach : Reach) (hc : Bool) :
    embOf (placeOne reach { o with entries := o.entries ++ [.leaf l] } hc) = embOf (placeOne reach o hc) ∧
      panicOf (placeOne reach { o with entries := o.entries ++ [.leaf l] } hc) = panicOf (placeOne reach o hc) := by
  have hv : SameView { o with entries := o.entries ++ [.leaf l] } o :=
    ⟨⟨rfl, rfl, rfl, rfl, rfl, rfl, rfl, rfl, rfl⟩, rfl, rfl, rfl⟩
  by_cases hm' : o.mapFault = true
  case pos =>
    have := placeOne_outs_congr hv (codeMap_append_leaf_fault o l hm') reach hc
    exact ⟨embOf_outs_congr this, panicOf_outs_congr this⟩
  case neg =>
    have hm : o.mapFault = false := by simpa using hm'
    have hd : (dispatch reach o).1 ≠ .action := fun h => by
      have := dispatch_action reach o h
      simp [ha] at this
    obtain ⟨r, x, hx⟩ := allOuts_extra_leaf hv l (codeMap_append_leaf o l he hm) reach hc hd
    obtain ⟨h1, h2⟩ := constLeaf_fail r l hf
    constructor
    · rw [embOf_eq, hx, embOf_eq, Placed.allOuts, embOuts_append, embOuts_append, embOuts_append]
      simp [embOuts, EntryOut.leafOuts, h1]
    · unfold panicOf
      rw [hx]
      simp [Placed.allOuts, EntryOut.panic, h2]

/-! ### edits keyed on the object id -/

/-- apply `e` to the objects whose id is `n` -/
def editAt (n : Nat) (e : Obj → Obj) (o : Obj) : Obj := if o.oid = n then e o else o

theorem editAt_view₂ (n : Nat) (e e' : Obj → Obj) (h : ∀ o, SameView (e o) (e' o)) (o : Obj) :
    SameView (editAt n e o) (editAt n e' o) := by
  unfold editAt
  split
  · exact h o
  · exact SameView.refl o

theorem editAt_view (n : Nat) (e : Obj → Obj) (h : ∀ o, SameView (e o) o) (o : Obj) :
    SameView (editAt n e o) o := by
  unfold editAt
  split
  · exact h o
  · exact SameView.refl o

theorem editAt_codeMap₂ (n : Nat) (e e' : Obj → Obj) (h : ∀ o, codeMap (e o) = codeMap (e' o)) (o : Obj) :
    codeMap (editAt n e o) = codeMap (editAt n e' o) := by
  unfold editAt
  split
  · exact h o
  · rfl

theorem editAt_codeMap (n : Nat) (e : Obj → Obj) (h : ∀ o, codeMap (e o) = codeMap o) (o : Obj) :
    codeMap (editAt n e o) = codeMap o := by
  unfold editAt
  split
  · exact h o
  · rfl

/-- an edit at `n` that changes neither kind nor code map leaves the form alone -/
theorem form_omit_editAt (n : Nat) (e : Obj → Obj) (hv : ∀ o, SameView (e o) o)
    (hcm : ∀ o, codeMap (e o) = codeMap o) (doc : Forest) :
    (run .omit (mapObj (editAt n e) doc)).form = (run .omit doc).form :=
  form_omit_of_codeMap₁ _ (editAt_view n e hv) (editAt_codeMap n e hcm) doc

theorem form_omit_editAt₂ (n : Nat) (e e' : Obj → Obj) (hv : ∀ o, SameView (e o) (e' o))
    (hcm : ∀ o, codeMap (e o) = codeMap (e' o)) (doc : Forest) :
    (run .omit (mapObj (editAt n e) doc)).form = (run .omit (mapObj (editAt n e') doc)).form :=
  form_omit_of_codeMap _ _ (editAt_view₂ n e e' hv) (editAt_codeMap₂ n e e' hcm) doc

/-! ### the record updates of the planted faults -/

theorem view_entries (o : Obj) (es : List Entry) : SameView { o with entries := es } o :=
  ⟨⟨rfl, rfl, rfl, rfl, rfl, rfl, rfl, rfl, rfl⟩, rfl, rfl, rfl⟩
theorem view_callbacks (o : Obj) (cs : List Callback) : SameView { o with callbacks := cs } o :=
  ⟨⟨rfl, rfl, rfl, rfl, rfl, rfl, rfl, rfl, rfl⟩, rfl, rfl, rfl⟩
theorem view_attached (o : Obj) (as : List AttMap) : SameView { o with attached := as } o :=
  ⟨⟨rfl, rfl, rfl, rfl, rfl, rfl, rfl, rfl, rfl⟩, rfl, rfl, rfl⟩
theorem view_mapFault_erase (o : Obj) :
    SameView { o with mapFault := true } { o with entries := [], callbacks := [] } :=
  ⟨⟨rfl, rfl, rfl, rfl, rfl, rfl, rfl, rfl, rfl⟩, rfl, rfl, rfl⟩
theorem view_attFault_erase (o : Obj) : SameView { o with attFault := true } { o with attached := [] } :=
  ⟨⟨rfl, rfl, rfl, rfl, rfl, rfl, rfl, rfl, rfl⟩, rfl, rfl, rfl⟩

/-- a binding rejected while the code map is built never enters the map -/
theorem codeMap_rejected_leaf (o : Obj) (l : Leaf) :
    codeMap { o with entries := o.entries ++ [.leaf { l with enters := false }] } = codeMap o := by
  simp [codeMap, liveEntries_append, liveEntries]

theorem codeMap_rejected_callback (o : Obj) (c : Callback) :
    codeMap { o with callbacks := o.callbacks ++ [{ c with enters := false }] } = codeMap o := by
  simp [codeMap, List.filter_append]

theorem codeMap_unknown_attached (o : Obj) (a : AttMap) :
    codeMap { o with attached := o.attached ++ [{ a with resolves := false }] } = codeMap o := by
  simp [codeMap, liveAttached_append, liveAttached]

/-- a failed `build_binding_map` leaves the object with an empty property / callback map -/
theorem codeMap_mapFault_erase (o : Obj) :
    codeMap { o with mapFault := true } = codeMap { o with entries := [], callbacks := [] } := by
  simp [codeMap, liveEntries]

theorem codeMap_attFault_erase (o : Obj) :
    codeMap { o with attFault := true } = codeMap { o with attached := [] } := by
  simp [codeMap, liveAttached]

theorem diags_rejected_leaf (o : Obj) (l : Leaf) (hm : o.mapFault = false) :
    ⟨l.id, .build⟩ ∈ codeMapDiags { o with entries := o.entries ++ [.leaf { l with enters := false }] } := by
  simp [codeMapDiags, hm, entriesBuildDiags_append, entriesBuildDiags, entryBuildDiags, leafBuildDiags]

theorem diags_rejected_callback (o : Obj) (c : Callback) (hm : o.mapFault = false) :
    ⟨c.id, .build⟩ ∈ codeMapDiags { o with callbacks := o.callbacks ++ [{ c with enters := false }] } := by
  simp [codeMapDiags, hm, callbacksBuildDiags_append, callbacksBuildDiags]

theorem diags_unknown_attached (o : Obj) (a : AttMap) (hm : o.attFault = false) :
    ⟨a.tid, .attachedType⟩ ∈ codeMapDiags { o with attached := o.attached ++ [{ a with resolves := false }] } := by
  simp [codeMapDiags, hm, attBuildDiags_append, attBuildDiags]

/-! ### the diagnostics of an edited object are reported -/

theorem run_omit_diags_mem (doc : Forest) : ∀ p ∈ (run .omit doc).objects, ∀ d,
    (d ∈ codeMapDiags p.obj ∨ d ∈ p.formDiags ∨ d ∈ leftoverDiags p) → d ∈ (run .omit doc).diags := by
  intro p hp d hd
  cases h : valid doc
  · rw [(run_invalid doc h .omit).2.2.2.1] at hp
    simp at hp
  · rw [run_omit doc h] at hp ⊢
    exact List.mem_append_left _ (mem_commonDiags_obj _ _ p hp d hd)

theorem run_omit_obj_mem (doc : Forest) : ∀ p ∈ (run .omit doc).objects, p.obj ∈ objs doc := by
  intro p hp
  cases h : valid doc
  · rw [(run_invalid doc h .omit).2.2.2.1] at hp
    simp at hp
  · rw [run_omit doc h] at hp
    obtain ⟨r, hc, o, ho, rfl⟩ := place_mem doc .root p hp
    exact ho

theorem edit_diag_reported (n : Nat) (e : Obj → Obj) (d : Diag) (C : Obj → Prop) (doc : Forest)
    (h : ∀ o, C (e o) → d ∈ codeMapDiags (e o)) :
    ∀ p ∈ (run .omit (mapObj (editAt n e) doc)).objects, p.obj.oid = n → C p.obj →
      d ∈ (run .omit (mapObj (editAt n e) doc)).diags := by
  intro p hp hn hC
  have hmem := run_omit_obj_mem _ p hp
  rw [objs_mapObj, List.mem_map] at hmem
  obtain ⟨o, _, ho⟩ := hmem
  refine run_omit_diags_mem _ p hp d (.inl ?_)
  rw [← ho] at hn hC ⊢
  unfold editAt at hn hC ⊢
  by_cases hoid : o.oid = n
  · simp only [hoid, if_true] at hC ⊢
    exact h o hC
  · simp only [hoid, if_false] at hn

/-- planting a failing constant at `n` when no object with that id is an action -/
theorem form_omit_plant_fail (n : Nat) (l : Leaf) (he : l.enters = true) (hf : l.const = some .fail)
    (doc : Forest) (ha : ∀ o ∈ objs doc, o.oid = n → o.isAction = false) :
    (run .omit (mapObj (editAt n fun o => { o with entries := o.entries ++ [.leaf l] }) doc)).form =
      (run .omit doc).form := by
  apply form_omit_congr₁ _ (fun o => (editAt_view n _ (fun o => view_entries o _) o).flags) doc
  · intro o ho reach hc
    unfold editAt
    split
    · rename_i hn; exact (placeOne_append_fail o l he hf (ha o ho hn) reach hc).1
    · rfl
  · intro o ho reach hc
    unfold editAt
    split
    · rename_i hn; exact (placeOne_append_fail o l he hf (ha o ho hn) reach hc).2
    · rfl

/-! ### unresolved object types -/

theorem run_omit_prune (root : Obj) (ch : Forest) (hr : root.resolves = true) :
    (run .omit (.cons root ch .nil)).objects = (run .omit (prune (.cons root ch .nil))).objects ∧
      (run .omit (.cons root ch .nil)).form = (run .omit (prune (.cons root ch .nil))).form := by
  have hp : prune (.cons root ch .nil) = .cons root (prune ch) .nil := by simp [prune, hr]
  have hv1 : valid (.cons root ch .nil) = true := hr
  have hv2 : valid (prune (.cons root ch .nil)) = true := by rw [hp]; exact hr
  have hpl := place_prune (.cons root ch .nil) .root
  rw [run_omit _ hv1, run_omit _ hv2]
  simp only [Result.form, hpl, and_self]

end QV.Proofs.Passes
