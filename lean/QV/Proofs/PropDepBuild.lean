/-
  tir/propdep.rs after `tir::build`, for ALL programs — part 2: the statements the builder emits.
  The builder never emits an `observeProperty` statement, and the object operand of every `readProperty` it emits
  is not the null constant (it is a local, a named object, or has a non-pointer type) — so the analysis, run on a
  built body, never reaches its `panic!("invald read_property")` and starts from a body without observers.
  One more induction over the walk (QV.Model.Walk), about the statements only.
-/
import QV.Proofs.BuilderInvDefBuild
import QV.Proofs.PropDepShape

set_option linter.unusedSimpArgs false
set_option linter.unusedVariables false

namespace QV.Proofs.BuilderInv
open QV.Model QV.Model.Cfg

def NotNull (a : Operand) : Prop := a ≠ .const .nullPointer

def GoodRv : Rvalue → Prop
  | .readProperty a _ => NotNull a
  | _ => True

def GoodSt : Statement → Prop
  | .assign _ r => GoodRv r
  | .exec r => GoodRv r
  | .observeProperty .. => False

/-- every statement of `b'` is a statement of `b` (same block) or a good one -/
def StE (b b' : Builder) : Prop := ∀ i, ∀ s ∈ stmtsOf b' i, s ∈ stmtsOf b i ∨ GoodSt s

theorem StE.refl (b : Builder) : StE b b := fun _ _ h => Or.inl h

theorem StE.trans {a b c : Builder} (h1 : StE a b) (h2 : StE b c) : StE a c := by
  intro i s hs
  rcases h2 i s hs with h | h
  · exact h1 i s h
  · exact Or.inr h

theorem ste_code {b b' : Builder} (h : b'.code = b.code) : StE b b' := by
  intro i s hs; rw [stmtsOf_congr h] at hs; exact Or.inl hs

theorem ste_blocks {b b' : Builder} (h : b'.code.blocks = b.code.blocks) : StE b b' := by
  intro i s hs
  unfold stmtsOf at hs ⊢
  rw [h] at hs
  exact Or.inl hs

theorem ste_fail (b : Builder) (m : String) : StE b (b.fail m) := ste_code rfl

theorem ste_alloca (b : Builder) (ty : TypeKind) : StE b (b.alloca ty).2 := by
  intro i s hs; rw [stmtsOf_alloca] at hs; exact Or.inl hs

theorem ste_pushStatementAt (b : Builder) (k : Nat) (st : Statement) (hg : GoodSt st) : StE b (b.pushStatementAt k st) := by
  intro i s hs
  rw [stmtsOf_pushStatementAt] at hs
  split at hs
  · rw [List.mem_append] at hs
    rcases hs with h | h
    · exact Or.inl h
    · simp at h; subst h; exact Or.inr hg
  · exact Or.inl hs

theorem ste_pushStatement (b : Builder) (st : Statement) (hg : GoodSt st) : StE b (b.pushStatement st) :=
  ste_pushStatementAt b _ st hg

theorem ste_finalizeAt (b : Builder) (k : Nat) (t : Terminator) : StE b (b.finalizeAt k t) := by
  intro i s hs; rw [stmtsOf_finalizeAt] at hs; exact Or.inl hs

theorem ste_setCompletionValue (b : Builder) (v : Operand) : StE b (b.setCompletionValue v) := by
  intro i s hs; rw [stmtsOf_setCompletionValue] at hs; exact Or.inl hs

theorem ste_newBlock (b : Builder) : StE b b.newBlock.2 := by
  intro i s hs; rw [stmtsOf_newBlock] at hs; exact Or.inl hs

theorem ste_of_emit {b b' : Builder} {ty : TypeKind} {rv : Rvalue} {a : Operand} (h : b.emitResult ty rv = (a, b'))
    (hg : GoodRv rv) : StE b b' := by
  by_cases hv : ty = .void
  · subst hv
    rw [emitResult_void] at h
    simp at h
    rw [← h.2]
    exact ste_pushStatement _ _ hg
  · rw [emitResult_nonvoid b ty rv hv] at h
    simp at h
    rw [← h.2]
    exact (ste_alloca b ty).trans (ste_pushStatement _ _ hg)

theorem notNull_ensure {a : Operand} (h : NotNull a) : NotNull (ensureConcreteString a) := by
  unfold ensureConcreteString
  split
  · intro hx; cases hx
  · exact h

/-! ### the visitors that emit straight-line code -/

theorem visitInteger_ste {b b' : Builder} {v : Nat} {a : Operand} (h : visitInteger b v = .ok (a, b')) : StE b b' := by
  unfold visitInteger at h
  split at h <;> simp at h
  rw [← h.2]; exact StE.refl _

theorem visitArray_ste {env : Env} {b b' : Builder} {els : List Operand} {a : Operand}
    (h : visitArray env b els = .ok (a, b')) : StE b b' := by
  unfold visitArray at h
  simp only at h
  split at h
  · simp at h; rw [← h.2]; exact StE.refl _
  · split at h
    · simp at h
    · split at h
      · simp at h
      · simp at h; exact ste_of_emit h (by simp [GoodRv])

theorem visitLocalRef_ste {b b' : Builder} {l : Nat} {a : Operand} (h : visitLocalRef b l = .ok (a, b')) : StE b b' := by
  unfold visitLocalRef at h
  split at h <;> simp at h
  · rw [← h.2]; exact StE.refl _
  · rw [← h.2]; exact ste_fail _ _

theorem visitLocalDeclaration_ste {b b' : Builder} {ty : TypeKind} {n : Nat}
    (h : visitLocalDeclaration b ty = .ok (n, b')) : StE b b' := by
  unfold visitLocalDeclaration at h
  have hs := ste_alloca b ty
  split at h <;> simp at h
  rename_i heq
  rw [← h.2]
  rw [heq] at hs
  exact hs

theorem visitLocalAssignment_ste {env : Env} {b b' : Builder} {l : Nat} {r a : Operand}
    (h : visitLocalAssignment env b l r = .ok (a, b')) : StE b b' := by
  unfold visitLocalAssignment at h
  split at h
  · simp at h; rw [← h.2]; exact ste_fail _ _
  · simp only at h
    split at h <;> simp at h
    rw [← h.2]; exact ste_pushStatement _ _ (by simp [GoodSt, GoodRv])

theorem visitFunctionParameter_ste {b b' : Builder} {ty : TypeKind} {n : Nat}
    (h : visitFunctionParameter b ty = .ok (n, b')) : StE b b' := by
  unfold visitFunctionParameter at h
  simp only at h
  generalize hb0 : (if b.code.locals.length ≠ b.code.parameterCount then
    b.fail "function parameters must be declared prior to any local declarations" else b) = b0 at h
  have h0 : StE b b0 := by rw [← hb0]; split; exact ste_fail _ _; exact StE.refl _
  have hs := ste_alloca b0 ty
  split at h <;> simp at h
  rename_i heq
  rw [heq] at hs
  refine h0.trans (hs.trans ?_)
  rw [← h.2]
  exact ste_blocks rfl

theorem visitObjectProperty_ste {b b' : Builder} {o a : Operand} {p : PropInfo}
    (h : visitObjectProperty b o p = .ok (a, b')) (ho : NotNull o) : StE b b' := by
  unfold visitObjectProperty at h
  split at h <;> simp at h
  exact ste_of_emit h (by simp only [GoodRv]; exact notNull_ensure ho)

theorem visitObjectPropertyAssignment_ste {env : Env} {b b' : Builder} {o r a : Operand} {p : PropInfo}
    (h : visitObjectPropertyAssignment env b o p r = .ok (a, b')) : StE b b' := by
  unfold visitObjectPropertyAssignment at h
  split at h
  · simp at h
  · simp only at h
    split at h <;> simp at h
    exact ste_of_emit h (by simp [GoodRv])

theorem visitObjectSubscript_ste {b b' : Builder} {o i a : Operand} (h : visitObjectSubscript b o i = .ok (a, b')) : StE b b' := by
  unfold visitObjectSubscript at h
  split at h <;> simp at h
  exact ste_of_emit h (by simp [GoodRv])

theorem visitObjectSubscriptAssignment_ste {env : Env} {b b' : Builder} {o i r a : Operand}
    (h : visitObjectSubscriptAssignment env b o i r = .ok (a, b')) : StE b b' := by
  unfold visitObjectSubscriptAssignment at h
  split at h
  · simp at h
  · split at h <;> simp at h
    rw [← h.2]; exact ste_pushStatement _ _ (by simp [GoodSt, GoodRv])

theorem visitObjectMethodCall_ste {env : Env} {b b' : Builder} {o a : Operand} {ms : List MethodInfo} {args : List Operand}
    (h : visitObjectMethodCall env b o ms args = .ok (a, b')) : StE b b' := by
  unfold visitObjectMethodCall at h
  simp only at h
  split at h <;> simp at h
  exact ste_of_emit h (by simp [GoodRv])

theorem visitBuiltinCall_ste {env : Env} {b b' : Builder} {f : Builtin} {args : List Operand} {a : Operand}
    (h : visitBuiltinCall env b f args = .ok (a, b')) : StE b b' := by
  unfold visitBuiltinCall at h
  cases f with
  | consoleLog lv => simp at h; exact ste_of_emit h (by simp [GoodRv])
  | tr =>
    simp only at h
    split at h
    · split at h <;> simp at h
      exact ste_of_emit h (by simp [GoodRv])
    · simp at h
  | max =>
    simp only at h
    split at h
    · split at h
      · simp at h
      · split at h <;> simp at h
        exact ste_of_emit h (by simp [GoodRv])
    · simp at h
  | min =>
    simp only at h
    split at h
    · split at h
      · simp at h
      · split at h <;> simp at h
        exact ste_of_emit h (by simp [GoodRv])
    · simp at h

theorem emitUnary_ste {b b' : Builder} {op : UnaryOp} {arg a : Operand}
    (h : emitUnaryExpression b op arg = .ok (a, b')) : StE b b' := by
  unfold emitUnaryExpression at h
  simp only at h
  split at h <;> simp at h
  exact ste_of_emit h (by simp [GoodRv])

theorem visitUnaryExpression_ste {F : FloatOps} {b b' : Builder} {op : UnaryOp} {arg a : Operand}
    (h : visitUnaryExpression F b op arg = .ok (a, b')) : StE b b' := by
  unfold visitUnaryExpression at h
  split at h
  · simp only at h
    split at h
    · simp at h; rw [← h.2]; exact StE.refl _
    · simp at h
  · exact emitUnary_ste h

theorem emitBinary_ste {env : Env} {b b' : Builder} {op : BinaryOp} {l r a : Operand}
    (h : emitBinaryExpression env b op l r = .ok (a, b')) : StE b b' := by
  unfold emitBinaryExpression at h
  simp only at h
  split at h
  · simp at h
  · rename_i tyR ty b0 heq
    simp at h
    have hb0 : StE b b0 := by
      cases op with
      | logical o => simp at heq; rw [← heq.2]; exact ste_fail _ _
      | arith o =>
        simp only at heq
        split at heq
        · simp at heq
        · split at heq
          · simp at heq; rw [← heq.2]; exact StE.refl _
          · split at heq
            · split at heq <;> simp at heq; rw [← heq.2]; exact StE.refl _
            · simp at heq
      | bitwise o =>
        simp only at heq
        split at heq
        · simp at heq
        · split at heq <;> simp at heq; rw [← heq.2]; exact StE.refl _
      | shift o =>
        simp only at heq
        split at heq
        · simp at heq
        · split at heq <;> simp at heq; rw [← heq.2]; exact StE.refl _
      | cmp o =>
        simp only at heq
        split at heq
        · simp at heq
        · split at heq <;> simp at heq; rw [← heq.2]; exact StE.refl _
    exact hb0.trans (ste_of_emit h (by simp [GoodRv]))

theorem visitBinaryExpression_ste {F : FloatOps} {env : Env} {b b' : Builder} {op : BinaryOp} {l r a : Operand}
    (h : visitBinaryExpression F env b op l r = .ok (a, b')) : StE b b' := by
  unfold visitBinaryExpression at h
  split at h
  · simp only at h
    split at h
    · rename_i v b0 heq
      simp at h
      rw [← h.2]
      cases op <;> simp at heq <;> (try (rw [← heq.2]; first | exact StE.refl _ | exact ste_fail _ _))
    · simp at h
  · exact emitBinary_ste h

theorem visitAsExpression_ste {env : Env} {b b' : Builder} {v a : Operand} {ty : TypeKind}
    (h : visitAsExpression env b v ty = .ok (a, b')) : StE b b' := by
  unfold visitAsExpression at h
  simp only at h
  split at h <;> simp at h
  · rw [← h.2]; exact StE.refl _
  · exact ste_of_emit h (by simp [GoodRv])
  · exact ste_of_emit h (by simp [GoodRv])
  · exact ste_of_emit h (by simp [GoodRv])

theorem visitExpressionStatement_ste (b : Builder) (v : Operand) : StE b (visitExpressionStatement b v) :=
  ste_setCompletionValue _ _



/-! ### the visitors that build control flow: they only copy values into result temporaries -/

theorem goodCopy (n : Nat) (a : Operand) : GoodSt (.assign n (.copy a)) := by simp [GoodSt, GoodRv]

theorem visitLogical_ste (b : Builder) (op : LogicOp) (l r : Operand) (lr rr : Nat) :
    StE b (visitBinaryLogicalExpression b op l lr r rr).2 := by
  unfold visitBinaryLogicalExpression
  generalize hb0 : (if l.typeDesc ≠ .bool ∨ r.typeDesc ≠ .bool then b.fail "logical operand must be bool" else b) = b0
  have h0 : StE b b0 := ste_code (by rw [← hb0]; exact ite_fail_code _ _ _)
  have hbv : TypeKind.bool ≠ TypeKind.void := by simp [TypeKind.bool, TypeKind.void]
  have ha : b0.alloca .bool = (some (.local b0.code.locals.length .bool),
      { b0 with code := { b0.code with locals := b0.code.locals ++ [TypeKind.bool] } }) := by
    simp [Builder.alloca, hbv]
  have h1 : StE b0 { b0 with code := { b0.code with locals := b0.code.locals ++ [TypeKind.bool] } } := ste_blocks rfl
  simp only [ha]
  generalize ({ b0 with code := { b0.code with locals := b0.code.locals ++ [TypeKind.bool] } } : Builder) = b1 at h1
  cases op
  all_goals
    simp only []
    exact (h0.trans h1).trans ((ste_pushStatementAt _ _ _ (goodCopy _ _)).trans ((ste_finalizeAt _ _ _).trans
      ((ste_pushStatementAt _ _ _ (goodCopy _ _)).trans (ste_finalizeAt _ _ _))))

theorem visitTernary_ste {env : Env} {b b' : Builder} {c x y res : Operand} {cr xr yr : Nat}
    (h : visitTernaryExpression env b c cr x xr y yr = .ok (res, b')) : StE b b' := by
  unfold visitTernaryExpression at h
  simp only at h
  split at h
  · simp at h
  · rename_i ty hdc
    simp at h
    obtain ⟨_, h2⟩ := h
    rw [← h2]
    have h1 : StE b (b.alloca ty).2 := ste_alloca _ _
    generalize (b.alloca ty).2 = b1 at h1
    generalize (b.alloca ty).1 = sink
    have store : ∀ (bb : Builder) (src : Operand) (ref : Nat),
        StE bb ((match sink with
          | some (Operand.local n _) => bb.pushStatementAt ref (.assign n (.copy src))
          | _ => bb).finalizeAt ref (.br (yr + 1))) := by
      intro bb src ref
      split
      · exact (ste_pushStatementAt _ _ _ (goodCopy _ _)).trans (ste_finalizeAt _ _ _)
      · exact ste_finalizeAt _ _ _
    exact h1.trans ((ste_finalizeAt _ _ _).trans ((store _ _ _).trans (store _ _ _)))

theorem visitIf_ste (b : Builder) (cnd : Operand) (cr xr : Nat) (yr : Option Nat) : StE b (visitIfStatement b cnd cr xr yr) := by
  unfold visitIfStatement
  simp only []
  cases yr with
  | none => exact (ste_finalizeAt _ _ _).trans (ste_finalizeAt _ _ _)
  | some y => exact (ste_finalizeAt _ _ _).trans ((ste_finalizeAt _ _ _).trans (ste_finalizeAt _ _ _))

theorem visitBreak_ste (b : Builder) (l : Nat) : StE b (visitBreakStatement b l) := by
  unfold visitBreakStatement
  exact (ste_finalizeAt _ _ _).trans (ste_newBlock _)

theorem visitReturn_ste (b : Builder) (v : Operand) : StE b (visitReturnStatement b v) := by
  unfold visitReturnStatement
  exact (ste_finalizeAt _ _ _).trans (ste_newBlock _)

theorem connect_ste (lastBodyRef : Nat) (defaultStart : Option Nat) (starts : List Nat) :
    ∀ (xs : List ((Operand × Nat) × Nat)) (b : Builder) (i : Nat),
      StE b (visitSwitchStatement.connect lastBodyRef defaultStart starts b i xs)
  | [], b, i => by simp only [visitSwitchStatement.connect]; exact StE.refl _
  | ((cnd, cr), bs) :: rest, b, i => by
    simp only [visitSwitchStatement.connect]
    exact (ste_finalizeAt _ _ _).trans (connect_ste lastBodyRef defaultStart starts rest _ (i + 1))

theorem foldl_finalize_ste : ∀ (bodies : List Nat) (b : Builder),
    StE b (bodies.foldl (fun b bodyRef => b.finalizeAt bodyRef (.br (bodyRef + 1))) b)
  | [], b => by simpa using StE.refl b
  | r :: rest, b => by
    simp only [List.foldl_cons]
    exact (ste_finalizeAt _ _ _).trans (foldl_finalize_ste rest _)

theorem visitSwitch_ste (b : Builder) (conds : List (Operand × Nat)) (bodies : List Nat) (dp : Option Nat) (hr er : Nat) :
    StE b (visitSwitchStatement b conds bodies dp hr er) := by
  unfold visitSwitchStatement
  simp only []
  have key : ∀ (ds : Option Nat) (starts : List Nat) (b1 : Builder), StE b b1 →
      StE b (((bodies.foldl (fun b bodyRef => b.finalizeAt bodyRef (.br (bodyRef + 1)))
        (visitSwitchStatement.connect (bodies.getLast?.getD er) ds starts
          (if conds.length ≠ starts.length then b1.fail "assert_eq!(case_conditions.len(), case_body_start_refs.len())" else b1) 0
          (conds.zip starts))).finalizeAt hr (.br (er + 1))).finalizeAt er (.br (bodies.getLast?.getD er + 1))) := by
    intro ds starts b1 h1
    exact h1.trans ((ste_code (ite_fail_code _ _ _)).trans ((connect_ste _ _ _ _ _ _).trans ((foldl_finalize_ste _ _).trans
      ((ste_finalizeAt _ _ _).trans (ste_finalizeAt _ _ _)))))
  cases dp with
  | none => simp only; exact key _ _ _ (StE.refl _)
  | some p =>
    simp only
    cases hrm : removeAt (if bodies.isEmpty then [] else (er + 1) :: (bodies.dropLast.map (· + 1))) p with
    | none => simp only; exact key _ _ _ (ste_fail _ _)
    | some q => rcases q with ⟨d, rest⟩; simp only; exact key _ _ _ (StE.refl _)

/-! ### name resolution -/

def InterWf : Inter → Prop
  | .boundProperty a _ _ => NotNull a
  | _ => True

theorem notNull_of_concrete {a : Operand} {ty : TypeKind} (h : toConcreteType a.typeDesc = .ok ty) : NotNull a := by
  intro he
  subst he
  simp [Operand.typeDesc, ConstantValue.typeDesc, toConcreteType] at h

theorem notNull_named (x c : String) : NotNull (.namedObject x c) := by intro h; cases h
theorem notNull_local (x : Nat) (t : TypeKind) : NotNull (.local x t) := by intro h; cases h

theorem processRef_wf {r : RefKind} {n : String} {s s' : WState} {i : Inter} (h : run (processRef r n) s = (some i, s')) : InterWf i := by
  cases r <;> simp [processRef] at h <;> rw [← h.1] <;> first | trivial | exact notNull_named _ _

theorem lookupGlobalName_wf {n : String} {x : Inter} (h : lookupGlobalName n = some x) : InterWf x := by
  unfold lookupGlobalName at h
  repeat' split at h
  all_goals first
    | (simp at h; done)
    | (simp at h; rw [← h]; trivial)

theorem processIdentifier_wf {c : Ctx} {n : String} {s s' : WState} {i : Inter}
    (h : run (processIdentifier c n) s = (some i, s')) : InterWf i := by
  unfold processIdentifier at h
  obtain ⟨ls, s1, h1, h2⟩ := bind_ok h
  split at h2
  · simp at h2; rw [← h2.1]; trivial
  · split at h2
    · exact processRef_wf h2
    · split at h2
      · rename_i x hx
        simp at h2
        rw [← h2.1]
        exact lookupGlobalName_wf hx
      · simp at h2

theorem processItemProperty_wf {c : Ctx} {item : Operand} {n : String} {ik : ExprKind} {s s' : WState} {i : Inter}
    (h : run (processItemProperty c item n ik) s = (some i, s')) : InterWf i := by
  unfold processItemProperty at h
  simp only at h
  repeat' split at h
  all_goals first
    | (simp at h; done)
    | (simp at h; rw [← h.1]; first | trivial | (simp only [InterWf]; apply notNull_of_concrete; assumption))

theorem processNamespaceName_wf {k : NamespaceKind} {n : String} {s s' : WState} {i : Inter}
    (h : run (processNamespaceName k n) s = (some i, s')) : InterWf i := by
  unfold processNamespaceName at h
  cases k <;> simp only at h <;> repeat' split at h
  all_goals first
    | (simp at h; done)
    | (simp at h; rw [← h.1]; trivial)

theorem processTypeMember_wf {c : Ctx} {t : NamedTy} {n : String} {s s' : WState} {i : Inter}
    (h : run (processTypeMember c t n) s = (some i, s')) : InterWf i := by
  unfold processTypeMember at h
  split at h
  · exact processRef_wf h
  · simp at h

/-! ### the walk -/

theorem visit_stepS {α} {s s' : WState} {f : Builder → VisitResult} {k : Operand → α} {r : α}
    (h : run (do let b ← getB; let a ← consume (f b); pure (k a)) s = (some r, s'))
    (hs : ∀ a b', f s.b = .ok (a, b') → StE s.b b') : ∃ a, r = k a ∧ StE s.b s'.b := by
  obtain ⟨a, b', h1, h2⟩ := getB_consume_bind h
  simp at h2
  rw [← h2.2]
  exact ⟨a, h2.1.symm, hs a b' h1⟩

theorem consume_stepS {s s' : WState} {f : Builder → VisitResult} {a : Operand}
    (h : run (do let b ← getB; consume (f b)) s = (some a, s'))
    (hs : ∀ a b', f s.b = .ok (a, b') → StE s.b b') : StE s.b s'.b := by
  obtain ⟨b', h5, rfl⟩ := getB_consume h
  exact hs a b' h5

theorem interToRvalue_s {i : Inter} {s s' : WState} {a : Operand} (hi : InterWf i)
    (h : run (interToRvalue i) s = (some a, s')) : StE s.b s'.b := by
  cases i with
  | item x => simp [interToRvalue] at h; rw [← h.2]; exact StE.refl _
  | «local» l k =>
    simp only [interToRvalue] at h
    exact consume_stepS h (fun a b' hr => visitLocalRef_ste hr)
  | boundProperty it p rk =>
    simp only [interToRvalue] at h
    exact consume_stepS h (fun a b' hr => visitObjectProperty_ste hr hi)
  | boundSubscript it ix k =>
    simp only [interToRvalue] at h
    exact consume_stepS h (fun a b' hr => visitObjectSubscript_ste hr)
  | boundMethod it ms => simp [interToRvalue] at h
  | builtinFunction f => simp [interToRvalue] at h
  | builtinNamespace k => simp [interToRvalue] at h
  | type t => simp [interToRvalue] at h

def ExprS (c : Ctx) (e : Expr) : Prop :=
  ∀ s s' r, run (walkExpr c e) s = (some r, s') → StE s.b s'.b ∧ InterWf r

def RvalS (c : Ctx) (e : Expr) : Prop :=
  ∀ s s' a, run (walkRvalue c e) s = (some a, s') → StE s.b s'.b

def RvalsS (c : Ctx) (es : List Expr) : Prop :=
  ∀ s s' as, run (walkRvalues c es) s = (some as, s') → StE s.b s'.b

theorem rvalue_of_exprS {c : Ctx} {e : Expr} (he : ExprS c e) : RvalS c e := by
  intro s s' a h
  simp only [walkRvalue] at h
  obtain ⟨i, s1, h1, h2⟩ := bind_ok h
  obtain ⟨e1, hi⟩ := he s s1 i h1
  exact e1.trans (interToRvalue_s hi h2)

theorem mark_ste {s s' : WState} {l : Nat} (h : run markBranchPoint s = (some l, s')) : StE s.b s'.b := by
  obtain ⟨_, hb, _, _⟩ := mark_eq' h
  rw [hb]; exact ste_newBlock _

mutual

theorem s_expr (c : Ctx) : (e : Expr) → ExprS c e
  | .ident n => by
    intro s s' i h
    simp only [walkExpr] at h
    have hs := processIdentifier_ok h
    subst hs
    exact ⟨StE.refl _, processIdentifier_wf h⟩
  | .this => by
    intro s s' i h
    simp only [walkExpr] at h
    split at h <;> simp at h
    rw [← h.1, ← h.2]
    exact ⟨StE.refl _, trivial⟩
  | .integer v => by
    intro s s' i h
    simp only [walkExpr] at h
    obtain ⟨a, rfl, e⟩ := visit_stepS h (fun a b' hr => visitInteger_ste hr)
    exact ⟨e, trivial⟩
  | .float v => by
    intro s s' i h
    simp [walkExpr] at h
    rw [← h.1, ← h.2]; exact ⟨StE.refl _, trivial⟩
  | .string v => by
    intro s s' i h
    simp [walkExpr] at h
    rw [← h.1, ← h.2]; exact ⟨StE.refl _, trivial⟩
  | .bool v => by
    intro s s' i h
    simp [walkExpr] at h
    rw [← h.1, ← h.2]; exact ⟨StE.refl _, trivial⟩
  | .null => by
    intro s s' i h
    simp [walkExpr] at h
    rw [← h.1, ← h.2]; exact ⟨StE.refl _, trivial⟩
  | .function => by
    intro s s' i h
    simp [walkExpr] at h
  | .array es => by
    intro s s' i h
    simp only [walkExpr] at h
    obtain ⟨els, s1, h1, h2⟩ := bind_ok h
    have e1 := s_rvalues c es s s1 els h1
    obtain ⟨a, rfl, e2⟩ := visit_stepS h2 (fun a b' hr => visitArray_ste hr)
    exact ⟨e1.trans e2, trivial⟩
  | .member o n => by
    intro s s' i h
    simp only [walkExpr] at h
    obtain ⟨x, s1, h1, h2⟩ := bind_ok h
    obtain ⟨e1, hx⟩ := s_expr c o s s1 x h1
    cases x with
    | item it =>
      simp only at h2
      have hs := processItemProperty_ok h2
      subst hs
      exact ⟨e1, processItemProperty_wf h2⟩
    | «local» l k =>
      simp only at h2
      obtain ⟨it, b', h3, h4⟩ := getB_consume_bind h2
      have hs := processItemProperty_ok h4
      subst hs
      exact ⟨e1.trans (visitLocalRef_ste h3), processItemProperty_wf h4⟩
    | boundProperty it p rk =>
      simp only at h2
      obtain ⟨ov, b', h3, h4⟩ := getB_consume_bind h2
      have hs := processItemProperty_ok h4
      subst hs
      exact ⟨e1.trans (visitObjectProperty_ste h3 hx), processItemProperty_wf h4⟩
    | boundSubscript it ix k =>
      simp only at h2
      obtain ⟨ov, b', h3, h4⟩ := getB_consume_bind h2
      have hs := processItemProperty_ok h4
      subst hs
      exact ⟨e1.trans (visitObjectSubscript_ste h3), processItemProperty_wf h4⟩
    | boundMethod it ms => simp at h2
    | builtinFunction f => simp at h2
    | builtinNamespace k =>
      simp only at h2
      have hs := processNamespaceName_ok h2
      subst hs
      exact ⟨e1, processNamespaceName_wf h2⟩
    | type t =>
      simp only at h2
      have hs := processTypeMember_ok h2
      subst hs
      exact ⟨e1, processTypeMember_wf h2⟩
  | .subscript o ix => by
    intro s s' i h
    simp only [walkExpr] at h
    obtain ⟨ok, s2, hA, hB⟩ := bind_ok h
    have hobj : StE s.b s2.b := by
      obtain ⟨x, s1, h1, h2⟩ := bind_ok hA
      obtain ⟨e1, hx⟩ := s_expr c o s s1 x h1
      cases x with
      | item it => simp at h2; rw [← h2.2]; exact e1
      | «local» l k =>
        simp only at h2
        obtain ⟨it, b', h3, h4⟩ := getB_consume_bind h2
        simp at h4
        rw [← h4.2]
        exact e1.trans (visitLocalRef_ste h3)
      | boundProperty it p rk =>
        simp only at h2
        obtain ⟨ov, b', h3, h4⟩ := getB_consume_bind h2
        simp at h4
        rw [← h4.2]
        exact e1.trans (visitObjectProperty_ste h3 hx)
      | boundSubscript it jx k =>
        simp only at h2
        obtain ⟨ov, b', h3, h4⟩ := getB_consume_bind h2
        simp at h4
        rw [← h4.2]
        exact e1.trans (visitObjectSubscript_ste h3)
      | boundMethod it ms => simp at h2
      | builtinFunction f => simp at h2
      | builtinNamespace k => simp at h2
      | type t => simp at h2
    obtain ⟨index, s3, h8, h9⟩ := bind_ok hB
    have e3 := rvalue_of_exprS (s_expr c ix) s2 s3 index h8
    simp at h9
    rw [← h9.1, ← h9.2]
    exact ⟨hobj.trans e3, trivial⟩
  | .call f args => by
    intro s s' i h
    simp only [walkExpr] at h
    obtain ⟨argv, s1, h1, h2⟩ := bind_ok h
    have e1 := s_rvalues c args s s1 argv h1
    obtain ⟨x, s2, h3, h4⟩ := bind_ok h2
    obtain ⟨e2, hx⟩ := s_expr c f s1 s2 x h3
    cases x with
    | boundMethod it ms =>
      simp only at h4
      obtain ⟨a, rfl, e3⟩ := visit_stepS h4 (fun a b' hr => visitObjectMethodCall_ste hr)
      exact ⟨(e1.trans e2).trans e3, trivial⟩
    | builtinFunction bf =>
      simp only at h4
      obtain ⟨a, rfl, e3⟩ := visit_stepS h4 (fun a b' hr => visitBuiltinCall_ste hr)
      exact ⟨(e1.trans e2).trans e3, trivial⟩
    | item it => simp at h4
    | «local» l k => simp at h4
    | boundProperty it p rk => simp at h4
    | boundSubscript it jx k => simp at h4
    | builtinNamespace k => simp at h4
    | type t => simp at h4
  | .assign l r => by
    intro s s' i h
    simp only [walkExpr] at h
    obtain ⟨x, s1, h0, h2⟩ := bind_ok h
    obtain ⟨e1, hx1⟩ := s_expr c l s s1 x h0
    obtain ⟨rv, s2, h3, h4⟩ := bind_ok h2
    have e2 := rvalue_of_exprS (s_expr c r) s1 s2 rv h3
    cases x with
    | «local» lc k =>
      cases k with
      | const_ => simp at h4
      | let_ =>
        simp only at h4
        obtain ⟨a, rfl, e3⟩ := visit_stepS h4 (fun a b' hr => visitLocalAssignment_ste hr)
        exact ⟨(e1.trans e2).trans e3, trivial⟩
    | boundProperty it p rk =>
      simp only at h4
      split at h4
      · simp at h4
      · obtain ⟨a, rfl, e3⟩ := visit_stepS h4 (fun a b' hr => visitObjectPropertyAssignment_ste hr)
        exact ⟨(e1.trans e2).trans e3, trivial⟩
    | boundSubscript it jx k =>
      simp only at h4
      split at h4
      · obtain ⟨a, rfl, e3⟩ := visit_stepS h4 (fun a b' hr => visitObjectSubscriptAssignment_ste hr)
        exact ⟨(e1.trans e2).trans e3, trivial⟩
      · simp at h4
    | item it => simp at h4
    | boundMethod it ms => simp at h4
    | builtinFunction f => simp at h4
    | builtinNamespace k => simp at h4
    | type t => simp at h4
  | .unary tok a => by
    intro s s' i h
    simp only [walkExpr] at h
    obtain ⟨arg, s1, h1, h2⟩ := bind_ok h
    have e1 := rvalue_of_exprS (s_expr c a) s s1 arg h1
    split at h2
    · simp at h2
    · obtain ⟨a', rfl, e2⟩ := visit_stepS h2 (fun a b' hr => visitUnaryExpression_ste hr)
      exact ⟨e1.trans e2, trivial⟩
  | .binary tok l r => by
    intro s s' i h
    simp only [walkExpr] at h
    cases hop : tok.toOp with
    | none => simp [hop] at h
    | some op =>
      by_cases hlog : ∃ lo, op = .logical lo
      · obtain ⟨lo, rfl⟩ := hlog
        simp only [hop] at h
        obtain ⟨left, s1, h1, h2⟩ := bind_ok h
        have e1 := rvalue_of_exprS (s_expr c l) s s1 left h1
        obtain ⟨ll, s2, h3, h4⟩ := bind_ok h2
        have m1 := mark_ste h3
        obtain ⟨right, s3, h5, h6⟩ := bind_ok h4
        have e3 := rvalue_of_exprS (s_expr c r) s2 s3 right h5
        obtain ⟨rl, s4, h7, h8⟩ := bind_ok h6
        have m2 := mark_ste h7
        obtain ⟨u1, s5, h9, h10⟩ := bind_ok h8
        rw [checkConditionType_ok h9] at h10
        obtain ⟨u2, s6, h11, h12⟩ := bind_ok h10
        rw [checkConditionType_ok h11] at h12
        obtain ⟨bb, s7, h13, h14⟩ := bind_ok h12
        simp at h13
        obtain ⟨hbb, hs7⟩ := h13
        subst hs7
        subst hbb
        have hv := visitLogical_ste s4.b lo left right ll rl
        generalize visitBinaryLogicalExpression s4.b lo left ll right rl = V at h14 hv
        rcases V with ⟨it, bV⟩
        simp only at h14 hv
        obtain ⟨rfl, hb', _, _⟩ := setB_pure h14
        rw [hb']
        exact ⟨(((e1.trans m1).trans e3).trans m2).trans hv, trivial⟩
      · have hlog' : ∀ lo, op ≠ .logical lo := fun lo hx => hlog ⟨lo, hx⟩
        have hsplit : run (do
            let left ← walkRvalue c l
            let right ← walkRvalue c r
            return .item (← consume (visitBinaryExpression c.F c.env (← getB) op left right))) s = (some i, s') := by
          cases op with
          | logical lo => exact absurd rfl (hlog' lo)
          | _ => simpa only [hop] using h
        obtain ⟨left, s1, h1, h2⟩ := bind_ok hsplit
        have e1 := rvalue_of_exprS (s_expr c l) s s1 left h1
        obtain ⟨right, s2, h3, h4⟩ := bind_ok h2
        have e2 := rvalue_of_exprS (s_expr c r) s1 s2 right h3
        obtain ⟨a, rfl, e3⟩ := visit_stepS h4 (fun a b' hr => visitBinaryExpression_ste hr)
        exact ⟨(e1.trans e2).trans e3, trivial⟩
  | .as_ v ty => by
    intro s s' i h
    simp only [walkExpr] at h
    obtain ⟨val, s1, h1, h2⟩ := bind_ok h
    have e1 := rvalue_of_exprS (s_expr c v) s s1 val h1
    obtain ⟨k, s2, h3, h4⟩ := bind_ok h2
    have := processTypeAnnotation_ok h3
    subst this
    obtain ⟨a, rfl, e2⟩ := visit_stepS h4 (fun a b' hr => visitAsExpression_ste hr)
    exact ⟨e1.trans e2, trivial⟩
  | .ternary cnd a b => by
    intro s s' i h
    simp only [walkExpr] at h
    obtain ⟨cv, s1, h1, h2⟩ := bind_ok h
    have e1 := rvalue_of_exprS (s_expr c cnd) s s1 cv h1
    obtain ⟨cl, s2, h3, h4⟩ := bind_ok h2
    have m1 := mark_ste h3
    obtain ⟨av, s3, h5, h6⟩ := bind_ok h4
    have e3 := rvalue_of_exprS (s_expr c a) s2 s3 av h5
    obtain ⟨al, s4, h7, h8⟩ := bind_ok h6
    have m2 := mark_ste h7
    obtain ⟨bv, s5, h9, h10⟩ := bind_ok h8
    have e5 := rvalue_of_exprS (s_expr c b) s4 s5 bv h9
    obtain ⟨bl, s6, h11, h12⟩ := bind_ok h10
    have m3 := mark_ste h11
    obtain ⟨u1, s7, h13, h14⟩ := bind_ok h12
    rw [checkConditionType_ok h13] at h14
    obtain ⟨x, rfl, e7⟩ := visit_stepS h14 (fun a b' hr => visitTernary_ste hr)
    exact ⟨(((((e1.trans m1).trans e3).trans m2).trans e5).trans m3).trans e7, trivial⟩

theorem s_rvalues (c : Ctx) : (es : List Expr) → RvalsS c es
  | [] => by
    intro s s' as h
    simp [walkRvalues] at h
    rw [← h.2]; exact StE.refl _
  | e :: es => by
    intro s s' as h
    simp only [walkRvalues] at h
    obtain ⟨a, s1, h1, h2⟩ := bind_ok h
    have e1 := rvalue_of_exprS (s_expr c e) s s1 a h1
    obtain ⟨rest, s2, h3, h4⟩ := bind_ok h2
    have e2 := s_rvalues c es s1 s2 rest h3
    simp at h4
    rw [← h4.2]
    exact e1.trans e2

end

/-! ### statements and programs -/

theorem s_decls (c : Ctx) (kind : DeclKind) : (ds : List Decl) → ∀ s s',
    run (walkDecls c kind ds) s = (some (), s') → StE s.b s'.b
  | [], s, s', h => by
    simp [walkDecls] at h
    rw [← h]; exact StE.refl _
  | d :: rest, s, s', h => by
    simp only [walkDecls] at h
    obtain ⟨rvalue, s1, h1, h2⟩ := bind_ok h
    have g1 : StE s.b s1.b := by
      cases hv : d.value with
      | some e =>
        simp only [hv] at h1
        obtain ⟨v, s1', h3, h4⟩ := bind_ok h1
        simp at h4
        rw [← h4.2]
        exact rvalue_of_exprS (s_expr c e) s s1' v h3
      | none =>
        simp only [hv] at h1
        split at h1 <;> simp at h1
        rw [← h1.2]; exact StE.refl _
    obtain ⟨ty, s2, h5, h6⟩ := bind_ok h2
    have e2 : s2 = s1 := by
      cases ha : d.ty with
      | some a => simp only [ha] at h5; exact processTypeAnnotation_ok h5
      | none =>
        simp only [ha] at h5
        split at h5
        · split at h5 <;> simp at h5
          exact h5.2.symm
        · simp at h5
    subst e2
    obtain ⟨b0, s3, h7, h8⟩ := bind_ok h6
    simp at h7
    obtain ⟨hb0, hs3⟩ := h7
    subst hs3
    subst hb0
    obtain ⟨l, s4, h9, h10⟩ := bind_ok h8
    obtain ⟨b1, h11, hs4⟩ := consumeLocal_ok h9
    have g2 : StE s2.b b1 := visitLocalDeclaration_ste h11
    obtain ⟨ls, s5, h12, h13⟩ := bind_ok h10
    simp at h12
    obtain ⟨hls, hs5⟩ := h12
    subst hs5
    obtain ⟨u, s6, h14, h15⟩ := bind_ok h13
    simp at h14
    have hb6 : s6.b = b1 := by rw [← h14, hs4]
    have g6 : StE s.b s6.b := by rw [hb6]; exact g1.trans g2
    cases hr : rvalue with
    | none =>
      simp only [hr] at h15
      obtain ⟨u2, s7, h16, h17⟩ := bind_ok h15
      have e7 := modify_uu h16
      have hb7 : s7.b = s6.b := by rw [e7]
      have g7 : StE s.b s7.b := by rw [hb7]; exact g6
      exact g7.trans (s_decls c kind rest s7 s' h17)
    | some v =>
      simp only [hr] at h15
      obtain ⟨a, b9, h21, h17⟩ := getB_consume_bind h15
      have g9 : StE s6.b b9 := visitLocalAssignment_ste h21
      exact (g6.trans g9).trans (s_decls c kind rest _ s' h17)

theorem s_caseConditions (c : Ctx) (left : Operand) : (cl : List (Option Expr × List Stmt)) → ∀ s s' conds,
    run (walkCaseConditions c left cl) s = (some conds, s') →
    conds.length = (cl.filter (·.1.isSome)).length → StE s.b s'.b
  | [], s, s', conds, h, hlen => by
    simp [walkCaseConditions] at h
    rw [← h.2]; exact StE.refl _
  | (none, body) :: rest, s, s', conds, h, hlen => by
    simp only [walkCaseConditions] at h
    exact s_caseConditions c left rest s s' conds h (by simpa using hlen)
  | (some v, body) :: rest, s, s', conds, h, hlen => by
    simp only [walkCaseConditions] at h
    obtain ⟨r, s1, h1, h2⟩ := bind_ok h
    obtain ⟨others, s2, h3, h4⟩ := bind_ok h2
    have hle := caseConditions_length c left rest s1 s2 others h3
    cases r with
    | none =>
      simp at h4
      rw [← h4.1] at hlen
      simp at hlen
      omega
    | some x =>
      simp at h4
      obtain ⟨hc, hs2⟩ := h4
      subst hs2
      have hx := attempt_ok h1
      obtain ⟨right, s3, h5, h6⟩ := bind_ok hx
      have e1 := rvalue_of_exprS (s_expr c v) s s3 right h5
      obtain ⟨cnd, b', h7, h8⟩ := getB_consume_bind h6
      have e2 : StE s3.b b' := visitBinaryExpression_ste h7
      obtain ⟨lbl, s6, h12, h13⟩ := bind_ok h8
      simp at h13
      have e3 := mark_ste h12
      have e4 := s_caseConditions c left rest s1 s2 others h3 (by rw [← hc] at hlen; simp at hlen; omega)
      rw [← h13.2] at e4
      exact ((e1.trans e2).trans e3).trans e4

def StmtS (c : Ctx) (bl : Option Nat) (st : Stmt) : Prop :=
  ∀ s s', run (walkStmt c bl st) s = (some (), s') → StE s.b s'.b

def StmtsS (c : Ctx) (bl : Option Nat) (ss : List Stmt) : Prop :=
  ∀ s s', run (walkStmts c bl ss) s = (some true, s') → StE s.b s'.b

def BodiesS (c : Ctx) (bl : Option Nat) (cl : List (Option Expr × List Stmt)) : Prop :=
  ∀ s s' bodies, run (walkBodies c bl cl) s = (some bodies, s') → bodies.length = cl.length → StE s.b s'.b

theorem if_s (c : Ctx) (bl : Option Nat) (cnd : Expr) (a : Stmt) (b : Option Stmt) (ha : StmtS c bl a)
    (hb : ∀ n, b = some n → StmtS c bl n) : StmtS c bl (.if_ cnd a b) := by
  intro s s' h
  simp only [walkStmt] at h
  obtain ⟨cv, s1, h1, h2⟩ := bind_ok h
  have e1 := rvalue_of_exprS (s_expr c cnd) s s1 cv h1
  obtain ⟨cl, s2, h3, h4⟩ := bind_ok h2
  have m1 := mark_ste h3
  obtain ⟨outer, s3, h5, h6⟩ := bind_ok h4
  simp at h5
  obtain ⟨hout, hs3⟩ := h5
  subst hs3
  obtain ⟨r, s4, h7, h8⟩ := bind_ok h6
  have hx := attempt_ok h7
  obtain ⟨u, s5, h9, h10⟩ := bind_ok h8
  simp at h9
  cases r with
  | none => simp at h10
  | some u0 =>
    simp only at h10
    have e4 := ha s2 s4 hx
    have hb5 : s5.b = s4.b := by rw [← h9]
    obtain ⟨al, s6, h11, h12⟩ := bind_ok h10
    have m2 := mark_ste h11
    rw [hb5] at m2
    have g6 : StE s.b s6.b := ((e1.trans m1).trans e4).trans m2
    obtain ⟨alt, s7, h13, h14⟩ := bind_ok h12
    cases b with
    | none =>
      simp at h13
      obtain ⟨halt, hs7⟩ := h13
      subst hs7
      obtain ⟨u1, s8, h15, h16⟩ := bind_ok h14
      rw [checkConditionType_ok h15] at h16
      obtain ⟨bb, s9, h17, h18⟩ := bind_ok h16
      simp at h17 h18
      have hb' : s'.b = visitIfStatement s6.b cv cl al alt := by rw [← h18, ← h17.2, ← h17.1]
      rw [hb']
      exact g6.trans (visitIf_ste _ _ _ _ _)
    | some bs =>
      simp only at h13
      obtain ⟨r2, s8, h15, h16⟩ := bind_ok h13
      have hx2 := attempt_ok h15
      obtain ⟨u2, s9, h17, h18⟩ := bind_ok h16
      simp at h17
      cases r2 with
      | none => simp at h18
      | some u3 =>
        simp only at h18
        have e8 := hb bs rfl s6 s8 hx2
        have hb9 : s9.b = s8.b := by rw [← h17]
        obtain ⟨lb, s10, h19, h20⟩ := bind_ok h18
        have m3 := mark_ste h19
        rw [hb9] at m3
        simp at h20
        obtain ⟨halt, hs10⟩ := h20
        subst hs10
        obtain ⟨u1, s11, h21, h22⟩ := bind_ok h14
        rw [checkConditionType_ok h21] at h22
        obtain ⟨bb, s12, h23, h24⟩ := bind_ok h22
        simp at h23 h24
        have hb' : s'.b = visitIfStatement s10.b cv cl al alt := by rw [← h24, ← h23.2, ← h23.1]
        rw [hb']
        exact ((g6.trans e8).trans m3).trans (visitIf_ste _ _ _ _ _)

theorem switch_s (c : Ctx) (bl : Option Nat) (v : Expr) (cl : List (Option Expr × List Stmt)) (hbodies : ∀ er, BodiesS c (some er) cl) :
    StmtS c bl (.switch v cl) := by
  intro s s' h
  simp only [walkStmt] at h
  by_cases hmd : (cl.filter (·.1.isNone)).length > 1
  · simp [hmd] at h
  · simp only [hmd, if_false] at h
    obtain ⟨left, s1, h1, h2⟩ := bind_ok h
    have e1 := rvalue_of_exprS (s_expr c v) s s1 left h1
    obtain ⟨conds, s2, h3, h4⟩ := bind_ok h2
    obtain ⟨hr, s3, h5, h6⟩ := bind_ok h4
    obtain ⟨er, s4, h7, h8⟩ := bind_ok h6
    obtain ⟨outer, s5, h9, h10⟩ := bind_ok h8
    simp at h9
    obtain ⟨hout, hs5⟩ := h9
    subst hs5
    obtain ⟨bodies?, s6, h11, h12⟩ := bind_ok h10
    have hx := attempt_ok h11
    obtain ⟨u, s7, h13, h14⟩ := bind_ok h12
    simp at h13
    cases bodies? with
    | none => simp at h14
    | some bodies =>
      simp only at h14
      by_cases hlen : (cl.filter (·.1.isSome)).length = conds.length ∧ cl.length = bodies.length
      · simp only [hlen, and_self, if_true] at h14
        obtain ⟨bb, s8, h15, h16⟩ := bind_ok h14
        simp at h15 h16
        have hb' : s'.b = visitSwitchStatement s6.b conds bodies (cl.findIdx? (·.1.isNone)) hr er := by
          rw [← h16, ← h15.2, ← h15.1, ← h13]
        have e2 := s_caseConditions c left cl s1 s2 conds h3 hlen.1.symm
        have m1 := mark_ste h5
        have m2 := mark_ste h7
        have e6 := hbodies er s4 s6 bodies hx hlen.2.symm
        rw [hb']
        exact (((((e1.trans e2).trans m1).trans m2).trans e6)).trans (visitSwitch_ste _ _ _ _ _ _)
      · simp [hlen] at h14

mutual

theorem s_stmt (c : Ctx) (bl : Option Nat) : (st : Stmt) → StmtS c bl st
  | .expr e => by
    intro s s' h
    simp only [walkStmt] at h
    obtain ⟨v, s1, h1, h2⟩ := bind_ok h
    have e1 := rvalue_of_exprS (s_expr c e) s s1 v h1
    obtain ⟨b, s2, h3, h4⟩ := bind_ok h2
    simp at h3 h4
    rw [← h4, ← h3.1]
    exact e1.trans (visitExpressionStatement_ste _ _)
  | .lexical kind ds => by
    intro s s' h
    simp only [walkStmt] at h
    exact s_decls c kind ds s s' h
  | .break_ labeled => by
    intro s s' h
    simp only [walkStmt] at h
    cases labeled with
    | true => simp at h
    | false =>
      simp only [Bool.false_eq_true, if_false] at h
      cases bl with
      | none => simp at h
      | some l =>
        simp only at h
        obtain ⟨b, s1, h1, h2⟩ := bind_ok h
        simp at h1 h2
        rw [← h2, ← h1.1]
        exact visitBreak_ste _ _
  | .return_ e => by
    intro s s' h
    simp only [walkStmt] at h
    obtain ⟨v, s1, h1, h2⟩ := bind_ok h
    obtain ⟨b, s2, h3, h4⟩ := bind_ok h2
    simp at h3 h4
    have g1 : StE s.b s1.b := by
      cases e with
      | none => simp at h1; rw [← h1.2]; exact StE.refl _
      | some x => simp only at h1; exact rvalue_of_exprS (s_expr c x) s s1 v h1
    rw [← h4, ← h3.1]
    exact g1.trans (visitReturn_ste _ _)
  | .block ss => by
    intro s s' h
    simp only [walkStmt] at h
    obtain ⟨outer, s1, h1, h2⟩ := bind_ok h
    simp at h1
    obtain ⟨hout, hs1⟩ := h1
    subst hs1
    obtain ⟨ok, s2, h3, h4⟩ := bind_ok h2
    obtain ⟨u, s3, h5, h6⟩ := bind_ok h4
    simp at h5
    cases ok with
    | false => simp at h6
    | true =>
      simp at h6
      rw [← h6, ← h5]
      exact s_stmts c bl ss s s2 h3
  | .if_ cnd a b => by
    cases b with
    | none => exact if_s c bl cnd a none (s_stmt c bl a) (by intro n hn; cases hn)
    | some n => exact if_s c bl cnd a (some n) (s_stmt c bl a) (by intro m hm; cases hm; exact s_stmt c bl n)
  | .switch v cl => switch_s c bl v cl (fun er => s_bodies c (some er) cl)

theorem s_stmts (c : Ctx) (bl : Option Nat) : (ss : List Stmt) → StmtsS c bl ss
  | [] => by
    intro s s' h
    simp [walkStmts] at h
    rw [← h]; exact StE.refl _
  | st :: rest => by
    intro s s' h
    simp only [walkStmts] at h
    obtain ⟨r, s1, h1, h2⟩ := bind_ok h
    have hx := attempt_ok h1
    cases r with
    | none =>
      simp only at h2
      obtain ⟨u, s2, h3, h4⟩ := bind_ok h2
      simp at h4
    | some u =>
      simp only at h2
      exact (s_stmt c bl st s s1 hx).trans (s_stmts c bl rest s1 s' h2)

theorem s_bodies (c : Ctx) (bl : Option Nat) : (cl : List (Option Expr × List Stmt)) → BodiesS c bl cl
  | [] => by
    intro s s' bodies h hlen
    simp [walkBodies] at h
    rw [← h.2]; exact StE.refl _
  | (cv, body) :: rest => by
    intro s s' bodies h hlen
    simp only [walkBodies] at h
    obtain ⟨outer, s0, h0, h0'⟩ := bind_ok h
    simp at h0
    obtain ⟨hout, hs0⟩ := h0
    subst hs0
    obtain ⟨ok, s1a, h1, h1'⟩ := bind_ok h0'
    obtain ⟨u, s1, hset, h2⟩ := bind_ok h1'
    simp at hset
    cases ok with
    | false =>
      simp only [Bool.false_eq_true, if_false] at h2
      have := bodies_length c bl rest s1 s' bodies h2
      simp at hlen
      omega
    | true =>
      simp only [if_true] at h2
      obtain ⟨l, s2, h3, h4⟩ := bind_ok h2
      obtain ⟨others, s3, h5, h6⟩ := bind_ok h4
      simp at h6
      have e1 := s_stmts c bl body s s1a h1
      have hb1 : s1.b = s1a.b := by rw [← hset]
      have m1 := mark_ste h3
      rw [hb1] at m1
      have e3 := s_bodies c bl rest s2 s3 others h5 (by rw [← h6.1] at hlen; simp at hlen; exact hlen)
      rw [← h6.2]
      exact (e1.trans m1).trans e3

end

theorem s_params (c : Ctx) : (ps : List (String × Option (List String))) → ∀ n s s' m,
    run (walkCallbackFunction.params c n ps) s = (some m, s') → StE s.b s'.b
  | [], n, s, s', m, h => by
    simp [walkCallbackFunction.params] at h
    rw [← h.2]; exact StE.refl _
  | (name, ty) :: rest, n, s, s', m, h => by
    simp only [walkCallbackFunction.params] at h
    obtain ⟨ls, s1, h1, h2⟩ := bind_ok h
    simp at h1
    obtain ⟨hls, hs1⟩ := h1
    subst hs1
    have diag : ∀ (msg : String) (k : Nat), run (do pushDiag msg; walkCallbackFunction.params c k rest) s = (some m, s') →
        StE s.b s'.b := by
      intro msg k hk
      obtain ⟨u, s2, h3, h4⟩ := bind_ok hk
      rw [run_pushDiag] at h3
      simp at h3
      have := s_params c rest k s2 s' m h4
      rw [← h3] at this
      exact this
    split at h2
    · exact diag _ _ h2
    · cases ty with
      | none => simp only at h2; exact diag _ _ h2
      | some t =>
        simp only at h2
        obtain ⟨k, s2, h3, h4⟩ := bind_ok h2
        rw [processTypeAnnotation_ok h3] at h4
        obtain ⟨b0, s3, h5, h6⟩ := bind_ok h4
        simp at h5
        obtain ⟨hb0, hs3⟩ := h5
        subst hs3
        subst hb0
        obtain ⟨l, s4, h7, h8⟩ := bind_ok h6
        obtain ⟨b1, h9, hs4⟩ := consumeLocal_ok h7
        have g1 : StE s.b b1 := visitFunctionParameter_ste h9
        obtain ⟨ls2, s5, h10, h11⟩ := bind_ok h8
        simp at h10
        obtain ⟨hls2, hs5⟩ := h10
        subst hs5
        obtain ⟨u, s6, h12, h13⟩ := bind_ok h11
        simp at h12
        have hb6 : s6.b = b1 := by rw [← h12, hs4]
        have g6 : StE s.b s6.b := by rw [hb6]; exact g1
        exact g6.trans (s_params c rest (n + 1) s6 s' m h13)

theorem s_program (c : Ctx) (callback : Bool) (p : Program) (s s' : WState)
    (h : run (walkProgram c callback p) s = (some (), s')) : StE s.b s'.b := by
  cases p with
  | stmt st =>
    simp only [walkProgram] at h
    exact s_stmt c none st s s' h
  | function f =>
    simp only [walkProgram] at h
    cases callback with
    | false => simp at h
    | true =>
      simp only [if_true, walkCallbackFunction] at h
      split at h
      · simp at h
      · obtain ⟨u, s1, h1, h2⟩ := bind_ok h
        simp at h1
        obtain ⟨n, s2, h3, h4⟩ := bind_ok h2
        have g1 : StE s.b s2.b := by
          have := s_params c f.params 0 s1 s2 n h3
          rw [← h1] at this
          exact this
        split at h4
        · simp at h4
        · cases hb : f.body with
          | expr e =>
            simp only [hb] at h4
            exact g1.trans (s_stmt c none (.expr e) s2 s' (by simpa only [walkStmt] using h4))
          | stmt st =>
            simp only [hb] at h4
            exact g1.trans (s_stmt c none st s2 s' h4)

/-! ### the built body -/

/-- every statement of a built body is an assignment or an execution whose property reads go through a local, a
    named object or a non-pointer operand; there is no observe statement -/
theorem build_statements_good (ctx : Ctx) (callback : Bool) (p : Program) (code : CodeBody)
    (h : (build ctx callback p).code = some code) : ∀ b ∈ code.blocks, ∀ s ∈ b.statements, GoodSt s := by
  unfold build at h
  generalize hrun : (walkProgram ctx callback p).run {} = res at h
  rcases res with ⟨r, st⟩
  cases r with
  | none => simp at h
  | some u =>
    simp only at h
    have hste := s_program ctx callback p {} st hrun
    obtain ⟨hrel, _⟩ := finalize_rel st.b.code st.b.currentRef
    generalize finalizeCompletionValues st.b.code st.b.currentRef = fin at h hrel
    rcases fin with ⟨code', panic'⟩
    simp at h
    subst h
    simp only at hrel
    intro b hb s hs
    obtain ⟨i, hi, hbi⟩ := List.getElem_of_mem hb
    have hi' : i < st.b.code.blocks.length := by rw [← hrel.1]; exact hi
    obtain ⟨n, hn, rel⟩ := hrel.2 i _ (List.getElem?_eq_getElem hi')
    rw [List.getElem?_eq_getElem hi] at hn
    cases hn
    rw [hbi] at rel
    rw [rel.st] at hs
    have hmem : s ∈ stmtsOf st.b i := by
      unfold stmtsOf
      rw [List.getElem?_eq_getElem hi']
      exact hs
    rcases hste i s hmem with h0 | h0
    · rw [stmtsOf_init] at h0; cases h0
    · exact h0

/-! ### the analysis on a body of good statements never panics -/

section NoPanic
open QV.Proofs.PropDep QV.Model.Observe

theorem ptr_shape {a : Operand} (hn : NotNull a) (hp : a.typeDesc.isPointer = true) :
    (∃ x c, a = .namedObject x c) ∨ (∃ x t, a = .local x t) := by
  cases a with
  | const v =>
    cases v with
    | nullPointer => exact absurd rfl hn
    | _ => exact absurd hp (by intro h; cases h)
  | enumVariant e v => exact absurd hp (by simp [Operand.typeDesc, TypeDesc.isPointer, TypeKind.isPointer])
  | «local» x t => exact Or.inr ⟨x, t, rfl⟩
  | namedObject x c => exact Or.inl ⟨x, c, rfl⟩
  | void => exact absurd hp (by decide)

theorem readDecision_no_panic (L : List (Option String)) {a : Operand} (p : PropInfo) (hn : NotNull a) (m : String) :
    readDecision L a p ≠ .panic m := by
  unfold readDecision
  split
  · rename_i hc
    simp only [Bool.and_eq_true] at hc
    rcases ptr_shape hn hc.1 with ⟨x, c, rfl⟩ | ⟨x, t, rfl⟩
    · split <;> simp
    · split
      · simp only
        split <;> simp
      · simp
      · simp
  · simp

theorem decision_no_panic (L : List (Option String)) {s : Statement} (hg : GoodSt s) (m : String) : decision L s ≠ .panic m := by
  cases s with
  | observeProperty h l sig => exact absurd hg (by simp [GoodSt])
  | exec r =>
    cases r <;> simp only [decision] <;> try (intro hx; cases hx)
    exact readDecision_no_panic L _ hg m
  | assign l r =>
    cases r <;> simp only [decision] <;> try (intro hx; cases hx)
    exact readDecision_no_panic L _ hg m

theorem scan_no_panic : ∀ (stmts : List Statement) (L : List (Option String)) (line : Nat), (∀ s ∈ stmts, GoodSt s) →
    (analyzeBlock.scan L line stmts).2.2.2 = none
  | [], L, line, _ => by simp [scan_nil]
  | stmt :: rest, L, line, hg => by
    rw [scan_cons]
    have ih := scan_no_panic rest (nextLocals L stmt) (line + 1) (fun s hs => hg s (List.mem_cons_of_mem _ hs))
    have hd := decision_no_panic L (hg stmt List.mem_cons_self)
    simp only [ih]
    cases hdc : decision L stmt with
    | panic m => exact absurd hdc (hd m)
    | _ => simp [Decision.out]

theorem fold_no_panic (n : Nat) : ∀ (bs : List BasicBlock) (acc : Acc), (∀ b ∈ bs, ∀ s ∈ b.statements, GoodSt s) →
    (bs.foldl (pdStep n) acc).2.2.2.2 = acc.2.2.2.2
  | [], acc, _ => rfl
  | b :: bs, acc, hg => by
    rw [List.foldl_cons, fold_no_panic n bs _ (fun x hx => hg x (List.mem_cons_of_mem _ hx))]
    simp only [pdStep, analyzeBlock_eq]
    rw [scan_no_panic _ _ _ (hg b List.mem_cons_self)]
    simp

theorem analyze_no_panic (code : CodeBody) (hg : ∀ b ∈ code.blocks, ∀ s ∈ b.statements, GoodSt s) :
    (analyzePropertyDependency code).2.2 = none := by
  rw [apd_eq]
  simp only
  rw [fold_no_panic _ _ _ hg]

theorem goodSt_noObs {s : Statement} (hg : GoodSt s) : stmtObs s = [] := by
  cases s with
  | observeProperty h l sig => exact absurd hg (by simp [GoodSt])
  | exec r => rfl
  | assign l r => rfl

end NoPanic

end QV.Proofs.BuilderInv
