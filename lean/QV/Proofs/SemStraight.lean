/-
  The straight-line expression fragment: composition of the visitor-level lemmas over the AST walk by induction on the
  expression (QV.Props.C01.compile_correct_partial rests on `walk_straight`).
-/
import QV.Proofs.SemWalk
import QV.Proofs.SemFold

namespace QV.Proofs.SemStraight
open QV.Model QV.Model.IrSem QV.Proofs.SemIr QV.Proofs.SemVisit QV.Proofs.SemWalk
open QV.Spec.Sem (Val World Host Ev Ty STy coerceTo binop unop)

/-- constants the fragment produces: integers within 64 bits, booleans -/
def ConstOk : ConstantValue → Prop
  | .integer k => QV.Spec.ConstSem.representable k = true
  | .bool _ => True
  | _ => False

theorem cmpBy_bool (o : CmpOp) (a b : Bool) :
    cmpBy o (· == ·) (fun x y => !x && y) a b = QV.Spec.Sem.cmpOrd o (a == b) (!a && b) (!b && a) := by
  cases o <;> cases a <;> cases b <;> rfl

/-- folding of a binary operator on two fragment constants agrees with the reference semantics -/
theorem fold_const_binary (ic : ICtx) (L : IrSem.Locals) (F : FloatOps) (env : Env) (b : Builder) (op : BinaryOp)
    (hlog : ∀ lop, op ≠ .logical lop) (cl cr : ConstantValue) (hl : ConstOk cl) (hr : ConstOk cr)
    (res : Operand) (b' : Builder)
    (h : visitBinaryExpression F env b op (.const cl) (.const cr) = .ok (res, b'))
    (vl vr : Val) (hvl : evalOperand ic L (.const cl) = some vl) (hvr : evalOperand ic L (.const cr) = some vr) :
    b' = b ∧ ∃ c, res = .const c ∧ ConstOk c ∧ ∀ v, binop F op vl vr = some v → evalOperand ic L res = some v := by
  cases cl with
  | integer x =>
    cases cr with
    | integer y =>
      simp only [evalOperand, Option.some.injEq] at hvl hvr
      subst hvl; subst hvr
      obtain ⟨hb, cst, hres, hin, _⟩ :=
        QV.Props.C03.fold_binary_sound F env b (QV.Spec.Sem.tokOf op) op (QV.Proofs.SemFold.tokOf_toOp op) hlog (.integer x) (.integer y) hl res b' h
      obtain ⟨_, v', he, hv⟩ := QV.Proofs.SemFold.fold_agrees_spec ic L F env b op hlog x y hl res b' h
      refine ⟨hb, cst, hres, ?_, fun v hv2 => by rw [hv] at hv2; injection hv2 with hv2; rw [← hv2]; exact he⟩
      subst hres
      cases cst with
      | integer k => exact hin
      | bool k => trivial
      | _ =>
        exfalso
        rw [QV.Proofs.SemFold.binop_cint F op hlog] at hv
        unfold QV.Spec.Sem.constBinary at hv
        simp only [evalOperand, Option.some.injEq] at he
        subst he
        split at hv <;> simp at hv
    | bool y =>
      exfalso
      cases op with
      | logical lop => exact absurd rfl (hlog lop)
      | arith o => simp [visitBinaryExpression, evalBinaryArith] at h
      | bitwise o => simp [visitBinaryExpression, evalBinaryBitwise] at h
      | shift o => simp [visitBinaryExpression, evalShift] at h
      | cmp o => simp [visitBinaryExpression, evalComparison] at h
    | _ => exact absurd hr (by simp [ConstOk])
  | bool x =>
    cases cr with
    | bool y =>
      simp only [evalOperand, Option.some.injEq] at hvl hvr
      subst hvl; subst hvr
      cases op with
      | logical lop => exact absurd rfl (hlog lop)
      | arith o => simp [visitBinaryExpression, evalBinaryArith] at h
      | shift o => simp [visitBinaryExpression, evalShift] at h
      | bitwise o =>
        simp only [visitBinaryExpression, evalBinaryBitwise, Except.ok.injEq, Prod.mk.injEq] at h
        obtain ⟨rfl, rfl⟩ := h
        refine ⟨rfl, _, rfl, trivial, ?_⟩
        intro v hv
        simp only [binop, QV.Spec.Sem.unify, Option.some.injEq] at hv
        subst hv
        cases o <;> rfl
      | cmp o =>
        simp only [visitBinaryExpression, evalComparison, Except.ok.injEq, Prod.mk.injEq] at h
        obtain ⟨rfl, rfl⟩ := h
        refine ⟨rfl, _, rfl, trivial, ?_⟩
        intro v hv
        simp only [binop, QV.Spec.Sem.unify, Option.some.injEq] at hv
        subst hv
        simp only [evalOperand, cmpBy_bool]
    | integer y =>
      exfalso
      cases op with
      | logical lop => exact absurd rfl (hlog lop)
      | arith o => simp [visitBinaryExpression, evalBinaryArith] at h
      | bitwise o => simp [visitBinaryExpression, evalBinaryBitwise] at h
      | shift o => simp [visitBinaryExpression, evalShift] at h
      | cmp o => simp [visitBinaryExpression, evalComparison] at h
    | _ => exact absurd hr (by simp [ConstOk])
  | _ => exact absurd hl (by simp [ConstOk])

theorem representable_neg_sub (a : Int) (h : QV.Spec.ConstSem.representable a = true) :
    QV.Spec.ConstSem.representable (-a - 1) = true := by
  have e63 : (2 : Int) ^ 63 = 9223372036854775808 := by decide
  simp only [QV.Spec.ConstSem.representable, e63, Bool.and_eq_true, decide_eq_true_eq] at h ⊢
  omega

/-- folding of a unary operator on a fragment constant agrees with the reference semantics -/
theorem fold_const_unary (ic : ICtx) (L : IrSem.Locals) (F : FloatOps) (b : Builder) (op : UnaryOp)
    (c : ConstantValue) (hc : ConstOk c) (res : Operand) (b' : Builder)
    (h : visitUnaryExpression F b op (.const c) = .ok (res, b'))
    (va : Val) (hva : evalOperand ic L (.const c) = some va) :
    b' = b ∧ ∃ c', res = .const c' ∧ ConstOk c' ∧ ∀ v, unop F op va = some v → evalOperand ic L res = some v := by
  cases c with
  | integer x =>
    simp only [evalOperand, Option.some.injEq] at hva
    subst hva
    obtain ⟨hb, v', he', hu⟩ := QV.Proofs.SemFold.fold_unary_agrees_spec ic L F b op x hc res b' h
    have he : ∀ v, unop F op (Val.cint x) = some v → evalOperand ic L res = some v := by
      intro v hv; rw [hu] at hv; injection hv with hv; rw [← hv]; exact he'
    refine ⟨hb, ?_⟩
    cases op with
    | plus =>
      simp [visitUnaryExpression, evalUnaryArith] at h
      exact ⟨_, h.1.symm, hc, he⟩
    | minus =>
      simp only [visitUnaryExpression, evalUnaryArith] at h
      rcases QV.Proofs.ConstFold.checked_cases (-x) with ⟨hr, hcc, _⟩ | ⟨hr, hcc, _⟩
      · simp [hcc] at h
        exact ⟨_, h.1.symm, hr, he⟩
      · simp [hcc] at h
    | bitNot =>
      simp [visitUnaryExpression, evalUnaryBitwise] at h
      exact ⟨_, h.1.symm, representable_neg_sub x hc, he⟩
    | logNot => simp [visitUnaryExpression, evalUnaryLogical] at h
  | bool x =>
    simp only [evalOperand, Option.some.injEq] at hva
    subst hva
    cases op with
    | logNot =>
      simp only [visitUnaryExpression, evalUnaryLogical, Except.ok.injEq, Prod.mk.injEq] at h
      obtain ⟨rfl, rfl⟩ := h
      refine ⟨rfl, _, rfl, trivial, ?_⟩
      intro v hv
      simp only [unop, Option.some.injEq] at hv
      subst hv
      rfl
    | plus => simp [visitUnaryExpression, evalUnaryArith] at h
    | minus => simp [visitUnaryExpression, evalUnaryArith] at h
    | bitNot => simp [visitUnaryExpression, evalUnaryBitwise] at h
  | _ => exact absurd hc (by simp [ConstOk])

/-! spec-side equations -/
theorem spec_integer (c : QV.Spec.Sem.Ctx) (v : Nat) (s : QV.Spec.Sem.St) :
    QV.Spec.Sem.evalExpr c (.integer v) s = if (v : Int) < (2 : Int) ^ 63 then some (.cint v, s) else none := by
  rw [QV.Spec.Sem.evalExpr.eq_def]

theorem spec_bool (c : QV.Spec.Sem.Ctx) (v : Bool) (s : QV.Spec.Sem.St) :
    QV.Spec.Sem.evalExpr c (.bool v) s = some (.bool v, s) := by
  rw [QV.Spec.Sem.evalExpr.eq_def]

theorem spec_unary (c : QV.Spec.Sem.Ctx) (tok : UnaryToken) (a : Expr) (s : QV.Spec.Sem.St) :
    QV.Spec.Sem.evalExpr c (.unary tok a) s =
      match tok.toOp, QV.Spec.Sem.evalExpr c a s with
      | some op, some (v, s) => (unop c.H.F op v).map fun r => (r, s)
      | _, _ => none := by
  rw [QV.Spec.Sem.evalExpr.eq_def]
  simp only
  cases tok.toOp <;> cases QV.Spec.Sem.evalExpr c a s <;> first | rfl | (rename_i p; cases p; rfl)

theorem spec_binary (c : QV.Spec.Sem.Ctx) (tok : BinaryToken) (op : BinaryOp) (l r : Expr) (s : QV.Spec.Sem.St)
    (htok : tok.toOp = some op) (hlog : ∀ lop, op ≠ .logical lop) :
    QV.Spec.Sem.evalExpr c (.binary tok l r) s =
      match QV.Spec.Sem.evalExpr c l s with
      | none => none
      | some (a, s) =>
        match QV.Spec.Sem.evalExpr c r s with
        | none => none
        | some (b, s) => (binop c.H.F op a b).map fun v => (v, s) := by
  rw [QV.Spec.Sem.evalExpr.eq_def]
  simp only [htok]
  cases op with
  | logical lop => exact absurd rfl (hlog lop)
  | _ => rfl

/-! ### the fragment and the theorem -/

structure Agree (wc : Ctx) (sc : QV.Spec.Sem.Ctx) (ic : ICtx) : Prop where
  host : sc.H = ic.H
  float : sc.H.F = wc.F
  objects : ∀ name cls, wc.objects.find? (·.1 = name) = some (name, cls) →
    ∃ o, sc.objects.find? (·.1 = name) = some (name, o, cls) ∧ ic.named name = some o
  props : ∀ cls p, sc.propTy cls p =
    ((wc.env.findClass cls).bind fun ci => ci.props.find? (·.name = p)).map fun pi => styOf pi.ty

/-- the straight-line expression fragment -/
inductive Straight (wc : Ctx) : Expr → Prop
  | int (v : Nat) : Straight wc (.integer v)
  | bool (b : Bool) : Straight wc (.bool b)
  | read (o p cls : String) (ci : ClassInfo) (pinfo : PropInfo) :
      wc.objects.find? (·.1 = o) = some (o, cls) → wc.env.findClass cls = some ci →
      ci.props.find? (·.name = p) = some pinfo → pinfo.ty ≠ .void → Straight wc (.member (.ident o) p)
  | unary (tok : UnaryToken) (a : Expr) : Straight wc a → Straight wc (.unary tok a)
  | binary (tok : BinaryToken) (op : BinaryOp) (l r : Expr) : tok.toOp = some op → (∀ lop, op ≠ .logical lop) →
      Straight wc l → Straight wc r → Straight wc (.binary tok l r)

def OperandOk (n : Nat) : Operand → Prop
  | .const c => ConstOk c
  | .local m _ => m < n
  | _ => False

theorem OperandOk.mono {n n' : Nat} {op : Operand} (h : OperandOk n op) (hn : n ≤ n') : OperandOk n' op := by
  cases op <;> simp_all [OperandOk] <;> omega

theorem evalOperand_agree (ic : ICtx) (L L' : IrSem.Locals) (n : Nat) (op : Operand) (hok : OperandOk n op)
    (h : ∀ m, m < n → L' m = L m) : evalOperand ic L' op = evalOperand ic L op := by
  cases op with
  | const c => cases c <;> rfl
  | «local» m ty => simp only [evalOperand]; exact h m hok
  | _ => exact absurd hok (by simp [OperandOk])

theorem evalOperand_const_some (ic : ICtx) (L : IrSem.Locals) (c : ConstantValue) (hc : ConstOk c) :
    ∃ v, evalOperand ic L (.const c) = some v := by
  cases c <;> simp_all [ConstOk, evalOperand]

/-- the emitted statements compute the value the reference semantics gives to `e`, in every state and for every final
    list of locals that extends the builder's -/
def Sound (sc : QV.Spec.Sem.Ctx) (ic : ICtx) (e : Expr) (nOld : Nat) (ss : List Statement) (op : Operand)
    (locals' : List TypeKind) : Prop :=
  ∀ (LL : List TypeKind), locals' <+: LL →
  ∀ (st : State) (sst sst' : QV.Spec.Sem.St) (v : Val),
    sst.vars = [] → sst.w = st.w → (∀ x q u, st.w.prop x q = some u → isCint u = false) →
    QV.Spec.Sem.evalExpr sc e sst = some (v, sst') →
    sst' = sst ∧ ∃ st', execStatements ic LL ss st = some st' ∧ evalOperand ic st'.L op = some v ∧
      (∀ m, m < nOld → st'.L m = st.L m) ∧ st'.w = st.w ∧ st'.trace = st.trace ∧
      ((∀ c, op ≠ .const c) → isCint v = false)

theorem prefix_getElem? {α} {l LL : List α} (h : l <+: LL) (n : Nat) (x : α) (hx : l[n]? = some x) : LL[n]? = some x := by
  obtain ⟨t, rfl⟩ := h
  have hn : n < l.length := by
    rcases Nat.lt_or_ge n l.length with h' | h'
    · exact h'
    · simp [List.getElem?_eq_none h'] at hx
  rw [List.getElem?_append_left hn]
  exact hx

theorem representable_nat (v : Nat) (h : (v : Int) ≤ i64Max) : QV.Spec.ConstSem.representable (v : Int) = true := by
  have e63 : (2 : Int) ^ 63 = 9223372036854775808 := by decide
  simp only [QV.Spec.ConstSem.representable, e63, Bool.and_eq_true, decide_eq_true_eq, i64Max] at h ⊢
  omega

/-- what the walk of `e` from `s` to `s'` with result `op` achieved -/
def Result (sc : QV.Spec.Sem.Ctx) (ic : ICtx) (e : Expr) (s s' : WState) (op : Operand) : Prop :=
  ∃ ss, s'.locals = [] ∧ Grows s.b ss s'.b ∧ OperandOk s'.b.code.locals.length op ∧
    Sound sc ic e s.b.code.locals.length ss op s'.b.code.locals

theorem straight_int (wc : Ctx) (sc : QV.Spec.Sem.Ctx) (ic : ICtx) (v : Nat) (s s' : WState) (op : Operand)
    (h : (walkRvalue wc (.integer v)).run s = (some op, s')) (hl : s.locals = []) (blk : BasicBlock) (ho : OpenAt s.b blk) :
    Result sc ic (.integer v) s s' op := by
  obtain ⟨hop, hs, hv⟩ := run_integer wc v s s' op h
  rw [hop, hs]
  refine ⟨[], hl, Grows.refl s.b blk ho, representable_nat v hv, ?_⟩
  intro LL _ st sst sst' val _ _ _ hspec
  rw [spec_integer] at hspec
  split at hspec
  · simp only [Option.some.injEq, Prod.mk.injEq] at hspec
    obtain ⟨rfl, rfl⟩ := hspec
    exact ⟨rfl, st, rfl, rfl, fun _ _ => rfl, rfl, rfl, fun hc => absurd rfl (hc _)⟩
  · simp at hspec

theorem straight_bool (wc : Ctx) (sc : QV.Spec.Sem.Ctx) (ic : ICtx) (v : Bool) (s s' : WState) (op : Operand)
    (h : (walkRvalue wc (.bool v)).run s = (some op, s')) (hl : s.locals = []) (blk : BasicBlock) (ho : OpenAt s.b blk) :
    Result sc ic (.bool v) s s' op := by
  rw [run_bool] at h
  injection h with h1 h2
  injection h1 with h1
  rw [← h1, ← h2]
  refine ⟨[], hl, Grows.refl s.b blk ho, trivial, ?_⟩
  intro LL _ st sst sst' val _ _ _ hspec
  rw [spec_bool] at hspec
  simp only [Option.some.injEq, Prod.mk.injEq] at hspec
  obtain ⟨rfl, rfl⟩ := hspec
  exact ⟨rfl, st, rfl, rfl, fun _ _ => rfl, rfl, rfl, fun hc => absurd rfl (hc _)⟩

theorem straight_read (wc : Ctx) (sc : QV.Spec.Sem.Ctx) (ic : ICtx) (hag : Agree wc sc ic)
    (o p cls : String) (ci : ClassInfo) (pinfo : PropInfo)
    (h1 : wc.objects.find? (·.1 = o) = some (o, cls)) (h2 : wc.env.findClass cls = some ci)
    (h3 : ci.props.find? (·.name = p) = some pinfo) (h5 : pinfo.ty ≠ .void)
    (s s' : WState) (op : Operand)
    (h : (walkRvalue wc (.member (.ident o) p)).run s = (some op, s')) (hl : s.locals = []) (blk : BasicBlock)
    (ho : OpenAt s.b blk) :
    Result sc ic (.member (.ident o) p) s s' op := by
  obtain ⟨hop', hs⟩ := run_read wc o p cls ci pinfo s s' op hl h1 h2 h3 h
  rw [hop', hs]
  obtain ⟨hop, hg, hloc⟩ := grows_emit s.b blk pinfo.ty (.readProperty (.namedObject o cls) pinfo) h5 ho
  obtain ⟨oid, hso, hnamed⟩ := hag.objects o cls h1
  have hname : pinfo.name = p := by simpa using List.find?_some h3
  refine ⟨_, hl, hg, ?_, ?_⟩
  · rw [hop]
    simp only [hloc, OperandOk, List.length_append, List.length_singleton]
    omega
  · intro LL hLL st sst sst' val hvars hw hnc hspec
    rw [QV.Proofs.SemFold.spec_member_ident] at hspec
    simp only [QV.Spec.Sem.resolveIdent, QV.Spec.Sem.St.lookup, hvars, List.find?_nil, hso, QV.Spec.Sem.memberRef,
      QV.Spec.Sem.memberOf] at hspec
    cases hp : sst.w.prop oid p with
    | none => simp [hp] at hspec
    | some pv =>
      simp only [hp, Option.some.injEq, Prod.mk.injEq] at hspec
      obtain ⟨rfl, rfl⟩ := hspec
      rw [hw] at hp
      have hpv := hnc oid p pv hp
      have hLLn : LL[s.b.code.locals.length]? = some pinfo.ty :=
        prefix_getElem? hLL _ _ (by simp only [hloc]; simp)
      refine ⟨rfl, { st with L := upd st.L s.b.code.locals.length pv }, ?_, ?_, ?_, rfl, rfl, fun _ => hpv⟩
      · simp [execStatements, execStatement, evalRvalue, evalOperand, hnamed, hname, hp, hLLn,
          coerceTo_of_not_cint _ _ hpv]
      · rw [hop]; simp [evalOperand, upd]
      · intro m hm
        simp only [upd]
        rw [if_neg (by omega)]

theorem straight_unary (wc : Ctx) (sc : QV.Spec.Sem.Ctx) (ic : ICtx) (hag : Agree wc sc ic) (tok : UnaryToken) (a : Expr)
    (ih : ∀ s s' op, (walkRvalue wc a).run s = (some op, s') → s.locals = [] → (∃ blk, OpenAt s.b blk) →
      Result sc ic a s s' op)
    (s s' : WState) (op : Operand)
    (h : (walkRvalue wc (.unary tok a)).run s = (some op, s')) (hl : s.locals = []) (ho : ∃ blk, OpenAt s.b blk) :
    Result sc ic (.unary tok a) s s' op := by
  rw [run_unary] at h
  cases hw : (walkRvalue wc a).run s with
  | mk r s1 =>
    rw [hw] at h
    cases r with
    | none => simp only at h; injection h with h1 _; cases h1
    | some arg =>
      simp only at h
      cases htok : tok.toOp with
      | none => rw [htok] at h; simp only at h; injection h with h1 _; cases h1
      | some u =>
        rw [htok] at h
        simp only at h
        cases hv : visitUnaryExpression wc.F s1.b u arg with
        | error e => rw [hv] at h; simp only at h; injection h with h1 _; cases h1
        | ok xb =>
          obtain ⟨x, b⟩ := xb
          rw [hv] at h
          simp only at h
          injection h with h1 h2
          injection h1 with h1
          rw [← h1, ← h2]
          obtain ⟨ss1, hl1, hg1, hok1, hsound1⟩ := ih s s1 arg hw hl ho
          obtain ⟨blk1, ho1⟩ := hg1.open
          have hFi : ic.H.F = wc.F := by rw [← hag.host]; exact hag.float
          cases arg with
          | const c =>
            obtain ⟨va0, hva0⟩ := evalOperand_const_some ic (fun _ => none) c hok1
            obtain ⟨hb, c', hres, hc', _⟩ := fold_const_unary ic (fun _ => none) wc.F s1.b u c hok1 x b hv va0 hva0
            subst hb; subst hres
            refine ⟨ss1, hl1, hg1, hc', ?_⟩
            intro LL hLL st sst sst' val hvars hw' hnc hspec
            rw [spec_unary, htok] at hspec
            cases hsa : QV.Spec.Sem.evalExpr sc a sst with
            | none => simp [hsa] at hspec
            | some p =>
              obtain ⟨va, sa⟩ := p
              simp only [hsa, Option.map_eq_some_iff, Prod.mk.injEq] at hspec
              obtain ⟨v', hu, rfl, rfl⟩ := hspec
              obtain ⟨rfl, st1, he1, hv1, hp1, hw1, ht1, _⟩ := hsound1 LL hLL st sst sa va hvars hw' hnc hsa
              obtain ⟨_, c2, hres2, _, hval⟩ := fold_const_unary ic st1.L wc.F s1.b u c hok1 _ _ hv va hv1
              refine ⟨rfl, st1, he1, ?_, hp1, hw1, ht1, fun hc => absurd rfl (hc _)⟩
              exact hval v' (by rw [← hag.float]; exact hu)
          | «local» m ty =>
            have hem : emitUnaryExpression s1.b u (.local m ty) = .ok (x, b) := by
              simpa [visitUnaryExpression] using hv
            obtain ⟨ty', hty', hshape⟩ := emitUnary_shape s1.b u (.local m ty) x b hem
            obtain ⟨hop, hg2, hloc2⟩ := grows_emit s1.b blk1 ty' (.unary u (ensureConcreteString (.local m ty))) hty' ho1
            rw [← hshape] at hop hg2 hloc2
            simp only at hop hg2 hloc2
            refine ⟨ss1 ++ [.assign s1.b.code.locals.length (.unary u (ensureConcreteString (.local m ty)))], hl1,
              hg1.trans hg2, ?_, ?_⟩
            · rw [hop]
              simp only [hloc2, OperandOk, List.length_append, List.length_singleton]
              omega
            · intro LL hLL st sst sst' val hvars hw' hnc hspec
              rw [spec_unary, htok] at hspec
              cases hsa : QV.Spec.Sem.evalExpr sc a sst with
              | none => simp [hsa] at hspec
              | some p =>
                obtain ⟨va, sa⟩ := p
                simp only [hsa, Option.map_eq_some_iff, Prod.mk.injEq] at hspec
                obtain ⟨v', hu, rfl, rfl⟩ := hspec
                have hLL1 : s1.b.code.locals <+: LL := by
                  rw [hloc2] at hLL
                  exact (List.prefix_append _ _).trans hLL
                obtain ⟨rfl, st1, he1, hv1, hp1, hw1, ht1, hnc1⟩ := hsound1 LL hLL1 st sst sa va hvars hw' hnc hsa
                have hva : isCint va = false := hnc1 (by intro c hc; cases hc)
                have hvv : isCint v' = false := QV.Proofs.SemFold.unop_not_cint _ u va v' hva hu
                have hLLn : LL[s1.b.code.locals.length]? = some ty' :=
                  prefix_getElem? hLL _ _ (by simp only [hloc2]; simp)
                have hn01 : s.b.code.locals.length ≤ s1.b.code.locals.length := by
                  obtain ⟨tys, ht⟩ := hg1.locals
                  rw [ht]; simp
                refine ⟨rfl, { st1 with L := upd st1.L s1.b.code.locals.length v' }, ?_, ?_, ?_, hw1, ht1, fun _ => hvv⟩
                · rw [execStatements_append, he1]
                  have hu' : unop ic.H.F u va = some v' := by rw [← hag.host]; exact hu
                  simp [execStatements, execStatement, evalRvalue, evalOperand_ensure, hv1, hu', hLLn,
                    coerceTo_of_not_cint _ _ hvv]
                · rw [hop]; simp [evalOperand, upd]
                · intro k hk
                  simp only [upd]
                  rw [if_neg (by omega)]
                  exact hp1 k hk
          | _ => exact absurd hok1 (by simp [OperandOk])

/-- the dynamic path of a binary operator, given what the two operand walks achieved -/
theorem straight_binary_emit (wc : Ctx) (sc : QV.Spec.Sem.Ctx) (ic : ICtx) (hag : Agree wc sc ic)
    (tok : BinaryToken) (op : BinaryOp) (l r : Expr) (htok : tok.toOp = some op) (hlog : ∀ lop, op ≠ .logical lop)
    (s s1 s2 : WState) (left right x : Operand) (b : Builder)
    (r1 : Result sc ic l s s1 left) (r2 : Result sc ic r s1 s2 right)
    (hdyn : (∀ c, left ≠ .const c) ∨ (∀ c, right ≠ .const c))
    (hem : emitBinaryExpression wc.env s2.b op left right = .ok (x, b)) :
    Result sc ic (.binary tok l r) s { s2 with b := b } x := by
  obtain ⟨ss1, _, hg1, hok1, hsound1⟩ := r1
  obtain ⟨ss2, hl2, hg2, hok2, hsound2⟩ := r2
  obtain ⟨blk2, ho2⟩ := hg2.open
  obtain ⟨ty', hty', hshape⟩ := emitBinary_shape wc.env s2.b op left right x b hlog hem
  obtain ⟨hop, hg3, hloc3⟩ := grows_emit s2.b blk2 ty'
    (.binary op (ensureConcreteString left) (ensureConcreteString right)) hty' ho2
  rw [← hshape] at hop hg3 hloc3
  simp only at hop hg3 hloc3
  have hn01 : s.b.code.locals.length ≤ s1.b.code.locals.length := by
    obtain ⟨tys, ht⟩ := hg1.locals
    rw [ht]; simp
  have hn12 : s1.b.code.locals.length ≤ s2.b.code.locals.length := by
    obtain ⟨tys, ht⟩ := hg2.locals
    rw [ht]; simp
  refine ⟨ss1 ++ ss2 ++ [.assign s2.b.code.locals.length (.binary op (ensureConcreteString left) (ensureConcreteString right))],
    hl2, (hg1.trans hg2).trans hg3, ?_, ?_⟩
  · rw [hop]
    simp only [hloc3, OperandOk, List.length_append, List.length_singleton]
    omega
  · intro LL hLL st sst sst' val hvars hw' hnc hspec
    rw [spec_binary sc tok op l r sst htok hlog] at hspec
    cases hsl : QV.Spec.Sem.evalExpr sc l sst with
    | none => simp [hsl] at hspec
    | some p =>
      obtain ⟨va, sa⟩ := p
      simp only [hsl] at hspec
      have hLL2 : s2.b.code.locals <+: LL := by
        rw [hloc3] at hLL
        exact (List.prefix_append _ _).trans hLL
      have hLL1 : s1.b.code.locals <+: LL := by
        obtain ⟨tys, ht⟩ := hg2.locals
        rw [ht] at hLL2
        exact (List.prefix_append _ _).trans hLL2
      obtain ⟨rfl, st1, he1, hv1, hp1, hw1, ht1, hnc1⟩ := hsound1 LL hLL1 st sst sa va hvars hw' hnc hsl
      cases hsr : QV.Spec.Sem.evalExpr sc r sa with
      | none => simp [hsr] at hspec
      | some q =>
        obtain ⟨vb, sb⟩ := q
        simp only [hsr, Option.map_eq_some_iff, Prod.mk.injEq] at hspec
        obtain ⟨v', hbin, rfl, rfl⟩ := hspec
        obtain ⟨rfl, st2, he2, hv2, hp2, hw2, ht2, hnc2⟩ :=
          hsound2 LL hLL2 st1 sa sb vb hvars (hw'.trans hw1.symm) (by rw [hw1]; exact hnc) hsr
        -- the left operand is still what it was
        have hv1' : evalOperand ic st2.L left = some va := by
          rw [evalOperand_agree ic st1.L st2.L _ left hok1 hp2]; exact hv1
        have hvv : isCint v' = false := by
          refine binop_dyn_not_cint _ op va vb v' hbin ?_
          rcases hdyn with hd | hd
          · exact Or.inl (hnc1 hd)
          · exact Or.inr (hnc2 hd)
        have hLLn : LL[s2.b.code.locals.length]? = some ty' :=
          prefix_getElem? hLL _ _ (by simp only [hloc3]; simp)
        refine ⟨rfl, { st2 with L := upd st2.L s2.b.code.locals.length v' }, ?_, ?_, ?_, hw2.trans hw1,
          ht2.trans ht1, fun _ => hvv⟩
        · rw [execStatements_append, execStatements_append, he1]
          simp only [Option.bind_some, he2]
          have hb' : binop ic.H.F op va vb = some v' := by rw [← hag.host]; exact hbin
          simp [execStatements, execStatement, evalRvalue, evalOperand_ensure, hv1', hv2, hb', hLLn,
            coerceTo_of_not_cint _ _ hvv]
        · rw [hop]; simp [evalOperand, upd]
        · intro k hk
          simp only [upd]
          rw [if_neg (by omega)]
          rw [hp2 k (by omega)]
          exact hp1 k hk

theorem straight_binary (wc : Ctx) (sc : QV.Spec.Sem.Ctx) (ic : ICtx) (hag : Agree wc sc ic)
    (tok : BinaryToken) (op : BinaryOp) (l r : Expr) (htok : tok.toOp = some op) (hlog : ∀ lop, op ≠ .logical lop)
    (ihl : ∀ s s' op, (walkRvalue wc l).run s = (some op, s') → s.locals = [] → (∃ blk, OpenAt s.b blk) →
      Result sc ic l s s' op)
    (ihr : ∀ s s' op, (walkRvalue wc r).run s = (some op, s') → s.locals = [] → (∃ blk, OpenAt s.b blk) →
      Result sc ic r s s' op)
    (s s' : WState) (x : Operand)
    (h : (walkRvalue wc (.binary tok l r)).run s = (some x, s')) (hl : s.locals = []) (ho : ∃ blk, OpenAt s.b blk) :
    Result sc ic (.binary tok l r) s s' x := by
  rw [run_binary wc tok op l r s htok hlog] at h
  cases hw1 : (walkRvalue wc l).run s with
  | mk q1 s1 =>
    rw [hw1] at h
    cases q1 with
    | none => simp only at h; injection h with h1 _; cases h1
    | some left =>
      simp only at h
      have r1 := ihl s s1 left hw1 hl ho
      obtain ⟨ss1, hl1, hg1, hok1, hsound1⟩ := r1
      cases hw2 : (walkRvalue wc r).run s1 with
      | mk q2 s2 =>
        rw [hw2] at h
        cases q2 with
        | none => simp only at h; injection h with h1 _; cases h1
        | some right =>
          simp only at h
          have r2 := ihr s1 s2 right hw2 hl1 hg1.open
          cases hv : visitBinaryExpression wc.F wc.env s2.b op left right with
          | error e => rw [hv] at h; simp only at h; injection h with h1 _; cases h1
          | ok xb =>
            obtain ⟨x', b⟩ := xb
            rw [hv] at h
            simp only at h
            injection h with h1 h2
            injection h1 with h1
            rw [← h1, ← h2]
            have r1 : Result sc ic l s s1 left := ⟨ss1, hl1, hg1, hok1, hsound1⟩
            obtain ⟨ss2, hl2, hg2, hok2, hsound2⟩ := r2
            have r2 : Result sc ic r s1 s2 right := ⟨ss2, hl2, hg2, hok2, hsound2⟩
            cases left with
            | const cl =>
              cases right with
              | const cr =>
                -- both operands are constants: folded, no code
                obtain ⟨vl0, hvl0⟩ := evalOperand_const_some ic (fun _ => none) cl hok1
                obtain ⟨vr0, hvr0⟩ := evalOperand_const_some ic (fun _ => none) cr hok2
                obtain ⟨hb, c', hres, hc', _⟩ :=
                  fold_const_binary ic (fun _ => none) wc.F wc.env s2.b op hlog cl cr hok1 hok2 x' b hv vl0 vr0 hvl0 hvr0
                subst hb; subst hres
                refine ⟨ss1 ++ ss2, hl2, hg1.trans hg2, hc', ?_⟩
                intro LL hLL st sst sst' val hvars hw' hnc hspec
                rw [spec_binary sc tok op l r sst htok hlog] at hspec
                cases hsl : QV.Spec.Sem.evalExpr sc l sst with
                | none => simp [hsl] at hspec
                | some p =>
                  obtain ⟨va, sa⟩ := p
                  simp only [hsl] at hspec
                  have hLL1 : s1.b.code.locals <+: LL := by
                    obtain ⟨tys, ht⟩ := hg2.locals
                    rw [ht] at hLL
                    exact (List.prefix_append _ _).trans hLL
                  obtain ⟨rfl, st1, he1, hv1, hp1, hw1', ht1, _⟩ := hsound1 LL hLL1 st sst sa va hvars hw' hnc hsl
                  cases hsr : QV.Spec.Sem.evalExpr sc r sa with
                  | none => simp [hsr] at hspec
                  | some q =>
                    obtain ⟨vb, sb⟩ := q
                    simp only [hsr, Option.map_eq_some_iff, Prod.mk.injEq] at hspec
                    obtain ⟨v', hbin, rfl, rfl⟩ := hspec
                    obtain ⟨rfl, st2, he2, hv2, hp2, hw2', ht2, _⟩ :=
                      hsound2 LL hLL st1 sa sb vb hvars (hw'.trans hw1'.symm) (by rw [hw1']; exact hnc) hsr
                    have hv1' : evalOperand ic st2.L (.const cl) = some va := by
                      rw [evalOperand_agree ic st1.L st2.L _ (.const cl) hok1 hp2]; exact hv1
                    obtain ⟨_, c2, hres2, _, hval⟩ :=
                      fold_const_binary ic st2.L wc.F wc.env s2.b op hlog cl cr hok1 hok2 _ _ hv va vb hv1' hv2
                    have hn01 : s.b.code.locals.length ≤ s1.b.code.locals.length := by
                      obtain ⟨tys, ht⟩ := hg1.locals
                      rw [ht]; simp
                    refine ⟨rfl, st2, ?_, hval v' (by rw [← hag.float]; exact hbin), ?_, hw2'.trans hw1', ht2.trans ht1,
                      fun hc => absurd rfl (hc _)⟩
                    · rw [execStatements_append, he1]; exact he2
                    · intro k hk
                      rw [hp2 k (by omega)]
                      exact hp1 k hk
              | «local» m ty =>
                have hem : emitBinaryExpression wc.env s2.b op (.const cl) (.local m ty) = .ok (x', b) := by
                  simpa [visitBinaryExpression] using hv
                exact straight_binary_emit wc sc ic hag tok op l r htok hlog s s1 s2 _ _ x' b r1 r2
                  (Or.inr (by intro c hc; cases hc)) hem
              | _ => exact absurd hok2 (by simp [OperandOk])
            | «local» m ty =>
              have hem : emitBinaryExpression wc.env s2.b op (.local m ty) right = .ok (x', b) := by
                simpa [visitBinaryExpression] using hv
              exact straight_binary_emit wc sc ic hag tok op l r htok hlog s s1 s2 _ _ x' b r1 r2
                (Or.inl (by intro c hc; cases hc)) hem
            | _ => exact absurd hok1 (by simp [OperandOk])

/-- THE STRAIGHT-LINE FRAGMENT: for every expression built from integer and bool literals, reads `o.p` of object ids,
    unary and non-logical binary operators, a successful walk from any builder state with an open current block and no
    variables in scope (i) only appends statements to that block and allocates fresh locals (`Grows`), (ii) returns a
    folded constant or one of those locals, and (iii) executing the appended statements in ANY state yields, in that
    operand, the value the reference semantics gives to the expression, leaving the locals that existed before, the
    world and the trace untouched -/
theorem walk_straight (wc : Ctx) (sc : QV.Spec.Sem.Ctx) (ic : ICtx) (hag : Agree wc sc ic) (e : Expr)
    (hs : Straight wc e) :
    ∀ s s' op, (walkRvalue wc e).run s = (some op, s') → s.locals = [] → (∃ blk, OpenAt s.b blk) →
      Result sc ic e s s' op := by
  induction hs with
  | int v => intro s s' op h hl ⟨blk, ho⟩; exact straight_int wc sc ic v s s' op h hl blk ho
  | bool v => intro s s' op h hl ⟨blk, ho⟩; exact straight_bool wc sc ic v s s' op h hl blk ho
  | read o p cls ci pinfo h1 h2 h3 h5 =>
    intro s s' op h hl ⟨blk, ho⟩
    exact straight_read wc sc ic hag o p cls ci pinfo h1 h2 h3 h5 s s' op h hl blk ho
  | unary tok a _ ih => intro s s' op h hl ho; exact straight_unary wc sc ic hag tok a ih s s' op h hl ho
  | binary tok op l r htok hlog _ _ ihl ihr =>
    intro s s' x h hl ho
    exact straight_binary wc sc ic hag tok op l r htok hlog ihl ihr s s' x h hl ho

end QV.Proofs.SemStraight
