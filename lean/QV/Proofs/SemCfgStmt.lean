/-
  QV.Props.C01 — more statement forms in the CFG-level induction over statement lists (on top of SemCfgBlock):
  assignment to a declared `let` variable (`x = e;`).  The static relation between the walk's name map, the variable
  stack of the reference semantics and the IR locals is strengthened by INJECTIVITY (different names, different locals:
  `VarInj`), which a store into one variable's local needs in order to leave the other variables related.
-/
import QV.Proofs.SemCfgBlock

namespace QV.Proofs.SemCfgStmt
open QV.Model QV.Model.IrSem QV.Proofs.SemIr QV.Proofs.SemVisit QV.Proofs.SemWalk QV.Proofs.SemStraight QV.Proofs.SemCfg QV.Proofs.SemCfgWalk QV.Proofs.SemCfgCtl QV.Proofs.SemCfgBlock
open QV.Spec.Sem (Val World Host Ev Ty STy coerceTo binop unop staticTy)
set_option linter.unusedSimpArgs false

/-! ### the walk of `x = e;` -/

/-- what a successful walk of the statement `x = e;` (x a variable in scope) consists of: the walk of `e`, then — `x`
    must be a `let` variable and the operand assignable to its local — ONE statement `local := copy operand` appended,
    and `void` recorded as the completion value of the current block -/
theorem run_assign_stmt (wc : Ctx) (x : String) (n : Nat) (k : DeclKind) (e : Expr) (s s' : WState)
    (hx : s.locals.get? x = some (n, k))
    (h : (walkStmt wc none (.expr (.assign (.ident x) e))).run s = (some (), s')) :
    ∃ v s1, (walkRvalue wc e).run s = (some v, s1) ∧ k = .let_ ∧
      ∃ a b1, visitLocalAssignment wc.env s1.b n v = .ok (a, b1) ∧
        s' = { s1 with b := visitExpressionStatement b1 a } := by
  rw [run_expr_stmt] at h
  rw [walkRvalue, walkExpr, walkExpr] at h
  simp only [run_bind, processIdentifier, run_getLocals, hx, run_pure] at h
  cases h1 : (walkRvalue wc e).run s with
  | mk r s1 =>
    rw [h1] at h
    cases r with
    | none => simp only at h; injection h with h _; cases h
    | some v =>
      simp only at h
      cases k with
      | const_ =>
        simp only at h
        have := run_err (α := Inter) "cannot assign to const variable" s1
        cases hq : (err "cannot assign to const variable" : W Inter).run s1 with
        | mk q sq =>
          rw [hq] at this h
          simp only at this
          subst this
          simp only at h; injection h with h _; cases h
      | let_ =>
        simp only [run_bind, run_getB] at h
        cases hv : visitLocalAssignment wc.env s1.b n v with
        | error er =>
          rw [hv] at h
          have := run_consume_err er s1
          cases hq : (consume (Except.error er)).run s1 with
          | mk q sq =>
            rw [hq] at this h
            simp only at this
            subst this
            simp only at h; injection h with h _; cases h
        | ok ab =>
          obtain ⟨a, b1⟩ := ab
          rw [hv] at h
          simp only [run_consume_ok, run_pure, interToRvalue] at h
          injection h with _ hs
          exact ⟨v, s1, rfl, rfl, a, b1, hv, hs.symm⟩

/-! ### builder steps -/

theorem grows_push (b : Builder) (blk : BasicBlock) (stmt : Statement) (ho : OpenAt b blk) :
    Grows b [stmt] (b.pushStatement stmt) := by
  rw [Builder.pushStatement, pushStatementAt_open b _ blk stmt ho.1 ho.2]
  exact ⟨rfl, ⟨[], by simp⟩, ⟨blk, ho.1, ho.2, rfl⟩, rfl, rfl, rfl⟩

theorem setCompletion_eq (b : Builder) (blk : BasicBlock) (v : Operand) (ho : OpenAt b blk) :
    b.setCompletionValue v =
      { b with code := { b.code with blocks := b.code.blocks.set b.currentRef { blk with completionValue := some v } } } := by
  simp only [Builder.setCompletionValue, Builder.blockHasTerminator, Builder.modifyBlock, ho.1, ho.2, Option.isSome_none,
    Bool.false_eq_true, ↓reduceIte]

/-- recording a completion value leaves the CFG, the statements and the cursor as they are -/
theorem walked_completion (b : Builder) (blk : BasicBlock) (v : Operand) (ho : OpenAt b blk) :
    Walked b (b.setCompletionValue v) ∧ (b.setCompletionValue v).currentRef = b.currentRef ∧
    curLen (b.setCompletionValue v) = curLen b ∧ (b.setCompletionValue v).code.locals = b.code.locals := by
  rw [setCompletion_eq b blk v ho]
  have hcur : ({ b with code := { b.code with
      blocks := b.code.blocks.set b.currentRef { blk with completionValue := some v } } } : Builder).currentRef = b.currentRef := by
    simp [Builder.currentRef]
  refine ⟨⟨⟨rfl, ⟨[], by simp⟩, rfl, by simp, ?_, ?_⟩, ?_, ?_, ?_⟩, hcur, ?_, rfl⟩
  · intro i hi
    show (b.code.blocks.set b.currentRef _)[i]? = _
    rw [getElem?_set_ne' _ _ _ _ (by omega)]
  · exact ⟨blk, _, ho.1, ho.2, getElem?_set_self' _ _ _ _ ho.1, [], by simp⟩
  · intro i hlo hhi; rw [hcur] at hhi; omega
  · exact ⟨_, by rw [OpenAt, hcur]; exact ⟨getElem?_set_self' _ _ _ _ ho.1, ho.2⟩⟩
  · intro i hlo hhi; rw [hcur] at hhi; omega
  · simp only [curLen, hcur, ho.1]
    show (match (b.code.blocks.set b.currentRef _)[b.currentRef]? with | some blk => _ | none => 0) = _
    rw [getElem?_set_self' _ _ _ _ ho.1]

/-! ### the reference semantics of `x = e; rest` -/

/-- a statement that completed with `void` in front of an outcome -/
def afterVoid : QV.Spec.Sem.Outcome → QV.Spec.Sem.Outcome
  | .normal w => .normal (QV.Spec.Sem.updateEmpty w (some .void))
  | .brk w => .brk (QV.Spec.Sem.updateEmpty w (some .void))
  | o => o

theorem afterVoid_outOf (isRet : Bool) (v : Val) : afterVoid (outOf isRet v) = outOf isRet v := by
  cases isRet <;> rfl

theorem spec_stmts_assign (c : QV.Spec.Sem.Ctx) (x : String) (e : Expr) (rest : List Stmt)
    (s : QV.Spec.Sem.St) (out : QV.Spec.Sem.Outcome) (s' : QV.Spec.Sem.St)
    (h : QV.Spec.Sem.execStmts c (.expr (.assign (.ident x) e) :: rest) s = some (out, s')) :
    (∃ var v s1 v', s.lookup x = some var ∧ var.const = false ∧ QV.Spec.Sem.evalExpr c e s = some (v, s1) ∧
      coerceTo var.sty.ty v = some v' ∧
      ∃ out', QV.Spec.Sem.execStmts c rest { s1 with vars := QV.Spec.Sem.assignVar x v' s1.vars } = some (out', s') ∧
        out = afterVoid out') ∨ s.lookup x = none := by
  cases hl : s.lookup x with
  | none => exact Or.inr rfl
  | some var =>
    left
    rw [QV.Spec.Sem.execStmts.eq_def] at h
    simp only at h
    rw [QV.Spec.Sem.execStmt.eq_def] at h
    simp only at h
    rw [QV.Spec.Sem.evalExpr.eq_def] at h
    simp only [hl] at h
    cases hc : var.const with
    | true => simp [hc] at h
    | false =>
      simp only [hc, Bool.false_eq_true, ↓reduceIte] at h
      cases he : QV.Spec.Sem.evalExpr c e s with
      | none => simp [he] at h
      | some p =>
        obtain ⟨v, s1⟩ := p
        simp only [he] at h
        cases hco : coerceTo var.sty.ty v with
        | none => simp [hco] at h
        | some v' =>
          simp only [hco, Option.map_some] at h
          refine ⟨var, v, s1, v', rfl, hc, rfl, hco, ?_⟩
          generalize QV.Spec.Sem.execStmts c rest _ = r at h ⊢
          cases r with
          | none => cases h
          | some q =>
            obtain ⟨o, s2⟩ := q
            cases o with
            | normal w => simp only [Option.some.injEq, Prod.mk.injEq] at h; exact ⟨.normal w, by rw [h.2], h.1.symm⟩
            | brk w => simp only [Option.some.injEq, Prod.mk.injEq] at h; exact ⟨.brk w, by rw [h.2], h.1.symm⟩
            | ret w => simp only [Option.some.injEq, Prod.mk.injEq] at h; exact ⟨.ret w, by rw [h.2], h.1.symm⟩

/-! ### `assignVar` -/

theorem shapeOf_assignVar (x : String) (v : Val) : ∀ vars : List QV.Spec.Sem.Var,
    shapeOf (QV.Spec.Sem.assignVar x v vars) = shapeOf vars
  | [] => rfl
  | a :: as => by
    simp only [QV.Spec.Sem.assignVar]
    split
    · simp [shapeOf]
    · simp only [shapeOf, List.map_cons, List.cons.injEq, true_and]
      exact shapeOf_assignVar x v as

theorem find?_assignVar_self (x : String) (v : Val) : ∀ (vars : List QV.Spec.Sem.Var) (var : QV.Spec.Sem.Var),
    vars.find? (·.name = x) = some var →
    (QV.Spec.Sem.assignVar x v vars).find? (·.name = x) = some { var with val := some v }
  | [], _, h => by simp at h
  | a :: as, var, h => by
    simp only [QV.Spec.Sem.assignVar]
    by_cases ha : a.name = x
    · simp only [List.find?_cons, ha, decide_true, Option.some.injEq] at h
      subst h
      simp [ha]
    · simp only [List.find?_cons, ha, decide_false] at h
      simp only [ha, ↓reduceIte, List.find?_cons, decide_false]
      exact find?_assignVar_self x v as var h

theorem find?_assignVar_ne (x y : String) (v : Val) (hne : y ≠ x) : ∀ vars : List QV.Spec.Sem.Var,
    (QV.Spec.Sem.assignVar x v vars).find? (·.name = y) = vars.find? (·.name = y)
  | [] => rfl
  | a :: as => by
    simp only [QV.Spec.Sem.assignVar]
    by_cases ha : a.name = x
    · have hxy : ¬ x = y := fun h => hne h.symm
      simp [ha, hxy, List.find?_cons]
    · simp only [ha, ↓reduceIte, List.find?_cons]
      by_cases hy : a.name = y
      · simp [hy]
      · simp only [hy, decide_false]
        exact find?_assignVar_ne x y v hne as

/-! ### the statement-list induction with assignments -/

/-- different names in scope are bound to different IR locals -/
def VarInj (wl : QV.Model.Locals) : Prop :=
  ∀ x y n k n' k', wl.get? x = some (n, k) → wl.get? y = some (n', k') → n = n' → x = y

theorem VarInj.nil : VarInj [] := by
  intro x y n k n' k' h
  simp [QV.Model.Locals.get?] at h

/-- statement lists `S ::= e | return e | let x = e; S | const x = e; S | x = e; S` (`x` a variable in scope), every
    expression in `CfgFrag` relative to the variables declared before it -/
inductive SFrag (wc : Ctx) : Bool → List String → List Stmt → Prop
  | expr (scope : List String) (e : Expr) : CfgFrag wc scope e → SFrag wc false scope [.expr e]
  | ret (scope : List String) (e : Expr) : CfgFrag wc scope e → SFrag wc true scope [.return_ (some e)]
  | decl (isRet : Bool) (scope : List String) (kind : DeclKind) (x : String) (e : Expr) (rest : List Stmt) :
      CfgFrag wc scope e → SFrag wc isRet (x :: scope) rest →
      SFrag wc isRet scope (.lexical kind [{ name := x, ty := none, value := some e }] :: rest)
  | assign (isRet : Bool) (scope : List String) (x : String) (e : Expr) (rest : List Stmt) :
      x ∈ scope → CfgFrag wc scope e → SFrag wc isRet scope rest →
      SFrag wc isRet scope (.expr (.assign (.ident x) e) :: rest)

theorem blockFrag_sFrag {wc : Ctx} {isRet : Bool} {scope : List String} {stmts : List Stmt}
    (h : BlockFrag wc isRet scope stmts) : SFrag wc isRet scope stmts := by
  induction h with
  | expr scope e he => exact .expr scope e he
  | ret scope e he => exact .ret scope e he
  | decl isRet scope kind x e rest he _ ih => exact .decl isRet scope kind x e rest he ih

/-- `BlockOk` with the injectivity of the name map as an additional invariant -/
def SOk (wc : Ctx) (sc : QV.Spec.Sem.Ctx) (ic : ICtx) (isRet : Bool) (wl : QV.Model.Locals)
    (vars : List QV.Spec.Sem.Var) (stmts : List Stmt) : Prop :=
  ∀ s s', (walkStmts wc none stmts).run s = (some true, s') → s.locals = wl → VarRel s.b.code.locals wl vars →
    VarInj wl → (∃ blk, OpenAt s.b blk) →
    ∃ (s1 : WState) (op : Operand), s'.b = finish isRet s1.b op ∧ Walked s.b s1.b ∧ OperandOk s1.b.code.locals.length op ∧
      ∀ C, Covers C s1.b s.b.currentRef →
      ∀ (st : State) (sst : QV.Spec.Sem.St) (out : QV.Spec.Sem.Outcome) (sst' : QV.Spec.Sem.St),
        shapeOf sst.vars = shapeOf vars → sst.w = st.w → (∀ x q u, st.w.prop x q = some u → isCint u = false) →
        ValRel wl sst.vars st.L →
        QV.Spec.Sem.execStmts sc stmts sst = some (out, sst') →
        ∃ v, out = outOf isRet v ∧ ∃ d st', d ≤ s1.b.currentRef - s.b.currentRef ∧
          (∀ fuel, runAt ic C (fuel + d) s.b.currentRef (curLen s.b) st =
            runAt ic C fuel s1.b.currentRef (curLen s1.b) st') ∧
          evalOperand ic st'.L op = some v

theorem sOk_of_blockOk {wc : Ctx} {sc : QV.Spec.Sem.Ctx} {ic : ICtx} {isRet : Bool} {wl : QV.Model.Locals}
    {vars : List QV.Spec.Sem.Var} {stmts : List Stmt} (h : BlockOk wc sc ic isRet wl vars stmts) :
    SOk wc sc ic isRet wl vars stmts :=
  fun s s' hr hl hvr _ ho => h s s' hr hl hvr ho

/-- `x = e; rest` inside the induction over statement lists: the walk of `e`, one store into the variable's local
    (converted to its type — the conversion the reference semantics applies: `VarRel`), `void` as completion value;
    the other variables stay related because different names have different locals (`VarInj`) -/
theorem s_assign (wc : Ctx) (sc : QV.Spec.Sem.Ctx) (ic : ICtx) (isRet : Bool) (wl : QV.Model.Locals)
    (vars : List QV.Spec.Sem.Var) (x : String) (n : Nat) (k : DeclKind) (e : Expr) (rest : List Stmt)
    (hx : wl.get? x = some (n, k)) (he : WalkOk wc sc ic wl vars e) (hrest : SOk wc sc ic isRet wl vars rest) :
    SOk wc sc ic isRet wl vars (.expr (.assign (.ident x) e) :: rest) := by
  intro s s' h hl hvr hinj ho
  rw [run_stmts_cons] at h
  cases hd : (walkStmt wc none (.expr (.assign (.ident x) e))).run s with
  | mk r sd =>
    rw [hd] at h
    cases r with
    | none =>
      simp only at h
      cases hq : (walkStmts wc none rest).run sd with
      | mk q sq =>
        rw [hq] at h
        cases q <;> (simp only at h; injection h with h _; cases h)
    | some u =>
      cases u
      simp only at h
      obtain ⟨v, s1, hw, _, a, b1, hvis, hsd⟩ := run_assign_stmt wc x n k e s sd (by rw [hl]; exact hx) hd
      have r1 := he s s1 v hw hl hvr ho
      obtain ⟨blk1, ho1⟩ := r1.walked.exitOpen
      have w1 : Walked s.b s1.b := r1.walked
      obtain ⟨var0, ty, hfind0, hty0, htynv, _, hsty0⟩ := hvr.some x n k hx
      have hn : n < s.b.code.locals.length := lt_of_getElem? hty0
      have hty1 : s1.b.code.locals[n]? = some ty := by
        obtain ⟨tys, ht⟩ := w1.locals
        rw [ht]; exact prefix_getElem? (List.prefix_append _ _) n ty hty0
      -- the builder after the store
      simp only [visitLocalAssignment, hty1] at hvis
      split at hvis
      · cases hvis
      · injection hvis with hvis
        injection hvis with ha hb1
        subst ha hb1
        have hg := grows_push s1.b blk1 (.assign n (.copy (ensureConcreteString v))) ho1
        obtain ⟨blk1', ho1'⟩ := hg.open
        have wp : Walked s1.b (s1.b.pushStatement (.assign n (.copy (ensureConcreteString v)))) := Walked.of_grows hg
        obtain ⟨wc', hcur', hlen', hloc'⟩ :=
          walked_completion (s1.b.pushStatement (.assign n (.copy (ensureConcreteString v)))) blk1' .void ho1'
        have hsdb : sd.b = (s1.b.pushStatement (.assign n (.copy (ensureConcreteString v)))).setCompletionValue .void := by
          rw [hsd]; rfl
        rw [← hsdb] at wc' hcur' hlen' hloc'
        have hsdl : sd.locals = wl := by rw [hsd]; exact r1.locals
        have hvr' : VarRel sd.b.code.locals wl vars := ((hvr.mono w1.locals).mono wp.locals).mono wc'.locals
        obtain ⟨s2, op2, hfin, w2, hok2, hsim2⟩ := hrest sd s' h hsdl hvr' hinj wc'.exitOpen
        refine ⟨s2, op2, hfin, ((w1.trans wp).trans wc').trans w2, hok2, ?_⟩
        intro C hC st sst out sst' hvars hw' hnc hval hsp
        obtain ⟨varx, valx, hfx, _, _, _⟩ := hval x n k hx
        rcases spec_stmts_assign sc x e rest sst out sst' hsp with
          ⟨var, v0, sA, v', hlook, _, hev, hco, out', hrs, hout⟩ | hnone
        · have hCd : Covers C sd.b s.b.currentRef := Covers.of_ext w2.toExt hC ((w1.trans wp).trans wc').cur_le
          have hCp : Covers C (s1.b.pushStatement (.assign n (.copy (ensureConcreteString v)))) s.b.currentRef :=
            Covers.of_ext wc'.toExt hCd (w1.trans wp).cur_le
          have hC1 : Covers C s1.b s.b.currentRef := Covers.of_ext wp.toExt hCp w1.cur_le
          obtain ⟨hsA, d1, st1, hd1, hrun1, hv1, hp1, hw1', ht1, _⟩ := r1.sim C hC1 st sst sA v0 hvars hw' hnc hval hev
          subst hsA
          -- the type of the variable
          obtain ⟨var', hf', hsty', _⟩ := find?_some_of_shape hvars x var0 hfind0
          have hvv : var = var' := by
            simp only [QV.Spec.Sem.St.lookup] at hlook
            rw [hf'] at hlook; injection hlook with hlook; exact hlook.symm
          subst hvv
          rw [hsty', hsty0] at hco
          have hLLn : C.locals[n]? = some ty := prefix_getElem? hC1.locals n ty hty1
          have hex : execStatements ic C.locals [.assign n (.copy (ensureConcreteString v))] st1 =
              some { st1 with L := upd st1.L n v' } := by
            simp [execStatements, execStatement, evalRvalue, evalOperand_ensure, hv1, hLLn, hco]
          have hstep : ∀ fuel, runAt ic C fuel s1.b.currentRef (curLen s1.b) st1 =
              runAt ic C fuel sd.b.currentRef (curLen sd.b) { st1 with L := upd st1.L n v' } := by
            intro fuel
            rw [hcur', hlen']
            exact runAt_emit ic C s1.b _ blk1 _ _ ho1 hg hCp st1 _ hex fuel
          have hval' : ValRel wl (QV.Spec.Sem.assignVar x v' sA.vars) (upd st1.L n v') := by
            intro y ny ky hy
            by_cases hyx : y = x
            · subst hyx
              rw [hx] at hy
              injection hy with hy
              injection hy with h1 h2
              subst h1
              exact ⟨{ var with val := some v' }, v', find?_assignVar_self y v' _ var hf', rfl, upd_same _ _ _,
                coerceTo_not_cint hco⟩
            · obtain ⟨vy, valy, g1, g2, g3, g4⟩ := hval y ny ky hy
              obtain ⟨_, tyy, _, htyy, _⟩ := hvr.some y ny ky hy
              have hny : ny < s.b.code.locals.length := lt_of_getElem? htyy
              have hne : ny ≠ n := fun hc => hyx (hinj y x ny ky n k hy hx hc)
              refine ⟨vy, valy, by rw [find?_assignVar_ne x y v' hyx]; exact g1, g2, ?_, g4⟩
              rw [upd_other _ _ _ _ hne, hp1 ny hny]
              exact g3
          obtain ⟨val, hout', d2, st2, hd2, hrun2, hv2⟩ := hsim2 C (hC.mono ((w1.trans wp).trans wc').cur_le)
            { st1 with L := upd st1.L n v' } { sA with vars := QV.Spec.Sem.assignVar x v' sA.vars } out' sst'
            (by show shapeOf (QV.Spec.Sem.assignVar x v' sA.vars) = _; rw [shapeOf_assignVar]; exact hvars)
            (hw'.trans hw1'.symm) (by show ∀ x q u, st1.w.prop x q = some u → _; rw [hw1']; exact hnc) hval' hrs
          have hc01 := w1.cur_le
          have hcp := wp.cur_le
          have hc2 := w2.cur_le
          have hcpe : (s1.b.pushStatement (.assign n (.copy (ensureConcreteString v)))).currentRef = s1.b.currentRef :=
            hg.currentRef
          refine ⟨val, by rw [hout, hout', afterVoid_outOf], d1 + d2, st2, by omega, ?_, hv2⟩
          intro fuel
          have : fuel + (d1 + d2) = (fuel + d2) + d1 := by omega
          rw [this, hrun1, hstep, hrun2]
        · simp only [QV.Spec.Sem.St.lookup] at hnone
          rw [hfx] at hnone
          cases hnone

theorem s_decl (wc : Ctx) (sc : QV.Spec.Sem.Ctx) (ic : ICtx) (isRet : Bool) (wl : QV.Model.Locals)
    (vars : List QV.Spec.Sem.Var) (kind : DeclKind) (x : String) (e : Expr) (rest : List Stmt)
    (he : WalkOk wc sc ic wl vars e)
    (hse : ∀ vars', shapeOf vars' = shapeOf vars → staticTy sc vars' e = staticTy sc vars e)
    (hrest : ∀ (n : Nat) (sty : STy), SOk wc sc ic isRet (wl.insert x (n, kind))
      ({ name := x, sty := sty, const := kind = .const_, val := none } :: vars) rest) :
    SOk wc sc ic isRet wl vars (.lexical kind [{ name := x, ty := none, value := some e }] :: rest) := by
  intro s s' h hl hvr hinj ho
  rw [run_stmts_cons] at h
  cases hd : (walkStmt wc none (.lexical kind [{ name := x, ty := none, value := some e }])).run s with
  | mk r sd =>
    rw [hd] at h
    cases r with
    | none =>
      simp only at h
      cases hq : (walkStmts wc none rest).run sd with
      | mk q sq =>
        rw [hq] at h
        cases q <;> (simp only at h; injection h with h _; cases h)
    | some u =>
      cases u
      simp only at h
      obtain ⟨v, s1, ty, hw, htc, htynv, hb, hloc⟩ := run_let wc kind x e s sd hd
      have r1 := he s s1 v hw hl hvr ho
      obtain ⟨tx, hstx, htyx⟩ := r1.ty
      obtain ⟨blk1, ho1⟩ := r1.walked.exitOpen
      have w1 : Walked s.b s1.b := r1.walked
      obtain ⟨hop, hg, hloc3⟩ := grows_emit s1.b blk1 ty (.copy (ensureConcreteString v)) htynv ho1
      rw [decl_builder s1.b ty _ htynv] at hb
      rw [← hb] at hg hloc3
      have wd : Walked s1.b sd.b := Walked.of_grows hg
      have hcurd : sd.b.currentRef = s1.b.currentRef := hg.currentRef
      have hkty := decl_type v tx ty htyx htc
      rw [r1.locals] at hloc
      -- the variable relation with `x` added
      have hn01 := w1.locals_le
      have hvr' : VarRel sd.b.code.locals (wl.insert x (s1.b.code.locals.length, kind))
          ({ name := x, sty := tx.concrete, const := kind = .const_, val := none } :: vars) := by
        refine ⟨?_, ?_⟩
        · intro name hnone
          have hne : name ≠ x := by
            intro hc; subst hc; rw [get?_insert_self] at hnone; cases hnone
          rw [get?_insert_ne _ _ _ _ hne] at hnone
          simp only [List.find?_cons, Ne.symm hne, decide_false]
          exact hvr.none name hnone
        · intro name n k hsome
          by_cases hne : name = x
          · subst hne
            rw [get?_insert_self] at hsome
            injection hsome with hsome
            injection hsome with h1 h2
            subst h1 h2
            exact ⟨{ name := name, sty := tx.concrete, const := kind = .const_, val := none }, ty, by simp,
              by rw [hloc3]; simp, htynv, rfl, hkty⟩
          · rw [get?_insert_ne _ _ _ _ hne] at hsome
            obtain ⟨var, ty', h1, h2, h3⟩ := ((hvr.mono w1.locals).mono wd.locals).some name n k hsome
            exact ⟨var, ty', by simp only [List.find?_cons, Ne.symm hne, decide_false]; exact h1, h2, h3⟩
      have hinj' : VarInj (wl.insert x (s1.b.code.locals.length, kind)) := by
        intro y z ny ky nz kz hy hz hnn
        by_cases hyx : y = x
        · by_cases hzx : z = x
          · rw [hyx, hzx]
          · rw [hyx, get?_insert_self] at hy
            rw [get?_insert_ne _ _ _ _ hzx] at hz
            obtain ⟨_, tz, _, htz, _⟩ := hvr.some z nz kz hz
            have := lt_of_getElem? htz
            injection hy with hy; injection hy with hy _
            omega
        · by_cases hzx : z = x
          · rw [hzx, get?_insert_self] at hz
            rw [get?_insert_ne _ _ _ _ hyx] at hy
            obtain ⟨_, tz, _, htz, _⟩ := hvr.some y ny ky hy
            have := lt_of_getElem? htz
            injection hz with hz; injection hz with hz _
            omega
          · rw [get?_insert_ne _ _ _ _ hyx] at hy
            rw [get?_insert_ne _ _ _ _ hzx] at hz
            exact hinj y z ny ky nz kz hy hz hnn
      obtain ⟨s2, op2, hfin, w2, hok2, hsim2⟩ :=
        hrest s1.b.code.locals.length tx.concrete sd s' h hloc hvr' hinj' hg.open
      refine ⟨s2, op2, hfin, (w1.trans wd).trans w2, hok2, ?_⟩
      intro C hC st sst out sst' hvars hw' hnc hval hsp
      obtain ⟨v0, sA, tA, v', hev, hstA, hco, hrs⟩ := spec_stmts_let sc kind x e rest sst out sst' hsp
      have hCd : Covers C sd.b s.b.currentRef := Covers.of_ext w2.toExt hC (w1.trans wd).cur_le
      have hC1 : Covers C s1.b s.b.currentRef := Covers.of_ext wd.toExt hCd w1.cur_le
      obtain ⟨hsA, d1, st1, hd1, hrun1, hv1, hp1, hw1', ht1, _⟩ := r1.sim C hC1 st sst sA v0 hvars hw' hnc hval hev
      subst hsA
      rw [hse _ hvars, hstx] at hstA
      injection hstA with hstA
      subst hstA
      rw [hkty] at hco
      have hLLn : C.locals[s1.b.code.locals.length]? = some ty :=
        prefix_getElem? hCd.locals _ _ (by rw [hloc3]; simp)
      have hex : execStatements ic C.locals
          [.assign s1.b.code.locals.length (.copy (ensureConcreteString v))] st1 =
          some { st1 with L := upd st1.L s1.b.code.locals.length v' } := by
        simp [execStatements, execStatement, evalRvalue, evalOperand_ensure, hv1, hLLn, hco]
      have hstep : ∀ fuel, runAt ic C fuel s1.b.currentRef (curLen s1.b) st1 =
          runAt ic C fuel sd.b.currentRef (curLen sd.b) { st1 with L := upd st1.L s1.b.code.locals.length v' } :=
        fun fuel => runAt_emit ic C s1.b sd.b blk1 _ _ ho1 hg hCd st1 _ hex fuel
      have hval' : ValRel (wl.insert x (s1.b.code.locals.length, kind))
          ({ name := x, sty := tx.concrete, const := kind = .const_, val := some v' } :: sA.vars)
          (upd st1.L s1.b.code.locals.length v') := by
        intro name n k hsome
        by_cases hne : name = x
        · subst hne
          rw [get?_insert_self] at hsome
          injection hsome with hsome
          injection hsome with h1 h2
          subst h1 h2
          exact ⟨{ name := name, sty := tx.concrete, const := kind = .const_, val := some v' }, v', by simp, rfl,
            upd_same _ _ _, coerceTo_not_cint hco⟩
        · rw [get?_insert_ne _ _ _ _ hne] at hsome
          obtain ⟨_, ty', _, hty', _⟩ := hvr.some name n k hsome
          have hn : n < s.b.code.locals.length := lt_of_getElem? hty'
          obtain ⟨var, val, h1, h2, h3, h4⟩ := hval name n k hsome
          refine ⟨var, val, by simp only [List.find?_cons, Ne.symm hne, decide_false]; exact h1, h2, ?_, h4⟩
          rw [upd_other _ _ _ _ (by omega), hp1 n hn]
          exact h3
      obtain ⟨val, hout, d2, st2, hd2, hrun2, hv2⟩ := hsim2 C (hC.mono (w1.trans wd).cur_le)
        { st1 with L := upd st1.L s1.b.code.locals.length v' }
        { sA with vars := { name := x, sty := tx.concrete, const := kind = .const_, val := some v' } :: sA.vars } out sst'
        (by simp only [shapeOf, List.map_cons] at hvars ⊢; rw [hvars])
        (hw'.trans hw1'.symm) (by show ∀ x q u, st1.w.prop x q = some u → _; rw [hw1']; exact hnc) hval' hrs
      have hc01 := w1.cur_le
      have hc2 := w2.cur_le
      refine ⟨val, hout, d1 + d2, st2, by omega, ?_, hv2⟩
      intro fuel
      have : fuel + (d1 + d2) = (fuel + d2) + d1 := by omega
      rw [this, hrun1, hstep, hrun2]

/-- THE INDUCTION over the statement lists with assignments -/
theorem walk_s (wc : Ctx) (sc : QV.Spec.Sem.Ctx) (ic : ICtx) (hag : Agree wc sc ic) (isRet : Bool)
    (scope : List String) (stmts : List Stmt) (hf : SFrag wc isRet scope stmts) :
    ∀ (wl : QV.Model.Locals) (vars : List QV.Spec.Sem.Var), ScopeOf scope wl → SOk wc sc ic isRet wl vars stmts := by
  induction hf with
  | expr scope e he =>
    intro wl vars hsc
    exact sOk_of_blockOk (block_final wc sc ic false wl vars e _ (walk_cfg wc sc ic hag scope wl vars hsc e he)
      (fun s => run_expr_stmt wc e s) (fun s => spec_stmts_expr sc e s))
  | ret scope e he =>
    intro wl vars hsc
    exact sOk_of_blockOk (block_final wc sc ic true wl vars e _ (walk_cfg wc sc ic hag scope wl vars hsc e he)
      (fun s => run_return wc e s) (fun s => spec_stmts_ret sc e s))
  | decl isRet scope kind x e rest he _ ih =>
    intro wl vars hsc
    exact s_decl wc sc ic isRet wl vars kind x e rest (walk_cfg wc sc ic hag scope wl vars hsc e he)
      (fun vars' h => sty_shape wc sc scope vars vars' h e he)
      (fun n sty => ih _ _ (scopeOf_insert hsc x (n, kind)))
  | assign isRet scope x e rest hx he _ ih =>
    intro wl vars hsc
    have := (hsc x).mp hx
    cases hg : wl.get? x with
    | none => rw [hg] at this; cases this
    | some nk =>
      exact s_assign wc sc ic isRet wl vars x nk.1 nk.2 e rest hg (walk_cfg wc sc ic hag scope wl vars hsc e he)
        (ih wl vars hsc)

end QV.Proofs.SemCfgStmt
