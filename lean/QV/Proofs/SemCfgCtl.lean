/-
  QV.Props.C01 — the control-flow cases of the CFG-level induction over the AST walk: `&&` / `||` (this file, first
  part) and the ternary (second part).  Each case takes what the walks of the sub-expressions achieved (`CResult`) and
  shows the same for the compound expression: the blocks the walk closes, the sink it allocates, and — over any final
  code that covers the builder — that execution from the entry position reaches the exit position with the reference
  value in the result operand.
-/
import QV.Proofs.SemCfgWalk

namespace QV.Proofs.SemCfgCtl
open QV.Model QV.Model.IrSem QV.Proofs.SemIr QV.Proofs.SemVisit QV.Proofs.SemWalk QV.Proofs.SemStraight QV.Proofs.SemCfg QV.Proofs.SemCfgWalk
open QV.Spec.Sem (Val World Host Ev Ty STy coerceTo binop unop staticTy)
set_option linter.unusedSimpArgs false

theorem run_mark (s : WState) : markBranchPoint.run s = (some s.b.currentRef, { s with b := s.b.newBlock.2 }) := rfl

theorem run_check_ok (x : Operand) (s : WState) (h : x.typeDesc = .bool) : (checkConditionType x).run s = (some (), s) := by
  simp only [checkConditionType, h, ↓reduceIte]; rfl

theorem run_check_err (x : Operand) (s : WState) (h : x.typeDesc ≠ .bool) : ((checkConditionType x).run s).1 = none := by
  simp only [checkConditionType, h, ↓reduceIte]; rfl

/-- what a successful walk of `l && r` / `l || r` consists of -/
theorem run_logical (wc : Ctx) (tok : BinaryToken) (lop : LogicOp) (l r : Expr) (s s' : WState) (x : Operand)
    (htok : tok.toOp = some (.logical lop))
    (h : (walkRvalue wc (.binary tok l r)).run s = (some x, s')) :
    ∃ left s1 right s2, (walkRvalue wc l).run s = (some left, s1) ∧
      (walkRvalue wc r).run { s1 with b := s1.b.newBlock.2 } = (some right, s2) ∧
      left.typeDesc = .bool ∧ right.typeDesc = .bool ∧
      x = (visitBinaryLogicalExpression s2.b.newBlock.2 lop left s1.b.currentRef right s2.b.currentRef).1 ∧
      s' = { s2 with b := (visitBinaryLogicalExpression s2.b.newBlock.2 lop left s1.b.currentRef right s2.b.currentRef).2 } := by
  rw [walkRvalue, walkExpr] at h
  simp only [htok, run_bind] at h
  cases h1 : (walkRvalue wc l).run s with
  | mk r1 s1 =>
    rw [h1] at h
    cases r1 with
    | none => simp only at h; injection h with h _; cases h
    | some left =>
      simp only [run_mark, run_bind] at h
      cases h2 : (walkRvalue wc r).run { s1 with b := s1.b.newBlock.2 } with
      | mk r2 s2 =>
        rw [h2] at h
        cases r2 with
        | none => simp only at h; injection h with h _; cases h
        | some right =>
          simp only [run_mark, run_bind] at h
          by_cases hl : left.typeDesc = .bool
          · rw [run_check_ok _ _ hl] at h
            simp only [run_bind] at h
            by_cases hr : right.typeDesc = .bool
            · rw [run_check_ok _ _ hr] at h
              simp only [run_bind, run_getB, run_setB, run_pure, interToRvalue] at h
              injection h with hx hs
              injection hx with hx
              exact ⟨left, s1, right, s2, rfl, h2, hl, hr, hx.symm, hs.symm⟩
            · have := run_check_err right { s2 with b := s2.b.newBlock.2 } hr
              cases hc : (checkConditionType right).run { s2 with b := s2.b.newBlock.2 } with
              | mk q sq =>
                rw [hc] at this h
                simp only at this
                subst this
                simp only at h; injection h with h _; cases h
          · have := run_check_err left { s2 with b := s2.b.newBlock.2 } hl
            cases hc : (checkConditionType left).run { s2 with b := s2.b.newBlock.2 } with
            | mk q sq =>
              rw [hc] at this h
              simp only at this
              subst this
              simp only at h; injection h with h _; cases h

/-! ### new blocks -/

theorem open_len {b : Builder} {blk : BasicBlock} (ho : OpenAt b blk) : b.currentRef + 1 = b.code.blocks.length := by
  have h := ho.1
  have hlt : b.currentRef < b.code.blocks.length := by
    rcases Nat.lt_or_ge b.currentRef b.code.blocks.length with h' | h'
    · exact h'
    · simp [List.getElem?_eq_none h'] at h
  simp only [Builder.currentRef] at hlt ⊢
  omega

theorem newBlock_cur {b : Builder} {blk : BasicBlock} (ho : OpenAt b blk) : b.newBlock.2.currentRef = b.currentRef + 1 := by
  have := open_len ho
  simp only [Builder.newBlock, Builder.currentRef, List.length_append, List.length_singleton] at this ⊢
  omega

theorem newBlock_get (b : Builder) (i : Nat) (hi : i < b.code.blocks.length) :
    b.newBlock.2.code.blocks[i]? = b.code.blocks[i]? := by
  simp [Builder.newBlock, List.getElem?_append_left hi]

theorem newBlock_last (b : Builder) : b.newBlock.2.code.blocks[b.code.blocks.length]? = some {} := by
  simp [Builder.newBlock]

theorem newBlock_open {b : Builder} {blk : BasicBlock} (ho : OpenAt b blk) : OpenAt b.newBlock.2 {} := by
  refine ⟨?_, rfl⟩
  rw [newBlock_cur ho, open_len ho]
  exact newBlock_last b

theorem newBlock_ext {b : Builder} {blk : BasicBlock} (ho : OpenAt b blk) : Ext b b.newBlock.2 :=
  ⟨rfl, ⟨[], by simp [Builder.newBlock]⟩, rfl, by simp [Builder.newBlock], fun i hi => newBlock_get b i (by have := open_len ho; omega),
    blk, blk, ho.1, ho.2, by rw [newBlock_get b _ (by have := open_len ho; omega)]; exact ho.1, [], by simp⟩

/-! ### blocks that end in a store -/

theorem runAt_store_br (ic : ICtx) (C : CodeBody) (fuel i k j n : Nat) (src : Operand) (ty : TypeKind) (bC : BasicBlock)
    (hb : C.blocks[i]? = some bC) (hs : bC.statements.drop k = [.assign n (.copy src)])
    (ht : bC.terminator = some (.br j)) (hn : C.locals[n]? = some ty) (st : State) (v v' : Val)
    (hv : evalOperand ic st.L src = some v) (hc : coerceTo (styOf ty).ty v = some v') :
    runAt ic C (fuel + 1) i k st = runAt ic C fuel j 0 { st with L := upd st.L n v' } := by
  have he : execStatements ic C.locals [.assign n (.copy src)] st = some { st with L := upd st.L n v' } := by
    simp [execStatements, execStatement, evalRvalue, hv, hn, hc]
  rw [runAt_stmts ic C (fuel + 1) i k bC [.assign n (.copy src)] st _ hb ⟨[], by simpa using hs⟩ he]
  have hlen : bC.statements.length ≤ k + 1 := by
    have := congrArg List.length hs
    simp only [List.length_drop, List.length_singleton] at this
    omega
  exact runAt_br ic C fuel i _ j bC _ hb hlen ht

theorem runAt_store_brCond (ic : ICtx) (C : CodeBody) (fuel i k t f n : Nat) (src cnd : Operand) (ty : TypeKind)
    (bC : BasicBlock) (hb : C.blocks[i]? = some bC) (hs : bC.statements.drop k = [.assign n (.copy src)])
    (ht : bC.terminator = some (.brCond cnd t f)) (hn : C.locals[n]? = some ty) (st : State) (v v' : Val) (x : Bool)
    (hv : evalOperand ic st.L src = some v) (hc : coerceTo (styOf ty).ty v = some v')
    (hx : evalOperand ic (upd st.L n v') cnd = some (.bool x)) :
    runAt ic C (fuel + 1) i k st = runAt ic C fuel (if x then t else f) 0 { st with L := upd st.L n v' } := by
  have he : execStatements ic C.locals [.assign n (.copy src)] st = some { st with L := upd st.L n v' } := by
    simp [execStatements, execStatement, evalRvalue, hv, hn, hc]
  rw [runAt_stmts ic C (fuel + 1) i k bC [.assign n (.copy src)] st _ hb ⟨[], by simpa using hs⟩ he]
  have hlen : bC.statements.length ≤ k + 1 := by
    have := congrArg List.length hs
    simp only [List.length_drop, List.length_singleton] at this
    omega
  exact runAt_brCond ic C fuel i _ t f bC cnd _ x hb hlen ht hx

/-- a final code covering `b2` covers an earlier builder `b1` whose current block is below `b2`'s, provided `b2` kept
    `b1`'s blocks from `lo` on and only appended statements to `b1`'s current block -/
theorem Covers.sub {C : CodeBody} {b1 b2 : Builder} {lo : Nat} (h : Covers C b2 lo) (hlo : lo ≤ b1.currentRef)
    (hlt : b1.currentRef < b2.currentRef) (hloc : b1.code.locals <+: b2.code.locals)
    (hbelow : ∀ i, lo ≤ i → i < b1.currentRef → b2.code.blocks[i]? = b1.code.blocks[i]?)
    (hentry : ∃ blk blk', b1.code.blocks[b1.currentRef]? = some blk ∧ b2.code.blocks[b1.currentRef]? = some blk' ∧
      blk.statements <+: blk'.statements) : Covers C b1 lo := by
  obtain ⟨blk, blk', h1, h2, hp⟩ := hentry
  refine ⟨hloc.trans h.locals, ?_, blk, blk', h1, ?_, hp⟩
  · intro i hi1 hi2
    rw [h.closed i hi1 (Nat.lt_trans hi2 hlt), hbelow i hi1 hi2]
  · rw [h.closed _ hlo hlt]; exact h2

/-! ### `&&` / `||` -/

/-- the value that decides `&&` / `||` without the right operand; also the initial value of the sink -/
def logicInit : LogicOp → Bool
  | .and => false
  | .or => true

theorem spec_logical (c : QV.Spec.Sem.Ctx) (tok : BinaryToken) (lop : LogicOp) (l r : Expr) (s s' : QV.Spec.Sem.St) (v : Val)
    (htok : tok.toOp = some (.logical lop))
    (h : QV.Spec.Sem.evalExpr c (.binary tok l r) s = some (v, s')) :
    ∃ xl s1, QV.Spec.Sem.evalExpr c l s = some (.bool xl, s1) ∧
      ((xl = logicInit lop ∧ v = .bool xl ∧ s' = s1) ∨
       (xl ≠ logicInit lop ∧ ∃ xr, QV.Spec.Sem.evalExpr c r s1 = some (.bool xr, s') ∧ v = .bool xr)) := by
  rw [QV.Spec.Sem.evalExpr.eq_def] at h
  simp only [htok] at h
  cases lop with
  | and =>
    simp only at h
    split at h
    · rename_i s1 h1
      injection h with h; injection h with hv hs
      exact ⟨false, s1, h1, Or.inl ⟨rfl, hv.symm, hs.symm⟩⟩
    · rename_i s1 h1
      split at h
      · rename_i xr s2 h2
        injection h with h; injection h with hv hs
        subst hs
        exact ⟨true, s1, h1, Or.inr ⟨by simp [logicInit], xr, h2, hv.symm⟩⟩
      · cases h
    · cases h
  | or =>
    simp only at h
    split at h
    · rename_i s1 h1
      injection h with h; injection h with hv hs
      exact ⟨true, s1, h1, Or.inl ⟨rfl, hv.symm, hs.symm⟩⟩
    · rename_i s1 h1
      split at h
      · rename_i xr s2 h2
        injection h with h; injection h with hv hs
        subst hs
        exact ⟨false, s1, h1, Or.inr ⟨by simp [logicInit], xr, h2, hv.symm⟩⟩
      · cases h
    · cases h

theorem visitLogical_facts (b : Builder) (op : LogicOp) (left right : Operand) (lRef rRef : Nat) (bl br_ : BasicBlock)
    (hl : b.code.blocks[lRef]? = some bl) (hlt : bl.terminator = none)
    (hr : b.code.blocks[rRef]? = some br_) (hrt : br_.terminator = none) (hne : lRef ≠ rRef)
    (htl : left.typeDesc = .bool) (htr : right.typeDesc = .bool) :
    (visitBinaryLogicalExpression b op left lRef right rRef).1 = .local b.code.locals.length .bool ∧
    (visitBinaryLogicalExpression b op left lRef right rRef).2.panic = b.panic ∧
    (visitBinaryLogicalExpression b op left lRef right rRef).2.code.parameterCount = b.code.parameterCount ∧
    (visitBinaryLogicalExpression b op left lRef right rRef).2.code.locals = b.code.locals ++ [.bool] ∧
    (visitBinaryLogicalExpression b op left lRef right rRef).2.code.blocks.length = b.code.blocks.length ∧
    (∀ i, i ≠ lRef → i ≠ rRef →
      (visitBinaryLogicalExpression b op left lRef right rRef).2.code.blocks[i]? = b.code.blocks[i]?) ∧
    (visitBinaryLogicalExpression b op left lRef right rRef).2.code.blocks[lRef]? = some
      { bl with
        statements := bl.statements ++ [.assign b.code.locals.length (.copy (.const (.bool (logicInit op))))],
        terminator := some (.brCond left (if logicInit op then rRef + 1 else lRef + 1)
          (if logicInit op then lRef + 1 else rRef + 1)) } ∧
    (visitBinaryLogicalExpression b op left lRef right rRef).2.code.blocks[rRef]? = some
      { br_ with statements := br_.statements ++ [.assign b.code.locals.length (.copy right)],
                 terminator := some (.br (rRef + 1)) } := by
  rw [visitLogical_shape b op left right lRef rRef bl br_ hl hlt hr hrt hne htl htr]
  have hlt' : lRef < b.code.blocks.length := by
    rcases Nat.lt_or_ge lRef b.code.blocks.length with h' | h'
    · exact h'
    · simp [List.getElem?_eq_none h'] at hl
  have hrt' : rRef < b.code.blocks.length := by
    rcases Nat.lt_or_ge rRef b.code.blocks.length with h' | h'
    · exact h'
    · simp [List.getElem?_eq_none h'] at hr
  refine ⟨rfl, rfl, rfl, rfl, by simp, ?_, ?_, ?_⟩
  · intro i h1 h2
    simp only
    rw [getElem?_set_ne' _ _ _ _ (Ne.symm h2), getElem?_set_ne' _ _ _ _ (Ne.symm h1)]
  · simp only
    rw [getElem?_set_ne' _ _ _ _ (Ne.symm hne), getElem?_set_self' _ _ _ _ hl]
    cases op <;> rfl
  · simp only
    exact getElem?_set_self' _ _ _ br_ (by rw [getElem?_set_ne' _ _ _ _ hne]; exact hr)

theorem cfg_logical (wc : Ctx) (sc : QV.Spec.Sem.Ctx) (ic : ICtx) (wl : QV.Model.Locals) (vars : List QV.Spec.Sem.Var)
    (tok : BinaryToken) (lop : LogicOp) (l r : Expr) (htok : tok.toOp = some (.logical lop))
    (ihl : WalkOk wc sc ic wl vars l) (ihr : WalkOk wc sc ic wl vars r) : WalkOk wc sc ic wl vars (.binary tok l r) := by
  intro s s' x h hl hvr ho
  obtain ⟨left, s1, right, s2, hw1, hw2, htl, htr, hx, hs'⟩ := run_logical wc tok lop l r s s' x htok h
  have r1 := ihl s s1 left hw1 hl hvr ho
  obtain ⟨blkL, hoL⟩ := r1.walked.exitOpen
  have r2 := ihr { s1 with b := s1.b.newBlock.2 } s2 right hw2 r1.locals (hvr.mono r1.walked.locals)
    ⟨{}, newBlock_open hoL⟩
  have w1 : Walked s.b s1.b := r1.walked
  have w2 : Walked s1.b.newBlock.2 s2.b := r2.walked
  obtain ⟨blkR, hoR⟩ := w2.exitOpen
  have hcm : s1.b.newBlock.2.currentRef = s1.b.currentRef + 1 := newBlock_cur hoL
  have hLR : s1.b.currentRef + 1 ≤ s2.b.currentRef := by have := w2.cur_le; omega
  have hsL : s.b.currentRef ≤ s1.b.currentRef := w1.cur_le
  have hlenL := open_len hoL
  have hlenR := open_len hoR
  have hlen12 : s1.b.code.blocks.length + 1 ≤ s2.b.code.blocks.length := by omega
  have hL2 : s2.b.code.blocks[s1.b.currentRef]? = some blkL := by
    rw [w2.below _ (by omega), newBlock_get _ _ (by omega)]; exact hoL.1
  have hLm : s2.b.newBlock.2.code.blocks[s1.b.currentRef]? = some blkL := by
    rw [newBlock_get _ _ (by omega)]; exact hL2
  have hRm : s2.b.newBlock.2.code.blocks[s2.b.currentRef]? = some blkR := by
    rw [newBlock_get _ _ (by omega)]; exact hoR.1
  obtain ⟨f1, f2, f3, f4, f5, f6, f7, f8⟩ := visitLogical_facts s2.b.newBlock.2 lop left right _ _ blkL blkR hLm hoL.2
    hRm hoR.2 (by omega) htl htr
  generalize visitBinaryLogicalExpression s2.b.newBlock.2 lop left s1.b.currentRef right s2.b.currentRef = pF at *
  obtain ⟨xF, bF⟩ := pF
  simp only at f1 f2 f3 f4 f5 f6 f7 f8 hx hs'
  have hnl : s2.b.newBlock.2.code.locals = s2.b.code.locals := rfl
  have hnlen : s2.b.newBlock.2.code.blocks.length = s2.b.code.blocks.length + 1 := by simp [Builder.newBlock]
  rw [hnl] at f1 f4 f7 f8
  subst f1
  subst hx hs'
  have hcF : bF.currentRef = s2.b.currentRef + 1 := by
    simp only [Builder.currentRef] at hlenR ⊢
    omega
  -- blocks of the final builder
  have hch1 : ∀ i, i < s1.b.currentRef → bF.code.blocks[i]? = s1.b.code.blocks[i]? := by
    intro i hi
    rw [f6 i (by omega) (by omega), newBlock_get _ _ (by omega), w2.below i (by omega), newBlock_get _ _ (by omega)]
  have hch2 : ∀ i, s1.b.currentRef < i → i < s2.b.currentRef → bF.code.blocks[i]? = s2.b.code.blocks[i]? := by
    intro i h1 h2
    rw [f6 i (by omega) (by omega), newBlock_get _ _ (by omega)]
  have hexit : bF.code.blocks[s2.b.currentRef + 1]? = some {} := by
    rw [f6 _ (by omega) (by omega), hlenR]; exact newBlock_last s2.b
  obtain ⟨t2, hlo2⟩ := w2.locals
  have hnl1 : s1.b.newBlock.2.code.locals = s1.b.code.locals := rfl
  rw [hnl1] at hlo2
  have hn1 : s1.b.code.locals.length ≤ s2.b.code.locals.length := by rw [hlo2]; simp
  have hextF : Ext s1.b bF := by
    refine ⟨f2.trans w2.panic, ⟨t2 ++ [.bool], by rw [f4, hlo2, List.append_assoc]⟩, f3.trans w2.params, by omega, hch1,
      blkL, _, hoL.1, hoL.2, f7, _, rfl⟩
  have hwalked : Walked s.b bF := by
    refine ⟨w1.toExt.trans hextF, ?_, ⟨{}, by rw [OpenAt, hcF]; exact ⟨hexit, rfl⟩⟩, ?_⟩
    · intro i hlo hhi
      rcases Nat.lt_or_ge i s1.b.currentRef with hlt | hge
      · obtain ⟨bi, hbi, hti⟩ := w1.closed i hlo hlt
        exact ⟨bi, by rw [hch1 i hlt]; exact hbi, hti⟩
      · rcases Nat.eq_or_lt_of_le hge with heq | hgt
        · subst heq; exact ⟨_, f7, rfl⟩
        · rcases Nat.lt_or_ge i s2.b.currentRef with hlt2 | hge2
          · obtain ⟨bi, hbi, hti⟩ := w2.closed i (by omega) hlt2
            exact ⟨bi, by rw [hch2 i hgt hlt2]; exact hbi, hti⟩
          · have : i = s2.b.currentRef := by omega
            subst this; exact ⟨_, f8, rfl⟩
    · intro i hlo hhi bi j hbi hbr
      rcases Nat.lt_or_ge i s1.b.currentRef with hlt | hge
      · rw [hch1 i hlt] at hbi
        have := w1.brs i hlo hlt bi j hbi hbr
        omega
      · rcases Nat.eq_or_lt_of_le hge with heq | hgt
        · subst heq
          rw [f7] at hbi
          injection hbi with hbi
          subst hbi
          simp at hbr
        · rcases Nat.lt_or_ge i s2.b.currentRef with hlt2 | hge2
          · rw [hch2 i hgt hlt2] at hbi
            have := w2.brs i (by omega) hlt2 bi j hbi hbr
            omega
          · have : i = s2.b.currentRef := by omega
            subst this
            rw [f8] at hbi
            injection hbi with hbi
            subst hbi
            simp only [Option.some.injEq, Terminator.br.injEq] at hbr
            omega
  refine ⟨r2.locals, hwalked, by rw [f4]; simp [OperandOk],
    ⟨QV.Spec.Sem.sBool, by rw [sty_binary]; simp only [htok], Or.inr ⟨.bool, rfl, rfl, rfl⟩⟩, ?_, local_nv (by decide)⟩
  intro C hC st sst sst' v hvars hw hnc hval hspec
  have hC' : Covers C bF s.b.currentRef := hC
  obtain ⟨xl, sa, hsl, hcase⟩ := spec_logical sc tok lop l r sst sst' v htok hspec
  have hC1 : Covers C s1.b s.b.currentRef :=
    Covers.sub hC' hsL (by omega) (by rw [f4, hlo2, List.append_assoc]; exact List.prefix_append _ _)
      (fun i _ hi => hch1 i hi) ⟨blkL, _, hoL.1, f7, List.prefix_append _ _⟩
  have hC2 : Covers C s2.b (s1.b.currentRef + 1) :=
    Covers.sub (hC'.mono (by omega)) hLR (by omega) (by rw [f4]; exact List.prefix_append _ _)
      (fun i h1 h2 => hch2 i (by omega) h2) ⟨blkR, _, hoR.1, f8, List.prefix_append _ _⟩
  have hCL := hC'.closed _ hsL (by omega : s1.b.currentRef < bF.currentRef)
  rw [f7] at hCL
  have hCR := hC'.closed _ (by omega : s.b.currentRef ≤ s2.b.currentRef) (by omega : s2.b.currentRef < bF.currentRef)
  rw [f8] at hCR
  have hCn : C.locals[s2.b.code.locals.length]? = some .bool := prefix_getElem? hC'.locals _ _ (by rw [f4]; simp)
  have hlenF : curLen bF = 0 := by simp [curLen, hcF, hexit]
  obtain ⟨hsa, d1, st1, hd1, hrun1, hv1, hp1, hw1', ht1, _⟩ := r1.sim C hC1 st sst sa (.bool xl) hvars hw hnc hval hsl
  subst hsa
  have hkL : curLen s1.b = blkL.statements.length := curLen_of_open hoL
  have hxl : evalOperand ic (upd st1.L s2.b.code.locals.length (.bool (logicInit lop))) left = some (.bool xl) := by
    rw [evalOperand_agree ic st1.L _ _ left r1.ok (fun m hm => upd_other _ _ _ _ (by omega))]; exact hv1
  have hstepL : ∀ fuel, runAt ic C (fuel + 1) s1.b.currentRef (curLen s1.b) st1 =
      runAt ic C fuel (if xl then (if logicInit lop then s2.b.currentRef + 1 else s1.b.currentRef + 1)
        else (if logicInit lop then s1.b.currentRef + 1 else s2.b.currentRef + 1)) 0
        { st1 with L := upd st1.L s2.b.code.locals.length (.bool (logicInit lop)) } := by
    intro fuel
    exact runAt_store_brCond ic C fuel _ _ _ _ _ (.const (.bool (logicInit lop))) left .bool _ hCL
      (by rw [hkL]; simp) rfl hCn st1 (.bool (logicInit lop)) (.bool (logicInit lop)) xl rfl rfl hxl
  rcases hcase with ⟨hxi, hv, hs⟩ | ⟨hxi, xr, hsr, hv⟩
  · subst hv hs
    refine ⟨rfl, d1 + 1, { st1 with L := upd st1.L s2.b.code.locals.length (.bool (logicInit lop)) },
      by show d1 + 1 ≤ bF.currentRef - s.b.currentRef; omega, ?_, ?_, ?_, hw1', ht1, fun _ => rfl⟩
    · intro fuel
      show runAt ic C (fuel + (d1 + 1)) _ _ _ = runAt ic C fuel bF.currentRef (curLen bF) _
      have : fuel + (d1 + 1) = (fuel + 1) + d1 := by omega
      rw [this, hrun1 (fuel + 1), hstepL fuel, hcF, hlenF]
      subst hxi
      cases lop <;> rfl
    · simp [evalOperand, upd_same, hxi]
    · intro m hm
      have := w1.locals_le
      show upd st1.L _ _ m = st.L m
      rw [upd_other _ _ _ _ (by omega)]
      exact hp1 m hm
  · subst hv
    obtain ⟨hsb, d2, st2, hd2, hrun2, hv2, hp2, hw2', ht2, _⟩ :=
      r2.sim C (by show Covers C s2.b s1.b.newBlock.2.currentRef; rw [hcm]; exact hC2)
        { st1 with L := upd st1.L s2.b.code.locals.length (.bool (logicInit lop)) } sa sst' (.bool xr) hvars
        (hw.trans hw1'.symm) (by show ∀ x q u, st1.w.prop x q = some u → _; rw [hw1']; exact hnc)
        (hval.mono hvr (fun m hm => by
          show upd st1.L _ _ m = st.L m
          rw [upd_other _ _ _ _ (by have := w1.locals_le; omega)]; exact hp1 m hm)) hsr
    subst hsb
    have hd2' : d2 ≤ s2.b.currentRef - (s1.b.currentRef + 1) := by
      have : d2 ≤ s2.b.currentRef - s1.b.newBlock.2.currentRef := hd2
      omega
    have hrun2' : ∀ fuel, runAt ic C (fuel + d2) (s1.b.currentRef + 1) 0
        { st1 with L := upd st1.L s2.b.code.locals.length (.bool (logicInit lop)) } =
        runAt ic C fuel s2.b.currentRef (curLen s2.b) st2 := by
      intro fuel
      have := hrun2 fuel
      rw [show ({ s1 with b := s1.b.newBlock.2 } : WState).b = s1.b.newBlock.2 from rfl, hcm,
        curLen_of_open (newBlock_open hoL)] at this
      exact this
    have hkR : curLen s2.b = blkR.statements.length := curLen_of_open hoR
    have hstepR : ∀ fuel, runAt ic C (fuel + 1) s2.b.currentRef (curLen s2.b) st2 =
        runAt ic C fuel (s2.b.currentRef + 1) 0 { st2 with L := upd st2.L s2.b.code.locals.length (.bool xr) } := by
      intro fuel
      exact runAt_store_br ic C fuel _ _ _ _ right .bool _ hCR (by rw [hkR]; simp) rfl hCn st2 (.bool xr) (.bool xr) hv2 rfl
    have htgt : (if xl then (if logicInit lop then s2.b.currentRef + 1 else s1.b.currentRef + 1)
        else (if logicInit lop then s1.b.currentRef + 1 else s2.b.currentRef + 1)) = s1.b.currentRef + 1 := by
      cases lop <;> cases xl <;> simp_all [logicInit]
    refine ⟨rfl, d1 + 1 + d2 + 1, { st2 with L := upd st2.L s2.b.code.locals.length (.bool xr) },
      by show d1 + 1 + d2 + 1 ≤ bF.currentRef - s.b.currentRef; omega, ?_, ?_, ?_,
      hw2'.trans hw1', ht2.trans ht1, fun _ => rfl⟩
    · intro fuel
      show runAt ic C (fuel + (d1 + 1 + d2 + 1)) _ _ _ = runAt ic C fuel bF.currentRef (curLen bF) _
      have : fuel + (d1 + 1 + d2 + 1) = (fuel + 1 + d2 + 1) + d1 := by omega
      rw [this, hrun1, hstepL, htgt, hrun2', hstepR, hcF, hlenF]
    · simp [evalOperand, upd_same]
    · intro m hm
      have := w1.locals_le
      show upd st2.L _ _ m = st.L m
      rw [upd_other _ _ _ _ (by omega), hp2 m (by show m < s1.b.code.locals.length; omega)]
      show upd st1.L _ _ m = st.L m
      rw [upd_other _ _ _ _ (by omega)]
      exact hp1 m hm

/-! ### the ternary -/

/-- what a successful walk of `c ? a : b` consists of -/
theorem run_ternary (wc : Ctx) (cnd a b : Expr) (s s' : WState) (x : Operand)
    (h : (walkRvalue wc (.ternary cnd a b)).run s = (some x, s')) :
    ∃ cop s1 aop s2 bop s3 bF, (walkRvalue wc cnd).run s = (some cop, s1) ∧
      (walkRvalue wc a).run { s1 with b := s1.b.newBlock.2 } = (some aop, s2) ∧
      (walkRvalue wc b).run { s2 with b := s2.b.newBlock.2 } = (some bop, s3) ∧
      cop.typeDesc = .bool ∧
      visitTernaryExpression wc.env s3.b.newBlock.2 cop s1.b.currentRef aop s2.b.currentRef bop s3.b.currentRef
        = .ok (x, bF) ∧
      s' = { s3 with b := bF } := by
  rw [walkRvalue, walkExpr] at h
  simp only [run_bind] at h
  cases h1 : (walkRvalue wc cnd).run s with
  | mk r1 s1 =>
    rw [h1] at h
    cases r1 with
    | none => simp only at h; injection h with h _; cases h
    | some cop =>
      simp only [run_mark, run_bind] at h
      cases h2 : (walkRvalue wc a).run { s1 with b := s1.b.newBlock.2 } with
      | mk r2 s2 =>
        rw [h2] at h
        cases r2 with
        | none => simp only at h; injection h with h _; cases h
        | some aop =>
          simp only [run_mark, run_bind] at h
          cases h3 : (walkRvalue wc b).run { s2 with b := s2.b.newBlock.2 } with
          | mk r3 s3 =>
            rw [h3] at h
            cases r3 with
            | none => simp only at h; injection h with h _; cases h
            | some bop =>
              simp only [run_mark, run_bind] at h
              by_cases hc : cop.typeDesc = .bool
              · rw [run_check_ok _ _ hc] at h
                simp only [run_bind, run_getB] at h
                cases hv : visitTernaryExpression wc.env s3.b.newBlock.2 cop s1.b.currentRef aop s2.b.currentRef bop
                    s3.b.currentRef with
                | error e =>
                  rw [hv] at h
                  simp only [consume, run_bind] at h
                  have := run_err (α := Operand) e.message { s3 with b := s3.b.newBlock.2 }
                  cases hq : (err e.message : W Operand).run { s3 with b := s3.b.newBlock.2 } with
                  | mk q sq =>
                    rw [hq] at this h
                    simp only at this
                    subst this
                    simp only at h; injection h with h _; cases h
                | ok xb =>
                  obtain ⟨x', bF⟩ := xb
                  rw [hv] at h
                  simp only [run_consume_ok, run_bind, run_pure, interToRvalue] at h
                  injection h with hx hs
                  injection hx with hx
                  subst hx
                  exact ⟨cop, s1, aop, s2, bop, s3, bF, rfl, h2, h3, hc, hv, hs.symm⟩
              · have := run_check_err cop { s3 with b := s3.b.newBlock.2 } hc
                cases hq : (checkConditionType cop).run { s3 with b := s3.b.newBlock.2 } with
                | mk q sq =>
                  rw [hq] at this h
                  simp only at this
                  subst this
                  simp only at h; injection h with h _; cases h

theorem lt_of_getElem? {α} {l : List α} {i : Nat} {x : α} (h : l[i]? = some x) : i < l.length := by
  rcases Nat.lt_or_ge i l.length with h' | h'
  · exact h'
  · simp [List.getElem?_eq_none h'] at h

/-- `visit_ternary_expression` on three open blocks, with branches of a common non-void type: one fresh sink of that
    type; the CONDITION block gets the conditional branch, each branch block the store of its value and the jump to
    the block after the alternative's -/
theorem visitTernary_shape (env : Env) (b : Builder) (cond cons alt : Operand) (cRef aRef bRef : Nat)
    (blkC blkA blkB : BasicBlock) (ty : TypeKind)
    (hC : b.code.blocks[cRef]? = some blkC) (hCt : blkC.terminator = none)
    (hA : b.code.blocks[aRef]? = some blkA) (hAt : blkA.terminator = none)
    (hB : b.code.blocks[bRef]? = some blkB) (hBt : blkB.terminator = none)
    (hca : cRef ≠ aRef) (hcb : cRef ≠ bRef) (hab : aRef ≠ bRef)
    (hea : ensureConcreteString cons = cons) (heb : ensureConcreteString alt = alt)
    (hded : deduceConcrete env "ternary" cons.typeDesc alt.typeDesc = .ok ty) (hty : ty ≠ .void) :
    visitTernaryExpression env b cond cRef cons aRef alt bRef =
      .ok (.local b.code.locals.length ty,
       { b with code := { b.code with
          locals := b.code.locals ++ [ty],
          blocks := ((b.code.blocks.set cRef
              { blkC with terminator := some (.brCond cond (cRef + 1) (aRef + 1)) }).set aRef
              { blkA with statements := blkA.statements ++ [.assign b.code.locals.length (.copy cons)],
                          terminator := some (.br (bRef + 1)) }).set bRef
              { blkB with statements := blkB.statements ++ [.assign b.code.locals.length (.copy alt)],
                          terminator := some (.br (bRef + 1)) } } }) := by
  simp only [visitTernaryExpression, hea, heb, hded, Builder.alloca, hty, ne_eq, not_false_eq_true, ↓reduceIte,
    Option.getD_some]
  rw [finalizeAt_open _ cRef blkC _ (by simpa using hC) hCt]
  rw [pushStatementAt_open _ aRef blkA _ (by simp [getElem?_set_ne' _ _ _ _ hca, hA]) hAt]
  rw [finalizeAt_open _ aRef _ _ (by
      simp only
      exact getElem?_set_self' _ _ _ blkA (by simp [getElem?_set_ne' _ _ _ _ hca, hA])) (by simpa using hAt)]
  rw [pushStatementAt_open _ bRef blkB _ (by simp [getElem?_set_ne' _ _ _ _ hca, getElem?_set_ne' _ _ _ _ hab,
      getElem?_set_ne' _ _ _ _ hcb, hB]) hBt]
  rw [finalizeAt_open _ bRef _ _ (by
      simp only
      exact getElem?_set_self' _ _ _ blkB (by simp [getElem?_set_ne' _ _ _ _ hca, getElem?_set_ne' _ _ _ _ hab,
        getElem?_set_ne' _ _ _ _ hcb, hB])) (by simpa using hBt)]
  simp [List.set_set]

theorem visitTernary_facts (env : Env) (b : Builder) (cond cons alt : Operand) (cRef aRef bRef : Nat)
    (blkC blkA blkB : BasicBlock) (ty : TypeKind)
    (hC : b.code.blocks[cRef]? = some blkC) (hCt : blkC.terminator = none)
    (hA : b.code.blocks[aRef]? = some blkA) (hAt : blkA.terminator = none)
    (hB : b.code.blocks[bRef]? = some blkB) (hBt : blkB.terminator = none)
    (hca : cRef ≠ aRef) (hcb : cRef ≠ bRef) (hab : aRef ≠ bRef)
    (hea : ensureConcreteString cons = cons) (heb : ensureConcreteString alt = alt)
    (hded : deduceConcrete env "ternary" cons.typeDesc alt.typeDesc = .ok ty) (hty : ty ≠ .void)
    (x : Operand) (bF : Builder) (h : visitTernaryExpression env b cond cRef cons aRef alt bRef = .ok (x, bF)) :
    x = .local b.code.locals.length ty ∧ bF.panic = b.panic ∧ bF.code.parameterCount = b.code.parameterCount ∧
    bF.code.locals = b.code.locals ++ [ty] ∧ bF.code.blocks.length = b.code.blocks.length ∧
    (∀ i, i ≠ cRef → i ≠ aRef → i ≠ bRef → bF.code.blocks[i]? = b.code.blocks[i]?) ∧
    bF.code.blocks[cRef]? = some { blkC with terminator := some (.brCond cond (cRef + 1) (aRef + 1)) } ∧
    bF.code.blocks[aRef]? = some
      { blkA with statements := blkA.statements ++ [.assign b.code.locals.length (.copy cons)],
                  terminator := some (.br (bRef + 1)) } ∧
    bF.code.blocks[bRef]? = some
      { blkB with statements := blkB.statements ++ [.assign b.code.locals.length (.copy alt)],
                  terminator := some (.br (bRef + 1)) } := by
  rw [visitTernary_shape env b cond cons alt cRef aRef bRef blkC blkA blkB ty hC hCt hA hAt hB hBt hca hcb hab hea heb
    hded hty] at h
  injection h with h
  injection h with hx hb
  subst hx hb
  refine ⟨rfl, rfl, rfl, rfl, by simp, ?_, ?_, ?_, ?_⟩
  · intro i h1 h2 h3
    simp only
    rw [getElem?_set_ne' _ _ _ _ (Ne.symm h3), getElem?_set_ne' _ _ _ _ (Ne.symm h2), getElem?_set_ne' _ _ _ _ (Ne.symm h1)]
  · simp only
    rw [getElem?_set_ne' _ _ _ _ (Ne.symm hcb), getElem?_set_ne' _ _ _ _ (Ne.symm hca), getElem?_set_self' _ _ _ _ hC]
  · simp only
    rw [getElem?_set_ne' _ _ _ _ (Ne.symm hab)]
    exact getElem?_set_self' _ _ _ blkA (by rw [getElem?_set_ne' _ _ _ _ hca]; exact hA)
  · simp only
    exact getElem?_set_self' _ _ _ blkB (by
      rw [getElem?_set_ne' _ _ _ _ hab, getElem?_set_ne' _ _ _ _ hcb]; exact hB)

/-- the common type of the two branches of a ternary, against the reference semantics' `(x.unify y).concrete` -/
theorem deduce_tyrel_ternary (env : Env) (l r : Operand) (x y : STy) (k : TypeKind)
    (h : deduceConcreteType env l.typeDesc r.typeDesc = .ok k) (hx : TyRel l x) (hy : TyRel r y)
    (nvl : l.typeDesc ≠ .concrete .void) (nvr : r.typeDesc ≠ .concrete .void) :
    (x.unify y).concrete.ty = (styOf k).ty ∧ k ≠ .void := by
  by_cases hdyn : l.typeDesc ≠ .constInteger ∨ r.typeDesc ≠ .constInteger
  · refine ⟨(deduce_tyrel env l r x y k h hx hy hdyn).2, ?_⟩
    simp only [deduceConcreteType] at h
    cases hd : deduceType env l.typeDesc r.typeDesc with
    | error e => simp [hd] at h
    | ok t =>
      simp only [hd] at h
      rcases hx with ⟨hlc, _, _⟩ | ⟨kl, hlk, _, _⟩
      · rcases hy with ⟨hrc, _, _⟩ | ⟨kr, hrk, _, _⟩
        · rcases hdyn with hd' | hd'
          · exact absurd hlc hd'
          · exact absurd hrc hd'
        · rw [hlc, hrk] at hd
          have := deduce_const_left env kr t hd
          subst this
          simp only [toConcreteType, Except.ok.injEq] at h
          subst h
          intro hv; rw [hrk, hv] at nvr; exact nvr rfl
      · have hkl : kl ≠ .void := by intro hv; rw [hlk, hv] at nvl; exact nvl rfl
        rcases hy with ⟨hrc, _, _⟩ | ⟨kr, hrk, _, _⟩
        · rw [hlk, hrc] at hd
          have := deduce_const_right env kl t hd
          subst this
          simp only [toConcreteType, Except.ok.injEq] at h
          subst h; exact hkl
        · rw [hlk, hrk] at hd
          obtain ⟨rfl, _⟩ := deduce_concrete_concrete env kl kr t hd
          simp only [toConcreteType, Except.ok.injEq] at h
          subst h; exact hkl
  · have hl : l.typeDesc = .constInteger := by
      rcases Classical.em (l.typeDesc = .constInteger) with h' | h'
      · exact h'
      · exact absurd (Or.inl h') hdyn
    have hr : r.typeDesc = .constInteger := by
      rcases Classical.em (r.typeDesc = .constInteger) with h' | h'
      · exact h'
      · exact absurd (Or.inr h') hdyn
    rw [hl, hr] at h
    simp [deduceConcreteType, deduceType, toConcreteType] at h
    subst h
    rcases hx with ⟨_, hxc, hxt⟩ | ⟨kl, hlk, _, _⟩
    · rcases hy with ⟨_, hyc, _⟩ | ⟨kr, hrk, _, _⟩
      · refine ⟨?_, by decide⟩
        simp [STy.unify, STy.concrete, hxc, hyc, hxt]
        rfl
      · rw [hr] at hrk; cases hrk
    · rw [hl] at hlk; cases hlk

theorem coerceTo_not_cint {t : Ty} {v v' : Val} (h : coerceTo t v = some v') : isCint v' = false := by
  cases v with
  | cint i =>
    cases t <;> simp only [coerceTo] at h
    all_goals first
      | exact mkInt_not_cint h
      | (split at h
         · injection h with h; subst h; rfl
         · cases h)
  | _ => simp only [coerceTo] at h; injection h with h; subst h; rfl

theorem spec_ternary (c : QV.Spec.Sem.Ctx) (cnd a b : Expr) (s s' : QV.Spec.Sem.St) (v : Val)
    (h : QV.Spec.Sem.evalExpr c (.ternary cnd a b) s = some (v, s')) :
    ∃ t xc s1 v0, staticTy c s.vars (.ternary cnd a b) = some t ∧
      QV.Spec.Sem.evalExpr c cnd s = some (.bool xc, s1) ∧
      QV.Spec.Sem.evalExpr c (if xc then a else b) s1 = some (v0, s') ∧ coerceTo t.ty v0 = some v := by
  rw [QV.Spec.Sem.evalExpr.eq_def] at h
  simp only at h
  split at h
  · rename_i t s1 ht hc
    cases ha : QV.Spec.Sem.evalExpr c a s1 with
    | none => simp [ha] at h
    | some p =>
      obtain ⟨v0, s2⟩ := p
      simp only [ha, Option.bind_some, Option.map_eq_some_iff, Prod.mk.injEq] at h
      obtain ⟨v1, hco, rfl, rfl⟩ := h
      exact ⟨t, true, s1, v0, ht, hc, ha, hco⟩
  · rename_i t s1 ht hc
    cases hb : QV.Spec.Sem.evalExpr c b s1 with
    | none => simp [hb] at h
    | some p =>
      obtain ⟨v0, s2⟩ := p
      simp only [hb, Option.bind_some, Option.map_eq_some_iff, Prod.mk.injEq] at h
      obtain ⟨v1, hco, rfl, rfl⟩ := h
      exact ⟨t, false, s1, v0, ht, hc, hb, hco⟩
  · cases h

theorem cfg_ternary (wc : Ctx) (sc : QV.Spec.Sem.Ctx) (ic : ICtx) (wl : QV.Model.Locals) (vars : List QV.Spec.Sem.Var)
    (cnd a b : Expr) (ihc : WalkOk wc sc ic wl vars cnd) (iha : WalkOk wc sc ic wl vars a)
    (ihb : WalkOk wc sc ic wl vars b)
    (hsa : ∀ vars', shapeOf vars' = shapeOf vars → staticTy sc vars' a = staticTy sc vars a)
    (hsb : ∀ vars', shapeOf vars' = shapeOf vars → staticTy sc vars' b = staticTy sc vars b) :
    WalkOk wc sc ic wl vars (.ternary cnd a b) := by
  intro s s' x h hl hvr ho
  obtain ⟨cop, s1, aop, s2, bop, s3, bF, hw1, hw2, hw3, htc, hvis, hs'⟩ := run_ternary wc cnd a b s s' x h
  have r1 := ihc s s1 cop hw1 hl hvr ho
  obtain ⟨blkC, hoC⟩ := r1.walked.exitOpen
  have hvr1 : VarRel s1.b.newBlock.2.code.locals wl vars := hvr.mono r1.walked.locals
  have r2 := iha { s1 with b := s1.b.newBlock.2 } s2 aop hw2 r1.locals hvr1 ⟨{}, newBlock_open hoC⟩
  have w1 : Walked s.b s1.b := r1.walked
  have w2 : Walked s1.b.newBlock.2 s2.b := r2.walked
  obtain ⟨blkA, hoA⟩ := w2.exitOpen
  have r3 := ihb { s2 with b := s2.b.newBlock.2 } s3 bop hw3 r2.locals (hvr1.mono w2.locals) ⟨{}, newBlock_open hoA⟩
  have w3 : Walked s2.b.newBlock.2 s3.b := r3.walked
  obtain ⟨blkB, hoB⟩ := w3.exitOpen
  have hcm1 : s1.b.newBlock.2.currentRef = s1.b.currentRef + 1 := newBlock_cur hoC
  have hcm2 : s2.b.newBlock.2.currentRef = s2.b.currentRef + 1 := newBlock_cur hoA
  have hCA : s1.b.currentRef + 1 ≤ s2.b.currentRef := by have := w2.cur_le; omega
  have hAB : s2.b.currentRef + 1 ≤ s3.b.currentRef := by have := w3.cur_le; omega
  have hsC : s.b.currentRef ≤ s1.b.currentRef := w1.cur_le
  have hlenC := open_len hoC
  have hlenA := open_len hoA
  have hlenB := open_len hoB
  have hC2 : s2.b.code.blocks[s1.b.currentRef]? = some blkC := by
    rw [w2.below _ (by omega), newBlock_get _ _ (by omega)]; exact hoC.1
  have hC3 : s3.b.code.blocks[s1.b.currentRef]? = some blkC := by
    rw [w3.below _ (by omega), newBlock_get _ _ (by omega)]; exact hC2
  have hA3 : s3.b.code.blocks[s2.b.currentRef]? = some blkA := by
    rw [w3.below _ (by omega), newBlock_get _ _ (by omega)]; exact hoA.1
  have hCm : s3.b.newBlock.2.code.blocks[s1.b.currentRef]? = some blkC := by
    rw [newBlock_get _ _ (by omega)]; exact hC3
  have hAm : s3.b.newBlock.2.code.blocks[s2.b.currentRef]? = some blkA := by
    rw [newBlock_get _ _ (by omega)]; exact hA3
  have hBm : s3.b.newBlock.2.code.blocks[s3.b.currentRef]? = some blkB := by
    rw [newBlock_get _ _ (by omega)]; exact hoB.1
  -- the common type
  obtain ⟨tx, hstx, htyx⟩ := r2.ty
  obtain ⟨ty_, hsty, htyy⟩ := r3.ty
  have hok2 : OperandOk s2.b.code.locals.length aop := r2.ok
  have hok3 : OperandOk s3.b.code.locals.length bop := r3.ok
  have hea := ensure_ok hok2
  have heb := ensure_ok hok3
  cases hded : deduceConcrete wc.env "ternary" aop.typeDesc bop.typeDesc with
  | error e => simp [visitTernaryExpression, hea, heb, hded] at hvis
  | ok k =>
    obtain ⟨hkt, hknv⟩ := deduce_tyrel_ternary wc.env aop bop tx ty_ k (deduceConcrete_ok hded) htyx htyy r2.nv r3.nv
    obtain ⟨f1, f2, f3, f4, f5, f6, f7, f8, f9⟩ := visitTernary_facts wc.env s3.b.newBlock.2 cop aop bop _ _ _ blkC blkA blkB k
      hCm hoC.2 hAm hoA.2 hBm hoB.2 (by omega) (by omega) (by omega) hea heb hded hknv x bF hvis
    have hnl : s3.b.newBlock.2.code.locals = s3.b.code.locals := rfl
    have hnlen : s3.b.newBlock.2.code.blocks.length = s3.b.code.blocks.length + 1 := by simp [Builder.newBlock]
    rw [hnl] at f1 f4 f8 f9
    subst f1 hs'
    have hcF : bF.currentRef = s3.b.currentRef + 1 := by
      simp only [Builder.currentRef] at hlenB ⊢
      omega
    have hch1 : ∀ i, i < s1.b.currentRef → bF.code.blocks[i]? = s1.b.code.blocks[i]? := by
      intro i hi
      rw [f6 i (by omega) (by omega) (by omega), newBlock_get _ _ (by omega), w3.below i (by omega),
        newBlock_get _ _ (by omega), w2.below i (by omega), newBlock_get _ _ (by omega)]
    have hch2 : ∀ i, s1.b.currentRef < i → i < s2.b.currentRef → bF.code.blocks[i]? = s2.b.code.blocks[i]? := by
      intro i h1 h2
      rw [f6 i (by omega) (by omega) (by omega), newBlock_get _ _ (by omega), w3.below i (by omega),
        newBlock_get _ _ (by omega)]
    have hch3 : ∀ i, s2.b.currentRef < i → i < s3.b.currentRef → bF.code.blocks[i]? = s3.b.code.blocks[i]? := by
      intro i h1 h2
      rw [f6 i (by omega) (by omega) (by omega), newBlock_get _ _ (by omega)]
    have hexit : bF.code.blocks[s3.b.currentRef + 1]? = some {} := by
      rw [f6 _ (by omega) (by omega) (by omega), hlenB]; exact newBlock_last s3.b
    obtain ⟨t2, hlo2⟩ := w2.locals
    obtain ⟨t3, hlo3⟩ := w3.locals
    have hnl1 : s1.b.newBlock.2.code.locals = s1.b.code.locals := rfl
    have hnl2 : s2.b.newBlock.2.code.locals = s2.b.code.locals := rfl
    rw [hnl1] at hlo2
    rw [hnl2] at hlo3
    have hn12 : s1.b.code.locals.length ≤ s2.b.code.locals.length := by rw [hlo2]; simp
    have hn23 : s2.b.code.locals.length ≤ s3.b.code.locals.length := by rw [hlo3]; simp
    have hextF : Ext s1.b bF := by
      refine ⟨f2.trans (w3.panic.trans w2.panic), ⟨t2 ++ t3 ++ [k], by rw [f4, hlo3, hlo2]; simp⟩,
        f3.trans (w3.params.trans w2.params), by omega, hch1, blkC, _, hoC.1, hoC.2, f7, [], by simp⟩
    have hwalked : Walked s.b bF := by
      refine ⟨w1.toExt.trans hextF, ?_, ⟨{}, by rw [OpenAt, hcF]; exact ⟨hexit, rfl⟩⟩, ?_⟩
      · intro i hlo hhi
        rcases Nat.lt_or_ge i s1.b.currentRef with hlt | hge
        · obtain ⟨bi, hbi, hti⟩ := w1.closed i hlo hlt
          exact ⟨bi, by rw [hch1 i hlt]; exact hbi, hti⟩
        · rcases Nat.eq_or_lt_of_le hge with heq | hgt
          · subst heq; exact ⟨_, f7, rfl⟩
          · rcases Nat.lt_or_ge i s2.b.currentRef with hlt2 | hge2
            · obtain ⟨bi, hbi, hti⟩ := w2.closed i (by omega) hlt2
              exact ⟨bi, by rw [hch2 i hgt hlt2]; exact hbi, hti⟩
            · rcases Nat.eq_or_lt_of_le hge2 with heq2 | hgt2
              · subst heq2; exact ⟨_, f8, rfl⟩
              · rcases Nat.lt_or_ge i s3.b.currentRef with hlt3 | hge3
                · obtain ⟨bi, hbi, hti⟩ := w3.closed i (by omega) hlt3
                  exact ⟨bi, by rw [hch3 i hgt2 hlt3]; exact hbi, hti⟩
                · have : i = s3.b.currentRef := by omega
                  subst this; exact ⟨_, f9, rfl⟩
      · intro i hlo hhi bi j hbi hbr
        rcases Nat.lt_or_ge i s1.b.currentRef with hlt | hge
        · rw [hch1 i hlt] at hbi
          have := w1.brs i hlo hlt bi j hbi hbr
          omega
        · rcases Nat.eq_or_lt_of_le hge with heq | hgt
          · subst heq
            rw [f7] at hbi
            injection hbi with hbi
            subst hbi
            simp at hbr
          · rcases Nat.lt_or_ge i s2.b.currentRef with hlt2 | hge2
            · rw [hch2 i hgt hlt2] at hbi
              have := w2.brs i (by omega) hlt2 bi j hbi hbr
              omega
            · rcases Nat.eq_or_lt_of_le hge2 with heq2 | hgt2
              · subst heq2
                rw [f8] at hbi
                injection hbi with hbi
                subst hbi
                simp only [Option.some.injEq, Terminator.br.injEq] at hbr
                omega
              · rcases Nat.lt_or_ge i s3.b.currentRef with hlt3 | hge3
                · rw [hch3 i hgt2 hlt3] at hbi
                  have := w3.brs i (by omega) hlt3 bi j hbi hbr
                  omega
                · have : i = s3.b.currentRef := by omega
                  subst this
                  rw [f9] at hbi
                  injection hbi with hbi
                  subst hbi
                  simp only [Option.some.injEq, Terminator.br.injEq] at hbr
                  omega
    have hsty_t : staticTy sc vars (.ternary cnd a b) = some (tx.unify ty_).concrete := by
      rw [sty_ternary, hstx, hsty]
    refine ⟨r3.locals, hwalked, by rw [f4]; simp [OperandOk],
      ⟨_, hsty_t, Or.inr ⟨k, rfl, rfl, hkt⟩⟩, ?_, local_nv hknv⟩
    intro C hC st sst sst' v hvars hw hnc hval hspec
    have hC' : Covers C bF s.b.currentRef := hC
    obtain ⟨t, xc, sa, v0, hst, hsc, hsv, hco⟩ := spec_ternary sc cnd a b sst sst' v hspec
    rw [sty_ternary, hsa _ hvars, hsb _ hvars, ← sty_ternary, hsty_t] at hst
    injection hst with hst
    subst hst
    rw [hkt] at hco
    have hCv1 : Covers C s1.b s.b.currentRef :=
      Covers.sub hC' hsC (by omega) (by rw [f4, hlo3, hlo2]; simp [List.append_assoc])
        (fun i _ hi => hch1 i hi) ⟨blkC, _, hoC.1, f7, List.prefix_refl _⟩
    have hCv2 : Covers C s2.b (s1.b.currentRef + 1) :=
      Covers.sub (hC'.mono (by omega)) hCA (by omega) (by rw [f4, hlo3, List.append_assoc]; exact List.prefix_append _ _)
        (fun i h1 h2 => hch2 i (by omega) h2) ⟨blkA, _, hoA.1, f8, List.prefix_append _ _⟩
    have hCv3 : Covers C s3.b (s2.b.currentRef + 1) :=
      Covers.sub (hC'.mono (by omega)) hAB (by omega) (by rw [f4]; exact List.prefix_append _ _)
        (fun i h1 h2 => hch3 i (by omega) h2) ⟨blkB, _, hoB.1, f9, List.prefix_append _ _⟩
    have hCC := hC'.closed _ hsC (by omega : s1.b.currentRef < bF.currentRef)
    rw [f7] at hCC
    have hCA' := hC'.closed _ (by omega : s.b.currentRef ≤ s2.b.currentRef) (by omega : s2.b.currentRef < bF.currentRef)
    rw [f8] at hCA'
    have hCB' := hC'.closed _ (by omega : s.b.currentRef ≤ s3.b.currentRef) (by omega : s3.b.currentRef < bF.currentRef)
    rw [f9] at hCB'
    have hCn : C.locals[s3.b.code.locals.length]? = some k := prefix_getElem? hC'.locals _ _ (by rw [f4]; simp)
    have hlenF : curLen bF = 0 := by simp [curLen, hcF, hexit]
    have hvnc : isCint v = false := coerceTo_not_cint hco
    obtain ⟨hsa, d1, st1, hd1, hrun1, hv1, hp1, hw1', ht1, _⟩ := r1.sim C hCv1 st sst sa (.bool xc) hvars hw hnc hval hsc
    subst hsa
    have hkC : curLen s1.b = blkC.statements.length := curLen_of_open hoC
    have hstepC : ∀ fuel, runAt ic C (fuel + 1) s1.b.currentRef (curLen s1.b) st1 =
        runAt ic C fuel (if xc then s1.b.currentRef + 1 else s2.b.currentRef + 1) 0 st1 := by
      intro fuel
      exact runAt_brCond ic C fuel _ _ _ _ _ cop st1 xc hCC (by rw [hkC]; exact Nat.le_refl _) rfl hv1
    cases xc with
    | true =>
      simp only [if_true] at hsv hstepC
      obtain ⟨hsb, d2, st2, hd2, hrun2, hv2, hp2, hw2', ht2, _⟩ :=
        r2.sim C (by show Covers C s2.b s1.b.newBlock.2.currentRef; rw [hcm1]; exact hCv2) st1 sa sst' v0 hvars
          (hw.trans hw1'.symm) (by rw [hw1']; exact hnc) (hval.mono hvr hp1) hsv
      subst hsb
      have hd2' : d2 ≤ s2.b.currentRef - (s1.b.currentRef + 1) := by
        have : d2 ≤ s2.b.currentRef - s1.b.newBlock.2.currentRef := hd2
        omega
      have hrun2' : ∀ fuel, runAt ic C (fuel + d2) (s1.b.currentRef + 1) 0 st1 =
          runAt ic C fuel s2.b.currentRef (curLen s2.b) st2 := by
        intro fuel
        have := hrun2 fuel
        rw [show ({ s1 with b := s1.b.newBlock.2 } : WState).b = s1.b.newBlock.2 from rfl, hcm1,
          curLen_of_open (newBlock_open hoC)] at this
        exact this
      have hkA : curLen s2.b = blkA.statements.length := curLen_of_open hoA
      have hstepA : ∀ fuel, runAt ic C (fuel + 1) s2.b.currentRef (curLen s2.b) st2 =
          runAt ic C fuel (s3.b.currentRef + 1) 0 { st2 with L := upd st2.L s3.b.code.locals.length v } := by
        intro fuel
        exact runAt_store_br ic C fuel _ _ _ _ aop k _ hCA' (by rw [hkA]; simp) rfl hCn st2 v0 v hv2 hco
      refine ⟨rfl, d1 + 1 + d2 + 1, { st2 with L := upd st2.L s3.b.code.locals.length v },
        by show d1 + 1 + d2 + 1 ≤ bF.currentRef - s.b.currentRef; omega, ?_, ?_, ?_,
        hw2'.trans hw1', ht2.trans ht1, fun _ => hvnc⟩
      · intro fuel
        show runAt ic C (fuel + (d1 + 1 + d2 + 1)) _ _ _ = runAt ic C fuel bF.currentRef (curLen bF) _
        have : fuel + (d1 + 1 + d2 + 1) = (fuel + 1 + d2 + 1) + d1 := by omega
        rw [this, hrun1, hstepC, hrun2', hstepA, hcF, hlenF]
      · simp [evalOperand, upd_same]
      · intro m hm
        have := w1.locals_le
        show upd st2.L _ _ m = st.L m
        rw [upd_other _ _ _ _ (by omega), hp2 m (by show m < s1.b.code.locals.length; omega)]
        exact hp1 m hm
    | false =>
      simp only [Bool.false_eq_true, if_false] at hsv hstepC
      obtain ⟨hsb, d3, st3, hd3, hrun3, hv3, hp3, hw3', ht3, _⟩ :=
        r3.sim C (by show Covers C s3.b s2.b.newBlock.2.currentRef; rw [hcm2]; exact hCv3) st1 sa sst' v0 hvars
          (hw.trans hw1'.symm) (by rw [hw1']; exact hnc) (hval.mono hvr hp1) hsv
      subst hsb
      have hd3' : d3 ≤ s3.b.currentRef - (s2.b.currentRef + 1) := by
        have : d3 ≤ s3.b.currentRef - s2.b.newBlock.2.currentRef := hd3
        omega
      have hrun3' : ∀ fuel, runAt ic C (fuel + d3) (s2.b.currentRef + 1) 0 st1 =
          runAt ic C fuel s3.b.currentRef (curLen s3.b) st3 := by
        intro fuel
        have := hrun3 fuel
        rw [show ({ s2 with b := s2.b.newBlock.2 } : WState).b = s2.b.newBlock.2 from rfl, hcm2,
          curLen_of_open (newBlock_open hoA)] at this
        exact this
      have hkB : curLen s3.b = blkB.statements.length := curLen_of_open hoB
      have hstepB : ∀ fuel, runAt ic C (fuel + 1) s3.b.currentRef (curLen s3.b) st3 =
          runAt ic C fuel (s3.b.currentRef + 1) 0 { st3 with L := upd st3.L s3.b.code.locals.length v } := by
        intro fuel
        exact runAt_store_br ic C fuel _ _ _ _ bop k _ hCB' (by rw [hkB]; simp) rfl hCn st3 v0 v hv3 hco
      refine ⟨rfl, d1 + 1 + d3 + 1, { st3 with L := upd st3.L s3.b.code.locals.length v },
        by show d1 + 1 + d3 + 1 ≤ bF.currentRef - s.b.currentRef; omega, ?_, ?_, ?_,
        hw3'.trans hw1', ht3.trans ht1, fun _ => hvnc⟩
      · intro fuel
        show runAt ic C (fuel + (d1 + 1 + d3 + 1)) _ _ _ = runAt ic C fuel bF.currentRef (curLen bF) _
        have : fuel + (d1 + 1 + d3 + 1) = (fuel + 1 + d3 + 1) + d1 := by omega
        rw [this, hrun1, hstepC, hrun3', hstepB, hcF, hlenF]
      · simp [evalOperand, upd_same]
      · intro m hm
        have := w1.locals_le
        show upd st3.L _ _ m = st.L m
        rw [upd_other _ _ _ _ (by omega), hp3 m (by show m < s2.b.code.locals.length; omega)]
        exact hp1 m hm

/-! ### the fragment and the induction -/

/-- the expression fragment of the CFG-level induction, relative to the names `scope` of the variables in scope:
    the straight-line fragment, reads of variables in scope, closed under `&&`, `||` and `?:`; the object id of a
    property read must not be shadowed by a variable -/
inductive CfgFrag (wc : Ctx) (scope : List String) : Expr → Prop
  | int (v : Nat) : CfgFrag wc scope (.integer v)
  | bool (b : Bool) : CfgFrag wc scope (.bool b)
  | var (x : String) : x ∈ scope → CfgFrag wc scope (.ident x)
  | read (o p cls : String) (ci : ClassInfo) (pinfo : PropInfo) :
      wc.objects.find? (·.1 = o) = some (o, cls) → wc.env.findClass cls = some ci →
      ci.props.find? (·.name = p) = some pinfo → pinfo.ty ≠ .void → o ∉ scope → CfgFrag wc scope (.member (.ident o) p)
  | unary (tok : UnaryToken) (a : Expr) : CfgFrag wc scope a → CfgFrag wc scope (.unary tok a)
  | binary (tok : BinaryToken) (op : BinaryOp) (l r : Expr) : tok.toOp = some op → (∀ lop, op ≠ .logical lop) →
      CfgFrag wc scope l → CfgFrag wc scope r → CfgFrag wc scope (.binary tok l r)
  | logical (tok : BinaryToken) (lop : LogicOp) (l r : Expr) : tok.toOp = some (.logical lop) →
      CfgFrag wc scope l → CfgFrag wc scope r → CfgFrag wc scope (.binary tok l r)
  | ternary (c a b : Expr) : CfgFrag wc scope c → CfgFrag wc scope a → CfgFrag wc scope b →
      CfgFrag wc scope (.ternary c a b)

theorem straight_cfgFrag {wc : Ctx} {e : Expr} (h : Straight wc e) : CfgFrag wc [] e := by
  induction h with
  | int v => exact .int v
  | bool b => exact .bool b
  | read o p cls ci pinfo h1 h2 h3 h5 => exact .read o p cls ci pinfo h1 h2 h3 h5 (by simp)
  | unary tok a _ ih => exact .unary tok a ih
  | binary tok op l r htok hlog _ _ ihl ihr => exact .binary tok op l r htok hlog ihl ihr

/-- the static type of an expression of the fragment depends on the variables' names and types only -/
theorem sty_shape (wc : Ctx) (sc : QV.Spec.Sem.Ctx) (scope : List String) (vars vars' : List QV.Spec.Sem.Var)
    (hsh : shapeOf vars' = shapeOf vars) (e : Expr) (hf : CfgFrag wc scope e) :
    staticTy sc vars' e = staticTy sc vars e := by
  have hvt : ∀ x, QV.Spec.Sem.varTy vars' x = QV.Spec.Sem.varTy vars x := by
    intro x
    have := find?_shape hsh x
    simp only [QV.Spec.Sem.varTy]
    cases h1 : vars'.find? (·.name = x) <;> cases h2 : vars.find? (·.name = x) <;> simp_all
  induction hf with
  | int v => rfl
  | bool v => rfl
  | var x _ => rw [sty_ident, sty_ident, hvt]
  | read o p cls ci pinfo _ _ _ _ _ => rw [sty_member_ident, sty_member_ident, sty_ident, sty_ident, hvt]
  | unary tok a _ ih => rw [sty_unary, sty_unary, ih]
  | binary tok op l r _ _ _ _ ihl ihr => rw [sty_binary, sty_binary, ihl, ihr]
  | logical tok lop l r _ _ _ ihl ihr => rw [sty_binary, sty_binary, ihl, ihr]
  | ternary c a b _ _ _ _ iha ihb => rw [sty_ternary, sty_ternary, iha, ihb]

/-- `scope` lists exactly the names the walk's name map binds -/
def ScopeOf (scope : List String) (wl : QV.Model.Locals) : Prop := ∀ x, x ∈ scope ↔ (wl.get? x).isSome = true

theorem ScopeOf.nil : ScopeOf [] [] := by
  intro x; simp [QV.Model.Locals.get?]

/-- THE INDUCTION over the AST walk at CFG level: for every expression of the fragment, any successful walk from a
    builder whose current block is open, with the variables `wl` ~ `vars` in scope (`VarRel`), (i) leaves every block
    below its entry block untouched, only appends to the entry block, terminates every block from the entry block up to
    its exit block and leaves the exit block — the current one — open (`Walked`); (ii) returns a folded constant or a
    local of non-void type whose builder type agrees with the static type of the reference semantics (`TyRel`);
    (iii) over ANY final code that keeps those blocks and extends the exit block (`Covers`), in any state whose locals
    hold the variables' values (`ValRel`), execution from the entry position reaches the exit position within as many
    transitions as blocks were closed, with the reference value in that operand and the earlier locals, the world and
    the trace untouched (`Sim`) -/
theorem walk_cfg (wc : Ctx) (sc : QV.Spec.Sem.Ctx) (ic : ICtx) (hag : Agree wc sc ic)
    (scope : List String) (wl : QV.Model.Locals) (vars : List QV.Spec.Sem.Var) (hsc : ScopeOf scope wl)
    (e : Expr) (hf : CfgFrag wc scope e) : WalkOk wc sc ic wl vars e := by
  induction hf with
  | int v => exact cfg_int wc sc ic wl vars v
  | bool v => exact cfg_bool wc sc ic wl vars v
  | var x hx =>
    have := (hsc x).mp hx
    cases hg : wl.get? x with
    | none => rw [hg] at this; cases this
    | some nk => exact cfg_var wc sc ic wl vars x nk.1 nk.2 hg
  | read o p cls ci pinfo h1 h2 h3 h5 hno =>
    have hnone : wl.get? o = none := by
      cases hg : wl.get? o with
      | none => rfl
      | some nk => exact absurd ((hsc o).mpr (by rw [hg]; rfl)) hno
    exact cfg_read wc sc ic hag wl vars o p cls ci pinfo h1 h2 h3 h5 hnone
  | unary tok a _ ih => exact cfg_unary wc sc ic hag wl vars tok a ih
  | binary tok op l r htok hlog _ _ ihl ihr => exact cfg_binary wc sc ic hag wl vars tok op l r htok hlog ihl ihr
  | logical tok lop l r htok _ _ ihl ihr => exact cfg_logical wc sc ic wl vars tok lop l r htok ihl ihr
  | ternary c a b _ ha hb ihc iha ihb =>
    exact cfg_ternary wc sc ic wl vars c a b ihc iha ihb (fun vars' h => sty_shape wc sc scope vars vars' h a ha)
      (fun vars' h => sty_shape wc sc scope vars vars' h b hb)

end QV.Proofs.SemCfgCtl
