/- Helper lemmas for C18 (core Lean only). -/
import QV.Model.QmlDir
import QV.Spec.QmlDir

namespace QV.Proofs.QmlDir
open QV.Model.QmlDir

/-! ### the directory map -/

theorem contains_iff {ms : DirMap} {p : Path} : ms.contains p = true ↔ ∃ e ∈ ms, e.1 = p := by
  simp [DirMap.contains, DirMap.get?, List.find?_isSome]

theorem contains_false_iff {ms : DirMap} {p : Path} : ms.contains p = false ↔ ¬ ∃ e ∈ ms, e.1 = p := by
  rw [← contains_iff]; simp

theorem contains_append {ms : DirMap} {b p : Path} {m : Module} :
    (ms ++ [(b, m)]).contains p = true ↔ ms.contains p = true ∨ p = b := by
  simp only [contains_iff, List.mem_append, List.mem_singleton]
  constructor
  · rintro ⟨e, he | he, h⟩
    · exact .inl ⟨e, he, h⟩
    · subst he; exact .inr h.symm
  · rintro (⟨e, he, h⟩ | h)
    · exact ⟨e, .inl he, h⟩
    · exact ⟨(b, m), .inr rfl, h.symm⟩

theorem get?_some_mem {ms : DirMap} {p : Path} {m : Module} (h : ms.get? p = some m) : (p, m) ∈ ms := by
  simp only [DirMap.get?, Option.map_eq_some_iff] at h
  obtain ⟨e, he, hm⟩ := h
  have h1 := List.mem_of_find?_eq_some he
  have h2 := List.find?_some he
  simp at h2
  cases e; simp_all

theorem get?_isSome_iff {ms : DirMap} {p : Path} : (ms.get? p).isSome = true ↔ ms.contains p = true := Iff.rfl

theorem findDir_some {t : Tree} {p : Path} {d : Dir} (h : findDir t p = some d) : d ∈ t ∧ d.path = p := by
  refine ⟨List.mem_of_find?_eq_some h, ?_⟩
  have := List.find?_some h
  simpa using this

theorem isDir_of_findDir {t : Tree} {p : Path} {d : Dir} (h : findDir t p = some d) : isDir t p = true := by
  simp [isDir, h]

theorem findDir_of_isDir {t : Tree} {p : Path} (h : isDir t p = true) : ∃ d, findDir t p = some d := by
  simpa [isDir, Option.isSome_iff_exists] using h

theorem resolve_isDir {t : Tree} {base q : Path} {segs : List String} (h : resolve t base segs = some q) :
    isDir t q = true := by
  unfold resolve at h
  split at h
  · split at h
    · rename_i h1; cases h; exact h1
    · cases h
  · cases h

/-! ### what a directory imports -/

def dirOf : ModuleId → Option Path
  | .dir p => some p
  | _ => none

/-- directory modules named by the components of a module -/
def dirTargets (m : Module) : List Path := m.flatMap fun c => c.imports.filterMap dirOf

theorem mem_dirOf {l : List ModuleId} {q : Path} : q ∈ l.filterMap dirOf ↔ ModuleId.dir q ∈ l := by
  constructor
  · intro h
    obtain ⟨id, hid, h⟩ := List.mem_filterMap.1 h
    cases id <;> simp [dirOf] at h
    subst h; exact hid
  · intro h; exact List.mem_filterMap.2 ⟨_, h, rfl⟩

theorem mem_pushesOf {mods : DirMap} {c : CompData} {q : Path} :
    q ∈ pushesOf mods c ↔ ModuleId.dir q ∈ c.imports ∧ mods.contains q = false := by
  unfold pushesOf
  constructor
  · intro h
    obtain ⟨id, hid, h⟩ := List.mem_filterMap.1 h
    cases id with
    | builtins => simp at h
    | named n => simp at h
    | dir p =>
      simp only at h
      split at h
      · cases h
      · rename_i h1; cases h; exact ⟨hid, by simpa using h1⟩
  · rintro ⟨h1, h2⟩
    exact List.mem_filterMap.2 ⟨_, h1, by simp [h2]⟩

theorem mem_pushes {mods : DirMap} {m : Module} {q : Path} :
    q ∈ m.flatMap (pushesOf mods) ↔ q ∈ dirTargets m ∧ mods.contains q = false := by
  simp only [dirTargets, List.mem_flatMap, mem_pushesOf, mem_dirOf]
  constructor
  · rintro ⟨c, hc, h1, h2⟩; exact ⟨⟨c, hc, h1⟩, h2⟩
  · rintro ⟨⟨c, hc, h1⟩, h2⟩; exact ⟨c, hc, h1, h2⟩

theorem mem_moduleOf {t : Tree} {d : Dir} {c : CompData} (h : c ∈ moduleOf t d) :
    ∃ f ∈ d.files, f.hasRoot = true ∧
      c = { name := f.stem, super := f.root.typeName,
            imports := [.builtins, .dir d.path] ++ f.imports.filterMap (importId t d.path) } := by
  obtain ⟨f, hf, h⟩ := List.mem_filterMap.1 h
  unfold componentOf at h
  split at h
  · rename_i h1; cases h; exact ⟨f, hf, h1, rfl⟩
  · cases h

/-- a directory named by a component of directory `d`: `d` itself or a string import that resolves -/
theorem mem_dirTargets {t : Tree} {d : Dir} {q : Path} :
    q ∈ dirTargets (moduleOf t d) ↔
      ∃ f ∈ d.files, f.hasRoot = true ∧ (q = d.path ∨ ∃ segs, Import.dir segs ∈ f.imports ∧ resolve t d.path segs = some q) := by
  simp only [dirTargets, List.mem_flatMap, mem_dirOf]
  constructor
  · rintro ⟨c, hc, hq⟩
    obtain ⟨f, hf, hr, rfl⟩ := mem_moduleOf hc
    refine ⟨f, hf, hr, ?_⟩
    simp only [List.mem_cons, reduceCtorEq, ModuleId.dir.injEq, false_or,
      List.mem_filterMap, List.cons_append, List.nil_append] at hq
    rcases hq with hq | ⟨imp, himp, hq⟩
    · exact .inl hq
    · cases imp with
      | named n => simp [importId] at hq
      | dir segs =>
        simp only [importId, Option.map_eq_some_iff] at hq
        obtain ⟨q', hq', hq''⟩ := hq
        cases hq''
        exact .inr ⟨segs, himp, hq'⟩
  · rintro ⟨f, hf, hr, hq⟩
    refine ⟨_, List.mem_filterMap.2 ⟨f, hf, by simp [componentOf, hr]; rfl⟩, ?_⟩
    simp only [List.mem_cons, reduceCtorEq, ModuleId.dir.injEq, false_or, List.mem_filterMap]
    rcases hq with hq | ⟨segs, hs, hq⟩
    · exact .inl hq
    · exact .inr ⟨.dir segs, hs, by simp [importId, hq]⟩

theorem dirTargets_isDir {t : Tree} {d : Dir} {q : Path} (hd : isDir t d.path = true)
    (h : q ∈ dirTargets (moduleOf t d)) : isDir t q = true := by
  obtain ⟨f, _, _, h | ⟨segs, _, h⟩⟩ := mem_dirTargets.1 h
  · subst h; exact hd
  · exact resolve_isDir h

/-! ### reachability at the level of the model -/

def MEdge (t : Tree) (p q : Path) : Prop := ∃ d, findDir t p = some d ∧ q ∈ dirTargets (moduleOf t d)

inductive MReach (t : Tree) (srcs : List Path) : Path → Prop where
  | src {p} : p ∈ srcs → MReach t srcs p
  | step {p q} : MReach t srcs p → MEdge t p q → MReach t srcs q

theorem MReach.mono {t : Tree} {srcs srcs' : List Path} (h : ∀ p ∈ srcs, p ∈ srcs') {p : Path}
    (hp : MReach t srcs p) : MReach t srcs' p := by
  induction hp with
  | src hs => exact .src (h _ hs)
  | step _ he ih => exact .step ih he

/-! ### the work-list invariant -/

structure Inv (t : Tree) (srcs : List Path) (s : PState) : Prop where
  modsSound : ∀ e ∈ s.mods, MReach t srcs e.1 ∧ ∃ d, findDir t e.1 = some d ∧ e.2 = moduleOf t d
  pendReach : ∀ p ∈ s.pending, MReach t srcs p
  pendDir : ∀ p ∈ s.pending, isDir t p = true
  closed : ∀ e ∈ s.mods, ∀ q, MEdge t e.1 q → s.mods.contains q = true ∨ q ∈ s.pending
  srcsIn : ∀ p ∈ srcs, s.mods.contains p = true ∨ p ∈ s.pending

theorem inv_init {t : Tree} {srcs : List Path} (h : ∀ p ∈ srcs, isDir t p = true) : Inv t srcs (initState srcs) where
  modsSound := by simp [initState]
  pendReach := by intro p hp; exact .src (by simpa [initState] using hp)
  pendDir := by intro p hp; exact h p (by simpa [initState] using hp)
  closed := by simp [initState]
  srcsIn := by intro p hp; exact .inr (by simpa [initState] using hp)

theorem inv_step {t : Tree} {srcs : List Path} {s s' : PState} (hi : Inv t srcs s) (hs : step t s = .next s') :
    Inv t srcs s' := by
  unfold step at hs
  split at hs
  · cases hs
  · rename_i b rest hpend
    have hb : b ∈ s.pending := by rw [hpend]; exact List.mem_cons_self
    have hsub : ∀ p ∈ rest, p ∈ s.pending := by intro p hp; rw [hpend]; exact List.mem_cons_of_mem _ hp
    split at hs
    · -- already visited
      rename_i hcont
      cases hs
      refine ⟨hi.modsSound, fun p hp => hi.pendReach p (hsub p hp), fun p hp => hi.pendDir p (hsub p hp), ?_, ?_⟩
      · intro e he q hq
        rcases hi.closed e he q hq with h | h
        · exact .inl h
        · rw [hpend] at h
          rcases List.mem_cons.1 h with h | h
          · subst h; exact .inl hcont
          · exact .inr h
      · intro p hp
        rcases hi.srcsIn p hp with h | h
        · exact .inl h
        · rw [hpend] at h
          rcases List.mem_cons.1 h with h | h
          · subst h; exact .inl hcont
          · exact .inr h
    · rename_i hcont
      split at hs
      · cases hs
      · rename_i d hd
        cases hs
        have hbdir := hi.pendDir b hb
        have hdp := (findDir_some hd).2
        refine ⟨?_, ?_, ?_, ?_, ?_⟩
        · intro e he
          rcases List.mem_append.1 he with he | he
          · exact hi.modsSound e he
          · simp only [List.mem_singleton] at he
            subst he
            exact ⟨hi.pendReach b hb, d, hd, rfl⟩
        · intro p hp
          rcases List.mem_append.1 hp with hp | hp
          · have := (mem_pushes.1 (List.mem_reverse.1 hp)).1
            exact .step (hi.pendReach b hb) ⟨d, hd, this⟩
          · exact hi.pendReach p (hsub p hp)
        · intro p hp
          rcases List.mem_append.1 hp with hp | hp
          · have := (mem_pushes.1 (List.mem_reverse.1 hp)).1
            exact dirTargets_isDir (by rw [hdp]; exact hbdir) this
          · exact hi.pendDir p (hsub p hp)
        · intro e he q hq
          simp only [contains_append, List.mem_append, List.mem_reverse]
          rcases List.mem_append.1 he with he | he
          · rcases hi.closed e he q hq with h | h
            · exact .inl (.inl h)
            · rw [hpend] at h
              rcases List.mem_cons.1 h with h | h
              · exact .inl (.inr h)
              · exact .inr (.inr h)
          · simp only [List.mem_singleton] at he
            subst he
            obtain ⟨d', hd', hq⟩ := hq
            simp only at hd'
            rw [hd] at hd'; cases hd'
            by_cases hc : s.mods.contains q = true
            · exact .inl (.inl hc)
            · exact .inr (.inl (mem_pushes.2 ⟨hq, by simpa using hc⟩))
        · intro p hp
          simp only [contains_append, List.mem_append, List.mem_reverse]
          rcases hi.srcsIn p hp with h | h
          · exact .inl (.inl h)
          · rw [hpend] at h
            rcases List.mem_cons.1 h with h | h
            · exact .inl (.inr h)
            · exact .inr (.inr h)

theorem inv_done {t : Tree} {srcs : List Path} {s : PState} {r : PopResult} (hi : Inv t srcs s)
    (hs : step t s = .done r) : r = .ok s.mods ∧ s.pending = [] := by
  unfold step at hs
  split at hs
  · rename_i h; cases hs; exact ⟨rfl, h⟩
  · rename_i b rest hpend
    split at hs
    · cases hs
    · split at hs
      · rename_i hnone
        have := hi.pendDir b (by rw [hpend]; exact List.mem_cons_self)
        simp [isDir, hnone] at this
      · cases hs

/-- What the work-list returns, from any state satisfying the invariant. -/
theorem run_spec {t : Tree} {srcs : List Path} : ∀ (n : Nat) (s : PState) (r : PopResult),
    Inv t srcs s → run t n s = some r →
    ∃ ms, r = .ok ms ∧ (∀ p, ms.contains p = true ↔ MReach t srcs p) ∧
      (∀ e ∈ ms, ∃ d, findDir t e.1 = some d ∧ e.2 = moduleOf t d) := by
  intro n
  induction n with
  | zero => intro s r _ h; simp [run] at h
  | succ n ih =>
    intro s r hi h
    unfold run at h
    split at h
    · rename_i r' hs
      cases h
      obtain ⟨hr, hp⟩ := inv_done hi hs
      refine ⟨s.mods, hr, ?_, fun e he => (hi.modsSound e he).2⟩
      intro p
      constructor
      · intro hc
        obtain ⟨e, he, rfl⟩ := contains_iff.1 hc
        exact (hi.modsSound e he).1
      · intro hr
        induction hr with
        | src hs' =>
          rcases hi.srcsIn _ hs' with h | h
          · exact h
          · simp [hp] at h
        | step _ he ih' =>
          obtain ⟨e, hmem, rfl⟩ := contains_iff.1 ih'
          rcases hi.closed e hmem _ he with h | h
          · exact h
          · simp [hp] at h
    · rename_i s' hs
      exact ih s' r (inv_step hi hs) h

/-! ### termination -/

theorem filter_length_lt {α} (p q : α → Bool) (l : List α) (a : α) (himp : ∀ x ∈ l, q x = true → p x = true)
    (ha : a ∈ l) (hpa : p a = true) (hqa : q a = false) : (l.filter q).length < (l.filter p).length := by
  induction l with
  | nil => cases ha
  | cons x xs ih =>
    have hle : (xs.filter q).length ≤ (xs.filter p).length := by
      clear ih ha
      induction xs with
      | nil => simp
      | cons y ys ih2 =>
        have h1 := himp y (by simp)
        have := ih2 (fun z hz => himp z (by
          rcases List.mem_cons.1 hz with h | h
          · subst h; simp
          · simp [h]))
        by_cases hq : q y = true
        · simp [hq, h1 hq]; omega
        · by_cases hp : p y = true
          · simp [hq, hp]; omega
          · simp [hq, hp]; omega
    rcases List.mem_cons.1 ha with h | h
    · subst h
      simp [hpa, hqa]; omega
    · have := ih (fun z hz => himp z (List.mem_cons_of_mem _ hz)) h
      have h1 := himp x List.mem_cons_self
      by_cases hq : q x = true
      · simp [hq, h1 hq]; omega
      · by_cases hp : p x = true
        · simp [hq, hp]; omega
        · simp [hq, hp]; omega

def unvisited (t : Tree) (mods : DirMap) : Nat := (t.filter fun d => !mods.contains d.path).length

def measure (t : Tree) (s : PState) : Nat := s.pending.length + (pushBound t + 1) * unvisited t s.mods

theorem sum_le_of_mem {l : List Nat} {a : Nat} (h : a ∈ l) : a ≤ l.sum := by
  induction l with
  | nil => cases h
  | cons x xs ih =>
    rcases List.mem_cons.1 h with h | h
    · subst h; simp
    · have := ih h; simp; omega

theorem pushesOf_component_le (t : Tree) (base : Path) (mods : DirMap) (f : File) :
    (match componentOf t base f with
      | some c => (pushesOf mods c).length
      | none => 0) ≤ f.imports.length + 2 := by
  cases hc : componentOf t base f with
  | none => simp
  | some c =>
    simp only
    unfold componentOf at hc
    split at hc
    · cases hc
      unfold pushesOf
      refine Nat.le_trans (List.length_filterMap_le _ _) ?_
      have := List.length_filterMap_le (importId t base) f.imports
      simp only [List.length_append, List.length_cons, List.length_nil]
      omega
    · cases hc

theorem pushes_length_le {t : Tree} {d : Dir} (hd : d ∈ t) (mods : DirMap) :
    ((moduleOf t d).flatMap (pushesOf mods)).length ≤ pushBound t := by
  have h1 : ∀ fs : List File, ((fs.filterMap (componentOf t d.path)).flatMap (pushesOf mods)).length
      ≤ (fs.map fun f => f.imports.length + 2).sum := by
    intro fs
    induction fs with
    | nil => simp
    | cons f fs ih =>
      have h2 := pushesOf_component_le t d.path mods f
      simp only [List.filterMap_cons, List.map_cons, List.sum_cons]
      cases hc : componentOf t d.path f with
      | none => simp only; omega
      | some c =>
        rw [hc] at h2
        simp only [List.flatMap_cons, List.length_append] at h2 ⊢
        omega
  have h2 : (d.files.map fun f => f.imports.length + 2).sum ≤ pushBound t := by
    unfold pushBound
    exact sum_le_of_mem (List.mem_map.2 ⟨d, hd, rfl⟩)
  have := h1 d.files
  unfold moduleOf
  omega

theorem measure_step {t : Tree} {s s' : PState} (hs : step t s = .next s') : measure t s' < measure t s := by
  unfold step at hs
  split at hs
  · cases hs
  · rename_i b rest hpend
    split at hs
    · cases hs
      simp [measure, hpend]
    · rename_i hcont
      split at hs
      · cases hs
      · rename_i d hd
        cases hs
        obtain ⟨hdt, hdp⟩ := findDir_some hd
        have hlen := pushes_length_le hdt s.mods
        have hun : unvisited t (s.mods ++ [(b, moduleOf t d)]) < unvisited t s.mods := by
          unfold unvisited
          apply filter_length_lt _ _ t d
          · intro x _ hx
            simp only [Bool.not_eq_eq_eq_not, Bool.not_true] at hx ⊢
            cases hc : s.mods.contains x.path with
            | false => rfl
            | true =>
              have : (s.mods ++ [(b, moduleOf t d)]).contains x.path = true := contains_append.2 (.inl hc)
              rw [this] at hx; cases hx
          · exact hdt
          · rw [hdp]; simpa using hcont
          · have : (s.mods ++ [(b, moduleOf t d)]).contains d.path = true := contains_append.2 (.inr hdp)
            simp [this]
        simp only [measure, hpend, List.length_append, List.length_reverse, List.length_cons]
        have hmul : (pushBound t + 1) * (unvisited t (s.mods ++ [(b, moduleOf t d)]) + 1)
            ≤ (pushBound t + 1) * unvisited t s.mods := Nat.mul_le_mul_left _ hun
        rw [Nat.mul_succ] at hmul
        omega

theorem run_isSome {t : Tree} : ∀ (n : Nat) (s : PState), measure t s < n → (run t n s).isSome = true := by
  intro n
  induction n with
  | zero => intro s h; omega
  | succ n ih =>
    intro s h
    unfold run
    split
    · rfl
    · rename_i s' hs
      exact ih s' (by have := measure_step hs; omega)

theorem measure_init_lt (t : Tree) (srcs : List Path) : measure t (initState srcs) < fuelBound t srcs := by
  simp only [measure, initState, fuelBound, List.length_reverse]
  have : unvisited t [] ≤ t.length := by unfold unvisited; exact List.length_filter_le _ _
  have := Nat.mul_le_mul_left (pushBound t + 1) this
  omega

/-- more fuel does not change the answer -/
theorem run_mono {t : Tree} : ∀ (n k : Nat) (s : PState) (r : PopResult), run t n s = some r → run t (n + k) s = some r := by
  intro n
  induction n with
  | zero => intro k s r h; simp [run] at h
  | succ n ih =>
    intro k s r h
    rw [Nat.add_right_comm]
    simp only [run] at h ⊢
    cases hs : step t s with
    | done r' => rw [hs] at h; simpa using h
    | next s' => rw [hs] at h; exact ih k s' r h

/-! ### tie to the specification: path resolution and reachability -/

open QV.Spec.QmlDir (FS Resolves Edge Reach)

def dirSegs : Import → Option (List String)
  | .dir segs => some segs
  | .named _ => none

/-- the specification's view of a tree -/
def specOf (t : Tree) : FS where
  isDir := isDir t
  imports p := match findDir t p with
    | some d => (d.files.filter (·.hasRoot)).flatMap fun f => f.imports.filterMap dirSegs
    | none => []

theorem walk_resolves (t : Tree) : ∀ (segs : List String) (p q : Path),
    walk t p segs = some q → Resolves (specOf t) p segs q := by
  intro segs
  induction segs with
  | nil => intro p q h; simp [walk] at h; subst h; exact .done
  | cons seg rest ih =>
    intro p q h
    unfold walk at h
    split at h
    · rename_i h1; exact .stay h1 (ih _ _ h)
    · rename_i h1
      split at h
      · rename_i h2; subst h2; exact .up (ih _ _ h)
      · rename_i h2
        split at h
        · rename_i h3; exact .down h1 h2 h3 (ih _ _ h)
        · cases h

theorem resolves_walk (t : Tree) {segs : List String} {p q : Path} (h : Resolves (specOf t) p segs q) :
    walk t p segs = some q := by
  induction h with
  | done => simp [walk]
  | stay h1 _ ih => unfold walk; rw [if_pos h1]; exact ih
  | up _ ih =>
    unfold walk
    rw [if_neg (by decide), if_pos rfl]; exact ih
  | down h1 h2 h3 _ ih =>
    unfold walk
    have h3' : isDir t _ = true := h3
    rw [if_neg h1, if_neg h2, if_pos h3']; exact ih

/-- the model's `resolve` is the specification's `Resolves` ending in a directory -/
theorem resolve_iff (t : Tree) (p q : Path) (segs : List String) :
    resolve t p segs = some q ↔ Resolves (specOf t) p segs q ∧ (specOf t).isDir q = true := by
  constructor
  · intro h
    have hd := resolve_isDir h
    unfold resolve at h
    split at h
    · rename_i p' hw
      split at h
      · cases h; exact ⟨walk_resolves t _ _ _ hw, hd⟩
      · cases h
    · cases h
  · rintro ⟨h1, h2⟩
    unfold resolve
    rw [resolves_walk t h1]
    have h2' : isDir t q = true := h2
    simp only
    rw [if_pos h2']

theorem mem_dirSegs {l : List Import} {segs : List String} : segs ∈ l.filterMap dirSegs ↔ Import.dir segs ∈ l := by
  constructor
  · intro h
    obtain ⟨i, hi, h⟩ := List.mem_filterMap.1 h
    cases i <;> simp [dirSegs] at h
    subst h; exact hi
  · intro h; exact List.mem_filterMap.2 ⟨_, h, rfl⟩

theorem edge_iff (t : Tree) (p q : Path) :
    Edge (specOf t) p q ↔ ∃ d, findDir t p = some d ∧ ∃ f ∈ d.files, f.hasRoot = true ∧
      ∃ segs, Import.dir segs ∈ f.imports ∧ resolve t p segs = some q := by
  constructor
  · rintro ⟨hs, hr, hd⟩
    simp only [specOf] at hs
    split at hs
    · rename_i d hfd
      obtain ⟨f, hf, hs⟩ := List.mem_flatMap.1 hs
      obtain ⟨hf1, hf2⟩ := List.mem_filter.1 hf
      exact ⟨d, hfd, f, hf1, hf2, _, mem_dirSegs.1 hs, (resolve_iff t _ _ _).2 ⟨hr, hd⟩⟩
    · cases hs
  · rintro ⟨d, hfd, f, hf, hr, segs, hs, hres⟩
    obtain ⟨h1, h2⟩ := (resolve_iff t _ _ _).1 hres
    refine .imp ?_ h1 h2
    simp only [specOf, hfd]
    exact List.mem_flatMap.2 ⟨f, List.mem_filter.2 ⟨hf, hr⟩, mem_dirSegs.2 hs⟩

theorem medge_iff (t : Tree) (p q : Path) :
    MEdge t p q ↔ (∃ d, findDir t p = some d ∧ (∃ f ∈ d.files, f.hasRoot = true) ∧ q = p) ∨ Edge (specOf t) p q := by
  rw [edge_iff]
  constructor
  · rintro ⟨d, hfd, hq⟩
    have hdp := (findDir_some hfd).2
    obtain ⟨f, hf, hr, h | ⟨segs, hs, h⟩⟩ := mem_dirTargets.1 hq
    · exact .inl ⟨d, hfd, ⟨f, hf, hr⟩, by rw [h, hdp]⟩
    · exact .inr ⟨d, hfd, f, hf, hr, segs, hs, by rw [← hdp]; exact h⟩
  · rintro (⟨d, hfd, ⟨f, hf, hr⟩, h⟩ | ⟨d, hfd, f, hf, hr, segs, hs, h⟩)
    · have hdp := (findDir_some hfd).2
      exact ⟨d, hfd, mem_dirTargets.2 ⟨f, hf, hr, .inl (by rw [h, hdp])⟩⟩
    · have hdp := (findDir_some hfd).2
      exact ⟨d, hfd, mem_dirTargets.2 ⟨f, hf, hr, .inr ⟨segs, hs, by rw [hdp]; exact h⟩⟩⟩

theorem mreach_iff_reach (t : Tree) (srcs : List Path) (p : Path) :
    MReach t srcs p ↔ Reach (specOf t) srcs p := by
  constructor
  · intro h
    induction h with
    | src hs => exact .src hs
    | step _ he ih =>
      rcases (medge_iff t _ _).1 he with ⟨_, _, _, h⟩ | h
      · subst h; exact ih
      · exact .step ih h
  · intro h
    induction h with
    | src hs => exact .src hs
    | step _ he ih => exact .step ih ((medge_iff t _ _).2 (.inr he))

/-! ### custom widgets -/

theorem mem_uniq {α} [DecidableEq α] {x : α} : ∀ {l seen : List α}, x ∈ uniq seen l ↔ x ∈ l ∧ x ∉ seen := by
  intro l
  induction l with
  | nil => intro seen; simp [uniq]
  | cons y ys ih =>
    intro seen
    unfold uniq
    split
    · rename_i hy
      rw [ih]
      constructor
      · rintro ⟨h1, h2⟩; exact ⟨List.mem_cons_of_mem _ h1, h2⟩
      · rintro ⟨h1, h2⟩
        rcases List.mem_cons.1 h1 with h | h
        · subst h; exact absurd hy h2
        · exact ⟨h, h2⟩
    · rename_i hy
      rw [List.mem_cons, ih]
      constructor
      · rintro (h | ⟨h1, h2⟩)
        · subst h; exact ⟨List.mem_cons_self, hy⟩
        · exact ⟨List.mem_cons_of_mem _ h1, fun h => h2 (List.mem_cons_of_mem _ h)⟩
      · rintro ⟨h1, h2⟩
        rcases List.mem_cons.1 h1 with h | h
        · exact .inl h
        · by_cases hxy : x = y
          · exact .inl hxy
          · exact .inr ⟨h, fun h' => by
              rcases List.mem_cons.1 h' with h' | h'
              · exact hxy h'
              · exact h2 h'⟩

theorem uniq_nodup {α} [DecidableEq α] : ∀ (l seen : List α), (uniq seen l).Nodup := by
  intro l
  induction l with
  | nil => intro seen; simp [uniq]
  | cons y ys ih =>
    intro seen
    unfold uniq
    split
    · exact ih seen
    · rw [List.nodup_cons]
      refine ⟨?_, ih _⟩
      intro h
      exact (mem_uniq.1 h).2 List.mem_cons_self

def compKey (n : Obj × Cls) : Option (Path × CompData) :=
  match n.2 with
  | .comp d c => some (d, c)
  | .qt _ => none

theorem customKeys_eq (nodes : List (Obj × Cls)) : customKeys nodes = uniq [] (nodes.filterMap compKey) := rfl

theorem mem_customKeys {nodes : List (Obj × Cls)} {k : Path × CompData} :
    k ∈ customKeys nodes ↔ ∃ o, (o, Cls.comp k.1 k.2) ∈ nodes := by
  rw [customKeys_eq, mem_uniq]
  simp only [List.not_mem_nil, not_false_eq_true, and_true, List.mem_filterMap]
  constructor
  · rintro ⟨⟨o, c⟩, hn, h⟩
    cases c with
    | qt q => simp [compKey] at h
    | comp d c => simp only [compKey, Option.some.injEq] at h; subst h; exact ⟨o, hn⟩
  · rintro ⟨o, h⟩; exact ⟨_, h, rfl⟩

theorem mem_customWidgets {env : Env} {look : Path → Option Module} {nodes : List (Obj × Cls)} {w : CustomWidget} :
    w ∈ customWidgets env look nodes ↔
      ∃ d c s, (∃ o, (o, Cls.comp d c) ∈ nodes) ∧ superClass env look c = .ok s ∧
        w = { cls := c.name, ext := s.name, header := headerName c.name } := by
  unfold customWidgets
  rw [List.mem_filterMap]
  constructor
  · rintro ⟨⟨d, c⟩, hk, h⟩
    unfold customOf at h
    split at h
    · rename_i s hs; cases h; exact ⟨d, c, s, mem_customKeys.1 hk, hs, rfl⟩
    · cases h
  · rintro ⟨d, c, s, ho, hs, rfl⟩
    exact ⟨(d, c), mem_customKeys.2 ho, by simp [customOf, hs]⟩

theorem nodup_map_filterMap {α β γ} (g : α → Option β) (h : β → γ) : ∀ (l : List α), l.Nodup →
    (∀ a ∈ l, ∀ a' ∈ l, ∀ b b', g a = some b → g a' = some b' → h b = h b' → a = a') →
    ((l.filterMap g).map h).Nodup := by
  intro l
  induction l with
  | nil => intro _ _; simp
  | cons x xs ih =>
    intro hn hinj
    obtain ⟨hx, hxs⟩ := List.nodup_cons.1 hn
    have ih' := ih hxs (fun a ha a' ha' => hinj a (List.mem_cons_of_mem _ ha) a' (List.mem_cons_of_mem _ ha'))
    rw [List.filterMap_cons]
    cases hg : g x with
    | none => simpa using ih'
    | some b =>
      simp only [List.map_cons, List.nodup_cons]
      refine ⟨?_, ih'⟩
      intro hmem
      obtain ⟨b', hb', hbb⟩ := List.mem_map.1 hmem
      obtain ⟨a', ha', hga'⟩ := List.mem_filterMap.1 hb'
      have := hinj x List.mem_cons_self a' (List.mem_cons_of_mem _ ha') b b' hg hga' hbb.symm
      subst this
      exact hx ha'

/-- no class name is listed twice, provided equal names mean the same component among the nodes -/
theorem customWidgets_nodup {env : Env} {look : Path → Option Module} {nodes : List (Obj × Cls)}
    (hinj : ∀ o₁ d₁ c₁ o₂ d₂ c₂, (o₁, Cls.comp d₁ c₁) ∈ nodes → (o₂, Cls.comp d₂ c₂) ∈ nodes →
      c₁.name = c₂.name → (d₁, c₁) = (d₂, c₂)) :
    ((customWidgets env look nodes).map (·.cls)).Nodup := by
  unfold customWidgets
  apply nodup_map_filterMap _ _ _ (by rw [customKeys_eq]; exact uniq_nodup _ _)
  intro a ha a' ha' b b' hb hb' hbb
  obtain ⟨o, ho⟩ := mem_customKeys.1 ha
  obtain ⟨o', ho'⟩ := mem_customKeys.1 ha'
  have h1 : b.cls = a.2.name := by
    unfold customOf at hb; split at hb
    · cases hb; rfl
    · cases hb
  have h2 : b'.cls = a'.2.name := by
    unfold customOf at hb'; split at hb'
    · cases hb'; rfl
    · cases hb'
  exact hinj o a.1 a.2 o' a'.1 a'.2 ho ho' (by rw [← h1, ← h2]; exact hbb)

/-! ### lookups -/

theorem findComp_some {m : Module} {name : String} {c : CompData} (h : findComp m name = some c) :
    c ∈ m ∧ c.name = name := by
  unfold findComp at h
  have h1 := List.mem_of_find?_eq_some h
  have h2 := List.find?_some h
  exact ⟨List.mem_reverse.1 h1, by simpa using h2⟩

theorem lookupRev_comp {env : Env} {look : Path → Option Module} {name : String} {p : Path} {c : CompData} :
    ∀ {ids : List ModuleId}, lookupRev env look ids name = .ok (.comp p c) →
      ModuleId.dir p ∈ ids ∧ ∃ m, look p = some m ∧ findComp m name = some c := by
  intro ids
  induction ids with
  | nil => intro h; simp [lookupRev] at h
  | cons id rest ih =>
    intro h
    unfold lookupRev at h
    split at h
    · obtain ⟨h1, h2⟩ := ih h; exact ⟨List.mem_cons_of_mem _ h1, h2⟩
    · split at h
      · split at h
        · cases h
        · obtain ⟨h1, h2⟩ := ih h; exact ⟨List.mem_cons_of_mem _ h1, h2⟩
      · cases h
    · split at h
      · cases h
      · rename_i p' m hm
        split at h
        · rename_i c' hc
          cases h
          exact ⟨List.mem_cons_self, m, hm, hc⟩
        · obtain ⟨h1, h2⟩ := ih h; exact ⟨List.mem_cons_of_mem _ h1, h2⟩

theorem getType_comp {env : Env} {look : Path → Option Module} {ids : List ModuleId} {name : String} {p : Path}
    {c : CompData} (h : getType env look ids name = .ok (.comp p c)) :
    ModuleId.dir p ∈ ids ∧ ∃ m, look p = some m ∧ c ∈ m ∧ c.name = name := by
  obtain ⟨h1, m, hm, hc⟩ := lookupRev_comp h
  exact ⟨List.mem_reverse.1 h1, m, hm, findComp_some hc⟩

theorem superClass_comp {env : Env} {look : Path → Option Module} {c c' : CompData} {p : Path}
    (h : superClass env look c = .ok (.comp p c')) :
    ModuleId.dir p ∈ c.imports ∧ ∃ m, look p = some m ∧ c' ∈ m ∧ c'.name = c.super := by
  unfold superClass at h
  split at h
  · cases h
  · cases h
  · rename_i s hs; cases h; exact getType_comp hs

/-! ### the base-class walk terminates -/

/-- every component of every directory of the tree -/
def allComps (t : Tree) : List (Path × CompData) := t.flatMap fun d => (moduleOf t d).map fun c => (d.path, c)

/-- the type map holds nothing but modules of the tree's directories -/
def SoundLook (t : Tree) (look : Path → Option Module) : Prop :=
  ∀ p m, look p = some m → ∃ d ∈ t, d.path = p ∧ m = moduleOf t d

theorem allComps_length_le (t : Tree) : (allComps t).length ≤ fileCount t := by
  have h : ∀ ds : List Dir, (ds.flatMap fun d => (moduleOf t d).map fun c => (d.path, c)).length
      ≤ (ds.map fun d => d.files.length).sum := by
    intro ds
    induction ds with
    | nil => simp
    | cons d ds ih =>
      simp only [List.flatMap_cons, List.length_append, List.length_map, List.map_cons, List.sum_cons]
      have : (moduleOf t d).length ≤ d.files.length := by
        unfold moduleOf; exact List.length_filterMap_le _ _
      omega
  exact h t

theorem mem_allComps {t : Tree} {look : Path → Option Module} (hs : SoundLook t look) {p : Path} {m : Module}
    {c : CompData} (hm : look p = some m) (hc : c ∈ m) : (p, c) ∈ allComps t := by
  obtain ⟨d, hd, hp, rfl⟩ := hs p m hm
  exact List.mem_flatMap.2 ⟨d, hd, List.mem_map.2 ⟨c, hc, by rw [hp]⟩⟩

def unseen (t : Tree) (visited : List (Path × CompData)) : Nat :=
  ((allComps t).filter fun k => !decide (k ∈ visited)).length

theorem baseClasses_isSome {env : Env} {t : Tree} {look : Path → Option Module} (hs : SoundLook t look) :
    ∀ (n : Nat) (visited : List (Path × CompData)) (c : CompData), unseen t visited < n →
      (baseClasses env look n visited c).isSome = true := by
  intro n
  induction n with
  | zero => intro v c h; omega
  | succ n ih =>
    intro v c h
    unfold baseClasses
    split
    · rfl
    · rfl
    · rename_i d' c' hsup
      split
      · rfl
      · rename_i hv
        obtain ⟨_, m, hm, hc, _⟩ := superClass_comp hsup
        have hmem := mem_allComps hs hm hc
        have hlt : unseen t ((d', c') :: v) < unseen t v := by
          unfold unseen
          apply filter_length_lt _ _ _ (d', c')
          · intro x _ hx
            simp only [Bool.not_eq_eq_eq_not, Bool.not_true, decide_eq_false_iff_not, List.mem_cons, not_or] at hx ⊢
            exact hx.2
          · exact hmem
          · simpa using hv
          · simp
        have := ih ((d', c') :: v) c' (by omega)
        simpa [Option.isSome_map] using this

/-- **the walk over mutually inheriting components ends within the fuel `basesOf` provides** -/
theorem basesOf_isSome {env : Env} {t : Tree} {look : Path → Option Module} (hs : SoundLook t look) (c : CompData) :
    (basesOf env t look c).isSome = true := by
  unfold basesOf
  apply baseClasses_isSome hs
  have h1 : unseen t [] ≤ (allComps t).length := by unfold unseen; exact List.length_filter_le _ _
  have h2 := allComps_length_le t
  omega

theorem clsBases_isSome {env : Env} {t : Tree} {look : Path → Option Module} (hs : SoundLook t look) (c : Cls) :
    (clsBases env t look c).isSome = true := by
  cases c with
  | qt q => rfl
  | comp d c => exact basesOf_isSome hs c

theorem infos_isSome {env : Env} {t : Tree} {look : Path → Option Module} (hs : SoundLook t look) :
    ∀ nodes : List (Obj × Cls), (infos env t look nodes).isSome = true := by
  intro nodes
  induction nodes with
  | nil => rfl
  | cons n rest ih =>
    unfold infos
    have h1 := clsBases_isSome (env := env) hs n.2
    obtain ⟨b, hb⟩ := Option.isSome_iff_exists.1 h1
    obtain ⟨r, hr⟩ := Option.isSome_iff_exists.1 ih
    rw [hb, hr]; rfl

theorem infos_length {env : Env} {t : Tree} {look : Path → Option Module} :
    ∀ (nodes : List (Obj × Cls)) (l : List NodeInfo), infos env t look nodes = some l → l.length = nodes.length := by
  intro nodes
  induction nodes with
  | nil => intro l h; simp [infos] at h; subst h; rfl
  | cons n rest ih =>
    intro l h
    unfold infos at h
    split at h
    · rename_i b r hb hr; cases h; simp [ih r hr]
    · cases h

/-- translation never runs out of fuel on a sound type map -/
theorem translate_isSome {env : Env} {t : Tree} {look : Path → Option Module} (hs : SoundLook t look)
    (base : Path) (f : File) : (translate env t look base f).isSome = true := by
  unfold translate
  simp only
  split
  · rfl
  · rfl
  · rename_i rootCls _
    obtain ⟨kids, hk⟩ := Option.isSome_iff_exists.1 (infos_isSome (env := env) hs (kidNodes env look _ f))
    obtain ⟨r, hr⟩ := Option.isSome_iff_exists.1 (infos_isSome (env := env) hs [(f.root, rootCls)])
    have hlen := infos_length _ _ hr
    rw [hk, hr]
    match r, hlen with
    | [root], _ => rfl

/-! ### the shape of a built translation -/

/-- the class test reports errors only: if all its diagnostics are warnings there are none -/
theorem classDiag_of_warnings {isRoot : Bool} {n : NodeInfo} (h : ∀ d ∈ classDiag isRoot n, d.isWarning = true) :
    classDiag isRoot n = [] := by
  unfold classDiag at h ⊢
  split
  · split
    · rfl
    · rename_i hr hw
      have := h (.notQWidget n.cls.name) (by simp [hr, hw])
      simp [Diag.isWarning] at this
  · split
    · rfl
    · rename_i hr hw
      have := h (.notActionLayoutWidget n.cls.name) (by simp [hr, hw])
      simp [Diag.isWarning] at this

theorem accepted_iff {o : Output} : o.accepted = true ↔ o.built = true ∧ ∀ d ∈ o.diags, d.isWarning = true := by
  simp [Output.accepted, List.all_eq_true]

theorem translate_built {env : Env} {t : Tree} {look : Path → Option Module} {base : Path} {f : File} {o : Output}
    (h : translate env t look base f = some o) (hb : o.built = true) :
    ∃ rootCls kids root,
      getType env look (docSpace env t look base f.imports).1 f.root.typeName = .ok rootCls ∧
      infos env t look (kidNodes env look (docSpace env t look base f.imports).1 f) = some kids ∧
      infos env t look [(f.root, rootCls)] = some [root] ∧
      o.customs = customWidgets env look (nodesOf env look (docSpace env t look base f.imports).1 f rootCls) ∧
      o.widgets = widgetOf root :: kids.map kidWidgetOf ∧
      ((∀ d ∈ o.diags, d.isWarning = true) → classDiag true root = [] ∧ ∀ k ∈ kids, classDiag false k = []) := by
  unfold translate at h
  simp only at h
  split at h
  · cases h; cases hb
  · cases h; cases hb
  · rename_i rootCls hroot
    split at h
    · rename_i kids root hk hr
      cases h
      refine ⟨rootCls, kids, root, hroot, hk, hr, rfl, rfl, ?_⟩
      intro hd
      refine ⟨classDiag_of_warnings fun d hdm => hd d ?_, fun k hk' => classDiag_of_warnings fun d hdm => hd d ?_⟩
      · simp only [List.mem_append]; exact .inl (.inr hdm)
      · simp only [List.mem_append, List.mem_flatMap]; exact .inr ⟨k, hk', hdm⟩
    · cases h

theorem mem_kidNodes {env : Env} {look : Path → Option Module} {sp : List ModuleId} {f : File} {n : Obj × Cls} :
    n ∈ kidNodes env look sp f ↔ n.1 ∈ f.children ∧ getType env look sp n.1.typeName = .ok n.2 := by
  unfold kidNodes kidResults
  simp only [List.mem_filterMap, List.mem_map]
  constructor
  · rintro ⟨r, ⟨o, ho, hr⟩, hn⟩
    subst hr
    split at hn
    · cases hn
    · rename_i n' heq
      cases hn
      split at heq
      · cases heq
      · cases heq
      · rename_i c hc
        cases heq
        exact ⟨ho, hc⟩
  · rintro ⟨ho, hc⟩
    refine ⟨.inr n, ⟨n.1, ho, ?_⟩, rfl⟩
    rw [hc]

theorem mem_nodesOf {env : Env} {look : Path → Option Module} {sp : List ModuleId} {f : File} {rootCls : Cls}
    (hroot : getType env look sp f.root.typeName = .ok rootCls) {n : Obj × Cls}
    (hn : n ∈ nodesOf env look sp f rootCls) :
    (n.1 ∈ f.children ∨ n.1 = f.root) ∧ getType env look sp n.1.typeName = .ok n.2 := by
  unfold nodesOf at hn
  rcases List.mem_append.1 hn with h | h
  · obtain ⟨h1, h2⟩ := mem_kidNodes.1 h; exact ⟨.inl h1, h2⟩
  · simp only [List.mem_singleton] at h; subst h; exact ⟨.inr rfl, hroot⟩

/-- within one document a name denotes one class -/
theorem nodesOf_name_inj {env : Env} {look : Path → Option Module} {sp : List ModuleId} {f : File} {rootCls : Cls}
    (hroot : getType env look sp f.root.typeName = .ok rootCls) :
    ∀ o₁ d₁ c₁ o₂ d₂ c₂, (o₁, Cls.comp d₁ c₁) ∈ nodesOf env look sp f rootCls →
      (o₂, Cls.comp d₂ c₂) ∈ nodesOf env look sp f rootCls → c₁.name = c₂.name → (d₁, c₁) = (d₂, c₂) := by
  intro o₁ d₁ c₁ o₂ d₂ c₂ h1 h2 hn
  have g1 := (mem_nodesOf hroot h1).2
  have g2 := (mem_nodesOf hroot h2).2
  simp only at g1 g2
  obtain ⟨_, _, _, _, e1⟩ := getType_comp g1
  obtain ⟨_, _, _, _, e2⟩ := getType_comp g2
  have : o₁.typeName = o₂.typeName := by rw [← e1, ← e2, hn]
  rw [this, g2] at g1
  cases g1; rfl

theorem infos_mem {env : Env} {t : Tree} {look : Path → Option Module} :
    ∀ (nodes : List (Obj × Cls)) (l : List NodeInfo), infos env t look nodes = some l →
      ∀ n ∈ nodes, ∃ i ∈ l, i.obj = n.1 ∧ i.cls = n.2 ∧ clsBases env t look n.2 = some i.bases := by
  intro nodes
  induction nodes with
  | nil => intro l _ n hn; cases hn
  | cons x rest ih =>
    intro l h n hn
    unfold infos at h
    split at h
    · rename_i b r hb hr
      cases h
      rcases List.mem_cons.1 hn with hn | hn
      · subst hn; exact ⟨_, List.mem_cons_self, rfl, rfl, hb⟩
      · obtain ⟨i, hi, h'⟩ := ih r hr n hn
        exact ⟨i, List.mem_cons_of_mem _ hi, h'⟩
    · cases h

/-- a component that derives from QWidget has a super class that resolves -/
theorem derivesWidget_super_ok {env : Env} {look : Path → Option Module} {n : Nat} {v : List (Path × CompData)}
    {c : CompData} {l : List BaseItem} (h : baseClasses env look n v c = some l) (hw : derivesWidget l = true) :
    ∃ s, superClass env look c = .ok s := by
  cases n with
  | zero => simp [baseClasses] at h
  | succ n =>
    unfold baseClasses at h
    split at h
    · cases h; simp [derivesWidget] at hw
    · rename_i q hq; exact ⟨_, hq⟩
    · rename_i d' c' hq; exact ⟨_, hq⟩

theorem derivesWidget_eq_derivesQt : ∀ l : List BaseItem, derivesWidget l = derivesQt (·.isWidget) l
  | [] => rfl
  | .err _ :: _ => rfl
  | .cls (.qt _) :: _ => rfl
  | .cls (.comp _ _) :: rest => by simp only [derivesWidget, derivesQt]; exact derivesWidget_eq_derivesQt rest

/-- a component that derives from a Qt class with some trait has a super class that resolves -/
theorem derivesQt_super_ok {env : Env} {look : Path → Option Module} {sel : QtClass → Bool} {n : Nat}
    {v : List (Path × CompData)} {c : CompData} {l : List BaseItem} (h : baseClasses env look n v c = some l)
    (hw : derivesQt sel l = true) : ∃ s, superClass env look c = .ok s := by
  cases n with
  | zero => simp [baseClasses] at h
  | succ n =>
    unfold baseClasses at h
    split at h
    · cases h; simp [derivesQt] at hw
    · rename_i q hq; exact ⟨_, hq⟩
    · rename_i d' c' hq; exact ⟨_, hq⟩

/-- what the class test of the form lets through: the root must be a widget, a child a widget, a layout or an action -/
def passesClass (isRoot : Bool) (l : List BaseItem) : Bool :=
  if isRoot then derivesWidget l else (derivesAction l || derivesLayout l || derivesWidget l)

theorem classDiag_nil_iff {isRoot : Bool} {n : NodeInfo} : classDiag isRoot n = [] ↔ passesClass isRoot n.bases = true := by
  unfold classDiag passesClass
  cases isRoot
  · simp only [Bool.false_eq_true, if_false]
    split <;> simp_all
  · simp only [if_true]
    split <;> simp_all

theorem classDiag_nil {isRoot : Bool} {n : NodeInfo} (h : classDiag isRoot n = []) : passesClass isRoot n.bases = true :=
  classDiag_nil_iff.1 h

theorem passesClass_super_ok {env : Env} {look : Path → Option Module} {isRoot : Bool} {n : Nat}
    {v : List (Path × CompData)} {c : CompData} {l : List BaseItem} (h : baseClasses env look n v c = some l)
    (hw : passesClass isRoot l = true) : ∃ s, superClass env look c = .ok s := by
  unfold passesClass at hw
  cases isRoot
  · simp only [Bool.false_eq_true, if_false, Bool.or_eq_true] at hw
    rcases hw with (hw | hw) | hw
    · exact derivesQt_super_ok h (by simpa [derivesAction] using hw)
    · exact derivesQt_super_ok h (by simpa [derivesLayout] using hw)
    · exact derivesWidget_super_ok h hw
  · simp only [if_true] at hw
    exact derivesWidget_super_ok h hw

/-! ### instances accept the properties of the base class -/

/-- `ReachesQt k c q`: following root types from component `c`, `k` components are passed and then the Qt
    class `q` is reached (every step resolved in the respective component's own imports). -/
inductive ReachesQt (env : Env) (look : Path → Option Module) : Nat → CompData → QtClass → Prop where
  | base {c q} : superClass env look c = .ok (.qt q) → ReachesQt env look 0 c q
  | step {c d c' k q} : superClass env look c = .ok (.comp d c') → ReachesQt env look k c' q →
      ReachesQt env look (k + 1) c q

theorem ReachesQt.det {env : Env} {look : Path → Option Module} {k : Nat} {c : CompData} {q : QtClass}
    (h : ReachesQt env look k c q) : ∀ {k' q'}, ReachesQt env look k' c q' → k = k' ∧ q = q' := by
  induction h with
  | base h1 =>
    intro k' q' h'
    cases h' with
    | base h2 => rw [h1] at h2; cases h2; exact ⟨rfl, rfl⟩
    | step h2 _ => rw [h1] at h2; cases h2
  | step h1 _ ih =>
    intro k' q' h'
    cases h' with
    | base h2 => rw [h1] at h2; cases h2
    | step h2 h3 =>
      rw [h1] at h2; cases h2
      obtain ⟨rfl, rfl⟩ := ih h3
      exact ⟨rfl, rfl⟩

theorem baseClasses_mono {env : Env} {look : Path → Option Module} : ∀ (n m : Nat) (v : List (Path × CompData))
    (c : CompData) (l : List BaseItem), baseClasses env look n v c = some l → baseClasses env look (n + m) v c = some l := by
  intro n
  induction n with
  | zero => intro m v c l h; simp [baseClasses] at h
  | succ n ih =>
    intro m v c l h
    rw [Nat.add_right_comm]
    unfold baseClasses at h ⊢
    split at h
    · exact h
    · exact h
    · rename_i d' c' hq
      split at h
      · rename_i hv; rw [if_pos hv]; exact h
      · rename_i hv
        rw [if_neg hv]
        cases hr : baseClasses env look n ((d', c') :: v) c' with
        | none => rw [hr] at h; cases h
        | some l' => rw [hr] at h; rw [ih m _ _ _ hr]; exact h

/-- a property found along the base list was found on a Qt class the chain reaches -/
theorem propIn_found_reaches {env : Env} {look : Path → Option Module} {p : String} : ∀ (n : Nat)
    (v : List (Path × CompData)) (c : CompData) (l : List BaseItem), baseClasses env look n v c = some l →
    propIn p l = .found → ∃ k q, ReachesQt env look k c q ∧ p ∈ q.props := by
  intro n
  induction n with
  | zero => intro v c l h; simp [baseClasses] at h
  | succ n ih =>
    intro v c l h hp
    unfold baseClasses at h
    split at h
    · cases h; simp [propIn] at hp
    · rename_i q hq
      cases h
      simp only [propIn] at hp
      split at hp
      · rename_i hmem; exact ⟨0, q, .base hq, hmem⟩
      · cases hp
    · rename_i d' c' hq
      split at h
      · cases h; simp [propIn] at hp
      · cases hr : baseClasses env look n ((d', c') :: v) c' with
        | none => rw [hr] at h; cases h
        | some l' =>
          rw [hr] at h; cases h
          simp only [propIn] at hp
          obtain ⟨k, q, hk, hmem⟩ := ih _ _ _ hr hp
          exact ⟨k + 1, q, .step hq hk, hmem⟩

/-- if the chain reaches a Qt class, the walk gets there (no visited class can be in the way) -/
theorem reaches_baseClasses {env : Env} {look : Path → Option Module} {p : String} {k : Nat} {c : CompData}
    {q : QtClass} (h : ReachesQt env look k c q) : ∀ (n : Nat) (v : List (Path × CompData)), k < n →
    (∀ x ∈ v, ∀ j q', ReachesQt env look j x.2 q' → k ≤ j) →
    ∃ l, baseClasses env look n v c = some l ∧
      propIn p l = (if p ∈ q.props then .found else .unknown) ∧ derivesWidget l = q.isWidget := by
  induction h with
  | base h1 =>
    intro n v hn _
    cases n with
    | zero => omega
    | succ n =>
      refine ⟨[.cls (.qt _)], ?_, rfl, rfl⟩
      unfold baseClasses; rw [h1]
  | @step c d c' k q h1 h2 ih =>
    intro n v hn hv
    cases n with
    | zero => omega
    | succ n =>
      have hnot : (d, c') ∉ v := by
        intro hmem
        have := hv _ hmem k q h2
        omega
      obtain ⟨l, hl, hp, hw⟩ := ih n ((d, c') :: v) (by omega) (by
        intro x hx j q' hj
        rcases List.mem_cons.1 hx with hx | hx
        · subst hx
          have := (h2.det hj).1
          omega
        · have := hv x hx j q' hj
          omega)
      refine ⟨.cls (.comp d c') :: l, ?_, by simpa [propIn] using hp, by simpa [derivesWidget] using hw⟩
      unfold baseClasses; rw [h1]
      simp only
      rw [if_neg hnot, hl]; rfl

theorem reaches_basesOf {env : Env} {t : Tree} {look : Path → Option Module} (hs : SoundLook t look) {p : String}
    {k : Nat} {c : CompData} {q : QtClass} (h : ReachesQt env look k c q) :
    ∃ l, basesOf env t look c = some l ∧
      propIn p l = (if p ∈ q.props then .found else .unknown) ∧ derivesWidget l = q.isWidget := by
  obtain ⟨l, hl⟩ := Option.isSome_iff_exists.1 (basesOf_isSome (env := env) hs c)
  obtain ⟨l', hl', hp, hw⟩ := reaches_baseClasses (p := p) h (fileCount t + 1 + (k + 1)) [] (by omega) (by simp)
  have := baseClasses_mono (fileCount t + 1) (k + 1) [] c l hl
  rw [this] at hl'; cases hl'
  exact ⟨l, hl, hp, hw⟩

/-- as `reaches_baseClasses`, for any measured trait of the Qt class the chain ends in (layout, action, …) -/
theorem reaches_baseClasses_sel {env : Env} {look : Path → Option Module} {sel : QtClass → Bool} {k : Nat} {c : CompData}
    {q : QtClass} (h : ReachesQt env look k c q) : ∀ (n : Nat) (v : List (Path × CompData)), k < n →
    (∀ x ∈ v, ∀ j q', ReachesQt env look j x.2 q' → k ≤ j) →
    ∃ l, baseClasses env look n v c = some l ∧ derivesQt sel l = sel q := by
  induction h with
  | base h1 =>
    intro n v hn _
    cases n with
    | zero => omega
    | succ n =>
      refine ⟨[.cls (.qt _)], ?_, rfl⟩
      unfold baseClasses; rw [h1]
  | @step c d c' k q h1 h2 ih =>
    intro n v hn hv
    cases n with
    | zero => omega
    | succ n =>
      have hnot : (d, c') ∉ v := by
        intro hmem
        have := hv _ hmem k q h2
        omega
      obtain ⟨l, hl, hw⟩ := ih n ((d, c') :: v) (by omega) (by
        intro x hx j q' hj
        rcases List.mem_cons.1 hx with hx | hx
        · subst hx
          have := (h2.det hj).1
          omega
        · have := hv x hx j q' hj
          omega)
      refine ⟨.cls (.comp d c') :: l, ?_, by simpa [derivesQt] using hw⟩
      unfold baseClasses; rw [h1]
      simp only
      rw [if_neg hnot, hl]; rfl

theorem reaches_basesOf_sel {env : Env} {t : Tree} {look : Path → Option Module} (hs : SoundLook t look)
    {sel : QtClass → Bool} {k : Nat} {c : CompData} {q : QtClass} (h : ReachesQt env look k c q) :
    ∃ l, basesOf env t look c = some l ∧ derivesQt sel l = sel q := by
  obtain ⟨l, hl⟩ := Option.isSome_iff_exists.1 (basesOf_isSome (env := env) hs c)
  obtain ⟨l', hl', hw⟩ := reaches_baseClasses_sel (sel := sel) h (fileCount t + 1 + (k + 1)) [] (by omega) (by simp)
  have := baseClasses_mono (fileCount t + 1) (k + 1) [] c l hl
  rw [this] at hl'; cases hl'
  exact ⟨l, hl, hw⟩

/-! ### chains that never leave the components (cycles) -/

/-- the component a component's root type resolves to (`none`: a Qt class, or nothing at all) -/
def superComp (env : Env) (look : Path → Option Module) (c : CompData) : Option (Path × CompData) :=
  match superClass env look c with
  | .ok (.comp d c') => some (d, c')
  | _ => none

/-- the component reached from `c` after `k + 1` steps along root types -/
def chainAt (env : Env) (look : Path → Option Module) : Nat → CompData → Option (Path × CompData)
  | 0, c => superComp env look c
  | k + 1, c => (superComp env look c).bind fun x => chainAt env look k x.2

theorem chainAt_add {env : Env} {look : Path → Option Module} : ∀ (a b : Nat) (c : CompData),
    chainAt env look (a + 1 + b) c = (chainAt env look a c).bind fun x => chainAt env look b x.2 := by
  intro a
  induction a with
  | zero =>
    intro b c
    have : 0 + 1 + b = b + 1 := by omega
    rw [this]; rfl
  | succ a ih =>
    intro b c
    have : a + 1 + 1 + b = (a + 1 + b) + 1 := by omega
    rw [this]
    simp only [chainAt]
    cases superComp env look c with
    | none => rfl
    | some x => simp only [Option.bind_some]; exact ih b x.2

theorem chainAt_prefix {env : Env} {look : Path → Option Module} {a b : Nat} {c : CompData}
    (h : (chainAt env look (a + 1 + b) c).isSome = true) : (chainAt env look a c).isSome = true := by
  rw [chainAt_add] at h
  cases hc : chainAt env look a c with
  | none => rw [hc] at h; simp at h
  | some x => rfl

/-- a chain of root types that comes back to a component it has passed goes on for ever -/
theorem chainAt_forever {env : Env} {look : Path → Option Module} {i j : Nat} {c : CompData} {x : Path × CompData}
    (hij : i < j) (hi : chainAt env look i c = some x) (hj : chainAt env look j c = some x) :
    ∀ k, (chainAt env look k c).isSome = true := by
  obtain ⟨b, rfl⟩ : ∃ b, j = i + 1 + b := ⟨j - i - 1, by omega⟩
  have hloop : chainAt env look b x.2 = some x := by
    rw [chainAt_add, hi] at hj; exact hj
  have hx : ∀ m, (chainAt env look m x.2).isSome = true := by
    intro m
    induction m using Nat.strongRecOn with
    | _ m ih =>
      rcases Nat.lt_trichotomy m b with hlt | heq | hgt
      · obtain ⟨b', rfl⟩ : ∃ b', b = m + 1 + b' := ⟨b - m - 1, by omega⟩
        exact chainAt_prefix (by rw [hloop]; rfl)
      · subst heq; rw [hloop]; rfl
      · obtain ⟨m', rfl⟩ : ∃ m', m = b + 1 + m' := ⟨m - b - 1, by omega⟩
        rw [chainAt_add, hloop]
        exact ih m' (by omega)
  intro k
  rcases Nat.lt_trichotomy k i with hlt | heq | hgt
  · obtain ⟨b', rfl⟩ : ∃ b', i = k + 1 + b' := ⟨i - k - 1, by omega⟩
    exact chainAt_prefix (by rw [hi]; rfl)
  · subst heq; rw [hi]; rfl
  · obtain ⟨k', rfl⟩ : ∃ k', k = i + 1 + k' := ⟨k - i - 1, by omega⟩
    rw [chainAt_add, hi]
    exact hx k'

/-- a base list made of components only -/
def AllComp (l : List BaseItem) : Prop := ∀ b ∈ l, ∃ d c, b = .cls (.comp d c)

theorem baseClasses_forever {env : Env} {look : Path → Option Module} : ∀ (n : Nat) (v : List (Path × CompData))
    (c : CompData) (l : List BaseItem), (∀ k, (chainAt env look k c).isSome = true) →
    baseClasses env look n v c = some l → AllComp l := by
  intro n
  induction n with
  | zero => intro v c l _ h; simp [baseClasses] at h
  | succ n ih =>
    intro v c l hk h
    have h0 := hk 0
    unfold baseClasses at h
    split at h
    · rename_i e he
      simp [chainAt, superComp, he] at h0
    · rename_i q hq
      simp [chainAt, superComp, hq] at h0
    · rename_i d' c' hq
      split at h
      · cases h; intro b hb; cases hb
      · cases hr : baseClasses env look n ((d', c') :: v) c' with
        | none => rw [hr] at h; cases h
        | some l' =>
          rw [hr] at h; cases h
          have hk' : ∀ k, (chainAt env look k c').isSome = true := by
            intro k
            have := hk (k + 1)
            simpa [chainAt, superComp, hq] using this
          have := ih _ _ _ hk' hr
          intro b hb
          rcases List.mem_cons.1 hb with hb | hb
          · exact ⟨d', c', hb⟩
          · exact this b hb

theorem allComp_lookups {l : List BaseItem} (h : AllComp l) (sel : QtClass → Bool) (p : String) :
    derivesQt sel l = false ∧ derivesWidget l = false ∧ propIn p l = .unknown := by
  induction l with
  | nil => exact ⟨rfl, rfl, rfl⟩
  | cons b rest ih =>
    obtain ⟨d, c, rfl⟩ := h b List.mem_cons_self
    have := ih (fun x hx => h x (List.mem_cons_of_mem _ hx))
    simpa [derivesQt, derivesWidget, propIn] using this

/-! ### the class a name resolves to bears that name -/

theorem lookupRev_name {env : Env} {look : Path → Option Module} {name : String} {s : Cls} :
    ∀ {ids : List ModuleId}, lookupRev env look ids name = .ok s → s.name = name := by
  intro ids
  induction ids with
  | nil => intro h; simp [lookupRev] at h
  | cons id rest ih =>
    intro h
    unfold lookupRev at h
    split at h
    · exact ih h
    · split at h
      · split at h
        · rename_i q hq
          cases h
          have := List.find?_some hq
          simpa [Cls.name] using this
        · exact ih h
      · cases h
    · split at h
      · cases h
      · rename_i p' m hm
        split at h
        · rename_i c' hc
          cases h
          exact (findComp_some hc).2
        · exact ih h

theorem superClass_name {env : Env} {look : Path → Option Module} {c : CompData} {s : Cls}
    (h : superClass env look c = .ok s) : s.name = c.super := by
  unfold superClass at h
  split at h
  · cases h
  · cases h
  · rename_i s' hs; cases h; exact lookupRev_name hs

/-! ### import statements: version and alias -/

theorem kidResults_congr {env : Env} {look : Path → Option Module} {sp : List ModuleId} {f f' : File}
    (hc : f'.children = f.children) : kidResults env look sp f' = kidResults env look sp f := by
  unfold kidResults; rw [hc]

theorem kidNodes_congr {env : Env} {look : Path → Option Module} {sp : List ModuleId} {f f' : File}
    (hc : f'.children = f.children) : kidNodes env look sp f' = kidNodes env look sp f := by
  unfold kidNodes; rw [kidResults_congr hc]

/-- The translation of a document reads its import STATEMENTS in two ways only: through the imports that count
    (`File.imports`) and through the diagnostics of the statements themselves.  Two files with the same counting imports,
    root object and children are translated alike up to those diagnostics. -/
theorem translate_stmts {env : Env} {t : Tree} {look : Path → Option Module} {base : Path} {f f' : File}
    (hi : f'.imports = f.imports) (hr : f'.root = f.root) (hc : f'.children = f.children) {o : Output}
    (h : translate env t look base f = some o) :
    ∃ R, o.diags = stmtDiags f.stmts ++ R ∧
      translate env t look base f' = some { o with diags := stmtDiags f'.stmts ++ R } := by
  unfold translate at h ⊢
  simp only [hi, hr, kidResults_congr hc, kidNodes_congr hc, nodesOf, List.append_assoc] at h ⊢
  split at h
  · cases h; exact ⟨_, rfl, rfl⟩
  · cases h; exact ⟨_, rfl, rfl⟩
  · split at h
    · cases h; exact ⟨_, rfl, rfl⟩
    · cases h

theorem mem_stmtDiags_aliased {l : List ImportStmt} {s : ImportStmt} (hs : s ∈ l) (ha : s.alias.isSome = true) :
    Diag.aliasedImport ∈ stmtDiags l := by
  induction l with
  | nil => cases hs
  | cons x rest ih =>
    unfold stmtDiags
    rcases List.mem_cons.1 hs with rfl | hs
    · simp [ha]
    · exact List.mem_append.2 (.inr (ih hs))

theorem stmtDiags_eraseVersions (l : List ImportStmt) :
    stmtDiags (l.map fun s => { s with version := none }) = (stmtDiags l).filter (· ≠ .importVersionIgnored) := by
  induction l with
  | nil => rfl
  | cons x rest ih =>
    simp only [List.map_cons, stmtDiags, List.filter_append, ih]
    congr 1
    cases ha : x.alias.isSome <;> cases hv : x.version.isSome <;> simp

/-! ### every directory is inserted once -/

theorem step_keys_nodup {t : Tree} {s s' : PState} (hn : s.mods.keys.Nodup) (hs : step t s = .next s') :
    s'.mods.keys.Nodup := by
  unfold step at hs
  split at hs
  · cases hs
  · split at hs
    · cases hs; exact hn
    · rename_i hcont
      split at hs
      · cases hs
      · cases hs
        simp only [DirMap.keys, List.map_append, List.map_cons, List.map_nil]
        refine List.nodup_append.2 ⟨hn, by simp, ?_⟩
        intro a ha b hb
        simp only [List.mem_singleton] at hb
        subst hb
        intro e
        subst e
        apply hcont
        simp only [List.mem_map] at ha
        obtain ⟨e, he, rfl⟩ := ha
        exact contains_iff.2 ⟨e, he, rfl⟩

theorem step_done_mods {t : Tree} {s : PState} {ms : DirMap} (hs : step t s = .done (.ok ms)) : ms = s.mods := by
  unfold step at hs
  split at hs
  · cases hs; rfl
  · split at hs
    · cases hs
    · split at hs <;> cases hs

theorem run_keys_nodup {t : Tree} : ∀ (n : Nat) (s : PState) (ms : DirMap), s.mods.keys.Nodup →
    run t n s = some (.ok ms) → ms.keys.Nodup := by
  intro n
  induction n with
  | zero => intro s ms _ h; simp [run] at h
  | succ n ih =>
    intro s ms hn h
    unfold run at h
    split at h
    · rename_i r hs
      cases h
      rw [step_done_mods hs]; exact hn
    · rename_i s' hs
      exact ih s' ms (step_keys_nodup hn hs) h

/-- the number of directories read (`read_dir` calls that succeed) up to the end of the work-list: one per
    iteration that takes the "not yet visited" branch -/
def readsOf (t : Tree) : Nat → PState → Nat
  | 0, _ => 0
  | n + 1, s =>
    match step t s with
    | .done _ => 0
    | .next s' => (if s'.mods.length = s.mods.length then 0 else 1) + readsOf t n s'

theorem step_mods_length {t : Tree} {s s' : PState} (hs : step t s = .next s') :
    s'.mods.length = s.mods.length ∨ s'.mods.length = s.mods.length + 1 := by
  unfold step at hs
  split at hs
  · cases hs
  · split at hs
    · cases hs; exact .inl rfl
    · split at hs
      · cases hs
      · cases hs; exact .inr (by simp)

theorem run_reads {t : Tree} : ∀ (n : Nat) (s : PState) (ms : DirMap),
    run t n s = some (.ok ms) → s.mods.length + readsOf t n s = ms.length := by
  intro n
  induction n with
  | zero => intro s ms h; simp [run] at h
  | succ n ih =>
    intro s ms h
    unfold run at h
    unfold readsOf
    split at h
    · rename_i r hs
      cases h
      rw [hs, step_done_mods hs]; rfl
    · rename_i s' hs
      rw [hs]
      have := ih s' ms h
      rcases step_mods_length hs with e | e
      · simp only [e, if_true] at this ⊢; omega
      · have hne : ¬ s'.mods.length = s.mods.length := by omega
        simp only [hne, if_false]; omega

/-! ### spellings of one path -/

theorem walk_append (t : Tree) : ∀ (a : List String) (p : Path) (b : List String),
    walk t p (a ++ b) = (walk t p a).bind fun q => walk t q b := by
  intro a
  induction a with
  | nil => intro p b; simp [walk]
  | cons seg rest ih =>
    intro p b
    simp only [List.cons_append, walk]
    split
    · exact ih _ _
    · split
      · exact ih _ _
      · split
        · exact ih _ _
        · rfl

theorem walk_skip (t : Tree) (p : Path) (seg : String) (h : seg = "." ∨ seg = "") (rest : List String) :
    walk t p (seg :: rest) = walk t p rest := by
  simp [walk, h]

theorem walk_insert (t : Tree) (p : Path) (a b : List String) (seg : String) (h : seg = "." ∨ seg = "") :
    walk t p (a ++ seg :: b) = walk t p (a ++ b) := by
  rw [walk_append, walk_append]
  congr 1
  funext q
  exact walk_skip t q seg h b

theorem walk_down_up (t : Tree) (p : Path) (n : String) (rest : List String) (hn : n ≠ "." ∧ n ≠ "" ∧ n ≠ "..")
    (hd : isDir t (p ++ [n]) = true) : walk t p (n :: ".." :: rest) = walk t p rest := by
  have h1 : ¬ (n = "." ∨ n = "") := by rintro (h | h) <;> simp_all
  simp [walk, h1, hn.2.2, hd]

end QV.Proofs.QmlDir
