/- Helper lemmas for C10 / C16 (unique name generator). Core Lean only. -/
import QV.Model.Names
import QV.Spec.Names

namespace QV.Proofs.Names
open QV.Model.Names

theorem decimal_ne_nil (n : Nat) : decimal n ≠ [] := Nat.toDigits_ne_nil

theorem decimal_inj {n m : Nat} (h : decimal n = decimal m) : n = m := by
  have hn := Nat.ofDigitChars_toDigits (b := 10) (n := n) (by decide) (by decide)
  have hm := Nat.ofDigitChars_toDigits (b := 10) (n := m) (by decide) (by decide)
  unfold decimal at h
  rw [h] at hn
  omega

/-- distinct numbers give distinct candidate names -/
theorem concat_inj (pfx : Str) {n m : Nat} (h : concatNumberSuffix pfx n = concatNumberSuffix pfx m) : n = m := by
  unfold concatNumberSuffix at h
  by_cases hn : n = 0 <;> by_cases hm : m = 0
  · omega
  · simp only [hn, hm, if_true, if_false] at h
    have : decimal m = [] := by simpa using h.symm
    exact absurd this (decimal_ne_nil m)
  · simp only [hn, hm, if_true, if_false] at h
    have : decimal n = [] := by simpa using h
    exact absurd this (decimal_ne_nil n)
  · simp only [hn, hm, if_false] at h
    exact decimal_inj (List.append_cancel_left h)

theorem search_spec {pfx : Str} {excluded : Str → Bool} {start tries n : Nat} {id : Str}
    (h : search pfx excluded start tries = some (n, id)) :
    id = concatNumberSuffix pfx n ∧ excluded id = false ∧ start ≤ n ∧ n < start + tries := by
  induction tries generalizing start with
  | zero => simp [search] at h
  | succ t ih =>
    simp only [search] at h
    split at h
    · obtain ⟨a, b, c, d⟩ := ih h
      exact ⟨a, b, by omega, by omega⟩
    · rename_i hex
      simp at h
      obtain ⟨rfl, rfl⟩ := h
      refine ⟨rfl, by simpa using hex, by omega, by omega⟩

/-- pigeonhole: if everything excluded lies in a list shorter than the number of candidates, one is free -/
theorem search_some (pfx : Str) (excluded : Str → Bool) (tries : Nat) :
    ∀ (start : Nat) (ex : List Str),
      (∀ j, start ≤ j → excluded (concatNumberSuffix pfx j) = true → concatNumberSuffix pfx j ∈ ex) →
      ex.length < tries → search pfx excluded start tries ≠ none := by
  induction tries with
  | zero => intro _ ex _ h; omega
  | succ t ih =>
    intro start ex hex hlen
    simp only [search]
    split
    · rename_i hx
      have hmem := hex start (Nat.le_refl _) hx
      apply ih (start + 1) (ex.erase (concatNumberSuffix pfx start))
      · intro j hj hxj
        have hne : concatNumberSuffix pfx j ≠ concatNumberSuffix pfx start := by
          intro he; have := concat_inj pfx he; omega
        exact (List.mem_erase_of_ne hne).mpr (hex j (by omega) hxj)
      · rw [List.length_erase_of_mem hmem]
        have : 0 < ex.length := List.length_pos_of_mem hmem
        omega
    · simp

/-- **The `expect` in `generate_with_reserved_map` cannot fire.** -/
theorem generate_total (g : Gen) (pfx : Str) (reserved : List Str) :
    g.generateWithReserved pfx reserved ≠ none := by
  unfold Gen.generateWithReserved
  have := search_some pfx (fun id => reserved.contains id || g.usedNames.contains id)
    (reserved.length + g.usedNames.length + 1) (getCount g.usedPrefixes pfx) (reserved ++ g.usedNames)
    (by
      intro j _ h
      simp only [Bool.or_eq_true, List.contains_iff_mem] at h
      simpa using h)
    (by simp)
  split
  · rename_i h; exact absurd h this
  · simp

/-- what a successful generation returns -/
theorem generate_spec {g g' : Gen} {pfx name : Str} {reserved : List Str}
    (h : g.generateWithReserved pfx reserved = some (name, g')) :
    name ∉ reserved ∧ name ∉ g.usedNames ∧ g'.usedNames = name :: g.usedNames ∧
    ∃ n, name = concatNumberSuffix pfx n := by
  unfold Gen.generateWithReserved at h
  split at h
  · simp at h
  · rename_i n id hs
    simp at h
    obtain ⟨rfl, rfl⟩ := h
    obtain ⟨hid, hex, _, _⟩ := search_spec hs
    simp only [Bool.or_eq_false_iff] at hex
    refine ⟨?_, ?_, rfl, ⟨n, hid⟩⟩
    · intro hm; have := hex.1; simp [hm] at this
    · intro hm; have := hex.2; simp [hm] at this

/-! ### ensure_object_names -/

/-- the names at the positions of anonymous objects -/
def gens : List (Option Str × Str) → List Str → List Str
  | (none, _) :: ns, x :: xs => x :: gens ns xs
  | (some _, _) :: ns, _ :: xs => gens ns xs
  | _, _ => []

/-- the ids of the objects, in order -/
def idsOf : List (Option Str × Str) → List Str
  | [] => []
  | (some x, _) :: ns => x :: idsOf ns
  | (none, _) :: ns => idsOf ns

theorem ensureGo_spec (reserved : List Str) :
    ∀ (nodes : List (Option Str × Str)) (g : Gen) (names : List Str),
      ensureGo reserved g nodes = some names →
      names.length = nodes.length ∧
      (gens nodes names).Nodup ∧
      (∀ x ∈ gens nodes names, x ∉ reserved ∧ x ∉ g.usedNames) ∧
      (∀ x ∈ names, x ∈ idsOf nodes ∨ x ∈ gens nodes names) := by
  intro nodes
  induction nodes with
  | nil =>
    intro g names h
    simp [ensureGo] at h
    subst h
    simp [gens]
  | cons nd rest ih =>
    intro g names h
    obtain ⟨id, cls⟩ := nd
    cases id with
    | some x =>
      simp only [ensureGo, Option.map_eq_some_iff] at h
      obtain ⟨xs, hxs, rfl⟩ := h
      obtain ⟨h1, h2, h3, h4⟩ := ih g xs hxs
      refine ⟨by simp [h1], by simpa [gens] using h2, by simpa [gens] using h3, ?_⟩
      intro y hy
      simp only [List.mem_cons] at hy
      rcases hy with rfl | hy
      · left; simp [idsOf]
      · rcases h4 y hy with h | h
        · left; simp [idsOf, h]
        · right; simpa [gens] using h
    | none =>
      simp only [ensureGo] at h
      split at h
      · simp at h
      · rename_i name g' hg
        simp only [Option.map_eq_some_iff] at h
        obtain ⟨xs, hxs, rfl⟩ := h
        obtain ⟨h1, h2, h3, h4⟩ := ih g' xs hxs
        obtain ⟨hr, hu, hg', _⟩ := generate_spec hg
        refine ⟨by simp [h1], ?_, ?_, ?_⟩
        · simp only [gens, List.nodup_cons]
          refine ⟨?_, h2⟩
          intro hm
          have := (h3 name hm).2
          rw [hg'] at this
          simp at this
        · intro y hy
          simp only [gens, List.mem_cons] at hy
          rcases hy with rfl | hy
          · exact ⟨hr, hu⟩
          · have := h3 y hy
            rw [hg'] at this
            exact ⟨this.1, fun hm => this.2 (List.mem_cons_of_mem _ hm)⟩
        · intro y hy
          simp only [List.mem_cons] at hy
          rcases hy with rfl | hy
          · right; simp [gens]
          · rcases h4 y hy with h | h
            · left; simpa [idsOf] using h
            · right; simp [gens, h]

/-- ids are used verbatim -/
theorem ensureGo_ids (reserved : List Str) :
    ∀ (nodes : List (Option Str × Str)) (g : Gen) (names : List Str),
      ensureGo reserved g nodes = some names →
      ∀ p ∈ nodes.zip names, ∀ x, p.1.1 = some x → p.2 = x := by
  intro nodes
  induction nodes with
  | nil => intro g names h p hp; simp at hp
  | cons nd rest ih =>
    intro g names h p hp x hx
    obtain ⟨id, cls⟩ := nd
    cases id with
    | some y =>
      simp only [ensureGo, Option.map_eq_some_iff] at h
      obtain ⟨xs, hxs, rfl⟩ := h
      simp only [List.zip_cons_cons, List.mem_cons] at hp
      rcases hp with rfl | hp
      · simp at hx; exact hx
      · exact ih g xs hxs p hp x hx
    | none =>
      simp only [ensureGo] at h
      split at h
      · simp at h
      · rename_i name g' hg
        simp only [Option.map_eq_some_iff] at h
        obtain ⟨xs, hxs, rfl⟩ := h
        simp only [List.zip_cons_cons, List.mem_cons] at hp
        rcases hp with rfl | hp
        · simp at hx
        · exact ih g' xs hxs p hp x hx

/-- interleaving distinct ids with distinct generated names that avoid all ids gives distinct names -/
theorem names_nodup_of :
    ∀ (nodes : List (Option Str × Str)) (names : List Str),
      names.length = nodes.length →
      (∀ p ∈ nodes.zip names, ∀ x, p.1.1 = some x → p.2 = x) →
      (idsOf nodes).Nodup → (gens nodes names).Nodup →
      (∀ x ∈ gens nodes names, x ∉ idsOf nodes) →
      (∀ x ∈ names, x ∈ idsOf nodes ∨ x ∈ gens nodes names) →
      names.Nodup := by
  intro nodes
  induction nodes with
  | nil => intro names hl; simp at hl; subst hl; simp
  | cons nd rest ih =>
    intro names hl hid hn hg hd hm
    obtain ⟨id, cls⟩ := nd
    cases names with
    | nil => simp at hl
    | cons nm xs =>
      have hl' : xs.length = rest.length := by simpa using hl
      have hid' : ∀ p ∈ rest.zip xs, ∀ x, p.1.1 = some x → p.2 = x :=
        fun p hp => hid p (by simp [hp])
      cases id with
      | some y =>
        have hnm : nm = y := hid ((some y, cls), nm) (by simp) y rfl
        subst hnm
        simp only [idsOf, List.nodup_cons] at hn
        simp only [gens] at hg hd hm
        simp only [idsOf, List.mem_cons, not_or] at hd
        -- membership of the tail's names
        have hm' : ∀ x ∈ xs, x ∈ idsOf rest ∨ x ∈ gens rest xs := by
          -- re-derive from the structure (names of `rest` are ids of `rest` or generated)
          intro x hx
          have := hm x (List.mem_cons_of_mem _ hx)
          simp only [idsOf, List.mem_cons] at this
          rcases this with (rfl | h) | h
          · -- x = nm occurs in xs: it must come from an id or a generated name of `rest`
            -- use a direct structural argument
            exact (mem_split rest xs hl' hid' x hx)
          · exact Or.inl h
          · exact Or.inr h
        refine List.nodup_cons.mpr ⟨?_, ih xs hl' hid' hn.2 hg (fun x hx => (hd x hx).2) hm'⟩
        intro hin
        rcases hm' nm hin with h | h
        · exact hn.1 h
        · exact (hd nm h).1 rfl
      | none =>
        simp only [idsOf] at hn hd hm
        simp only [gens, List.nodup_cons] at hg
        simp only [gens, List.mem_cons] at hd hm
        have hm' : ∀ x ∈ xs, x ∈ idsOf rest ∨ x ∈ gens rest xs :=
          fun x hx => mem_split rest xs hl' hid' x hx
        refine List.nodup_cons.mpr ⟨?_, ih xs hl' hid' hn hg.2 (fun x hx => hd x (Or.inr hx)) hm'⟩
        intro hin
        rcases hm' nm hin with h | h
        · exact hd nm (Or.inl rfl) h
        · exact hg.1 h
where
  mem_split : ∀ (rest : List (Option Str × Str)) (xs : List Str), xs.length = rest.length →
      (∀ p ∈ rest.zip xs, ∀ x, p.1.1 = some x → p.2 = x) →
      ∀ x ∈ xs, x ∈ idsOf rest ∨ x ∈ gens rest xs := by
    intro rest
    induction rest with
    | nil => intro xs hl; simp at hl; subst hl; simp
    | cons nd rest ih =>
      intro xs hl hid x hx
      obtain ⟨id, cls⟩ := nd
      cases xs with
      | nil => simp at hl
      | cons nm ys =>
        have hl' : ys.length = rest.length := by simpa using hl
        have hid' : ∀ p ∈ rest.zip ys, ∀ x, p.1.1 = some x → p.2 = x :=
          fun p hp => hid p (by simp [hp])
        simp only [List.mem_cons] at hx
        cases id with
        | some y =>
          have hnm : nm = y := hid ((some y, cls), nm) (by simp) y rfl
          rcases hx with rfl | hx
          · left; simp [idsOf, hnm]
          · rcases ih ys hl' hid' x hx with h | h
            · left; simp [idsOf, h]
            · right; simpa [gens] using h
        | none =>
          rcases hx with rfl | hx
          · right; simp [gens]
          · rcases ih ys hl' hid' x hx with h | h
            · left; simpa [idsOf] using h
            · right; simp [gens, h]

end QV.Proofs.Names
