/-
  Abstract syntax of the supported QML/JS subset: mirrors the data of /repo/lib/src/qmlast/{expr,stmt}.rs
  (after the CST adapters; unsupported constructs are explicit constructors so that "rejected" is expressible).
-/
import QV.Model.Tir

namespace QV.Model

/-- JS unary operators as tokens (`qmlast::UnaryOperator`) -/
inductive UnaryToken where
  | logicalNot | bitwiseNot | minus | plus | typeof | void | delete
deriving DecidableEq, Repr, Inhabited

def UnaryToken.symbol : UnaryToken → String
  | .logicalNot => "!" | .bitwiseNot => "~" | .minus => "-" | .plus => "+"
  | .typeof => "typeof" | .void => "void" | .delete => "delete"

/-- `impl TryFrom<UnaryOperator> for UnaryOp` -/
def UnaryToken.toOp : UnaryToken → Option UnaryOp
  | .logicalNot => some .logNot
  | .bitwiseNot => some .bitNot
  | .minus => some .minus
  | .plus => some .plus
  | .typeof | .void | .delete => none

/-- JS binary operators as tokens (`qmlast::BinaryOperator`) -/
inductive BinaryToken where
  | logicalAnd | logicalOr | rightShift | unsignedRightShift | leftShift | bitwiseAnd | bitwiseXor | bitwiseOr
  | add | sub | mul | div | rem | exp | equal | strictEqual | notEqual | strictNotEqual
  | lessThan | lessThanEqual | greaterThan | greaterThanEqual | nullishCoalesce | instanceof | in_
deriving DecidableEq, Repr, Inhabited

def BinaryToken.symbol : BinaryToken → String
  | .logicalAnd => "&&" | .logicalOr => "||" | .rightShift => ">>" | .unsignedRightShift => ">>>"
  | .leftShift => "<<" | .bitwiseAnd => "&" | .bitwiseXor => "^" | .bitwiseOr => "|"
  | .add => "+" | .sub => "-" | .mul => "*" | .div => "/" | .rem => "%" | .exp => "**"
  | .equal => "==" | .strictEqual => "===" | .notEqual => "!=" | .strictNotEqual => "!=="
  | .lessThan => "<" | .lessThanEqual => "<=" | .greaterThan => ">" | .greaterThanEqual => ">="
  | .nullishCoalesce => "??" | .instanceof => "instanceof" | .in_ => "in"

/-- `impl TryFrom<BinaryOperator> for BinaryOp` -/
def BinaryToken.toOp : BinaryToken → Option BinaryOp
  | .logicalAnd => some (.logical .and)
  | .logicalOr => some (.logical .or)
  | .rightShift => some (.shift .shr)
  | .unsignedRightShift => none
  | .leftShift => some (.shift .shl)
  | .bitwiseAnd => some (.bitwise .and)
  | .bitwiseXor => some (.bitwise .xor)
  | .bitwiseOr => some (.bitwise .or)
  | .add => some (.arith .add)
  | .sub => some (.arith .sub)
  | .mul => some (.arith .mul)
  | .div => some (.arith .div)
  | .rem => some (.arith .rem)
  | .exp => none
  | .equal | .strictEqual => some (.cmp .eq)
  | .notEqual | .strictNotEqual => some (.cmp .ne)
  | .lessThan => some (.cmp .lt)
  | .lessThanEqual => some (.cmp .le)
  | .greaterThan => some (.cmp .gt)
  | .greaterThanEqual => some (.cmp .ge)
  | .nullishCoalesce | .instanceof | .in_ => none

inductive Expr where
  | ident (name : String)
  | this
  | integer (v : Nat)                    -- u64
  | float (bits : Nat)
  | string (s : List Char)
  | bool (b : Bool)
  | null
  | array (elems : List Expr)
  | function                              -- function / arrow function in expression position: unsupported
  | member (obj : Expr) (prop : String)
  | subscript (obj idx : Expr)
  | call (fn : Expr) (args : List Expr)
  | assign (left right : Expr)
  | unary (op : UnaryToken) (arg : Expr)
  | binary (op : BinaryToken) (l r : Expr)
  | as_ (value : Expr) (ty : List String)   -- nested identifier components
  | ternary (c a b : Expr)
deriving Repr, Inhabited

inductive DeclKind where | let_ | const_
deriving DecidableEq, Repr, Inhabited

structure Decl where
  name : String
  ty : Option (List String)
  value : Option Expr
deriving Repr, Inhabited

inductive Stmt where
  | expr (e : Expr)
  | block (stmts : List Stmt)
  | lexical (kind : DeclKind) (decls : List Decl)
  | if_ (c : Expr) (a : Stmt) (b : Option Stmt)
  /-- clauses in source order: `(some value, body)` = `case value:`, `(none, body)` = `default:`
      (`SwitchStatement::with_cursor` splits them into `cases` and `default { position = clause index }`;
      `walk_stmt` re-inserts the default body at that position, i.e. back in source order) -/
  | switch (value : Expr) (clauses : List (Option Expr × List Stmt))
  | break_ (labeled : Bool)
  | return_ (e : Option Expr)
deriving Repr, Inhabited

/-- callback function: parameters `(name, type annotation?)` and body -/
inductive FnBody where
  | expr (e : Expr)
  | stmt (s : Stmt)
deriving Repr, Inhabited

structure Function where
  named : Bool
  params : List (String × Option (List String))
  body : FnBody
deriving Repr, Inhabited

/-- top-level binding value: a statement, or (for callbacks) a bare function -/
inductive Program where
  | stmt (s : Stmt)
  | function (f : Function)
deriving Repr, Inhabited

end QV.Model
