/-
  Model of the directory-module machinery of qmluic (property C18):

    lib/src/qmldir.rs          populate_directories (work-list), make_doc_component_data, normalize_path
    lib/src/typemap/module.rs  ImportedModuleSpace::{from_modules, import_module, get_type} (reverse search)
    lib/src/typemap/namespace.rs  push_qml_component (name_map: last one wins)
    lib/src/typemap/qml_component.rs  component = class with ONE super (its root type) + its OWN imports
    lib/src/typemap/class.rs   public_super_classes / BaseClasses (visited set) / is_derived_from / get_property
    lib/src/uigen/mod.rs       make_doc_module_space
    lib/src/objtree.rs         populate_node_rec (type first, then children; post-order flat vector)
    lib/src/uigen/objcode.rs   build_properties_callbacks (property lookup diagnostics)
    lib/src/uigen/object.rs    UiObject::build (class dispatch diagnostics)
    lib/src/uigen/form.rs      UiForm::build (custom widgets: custom-typed objects, `unique()`, from_class)
    lib/src/qtname.rs          FileNameRules::type_name_to_cxx_header_name (default rules: suffix "h", lowercase)

  The file system is an abstract tree: a list of existing directories, each with the QML files `read_dir`
  lists (in that order).  Paths are *canonical*: the list of components below the root of the tree (the
  root plays the role of `/`, so `..` at the root stays at the root — the driver refuses inputs where
  that matters).  Not modelled (named in the configuration): symbolic links, case-insensitive file
  systems, I/O errors other than a missing directory, the primitive types of the `Builtins` module, and
  the inside of Qt's classes (a Qt class is a name with "derives from QWidget" and the list of property
  names `get_property` accepts on it, both measured on the real type map by the harness).
-/
namespace QV.Model.QmlDir

/-! ### abstract file tree -/

abbrev Path := List String

inductive Import where
  | named (name : String)
  | dir (segs : List String)
deriving DecidableEq, Repr, Inhabited

/-- `Type { prop: <constant> }` (at most one binding; the value is chosen by the harness to fit the type). -/
structure Obj where
  typeName : String
  prop : Option String := none
deriving DecidableEq, Repr, Inhabited

/-- An import STATEMENT: what is imported, and the optional version (`import M 6.2`, `import "../b" 1.0`) and alias
    (`import M as W`) the grammar admits. -/
structure ImportStmt where
  what : Import
  version : Option String := none
  alias : Option String := none
deriving DecidableEq, Repr, Inhabited

/-- plain statements (no version, no alias) -/
def ImportStmt.named (name : String) : ImportStmt := { what := .named name }
def ImportStmt.dir (segs : List String) : ImportStmt := { what := .dir segs }

/-- A `.qml` file.  `hasRoot = false`: the file has no root object (`UiProgram::from_node` fails), so it
    defines no component and its imports are not followed. -/
structure File where
  stem : String
  hasRoot : Bool := true
  /-- the import statements in source order -/
  stmts : List ImportStmt := []
  root : Obj
  children : List Obj := []
deriving DecidableEq, Repr, Inhabited

/-- The imports that COUNT, in source order.  Both places that read a file's import list (`make_doc_component_data`
    for the component the file defines, `make_doc_module_space` for the document being translated) run the same loop:
    an ALIASED statement is reported ("aliased import is not supported", an error) and skipped — it contributes
    nothing: no module id, no directory to discover; a VERSIONED statement is reported ("import version is ignored",
    a warning) and then handled like the same statement without version. -/
def File.imports (f : File) : List Import := (f.stmts.filter fun s => s.alias.isNone).map (·.what)

structure Dir where
  path : Path
  files : List File
deriving DecidableEq, Repr, Inhabited

abbrev Tree := List Dir

def findDir (t : Tree) (p : Path) : Option Dir := t.find? (fun d => d.path = p)
def isDir (t : Tree) (p : Path) : Bool := (findDir t p).isSome

/-! ### `doc_base_dir.join(x)` + `is_dir()` + `canonicalize()` -/

/-- Component-wise resolution as the OS does it: every named component must be an existing directory
    at the moment it is entered (`missing/../sib` fails although it is lexically `sib`). -/
def walk (t : Tree) : Path → List String → Option Path
  | p, [] => some p
  | p, seg :: rest =>
    if seg = "." ∨ seg = "" then walk t p rest
    else if seg = ".." then walk t p.dropLast rest
    else if isDir t (p ++ [seg]) then walk t (p ++ [seg]) rest
    else none

/-- `some d`: `base/segs` is a directory and `d` is its canonical path.  `none`: "source path is not a
    directory" (qmldir.rs) resp. a path that is in no module map (uigen/mod.rs). -/
def resolve (t : Tree) (base : Path) (segs : List String) : Option Path :=
  match walk t base segs with
  | some p => if isDir t p then some p else none
  | none => none

/-! ### type map (directory part) -/

inductive ModuleId where
  | builtins
  | named (name : String)
  | dir (p : Path)
deriving DecidableEq, Repr, Inhabited

/-- `QmlComponentData`: class name, exactly one super class name, own import list. -/
structure CompData where
  name : String
  super : String
  imports : List ModuleId
deriving DecidableEq, Repr, Inhabited

/-- `ModuleData` of a directory: the components in push order. -/
abbrev Module := List CompData

/-- `TypeMap::directory_module_map` in insertion order. -/
abbrev DirMap := List (Path × Module)

def DirMap.get? (ms : DirMap) (p : Path) : Option Module := (ms.find? (fun e => e.1 = p)).map (·.2)
def DirMap.contains (ms : DirMap) (p : Path) : Bool := (ms.get? p).isSome
def DirMap.keys (ms : DirMap) : List Path := ms.map (·.1)

def importId (t : Tree) (base : Path) : Import → Option ModuleId
  | .named n => some (.named n)
  | .dir segs => (resolve t base segs).map .dir

/-- `make_doc_component_data`. -/
def componentOf (t : Tree) (base : Path) (f : File) : Option CompData :=
  if f.hasRoot then
    some { name := f.stem, super := f.root.typeName,
           imports := [.builtins, .dir base] ++ f.imports.filterMap (importId t base) }
  else none

def moduleOf (t : Tree) (d : Dir) : Module := d.files.filterMap (componentOf t d.path)

/-- the `for id in data.imports()` loop: directory imports not yet in the type map are pushed -/
def pushesOf (mods : DirMap) (c : CompData) : List Path :=
  c.imports.filterMap fun
    | .dir p => if mods.contains p then none else some p
    | _ => none

/-! ### `populate_directories` -/

/-- `pending` is the Rust `Vec` read from its END: head = next directory popped. -/
structure PState where
  pending : List Path
  mods : DirMap
deriving DecidableEq, Repr

inductive PopResult where
  | ok (ms : DirMap)
  /-- `PopulateError::ReadDir` -/
  | readDirError (p : Path)
deriving DecidableEq, Repr

inductive StepResult where
  | done (r : PopResult)
  | next (s : PState)
deriving DecidableEq, Repr

/-- one iteration of `while let Some(base_dir) = pending_dirs.pop()` -/
def step (t : Tree) (s : PState) : StepResult :=
  match s.pending with
  | [] => .done (.ok s.mods)
  | b :: rest =>
    if s.mods.contains b then .next { pending := rest, mods := s.mods }   -- already visited
    else match findDir t b with
      | none => .done (.readDirError b)
      | some d =>
        let m := moduleOf t d
        -- the type map is not changed while the directory is read, so `b` itself is pushed once per
        -- component (its implicit own-directory import) and skipped when popped later
        .next { pending := (m.flatMap (pushesOf s.mods)).reverse ++ rest, mods := s.mods ++ [(b, m)] }

def run (t : Tree) : Nat → PState → Option PopResult
  | 0, _ => none
  | n + 1, s =>
    match step t s with
    | .done r => some r
    | .next s' => run t n s'

/-- the sources' directories in argument order; the last one is popped first -/
def initState (srcDirs : List Path) : PState := { pending := srcDirs.reverse, mods := [] }

def pushBound (t : Tree) : Nat :=
  (t.map fun d => (d.files.map fun f => f.imports.length + 2).sum).sum

/-- enough iterations for every tree and source list (theorem `discovery_terminates`) -/
def fuelBound (t : Tree) (srcDirs : List Path) : Nat :=
  srcDirs.length + (pushBound t + 1) * t.length + 1

def populate (t : Tree) (srcDirs : List Path) : Option PopResult :=
  run t (fuelBound t srcDirs) (initState srcDirs)

/-! ### type lookup -/

/-- A class of the named Qt module, as far as C18 needs it. -/
structure QtClass where
  name : String
  isWidget : Bool
  /-- property names `Class::get_property` resolves on this class (own and inherited) -/
  props : List String
  /-- derives from QLayout resp. QAction (measured like `isWidget`; the three are mutually exclusive for the classes
      the harness names; absent in old requests = false) -/
  isLayout : Bool := false
  isAction : Bool := false
deriving DecidableEq, Repr, Inhabited

structure Env where
  /-- the only named module in the type map -/
  qtModule : String := "qmluic.QtWidgets"
  qt : List QtClass
deriving Repr, Inhabited

inductive TMError where
  | invalidModuleRef (id : ModuleId)
  | invalidTypeRef (name : String)
deriving DecidableEq, Repr, Inhabited

inductive Cls where
  | qt (c : QtClass)
  | comp (dir : Path) (c : CompData)
deriving DecidableEq, Repr, Inhabited

def Cls.name : Cls → String
  | .qt c => c.name
  | .comp _ c => c.name

inductive Lookup where
  | notFound
  | err (e : TMError)
  | ok (c : Cls)
deriving DecidableEq, Repr, Inhabited

/-- `NamespaceData::name_map`: a later `push_qml_component` of the same name replaces the earlier one -/
def findComp (m : Module) (name : String) : Option CompData := m.reverse.find? (fun c => c.name = name)

/-- `ImportedModuleSpace::get_type` over the stack *already reversed* (last import first). -/
def lookupRev (env : Env) (look : Path → Option Module) : List ModuleId → String → Lookup
  | [], _ => .notFound
  | id :: rest, name =>
    match id with
    | .builtins => lookupRev env look rest name
    | .named n =>
      if n = env.qtModule then
        match env.qt.reverse.find? (fun c => c.name = name) with
        | some c => .ok (.qt c)
        | none => lookupRev env look rest name
      else .err (.invalidModuleRef id)
    | .dir p =>
      match look p with
      | none => .err (.invalidModuleRef id)
      | some m =>
        match findComp m name with
        | some c => .ok (.comp p c)
        | none => lookupRev env look rest name

def getType (env : Env) (look : Path → Option Module) (imports : List ModuleId) (name : String) : Lookup :=
  lookupRev env look imports.reverse name

inductive SuperResult where
  | err (e : TMError)
  | ok (c : Cls)
deriving DecidableEq, Repr, Inhabited

/-- `public_super_classes().next()` of a component: its root type name resolved in ITS OWN imports. -/
def superClass (env : Env) (look : Path → Option Module) (c : CompData) : SuperResult :=
  match getType env look c.imports c.super with
  | .notFound => .err (.invalidTypeRef c.super)
  | .err e => .err e
  | .ok s => .ok s

inductive BaseItem where
  | cls (c : Cls)
  | err (e : TMError)
deriving DecidableEq, Repr, Inhabited

/-- `BaseClasses` (BFS with a visited set) started at a component.  Components have one super class, so
    the walk is linear; it stops after an error, at a class already visited, and — in this model — at
    the first Qt class (whose own ancestors are summarised in `QtClass`).  `none` = out of fuel. -/
def baseClasses (env : Env) (look : Path → Option Module) :
    Nat → List (Path × CompData) → CompData → Option (List BaseItem)
  | 0, _, _ => none
  | n + 1, visited, c =>
    match superClass env look c with
    | .err e => some [.err e]
    | .ok (.qt q) => some [.cls (.qt q)]
    | .ok (.comp d' c') =>
      if (d', c') ∈ visited then some []
      else (baseClasses env look n ((d', c') :: visited) c').map (BaseItem.cls (.comp d' c') :: ·)

/-- number of `.qml` files: no walk over components can yield more classes than that -/
def fileCount (t : Tree) : Nat := (t.map fun d => d.files.length).sum

def basesOf (env : Env) (t : Tree) (look : Path → Option Module) (c : CompData) : Option (List BaseItem) :=
  baseClasses env look (fileCount t + 1) [] c

/-- `is_derived_from(QWidget)` along the base list: an error ends the search with "no". -/
def derivesWidget : List BaseItem → Bool
  | [] => false
  | .err _ :: _ => false
  | .cls (.qt q) :: _ => q.isWidget
  | .cls (.comp _ _) :: rest => derivesWidget rest

/-- `is_derived_from(X)` along the base list for any measured trait of the Qt class the walk ends in
    (same shape as `derivesWidget`). -/
def derivesQt (sel : QtClass → Bool) : List BaseItem → Bool
  | [] => false
  | .err _ :: _ => false
  | .cls (.qt q) :: _ => sel q
  | .cls (.comp _ _) :: rest => derivesQt sel rest

/-- `is_derived_from(QLayout)` / `is_derived_from(QAction)` -/
def derivesLayout (l : List BaseItem) : Bool := derivesQt (·.isLayout) l
def derivesAction (l : List BaseItem) : Bool := derivesQt (·.isAction) l

inductive PropLookup where
  | found
  | unknown
  | failed (e : TMError)
deriving DecidableEq, Repr, Inhabited

/-- `get_property` along the base list (components declare no properties of their own). -/
def propIn (name : String) : List BaseItem → PropLookup
  | [] => .unknown
  | .err e :: _ => .failed e
  | .cls (.qt q) :: _ => if name ∈ q.props then .found else .unknown
  | .cls (.comp _ _) :: rest => propIn name rest

def clsBases (env : Env) (t : Tree) (look : Path → Option Module) : Cls → Option (List BaseItem)
  | .qt q => some [.cls (.qt q)]
  | .comp _ c => basesOf env t look c

/-! ### translation of one document -/

inductive Diag where
  | directoryModuleNotFound
  | moduleNotFound
  | unknownObjectType (name : String)
  | objectTypeResolutionFailed (e : TMError)
  | propertyResolutionFailed (e : TMError)
  | unknownProperty (cls : String) (prop : String)
  | notQWidget (cls : String)
  | notActionLayoutWidget (cls : String)
  /-- "aliased import is not supported" (error; the statement is skipped) -/
  | aliasedImport
  /-- "import version is ignored" (the only WARNING of the model: it does not reject the document) -/
  | importVersionIgnored
deriving DecidableEq, Repr, Inhabited

def Diag.isWarning : Diag → Bool
  | .importVersionIgnored => true
  | _ => false

structure Widget where
  cls : String
  props : List String
deriving DecidableEq, Repr, Inhabited

structure CustomWidget where
  cls : String
  ext : String
  header : String
deriving DecidableEq, Repr, Inhabited

structure Output where
  /-- `uigen::build` returned `Some` -/
  built : Bool
  diags : List Diag
  /-- root widget first, then its children in document order (only meaningful when `built`) -/
  widgets : List Widget
  customs : List CustomWidget
deriving DecidableEq, Repr, Inhabited

/-- the CLI writes the `.ui` iff the form was built and no ERROR was reported (warnings do not reject) -/
def Output.accepted (o : Output) : Bool := o.built && o.diags.all Diag.isWarning

/-- what the import statements of the document being translated are diagnosed with, statement by statement (the
    harness compares diagnostics as a sorted list, so their position among the other diagnostics is not modelled) -/
def stmtDiags : List ImportStmt → List Diag
  | [] => []
  | s :: rest =>
    (if s.alias.isSome then [Diag.aliasedImport]
     else if s.version.isSome then [Diag.importVersionIgnored] else []) ++ stmtDiags rest

/-- `make_doc_module_space`: only modules present in the type map are stacked, the others are diagnosed -/
def docSpace (env : Env) (t : Tree) (look : Path → Option Module) (base : Path) (imports : List Import) :
    List ModuleId × List Diag :=
  let first : List ModuleId × List Diag :=
    if (look base).isSome then ([.builtins, .dir base], []) else ([.builtins], [.directoryModuleNotFound])
  imports.foldl (fun (acc : List ModuleId × List Diag) imp =>
    let ok : Option ModuleId := match imp with
      | .named n => if n = env.qtModule then some (.named n) else none
      | .dir segs => match resolve t base segs with
        | some d => if (look d).isSome then some (.dir d) else none
        | none => none
    match ok with
    | some id => (acc.1 ++ [id], acc.2)
    | none => (acc.1, acc.2 ++ [.moduleNotFound])) first

def asciiLower (c : Char) : Char :=
  if 'A'.toNat ≤ c.toNat ∧ c.toNat ≤ 'Z'.toNat then Char.ofNat (c.toNat + 32) else c

/-- `FileNameRules::default().type_name_to_cxx_header_name` -/
def headerName (typeName : String) : String := String.ofList ((typeName.toList ++ ['.', 'h']).map asciiLower)

/-- `CustomWidget::from_class`: silently nothing if the super class does not resolve -/
def customOf (env : Env) (look : Path → Option Module) (c : CompData) : Option CustomWidget :=
  match superClass env look c with
  | .ok s => some { cls := c.name, ext := s.name, header := headerName c.name }
  | .err _ => none

/-- `Itertools::unique`: first occurrences, in order -/
def uniq {α} [DecidableEq α] : List α → List α → List α
  | _, [] => []
  | seen, x :: xs => if x ∈ seen then uniq seen xs else x :: uniq (x :: seen) xs

def customKeys (nodes : List (Obj × Cls)) : List (Path × CompData) :=
  uniq [] (nodes.filterMap fun n => match n.2 with
    | .comp d c => some (d, c)
    | .qt _ => none)

def customWidgets (env : Env) (look : Path → Option Module) (nodes : List (Obj × Cls)) : List CustomWidget :=
  (customKeys nodes).filterMap fun k => customOf env look k.2

/-- `populate_node_rec` on the children: those that do not resolve are diagnosed and left out -/
def kidResults (env : Env) (look : Path → Option Module) (space : List ModuleId) (f : File) : List (Sum Diag (Obj × Cls)) :=
  f.children.map fun o =>
    match getType env look space o.typeName with
    | .notFound => .inl (.unknownObjectType o.typeName)
    | .err e => .inl (.objectTypeResolutionFailed e)
    | .ok c => .inr (o, c)

def kidNodes (env : Env) (look : Path → Option Module) (space : List ModuleId) (f : File) : List (Obj × Cls) :=
  (kidResults env look space f).filterMap fun
    | .inl _ => none
    | .inr n => some n

/-- the flat (post-order) object vector of a document whose root resolved to `rootCls` -/
def nodesOf (env : Env) (look : Path → Option Module) (space : List ModuleId) (f : File) (rootCls : Cls) :
    List (Obj × Cls) :=
  kidNodes env look space f ++ [(f.root, rootCls)]

structure NodeInfo where
  obj : Obj
  cls : Cls
  bases : List BaseItem
deriving DecidableEq, Repr, Inhabited

def infos (env : Env) (t : Tree) (look : Path → Option Module) : List (Obj × Cls) → Option (List NodeInfo)
  | [] => some []
  | n :: rest =>
    match clsBases env t look n.2, infos env t look rest with
    | some b, some r => some ({ obj := n.1, cls := n.2, bases := b } :: r)
    | _, _ => none

/-- `ObjectCodeMap::build` for one object: the bindings that make it into the form, and diagnostics -/
def bindingOf (n : NodeInfo) : List String × List Diag :=
  match n.obj.prop with
  | none => ([], [])
  | some p =>
    match propIn p n.bases with
    | .found => ([p], [])
    | .unknown => ([], [.unknownProperty n.cls.name p])
    | .failed e => ([], [.propertyResolutionFailed e])

/-- `UiForm::build` (root): the class must derive from QWidget; `UiObject::build` (children): from QAction,
    QLayout or QWidget (tested in that order; a component whose chain of root types ends in a layout class or in
    QAction is a layout resp. an action) -/
def classDiag (isRoot : Bool) (n : NodeInfo) : List Diag :=
  if isRoot then
    if derivesWidget n.bases then [] else [.notQWidget n.cls.name]
  else
    if derivesAction n.bases || derivesLayout n.bases || derivesWidget n.bases then []
    else [.notActionLayoutWidget n.cls.name]

/-- the root object: always written as `<widget class="…">` -/
def widgetOf (n : NodeInfo) : Widget := { cls := n.cls.name, props := (bindingOf n).1 }

/-- a child: `<widget class="…">` / `<layout class="…">` under its class name; an action is written as a plain
    `<action>` without class — uic makes it a QAction, and that is the class the harness reports for it -/
def kidWidgetOf (n : NodeInfo) : Widget :=
  { cls := if derivesAction n.bases then "QAction" else n.cls.name, props := (bindingOf n).1 }

/-- `uigen::build` on a document of the generated shape; `none` = out of fuel in a base-class walk. -/
def translate (env : Env) (t : Tree) (look : Path → Option Module) (base : Path) (f : File) : Option Output :=
  let sp := docSpace env t look base f.imports
  match getType env look sp.1 f.root.typeName with
  | .notFound => some { built := false, diags := stmtDiags f.stmts ++ sp.2 ++ [.unknownObjectType f.root.typeName], widgets := [], customs := [] }
  | .err e => some { built := false, diags := stmtDiags f.stmts ++ sp.2 ++ [.objectTypeResolutionFailed e], widgets := [], customs := [] }
  | .ok rootCls =>
    let d1 := (kidResults env look sp.1 f).filterMap fun
      | .inl d => some d
      | .inr _ => none
    match infos env t look (kidNodes env look sp.1 f), infos env t look [(f.root, rootCls)] with
    | some kids, some [root] =>
      some { built := true,
             -- module space; object tree; code maps in flat order (children, root); form (root, children)
             diags := stmtDiags f.stmts ++ sp.2 ++ d1 ++ (kids.flatMap fun n => (bindingOf n).2) ++ (bindingOf root).2
                        ++ classDiag true root ++ kids.flatMap (classDiag false),
             widgets := widgetOf root :: kids.map kidWidgetOf,
             customs := customWidgets env look (nodesOf env look sp.1 f rootCls) }
    | _, _ => none

/-! ### `generate_ui` (src/main.rs): the loop over the sources -/

/-- What `generate_ui_file` returns for one source. -/
inductive SrcOutcome where
  /-- `Ok(())`: the `.ui` (and support header) is written -/
  | accepted
  /-- `Err(CommandError::DiagnosticGenerated)`: syntax error or an error diagnostic; nothing is written -/
  | rejected
  /-- `Err(CommandError::Other(_))`: I/O failure, source not loaded -/
  | fatal
deriving DecidableEq, Repr, Inhabited

inductive CliStatus where
  | success
  | diagnosticGenerated
  | otherError
deriving DecidableEq, Repr, Inhabited

/-- The loop of `generate_ui` (after the repair of F15):

        let mut diagnostic_generated = false;
        for p in &args.sources {
            match generate_ui_file(..) {
                Ok(()) => {}
                Err(CommandError::DiagnosticGenerated) => diagnostic_generated = true,
                Err(e) => return Err(e),
            }
        }
        if diagnostic_generated { return Err(CommandError::DiagnosticGenerated); }

    Input: per source its name and outcome; result: the sources whose outputs are written (in order), and
    how the command ends. -/
def cliLoop : Bool → List (String × SrcOutcome) → List String × CliStatus
  | diag, [] => ([], if diag then .diagnosticGenerated else .success)
  | diag, (n, .accepted) :: rest => (n :: (cliLoop diag rest).1, (cliLoop diag rest).2)
  | _, (_, .rejected) :: rest => cliLoop true rest
  | _, (_, .fatal) :: _ => ([], .otherError)

def cliRun (srcs : List (String × SrcOutcome)) : List String × CliStatus := cliLoop false srcs

/-- The loop BEFORE the repair of F15: `for p in &args.sources { generate_ui_file(..)?; }` — the first
    source that is not accepted ends the run.  Kept only for the pre-repair witness in `QV.Props.C18`. -/
def cliRunFailFast : List (String × SrcOutcome) → List String × CliStatus
  | [] => ([], .success)
  | (n, .accepted) :: rest => (n :: (cliRunFailFast rest).1, (cliRunFailFast rest).2)
  | (_, .rejected) :: _ => ([], .diagnosticGenerated)
  | (_, .fatal) :: _ => ([], .otherError)

/-- the process exit code of `qmluic` for a status -/
def CliStatus.exitCode : CliStatus → Nat
  | .success => 0
  | _ => 1

/-- `source.with_file_name(file_name_rules.type_name_to_ui_name(type_name))`, default rules -/
def uiFileName (stem : String) : String := String.ofList ((stem.toList ++ ['.', 'u', 'i']).map asciiLower)

end QV.Model.QmlDir
