/-
  Model of how qmluic consumes its unordered maps (Rust `HashMap`/`HashSet`, iteration order unspecified and
  different for every instance): every map is a list of entries in *arbitrary* order; consumers either
    * sort by key before emitting (`itertools::sorted_by_key` / `sorted` — a stable merge sort on `&str`'s `Ord`:
      lexicographic by byte, which for UTF-8 is lexicographic by code point), or
    * are order-insensitive (build another map, `all`, lookups), with diagnostics pushed in iteration order.
  Sites: uigen/property.rs `serialize_properties_to_xml`, `make_serializable_map`, `make_value_map`;
  uigen/gadget.rs `Gadget::serialize_to_xml_as` (attributes, properties), `serialize_item_properties_to_xml`,
  `PaletteColorGroup::serialize_to_xml_as`; uigen/layout.rs `SpacerItem::serialize_to_xml`;
  uigen/binding.rs `UiSupportCode::build` (dynamic properties and callbacks sorted by name, includes `sorted()`).
-/
namespace QV.Model.Determinism

abbrev Str := List Char

/-- `<str as Ord>::le` -/
def strLe : Str → Str → Bool
  | [], _ => true
  | _ :: _, [] => false
  | a :: as, b :: bs =>
    if a.toNat < b.toNat then true
    else if b.toNat < a.toNat then false
    else strLe as bs

/-- `iter().sorted_by_key(|(k, _)| k)` over the entries of a map, given in some iteration order -/
def sortedByKey {V : Type} (entries : List (Str × V)) : List (Str × V) :=
  entries.mergeSort (fun a b => strLe a.1 b.1)

/-- a consumer that sorts and then emits per entry (`serialize_properties_to_xml` and friends) -/
def renderSorted {V Out : Type} (render : Str × V → List Out) (entries : List (Str × V)) : List Out :=
  (sortedByKey entries).flatMap render

/-- a consumer that visits the entries in iteration order, keeping some (`filter_map(..).collect()` into another
    map) and pushing diagnostics as it goes (`make_serializable_map`, `make_value_map`, `build_properties_callbacks`) -/
def visit {V W D : Type} (f : Str × V → Option (Str × W) × List D) (entries : List (Str × V)) :
    List (Str × W) × List D :=
  (entries.filterMap (fun e => (f e).1), entries.flatMap (fun e => (f e).2))

/-- `sorted()` on a set of strings (`system_includes`) -/
def sortedSet (xs : List Str) : List Str := xs.mergeSort strLe

end QV.Model.Determinism
