/-
  Callback — model of how an `on<Signal>` binding becomes a connection:
    * `qtname::callback_to_signal_name`                      (QV.Model.Names.callbackToSignalName, reused)
    * `uigen/objcode.rs::build_properties_callbacks`         `resolveBinding`: property first, then signal lookup
    * `uigen/objcode.rs::uniquify_methods`                   `uniquifyMethods`: default-argument families collapse to the
                                                             overload with the most arguments, anything else is ambiguous
    * `uigen/objcode.rs::verify_callback_parameter_type`     `verifyCallbackParameterType`
    * `uigen/binding.rs::CxxCallback`                        `setupFunction` / `callbackFunction`: the exact text of
                                                             `void setup<Name>() { QObject::connect(sender, signal, root, [this](T a0…) { this->on<Name>(a0…); }); }`
                                                             and `void on<Name>(T a0…) { body }`
-/
import QV.Model.Names
import QV.Model.CxxBody

namespace QV.Model.Callback
open QV.Model

/-! ### uniquify_methods -/

/-- insertion that keeps elements with more (or as many) arguments in front: `sort_by_key(|m| -(len))` is stable -/
def insertDesc (m : MethodInfo) : List MethodInfo → List MethodInfo
  | [] => [m]
  | x :: xs => if x.args.length ≥ m.args.length then x :: insertDesc m xs else m :: x :: xs

def sortDesc (ms : List MethodInfo) : List MethodInfo := ms.foldl (fun acc m => insertDesc m acc) []

/-- `known.kind() == m.kind() && known.return_type() == m.return_type() && m.argument_types().starts_with(known.argument_types())` -/
def compat (known m : MethodInfo) : Bool :=
  known.kind = m.kind && known.ret = m.ret && known.args.isPrefixOf m.args

/-- the `while let Some(m) = meths.pop()` loop on the remaining overloads in popping order -/
def chain (known : MethodInfo) : List MethodInfo → Option MethodInfo
  | [] => some known
  | m :: rest => if compat known m then chain m rest else none

/-- `uniquify_methods` on the overloads found under one name (`MethodMatches::Unique` = one element);
    `none` = the `expect("method matches should not be empty")` panic -/
def uniquifyMethods (ms : List MethodInfo) : Option (Option MethodInfo) :=
  match (sortDesc ms).reverse with
  | [] => none
  | known :: rest => some (chain known rest)

/-! ### which bindings become callbacks -/

inductive Decision where
  | property (p : PropInfo)
  | callback (sig : MethodInfo)
  | notSignal
  | overloaded
  | unknownSignal (signal : String)
  | unknownProperty
  | panic
deriving DecidableEq, Repr

/-- `build_properties_callbacks`, per binding name: a property of that name wins; otherwise `on<Signal>` is looked up
    among the public methods -/
def resolveBinding (ci : ClassInfo) (name : String) : Decision :=
  match ci.props.find? (·.name = name) with
  | some p => .property p
  | none =>
    match Names.callbackToSignalName name.toList with
    | none => .unknownProperty
    | some sn =>
      let signal := String.ofList sn
      match ci.methods.find? (·.1 = signal) with
      | none => .unknownSignal signal
      | some (_, ms) =>
        match uniquifyMethods ms with
        | none => .panic
        | some none => .overloaded
        | some (some m) => if m.kind = .signal then .callback m else .notSignal

/-- the diagnostic of a binding that is neither a property nor an accepted callback -/
def Decision.message (cls : String) (name : String) : Decision → Option String
  | .notSignal => some "not a signal"
  | .overloaded => some "cannot bind to overloaded signal"
  | .unknownSignal s => some s!"unknown signal of class '{cls}': {s}"
  | .unknownProperty => some s!"unknown property of class '{cls}': {name}"
  | _ => none

/-! ### verify_callback_parameter_type -/

/-- accepted, or the diagnostics -/
def verifyCallbackParameterType (env : Env) (sig : MethodInfo) (code : CodeBody) : List String :=
  if code.parameterCount > sig.args.length then
    [s!"too many callback arguments (expected: 0..{sig.args.length}, actual: {code.parameterCount})"]
  else
    ((sig.args.zip (code.locals.take code.parameterCount)).filter fun (ty, a) => !isConcreteAssignable env a ty).map
      fun (ty, a) => s!"incompatible callback arguments (expected: {ty.cxxName}, actual: {a.cxxName})"

/-! ### CxxCallback -/

def parameters (code : CodeBody) : List (String × String) :=
  (code.locals.take code.parameterCount).zipIdx.map fun (ty, n) => (ty.cxxName, CxxBody.formatLocal n)

def paramDecls (code : CodeBody) : String := joinWith ", " ((parameters code).map fun (t, n) => t ++ " " ++ n)
def paramNames (code : CodeBody) : String := joinWith ", " ((parameters code).map (·.2))

/-- `CxxCallback::write_setup_function` -/
def setupFunction (t : CxxBody.Tr) (name sender : String) (sig : MethodInfo) (code : CodeBody) : String :=
  joinWith "\n"
    [ CxxBody.indent 1 ("void setup" ++ name ++ "()"),
      CxxBody.indent 1 "{",
      CxxBody.indent 2 ("QObject::connect(" ++ CxxBody.formatNamedObject t sender ++ ", " ++ CxxBody.formatSignalPointer sig ++
        ", this->root_, [this](" ++ paramDecls code ++ ") { this->on" ++ name ++ "(" ++ paramNames code ++ "); });"),
      CxxBody.indent 1 "}" ]

/-- `CxxCallback::write_callback_function` -/
def callbackFunction (t : CxxBody.Tr) (name : String) (code : CodeBody) : String :=
  match CxxBody.translate t code with
  | some body =>
    joinWith "\n" ([CxxBody.indent 1 ("void on" ++ name ++ "(" ++ paramDecls code ++ ")"), CxxBody.indent 1 "{"] ++ body ++
      [CxxBody.indent 1 "}"])
  | none => "PANIC: terminator must have been set by builder"

end QV.Model.Callback
