/-
  Model of /repo/lib/src/qtname.rs (`UniqueNameGenerator`, `concat_number_suffix`,
  `variable_name_for_type`, `to_ascii_capitalized`, `to_ascii_uncapitalized`, `callback_to_signal_name`)
  and of `ObjectTree::{update_id_map, ensure_object_names}` in /repo/lib/src/objtree.rs.

  The model follows the code *after* the repair of finding F5 (the generator remembers issued names).
  Strings are `List Char`; hash maps/sets are association lists / lists.
-/
namespace QV.Model.Names

abbrev Str := List Char

/-- Rust's `Display` for `usize` -/
def decimal (n : Nat) : Str := Nat.toDigits 10 n

/-- `concat_number_suffix` -/
def concatNumberSuffix (pfx : Str) (n : Nat) : Str :=
  if n = 0 then pfx else pfx ++ decimal n

structure Gen where
  /-- `used_prefixes: HashMap<String, usize>` (prefix ↦ next count) -/
  usedPrefixes : List (Str × Nat) := []
  /-- `used_names: HashSet<String>` -/
  usedNames : List Str := []
deriving Repr

def getCount (m : List (Str × Nat)) (p : Str) : Nat :=
  match m with
  | [] => 0
  | (k, c) :: rest => if k = p then c else getCount rest p

def setCount (m : List (Str × Nat)) (p : Str) (c : Nat) : List (Str × Nat) :=
  (p, c) :: m.filter (fun kv => kv.1 ≠ p)

/-- the `(count..=count + bound).find_map(..)`: `tries` = number of candidates examined at most -/
def search (pfx : Str) (excluded : Str → Bool) (start : Nat) : (tries : Nat) → Option (Nat × Str)
  | 0 => none
  | tries + 1 =>
    let id := concatNumberSuffix pfx start
    if excluded id then search pfx excluded (start + 1) tries else some (start, id)

/-- `generate_with_reserved_map`; `none` = the `expect("unused id must be found within N+1 tries")` fires.
    `reserved` lists the keys of the reserved map (distinct). -/
def Gen.generateWithReserved (g : Gen) (pfx : Str) (reserved : List Str) : Option (Str × Gen) :=
  match search pfx (fun id => reserved.contains id || g.usedNames.contains id) (getCount g.usedPrefixes pfx)
      (reserved.length + g.usedNames.length + 1) with
  | none => none
  | some (n, id) =>
    some (id, { usedPrefixes := setCount g.usedPrefixes pfx (n + 1), usedNames := id :: g.usedNames })

/-- `generate` (no reserved map) -/
def Gen.generate (g : Gen) (pfx : Str) : Option (Str × Gen) := g.generateWithReserved pfx []

def isAsciiUpper (c : Char) : Bool := 65 ≤ c.toNat && c.toNat ≤ 90
def isAsciiLower (c : Char) : Bool := 97 ≤ c.toNat && c.toNat ≤ 122
def isAsciiAlphabetic (c : Char) : Bool := isAsciiUpper c || isAsciiLower c
def toAsciiLower (c : Char) : Char := if isAsciiUpper c then Char.ofNat (c.toNat + 32) else c
def toAsciiUpper (c : Char) : Char := if isAsciiLower c then Char.ofNat (c.toNat - 32) else c

/-- the `for c in chars.by_ref() { push(lower c); if !c.is_ascii_uppercase() { break } }` loop followed by
    `extend(chars)` -/
def lowerRun : Str → Str
  | [] => []
  | c :: rest => if isAsciiUpper c then toAsciiLower c :: lowerRun rest else toAsciiLower c :: rest

/-- `variable_name_for_type` -/
def variableNameForType (t : Str) : Str :=
  match t with
  | c :: d :: rest => if (c = 'Q' || c = 'K') && isAsciiAlphabetic d then lowerRun (d :: rest) else lowerRun t
  | _ => lowerRun t

/-- `to_ascii_capitalized` -/
def toAsciiCapitalized : Str → Str
  | [] => []
  | c :: rest => toAsciiUpper c :: rest

/-- `to_ascii_uncapitalized` -/
def toAsciiUncapitalized : Str → Str
  | [] => []
  | c :: rest => toAsciiLower c :: rest

/-- `callback_to_signal_name` -/
def callbackToSignalName (name : Str) : Option Str :=
  match name with
  | 'o' :: 'n' :: c :: rest => if isAsciiUpper c then some (toAsciiLower c :: rest) else none
  | _ => none

/-- `update_id_map`: the ids that are reported as duplicated (in order), and the key set of the map -/
def idMapStep (acc : List Str × List Str) (id : Option Str) : List Str × List Str :=
  match id with
  | none => acc
  | some x => if acc.2.contains x then (acc.1 ++ [x], acc.2) else (acc.1, acc.2 ++ [x])

def updateIdMap (ids : List (Option Str)) : List Str × List Str :=
  ids.foldl idMapStep ([], [])

/-- `ensure_object_names` over the post-order node list `(id?, class name)`; `none` = panic -/
def ensureGo (reserved : List Str) : Gen → List (Option Str × Str) → Option (List Str)
  | _, [] => some []
  | g, (some id, _) :: rest => (ensureGo reserved g rest).map (id :: ·)
  | g, (none, cls) :: rest =>
    match g.generateWithReserved (variableNameForType cls) reserved with
    | none => none
    | some (name, g') => (ensureGo reserved g' rest).map (name :: ·)

def ensureObjectNames (nodes : List (Option Str × Str)) : Option (List Str) :=
  ensureGo (updateIdMap (nodes.map (·.1))).2 {} nodes

end QV.Model.Names
