/-
  IrSem — execution of the model IR (`QV.Model.CodeBody`: blocks, statements, terminators) over the same world and
  with the same operator denotations as the reference semantics (`QV.Spec.Sem`: `Val`, `World`, `Host`, `binop`,
  `unop`, `minmax`, `castTo`).  This is the meaning the emitted goto-C++ is supposed to have: one C++ statement per IR
  statement (Model/CxxBody.lean prints them), an assignment converts an untyped constant to the declared type of the
  local (C++ implicit conversion; undefined here if not representable), reading a local that was never assigned is
  undefined, `Q_UNREACHABLE()` is undefined.  That g++ gives the C++ operators the meaning `Spec.Sem.binop` etc. is
  what the c01 stream tests by running the real header.
-/
import QV.Model.Tir
import QV.Spec.Sem

namespace QV.Model.IrSem
open QV.Model
open QV.Spec.Sem (Val World Host Ev Ty STy)

structure ICtx where
  H : Host
  /-- address of a named object (`this->ui_->name` / `this->root_`) -/
  named : String → Option Nat
  /-- value of `Enum::Variant` given the enum's qualified name -/
  enumVariant : String → String → Option Int
  /-- the document's type name: the context the C++ translator passes to `QCoreApplication::translate` -/
  docType : String := ""

def primTy : Prim → Ty
  | .bool => .bool | .double => .double | .int => .int | .qstring => .str | .qvariant => .variant | .uint => .uint
  | .void => .void

/-- static type of a local / cast target -/
def styOf : TypeKind → STy
  | .just (.prim p) => { ty := primTy p }
  | .just (.enum _) => { ty := .enum }
  | .just (.cls n) | .just (.ns n) | .just (.comp n) => { ty := .ptr, cls := some n }   -- (gadgets: outside the fragment)
  | .pointer n => { ty := .ptr, cls := some n.cxxName }
  | .list (.just (.prim p)) => { ty := .list, elem := some (primTy p) }
  | .list _ => { ty := .list }

abbrev Locals := Nat → Option Val

def upd (L : Locals) (l : Nat) (v : Val) : Locals := fun x => if x = l then some v else L x

def evalOperand (c : ICtx) (L : Locals) : Operand → Option Val
  | .const (.bool b) => some (.bool b)
  | .const (.integer v) => some (.cint v)
  | .const (.float b) => some (.double b)
  | .const (.cstring s) | .const (.qstring s) => some (.str s)
  | .const .nullPointer => some (.ptr none)
  | .const .emptyList => some (.list [])
  | .enumVariant e v => (c.enumVariant e v).map .enum
  | .local n _ => L n
  | .namedObject n _ => (c.named n).map fun o => .ptr (some o)
  | .void => some .void

def evalOperands (c : ICtx) (L : Locals) : List Operand → Option (List Val)
  | [] => some []
  | a :: as =>
    match evalOperand c L a, evalOperands c L as with
    | some v, some vs => some (v :: vs)
    | _, _ => none

structure State where
  w : World
  L : Locals
  trace : List Ev

def State.emit (s : State) (e : Ev) : State := { s with trace := s.trace ++ [e] }

/-- the context `Spec.Sem.castTo` needs is only the host -/
def castCtx (c : ICtx) : QV.Spec.Sem.Ctx :=
  { H := c.H, objects := [], thisObj := none, enumVal := fun _ _ => none, tyName := fun _ => none,
    propTy := fun _ _ => none, methodTy := fun _ _ => none }

def listSet : List Val → Nat → Val → Option (List Val)
  | [], _, _ => none
  | _ :: xs, 0, v => some (v :: xs)
  | x :: xs, n + 1, v => (listSet xs n v).map (x :: ·)

def coerceArgs : List TypeKind → List Val → Option (List Val)
  | ty :: tys, v :: vs =>
    (match QV.Spec.Sem.coerceTo (styOf ty).ty v, coerceArgs tys vs with
     | some x, some xs => some (x :: xs)
     | _, _ => none)
  | _, [] => some []
  | [], v :: vs => (QV.Spec.Sem.concretizeAll (v :: vs))

/-- value of an rvalue and the state after it -/
def evalRvalue (c : ICtx) (s : State) : Rvalue → Option (Val × State)
  | .copy a => (evalOperand c s.L a).map fun v => (v, s)
  | .unary op a => ((evalOperand c s.L a).bind (QV.Spec.Sem.unop c.H.F op)).map fun v => (v, s)
  | .binary op l r =>
    (match evalOperand c s.L l, evalOperand c s.L r with
     | some a, some b => (QV.Spec.Sem.binop c.H.F op a b).map fun v => (v, s)
     | _, _ => none)
  | .staticCast ty a | .variantCast ty a =>
    ((evalOperand c s.L a).bind (QV.Spec.Sem.castTo (castCtx c) (styOf ty))).map fun v => (v, s)
  | .callBuiltin f args =>
    (match evalOperands c s.L args with
     | none => none
     | some vs =>
       match f, vs with
       | .consoleLog lv, _ => (QV.Spec.Sem.concretizeAll vs).map fun vs => (.void, s.emit (.log lv vs))
       | .max, [a, b] => (QV.Spec.Sem.minmax c.H.F true a b).map fun v => (v, s)
       | .min, [a, b] => (QV.Spec.Sem.minmax c.H.F false a b).map fun v => (v, s)
       | .tr, [.str x] => some (.str (c.H.tr c.docType x), s)
       | _, _ => none)
  | .callMethod obj m args =>
    (match evalOperand c s.L obj, evalOperands c s.L args with
     | some (.ptr (some o)), some vs =>
       -- C++ converts each argument to the parameter type
       (match coerceArgs m.args vs with
        | none => none
        | some vs =>
          match c.H.method s.w o m.name vs with
          | some (rv, w') => some (rv, { (s.emit (.call o m.name vs)) with w := w' })
          | none => none)
     | some (.str x), some vs =>
       (match m.name, vs with
        | "isEmpty", [] => some (.bool x.isEmpty, s)
        | "arg", [a] => (c.H.arg x a).map fun r => (.str r, s)
        | _, _ => none)
     | some (.list xs), some [] => if m.name = "isEmpty" then some (.bool xs.isEmpty, s) else none
     | _, _ => none)
  | .readProperty obj p =>
    (match evalOperand c s.L obj with
     | some (.ptr (some o)) => (s.w.prop o p.name).map fun v => (v, s)
     | _ => none)
  | .writeProperty obj p v =>
    (match evalOperand c s.L obj, evalOperand c s.L v with
     | some (.ptr (some o)), some x =>
       (match s.w.prop o p.name with
        | some _ =>
          (QV.Spec.Sem.coerceTo (styOf p.ty).ty x).map fun x' =>
            (.void, { (s.emit (.write o p.name x')) with w := s.w.set o p.name x' })
        | none => none)
     | _, _ => none)
  | .readSubscript obj idx =>
    (match evalOperand c s.L obj, evalOperand c s.L idx with
     | some (.list xs), some i => ((QV.Spec.Sem.indexOf i).bind fun k => xs[k]?).map fun v => (v, s)
     | _, _ => none)
  | .writeSubscript obj idx v =>
    (match obj, evalOperand c s.L obj, evalOperand c s.L idx, evalOperand c s.L v with
     | .local n _, some (.list xs), some i, some x =>
       ((QV.Spec.Sem.indexOf i).bind fun k => listSet xs k x).map fun xs' => (.void, { s with L := upd s.L n (.list xs') })
     | _, _, _, _ => none)
  | .makeList _ args => (evalOperands c s.L args).map fun vs => (.list vs, s)

/-- one statement; `locals` are the declared types of the locals -/
def execStatement (c : ICtx) (locals : List TypeKind) (s : State) : Statement → Option State
  | .assign l r =>
    (match evalRvalue c s r, locals[l]? with
     | some (v, s), some ty => (QV.Spec.Sem.coerceTo (styOf ty).ty v).map fun v' => { s with L := upd s.L l v' }
     | _, _ => none)
  | .exec r => (evalRvalue c s r).map (·.2)
  | .observeProperty _ _ _ => some s       -- subscription bookkeeping: no effect on the value (C02's business)

def execStatements (c : ICtx) (locals : List TypeKind) : List Statement → State → Option State
  | [], s => some s
  | st :: rest, s => (execStatement c locals s st).bind (execStatements c locals rest)

/-- fuelled execution from block `i`: the returned value and the final state -/
def runFrom (c : ICtx) (code : CodeBody) : Nat → Nat → State → Option (Val × State)
  | 0, _, _ => none
  | fuel + 1, i, s =>
    match code.blocks[i]? with
    | none => none
    | some b =>
      match execStatements c code.locals b.statements s with
      | none => none
      | some s =>
        match b.terminator with
        | some (.ret a) => (evalOperand c s.L a).map fun v => (v, s)
        | some (.br j) => runFrom c code fuel j s
        | some (.brCond cnd t f) =>
          (match evalOperand c s.L cnd with
           | some (.bool true) => runFrom c code fuel t s
           | some (.bool false) => runFrom c code fuel f s
           | _ => none)
        | some .unreachable => none
        | none => none

/-- parameters are the first `parameterCount` locals -/
def initLocals (code : CodeBody) (args : List Val) : Locals :=
  fun n => if n < code.parameterCount then
    (match args[n]?, code.locals[n]? with
     | some v, some ty => QV.Spec.Sem.coerceTo (styOf ty).ty v
     | _, _ => none)
  else none

/-- the CFG of a binding has no cycle, so `blocks.length` steps suffice -/
def run (c : ICtx) (code : CodeBody) (w : World) (args : List Val) : Option (Val × State) :=
  runFrom c code (code.blocks.length + 1) 0 { w, L := initLocals code args, trace := [] }

/-- value of a property binding of declared type `t` -/
def bindingValue (c : ICtx) (code : CodeBody) (w : World) (t : Ty) : Option Val :=
  (run c code w []).bind fun r => QV.Spec.Sem.coerceTo t r.1

end QV.Model.IrSem
