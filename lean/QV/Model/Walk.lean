/-
  The AST walk: mirrors /repo/lib/src/typedexpr.rs (`walk`, `walk_stmt`, `walk_stmt_nodes`, `walk_callback`,
  `walk_callback_function`, `walk_rvalue`, `walk_expr`, `process_identifier`, `process_namespace_name`,
  `process_item_property`, `process_type_annotation`, `check_condition_type`) driving the builder, with name
  resolution as `uigen::context::ObjectContext` does it (object ids first, then implicit-this properties, then
  implicit-this methods, then types).  Failure (`None` in Rust) keeps the diagnostics pushed so far.
-/
import QV.Model.Builder
import QV.Model.Ast

namespace QV.Model

structure Ctx where
  env : Env
  F : FloatOps
  /-- object ids of the document with their classes -/
  objects : List (String × String)
  /-- `this_object()`: (class, name) -/
  thisObj : Option (String × String)

inductive RefKind where
  | type (t : NamedTy)
  | enumVariant (e : String)
  | object (cls : String)
  | objectProperty (cls name : String) (p : PropInfo)
  | objectMethod (cls name : String) (ms : List MethodInfo)

inductive ExprKind where | lvalue | rvalue
deriving DecidableEq, Repr

inductive ReceiverKind where
  | object
  | gadget (k : ExprKind)
deriving DecidableEq, Repr

inductive NamespaceKind where | console | math
deriving DecidableEq, Repr

inductive Inter where
  | item (a : Operand)
  | local (l : Nat) (k : DeclKind)
  | boundProperty (a : Operand) (p : PropInfo) (rk : ReceiverKind)
  | boundSubscript (a i : Operand) (k : ExprKind)
  | boundMethod (a : Operand) (ms : List MethodInfo)
  | builtinFunction (f : Builtin)
  | builtinNamespace (k : NamespaceKind)
  | type (t : NamedTy)

namespace Ctx

/-- `ObjectContext::get_ref` -/
def getRef (c : Ctx) (name : String) : Option RefKind :=
  match c.objects.find? (·.1 = name) with
  | some (_, cls) => some (.object cls)
  | none =>
    match c.thisObj with
    | none => (c.env.types.find? (·.1 = name)).map fun p => .type p.2
    | some (tcls, tname) =>
      let ci := c.env.findClass tcls
      match ci.bind fun ci => ci.props.find? (·.name = name) with
      | some p => some (.objectProperty tcls tname p)
      | none =>
        match ci.bind fun ci => ci.methods.find? (·.1 = name) with
        | some (_, ms) => some (.objectMethod tcls tname ms)
        | none => (c.env.types.find? (·.1 = name)).map fun p => .type p.2

/-- `<NamedType as RefSpace>::get_ref`: nested type first, then enum variant -/
def typeGetRef (c : Ctx) (t : NamedTy) (name : String) : Option RefKind :=
  match t with
  | .cls n | .ns n =>
    (match c.env.findClass n with
     | none => none
     | some ci =>
       match ci.nested.find? (·.1 = name) with
       | some (_, nt) => some (.type nt)
       | none => (ci.variants.find? (·.1 = name)).map fun p => .enumVariant p.2)
  | .enum e =>
    (match c.env.findEnum e with
     | some ei => if ei.isScoped && ei.variants.contains name then some (.enumVariant e) else none
     | none => none)
  | _ => none

/-- `ObjectContext::get_annotated_type_scoped` -/
def annotatedType (c : Ctx) (scopedName : String) : Option TypeKind :=
  (c.env.types.find? (·.1 = scopedName)).map fun p =>
    match p.2 with
    | .cls n => if (c.env.findClass n).any (·.isObject) then .pointer (.cls n) else .just (.cls n)
    | .comp n => .pointer (.comp n)
    | t => .just t

/-- `TypeKind::into_class` as the name of the class table entry -/
def classOfType (_c : Ctx) : TypeKind → Option String
  | .just (.cls n) | .pointer (.cls n) => some n
  | .just (.prim .qstring) => some "QString"
  | .list _ => some "QList"
  | _ => none

end Ctx

abbrev Locals := List (String × (Nat × DeclKind))

def Locals.get? (m : Locals) (name : String) : Option (Nat × DeclKind) :=
  (m.find? (·.1 = name)).map (·.2)

/-- `HashMap::insert` -/
def Locals.insert (m : Locals) (name : String) (v : Nat × DeclKind) : Locals :=
  (name, v) :: m.filter (·.1 ≠ name)

structure WState where
  b : Builder := {}
  diags : List String := []
  /-- the `locals: &mut HashMap<String, (Local, kind)>` of the scope being walked: mutated in place, so
      insertions survive a later failure in the same scope (as they do in Rust) -/
  locals : Locals := []
  /-- bookkeeping for C06 only (no counterpart in the code): locals the USER declared without initialiser
      (`let x: T`); reading one before assigning it is the user's error, not a compiler temporary -/
  userUninit : List Nat := []
deriving Repr, Inhabited

abbrev W := OptionT (StateM WState)

def err {α} (msg : String) : W α := do
  modify fun s => { s with diags := s.diags ++ [msg] }
  failure

def pushDiag (msg : String) : W Unit :=
  modify fun s => { s with diags := s.diags ++ [msg] }

def getB : W Builder := do return (← get).b
def setB (b : Builder) : W Unit := modify fun s => { s with b := b }

/-- `consume_expr_err` / `consume_node_err` on a visitor result -/
def consume (r : VisitResult) : W Operand :=
  match r with
  | .ok (a, b) => do setB b; return a
  | .error e => err e.message

def consumeLocal (r : Except ExprError (Nat × Builder)) : W Nat :=
  match r with
  | .ok (a, b) => do setB b; return a
  | .error e => err e.message

def markBranchPoint : W Nat := do
  let b ← getB
  let (r, b) := b.newBlock
  setB b
  return r

def getLocals : W Locals := do return (← get).locals
def setLocals (l : Locals) : W Unit := modify fun s => { s with locals := l }

/-- `lookup_global_name` -/
def lookupGlobalName (name : String) : Option Inter :=
  if name = "Math" then some (.builtinNamespace .math)
  else if name = "console" then some (.builtinNamespace .console)
  else if name = "qsTr" then some (.builtinFunction .tr)
  else none

/-- `process_namespace_name` -/
def processNamespaceName (k : NamespaceKind) (name : String) : W Inter :=
  match k with
  | .console =>
    if name = "debug" then return .builtinFunction (.consoleLog .debug)
    else if name = "error" then return .builtinFunction (.consoleLog .error)
    else if name = "info" then return .builtinFunction (.consoleLog .info)
    else if name = "log" then return .builtinFunction (.consoleLog .log)
    else if name = "warn" then return .builtinFunction (.consoleLog .warn)
    else err s!"property/method named '{name}' not found in 'console'"
  | .math =>
    if name = "max" then return .builtinFunction .max
    else if name = "min" then return .builtinFunction .min
    else err s!"property/method named '{name}' not found in 'Math'"

/-- `process_identifier` (the `RefKind` → intermediate part, after the lookup) -/
def processRef (r : RefKind) (name : String) : W Inter :=
  match r with
  | .type t => return .type t
  | .enumVariant e => return .item (.enumVariant e name)
  | .object cls => return .item (.namedObject name cls)
  | .objectProperty cls oname p => return .boundProperty (.namedObject oname cls) p .object
  | .objectMethod cls oname ms => return .boundMethod (.namedObject oname cls) ms

/-- `process_identifier(ctx, Some(locals), true, …)` -/
def processIdentifier (c : Ctx) (name : String) : W Inter := do
  match (← getLocals).get? name with
  | some (l, k) => return .local l k
  | none =>
    match c.getRef name with
    | some r => processRef r name
    | none =>
      match lookupGlobalName name with
      | some x => return x
      | none => err "undefined reference"

/-- `process_identifier(&ty, None, false, …)`: member of a type -/
def processTypeMember (c : Ctx) (t : NamedTy) (name : String) : W Inter :=
  match c.typeGetRef t name with
  | some r => processRef r name
  | none => err "undefined reference"

/-- `process_item_property` -/
def processItemProperty (c : Ctx) (item : Operand) (name : String) (itemKind : ExprKind) : W Inter :=
  let notFound : W Inter :=
    err s!"property/method named '{name}' not found in type '{item.typeDesc.qualifiedName}'"
  match toConcreteType item.typeDesc with
  | .error e => err e.message
  | .ok ty =>
    match c.classOfType ty with
    | none => notFound
    | some cls =>
      let k : ReceiverKind := if ty.isPointer then .object else .gadget itemKind
      match c.env.findClass cls with
      | none => notFound
      | some ci =>
        match ci.props.find? (·.name = name) with
        | some p => return .boundProperty item p k
        | none =>
          match ci.methods.find? (·.1 = name) with
          | some (_, ms) =>
            -- the class representation of a list type is a temporary class named after the list type
            -- (`make_list_class(name)`): its methods report that name as their object class
            let ms := match ty with
              | .list _ => ms.map fun m => { m with cls := ty.cxxName }
              | _ => ms
            return .boundMethod item ms
          | none => notFound

/-- `process_type_annotation` -/
def processTypeAnnotation (c : Ctx) (components : List String) : W TypeKind :=
  match c.annotatedType (joinWith "::" components) with
  | some ty => return ty
  | none => err "undefined type"

/-- `check_condition_type` -/
def checkConditionType (condition : Operand) : W Unit :=
  if condition.typeDesc = .bool then return ()
  else err s!"condition must be of bool type, but got: {condition.typeDesc.qualifiedName}"

/-- the part of `walk_rvalue` after `walk_expr` -/
def interToRvalue (i : Inter) : W Operand := do
  match i with
  | .item x => return x
  | .local l _ => consume (visitLocalRef (← getB) l)
  | .boundProperty it p _ => consume (visitObjectProperty (← getB) it p)
  | .boundSubscript it i _ => consume (visitObjectSubscript (← getB) it i)
  | .boundMethod .. | .builtinFunction _ => err "bare function reference"
  | .builtinNamespace _ | .type _ => err "bare type reference"

mutual

/-- `walk_expr` -/
def walkExpr (c : Ctx) : Expr → W Inter
  | .ident name => processIdentifier c name
  | .this =>
    (match c.thisObj with
     | some (cls, name) => return .item (.namedObject name cls)
     | none => err "undefined reference")
  | .integer v => do return .item (← consume (visitInteger (← getB) v))
  | .float v => return .item (.const (.float v))
  | .string s => return .item (.const (.cstring s))
  | .bool v => return .item (.const (.bool v))
  | .null => return .item (.const .nullPointer)
  | .array ns => do
    let elements ← walkRvalues c ns
    return .item (← consume (visitArray c.env (← getB) elements))
  | .function => err "unsupported expression"
  | .member obj prop => do
    match ← walkExpr c obj with
    | .item it => processItemProperty c it prop .rvalue
    | .local l _ => do
      let it ← consume (visitLocalRef (← getB) l)
      processItemProperty c it prop .lvalue
    | .boundProperty it p _ => do
      let o ← consume (visitObjectProperty (← getB) it p)
      processItemProperty c o prop .rvalue
    | .boundSubscript it i _ => do
      let o ← consume (visitObjectSubscript (← getB) it i)
      processItemProperty c o prop .rvalue
    | .boundMethod .. | .builtinFunction _ => err "function has no property/method"
    | .builtinNamespace k => processNamespaceName k prop
    | .type t => processTypeMember c t prop
  | .subscript obj idx => do
    let (o, k) ← (do
      match ← walkExpr c obj with
      | .item it => pure (it, ExprKind.rvalue)
      | .local l _ => do
        let it ← consume (visitLocalRef (← getB) l)
        pure (it, ExprKind.lvalue)
      | .boundProperty it p _ => do
        let o ← consume (visitObjectProperty (← getB) it p)
        pure (o, ExprKind.rvalue)
      | .boundSubscript it i _ => do
        let o ← consume (visitObjectSubscript (← getB) it i)
        pure (o, ExprKind.rvalue)
      | .boundMethod .. | .builtinFunction _ => err "bare function reference"
      | .builtinNamespace _ | .type _ => err "bare type reference" : W (Operand × ExprKind))
    let index ← walkRvalue c idx
    return .boundSubscript o index k
  | .call fn args => do
    let arguments ← walkRvalues c args
    match ← walkExpr c fn with
    | .boundMethod it ms => do
      return .item (← consume (visitObjectMethodCall c.env (← getB) it ms arguments))
    | .builtinFunction f => do
      return .item (← consume (visitBuiltinCall c.env (← getB) f arguments))
    | _ => err "not callable"
  | .assign left right => do
    -- the left-hand reference first, then the value (repair 5ccd31a)
    let l ← walkExpr c left
    let r ← walkRvalue c right
    match l with
    | .local l k =>
      (match k with
       | .let_ => do return .item (← consume (visitLocalAssignment c.env (← getB) l r))
       | .const_ => err "cannot assign to const variable")
    | .boundProperty it p rk =>
      if rk = .gadget .rvalue then err "rvalue gadget property is not assignable"
      else do return .item (← consume (visitObjectPropertyAssignment c.env (← getB) it p r))
    | .boundSubscript it i k =>
      if k = .lvalue then do
        return .item (← consume (visitObjectSubscriptAssignment c.env (← getB) it i r))
      else err "rvalue subscript is not assignable"
    | _ => err "not assignable"
  | .unary opTok arg => do
    let argument ← walkRvalue c arg
    match opTok.toOp with
    | none => err s!"unsupported operation '{opTok.symbol}'"
    | some unary => do return .item (← consume (visitUnaryExpression c.F (← getB) unary argument))
  | .binary opTok l r =>
    (match opTok.toOp with
     | none => err s!"unsupported operation '{opTok.symbol}'"
     | some (.logical op) => do
       let left ← walkRvalue c l
       let leftLabel ← markBranchPoint
       let right ← walkRvalue c r
       let rightLabel ← markBranchPoint
       checkConditionType left
       checkConditionType right
       let (it, b) := visitBinaryLogicalExpression (← getB) op left leftLabel right rightLabel
       setB b
       return .item it
     | some binary => do
       let left ← walkRvalue c l
       let right ← walkRvalue c r
       return .item (← consume (visitBinaryExpression c.F c.env (← getB) binary left right)))
  | .as_ value ty => do
    let v ← walkRvalue c value
    let t ← processTypeAnnotation c ty
    return .item (← consume (visitAsExpression c.env (← getB) v t))
  | .ternary cnd a b => do
    let condition ← walkRvalue c cnd
    let conditionLabel ← markBranchPoint
    let consequence ← walkRvalue c a
    let consequenceLabel ← markBranchPoint
    let alternative ← walkRvalue c b
    let alternativeLabel ← markBranchPoint
    checkConditionType condition
    return .item (← consume (visitTernaryExpression c.env (← getB) condition conditionLabel
      consequence consequenceLabel alternative alternativeLabel))

/-- `walk_rvalue` -/
def walkRvalue (c : Ctx) (e : Expr) : W Operand := do
  interToRvalue (← walkExpr c e)

/-- `.map(|&n| walk_rvalue(..)).collect::<Option<Vec<_>>>()`: stops at the first failure -/
def walkRvalues (c : Ctx) : List Expr → W (List Operand)
  | [] => return []
  | e :: es => do
    let a ← walkRvalue c e
    let as ← walkRvalues c es
    return a :: as

end

/-- run a `W` computation, turning failure into `none` while keeping the state (diagnostics, builder, locals):
    `walk_stmt_nodes` visits all statements "to report as many errors as possible", `filter_map` closures skip
    failed cases/bodies -/
def attempt {α} (x : W α) : W (Option α) := fun s =>
  let (r, s') := (x.run s)
  (some r, s')

mutual

/-- `walk_stmt` -/
def walkStmt (c : Ctx) (breakLabel : Option Nat) : Stmt → W Unit
  | .expr e => do
    let value ← walkRvalue c e
    setB (visitExpressionStatement (← getB) value)
  | .block ns => do
    -- `let mut locals = locals.clone()`: inner scope inheriting outer; dropped afterwards
    let outer ← getLocals
    let ok ← walkStmts c breakLabel ns
    setLocals outer
    if ok then return () else failure
  | .lexical kind decls => walkDecls c kind decls
  | .if_ cnd a b => do
    let condition ← walkRvalue c cnd
    let conditionLabel ← markBranchPoint
    -- each branch is walked with its own clone of the name map (repair a011e08), dropped afterwards
    let outer ← getLocals
    let r ← attempt (walkStmt c breakLabel a)
    setLocals outer
    let some _ := r | failure
    let consequenceLabel ← markBranchPoint
    let alternativeLabel ← (match b with
      | some n => do
        let r ← attempt (walkStmt c breakLabel n)
        setLocals outer
        let some _ := r | failure
        return some (← markBranchPoint)
      | none => return none : W (Option Nat))
    checkConditionType condition
    setB (visitIfStatement (← getB) condition conditionLabel consequenceLabel alternativeLabel)
  | .switch value clauses => do
    -- more than one `default:` is a parse error (`ParseErrorKind::MultipleDefaultLabels`)
    if (clauses.filter (·.1.isNone)).length > 1 then err "multiple default labels" else
    let left ← walkRvalue c value
    let caseConditions ← walkCaseConditions c left clauses
    let nCases := (clauses.filter (·.1.isSome)).length
    let defaultPos := clauses.findIdx? (·.1.isNone)
    let headRef ← markBranchPoint
    let exitRef ← markBranchPoint
    -- `let mut locals = locals.clone()` (repair 2a702d4): the case block is one scope, dropped afterwards
    -- (also when a body fails: the clone is simply dropped)
    let outer ← getLocals
    let bodies? ← attempt (walkBodies c (some exitRef) clauses)
    setLocals outer
    let some bodies := bodies? | failure
    if nCases = caseConditions.length ∧ clauses.length = bodies.length then
      setB (visitSwitchStatement (← getB) caseConditions bodies defaultPos headRef exitRef)
    else failure
  | .break_ labeled =>
    if labeled then err "labeled break is not supported"
    else match breakLabel with
      | some l => do setB (visitBreakStatement (← getB) l)
      | none => err "break not in loop or switch statement"
  | .return_ e => do
    let value ← (match e with
      | some n => walkRvalue c n
      | none => pure Operand.void : W Operand)
    setB (visitReturnStatement (← getB) value)

/-- the `for decl in &x.variables` loop of `Statement::LexicalDeclaration` -/
def walkDecls (c : Ctx) (kind : DeclKind) : List Decl → W Unit
  | [] => return ()
  | d :: rest => do
    let rvalue ← (match d.value with
      | some n => do return some (← walkRvalue c n)
      | none =>
        if kind = .const_ then err "const declaration must have initializer"
        else return none : W (Option Operand))
    let ty ← (match d.ty with
      | some n => processTypeAnnotation c n
      | none =>
        match rvalue with
        | some v =>
          (match toConcreteType v.typeDesc with
           | .ok t => return t
           | .error e => err e.message)
        | none => err "variable declaration must have type annotation or initializer" : W TypeKind)
    let l ← consumeLocal (visitLocalDeclaration (← getB) ty)
    setLocals ((← getLocals).insert d.name (l, kind))
    match rvalue with
    | some v => do
      let _ ← consume (visitLocalAssignment c.env (← getB) l v)
      walkDecls c kind rest
    | none => do
      modify fun s => { s with userUninit := s.userUninit ++ [l] }
      walkDecls c kind rest

/-- `walk_stmt_nodes`: visits every statement even after a failure; the result is `res.is_some()` -/
def walkStmts (c : Ctx) (breakLabel : Option Nat) : List Stmt → W Bool
  | [] => return true
  | s :: rest => do
    match ← attempt (walkStmt c breakLabel s) with
    | some () => walkStmts c breakLabel rest
    | none => do
      let _ ← walkStmts c breakLabel rest
      return false

/-- the `filter_map` over `x.cases` building the `==` conditions: a failed case is skipped (and makes the
    whole switch fail afterwards through the length check) -/
def walkCaseConditions (c : Ctx) (left : Operand) :
    List (Option Expr × List Stmt) → W (List (Operand × Nat))
  | [] => return []
  | (none, _) :: rest => walkCaseConditions c left rest
  | (some value, _) :: rest => do
    let r ← attempt (do
      let right ← walkRvalue c value
      let condition ← consume (visitBinaryExpression c.F c.env (← getB) (.cmp .eq) left right)
      let label ← markBranchPoint
      pure (condition, label))
    let others ← walkCaseConditions c left rest
    match r with
    | some x => return x :: others
    | none => return others

/-- the `filter_map` over the bodies: all of them share the enclosing scope's map (no clone) and the break label -/
def walkBodies (c : Ctx) (breakLabel : Option Nat) :
    List (Option Expr × List Stmt) → W (List Nat)
  | [] => return []
  | (_, body) :: rest => do
    -- each clause walks with its own clone of the name map (repair 0aff63c): a clause can be entered by a
    -- jump from the head, so declarations of a clause are visible neither after the switch nor in later clauses
    let outer ← getLocals
    let ok ← walkStmts c breakLabel body
    setLocals outer
    if ok then do
      let l ← markBranchPoint
      let others ← walkBodies c breakLabel rest
      return l :: others
    else walkBodies c breakLabel rest

end

/-- `walk_callback_function`: parameters, then the body -/
def walkCallbackFunction (c : Ctx) (f : Function) : W Unit := do
  if f.named then err "named function isn't allowed" else
  setLocals []
  let rec params (n : Nat) : List (String × Option (List String)) → W Nat
    | [] => return n
    | (name, ty) :: rest => do
      if ((← getLocals).get? name).isSome then do
        pushDiag s!"redefinition of parameter: {name}"
        params n rest
      else match ty with
        | some t => do
          let ty ← processTypeAnnotation c t
          let l ← consumeLocal (visitFunctionParameter (← getB) ty)
          setLocals ((← getLocals).insert name (l, .let_))
          params (n + 1) rest
        | none => do
          pushDiag "function parameter must have type annotation"
          params n rest
  let n ← params 0 f.params
  if n ≠ f.params.length then failure else
  match f.body with
  | .expr e => do
    let value ← walkRvalue c e
    setB (visitExpressionStatement (← getB) value)
  | .stmt s => walkStmt c none s

/-- `walk` / `walk_callback` (`finalize_completion_values` follows: QV.Model.Finalize) -/
def walkProgram (c : Ctx) (callback : Bool) (p : Program) : W Unit :=
  match p with
  | .stmt s => walkStmt c none s
  | .function f => if callback then walkCallbackFunction c f else err "unsupported expression"

end QV.Model
