/-
  CxxBody — model of `CxxCodeBodyTranslator` (/repo/lib/src/uigen/binding.rs: `translate`, `write_locals`,
  `write_basic_block`, `write_statement`, `format_rvalue`, `format_operand`, `format_cxx_string_literal`,
  `is_double_rem`, `uint_template_argument`, `enum_operand_type`, `member_access_op`, `format_signal_pointer`, the
  `CodeWriter` indentation) and of the function frames written around a body (`CxxEvalExprFunction::write_function`,
  `CxxCallback::write_callback_function` / `write_setup_function`).  The text produced here is compared EXACTLY with
  the text of the function in the real header (streams c01 `c01-body`, c13 `c13-body`).

  Models the code as it is at HEAD, i.e. with the C16 repairs: `format_cxx_string_literal` (3-digit octal escapes),
  `std::fmod` for `%` on double, `std::max<uint>` / `std::min<uint>`, `qInf()` / `qQNaN()`, the `static_cast`s around
  bitwise operations on enums.
-/
import QV.Model.Finalize

namespace QV.Model.CxxBody
open QV.Model

/-! ### Rust's `{:e}` for `f64`: shortest digits that round-trip (free-format algorithm of Burger & Dybvig on exact
    naturals), `d[.ddd]e<exp>` -/

/-- scale up: while the upper bound reaches `s`, multiply `s` by ten -/
def scaleUp (incl : Bool) : Nat → Nat → Nat → Nat → Int → Nat × Int
  | 0, _, _, s, k => (s, k)
  | fuel + 1, r, mp, s, k =>
    if (if incl then r + mp ≥ s else r + mp > s) then scaleUp incl fuel r mp (s * 10) (k + 1) else (s, k)

/-- scale down: while ten times the upper bound stays below `s`, multiply the numerators by ten -/
def scaleDown (incl : Bool) : Nat → Nat → Nat → Nat → Nat → Int → Nat × Nat × Nat × Int
  | 0, r, mp, mm, _, k => (r, mp, mm, k)
  | fuel + 1, r, mp, mm, s, k =>
    if (if incl then (r + mp) * 10 < s else (r + mp) * 10 ≤ s) then scaleDown incl fuel (r * 10) (mp * 10) (mm * 10) s (k - 1)
    else (r, mp, mm, k)

def genDigits (incl : Bool) : Nat → Nat → Nat → Nat → Nat → List Nat
  | 0, _, _, _, _ => []
  | fuel + 1, r, mp, mm, s =>
    let d := (r * 10) / s
    let r := (r * 10) % s
    let mp := mp * 10
    let mm := mm * 10
    let tc1 := if incl then r ≤ mm else r < mm
    let tc2 := if incl then r + mp ≥ s else r + mp > s
    if !tc1 && !tc2 then d :: genDigits incl fuel r mp mm s
    else if tc1 && !tc2 then [d]
    else if !tc1 && tc2 then [d + 1]
    else if r * 2 < s then [d] else [d + 1]

/-- digits `d1 d2 …` and exponent `k` with value = 0.d1d2… × 10^k, for a positive finite double -/
def shortestDigits (bits : Nat) : List Nat × Int :=
  let be : Nat := (bits / 2 ^ 52) % 2048
  let frac : Nat := bits % 2 ^ 52
  let f : Nat := if be = 0 then frac else frac + 2 ^ 52
  let e : Int := if be = 0 then -1074 else (be : Int) - 1075
  let incl := f % 2 = 0
  let boundary := frac = 0 ∧ be > 1
  let (r, s, mp, mm) : Nat × Nat × Nat × Nat :=
    if e ≥ 0 then
      let b := 2 ^ e.toNat
      if boundary then (f * b * 4, 4, b * 2, b) else (f * b * 2, 2, b, b)
    else
      let d := 2 ^ (-e).toNat
      if boundary then (f * 4, d * 4, 2, 1) else (f * 2, d * 2, 1, 1)
  let (s, k) := scaleUp incl 400 r mp s 0
  let (r, mp, mm, k) := scaleDown incl 400 r mp mm s k
  (genDigits incl 30 r mp mm s, k)

def digitChar (d : Nat) : Char := Char.ofNat (48 + d)

def intText (v : Int) : String := toString v

/-- `format!("{v:e}")` for a finite `f64` given by its bits -/
def rustFloatE (bits : Nat) : String :=
  let neg := bits ≥ 2 ^ 63
  let mag := bits % 2 ^ 63
  let body :=
    if mag = 0 then "0e0"
    else
      let (ds, k) := shortestDigits mag
      match ds with
      | [] => "0e0"
      | [d] => String.ofList [digitChar d] ++ "e" ++ intText (k - 1)
      | d :: rest => String.ofList (digitChar d :: '.' :: rest.map digitChar) ++ "e" ++ intText (k - 1)
  (if neg then "-" else "") ++ body

def isNaNBits (bits : Nat) : Bool := (bits / 2 ^ 52) % 2048 = 2047 ∧ bits % 2 ^ 52 ≠ 0
def isInfBits (bits : Nat) : Bool := (bits / 2 ^ 52) % 2048 = 2047 ∧ bits % 2 ^ 52 = 0

/-! ### literals and operands -/

def octDigit (d : Nat) : Char := Char.ofNat (48 + d)

/-- `format_cxx_string_literal` -/
def cxxStringLiteral (s : List Char) : String :=
  let esc (c : Char) : List Char :=
    if c = '"' then ['\\', '"']
    else if c = '\\' then ['\\', '\\']
    else if c = '\n' then ['\\', 'n']
    else if c = '\r' then ['\\', 'r']
    else if c = '\t' then ['\\', 't']
    else if c.toNat < 0x20 || c.toNat = 0x7f then
      ['\\', octDigit (c.toNat / 64 % 8), octDigit (c.toNat / 8 % 8), octDigit (c.toNat % 8)]
    else [c]
  String.ofList (['"'] ++ s.flatMap esc ++ ['"'])

structure Tr where
  env : Env
  fmtFloat : Nat → String
  rootName : String
  trContext : String
  /-- `CxxCodeReturnKind`: `true` = Value (bindings), `false` = Void (callbacks) -/
  returnsValue : Bool

def formatLocal (n : Nat) : String := s!"a{n}"
def formatBlock (n : Nat) : String := s!"b{n}"

def formatNamedObject (t : Tr) (name : String) : String :=
  if name = t.rootName then "this->root_" else "this->ui_->" ++ name

/-- `format_operand` -/
def formatOperand (t : Tr) : Operand → String
  | .const (.bool v) => if v then "true" else "false"
  | .const (.integer v) => intText v
  | .const (.float v) =>
    if isNaNBits v then "qQNaN()"
    else if isInfBits v then (if v ≥ 2 ^ 63 then "-qInf()" else "qInf()")
    else t.fmtFloat v
  | .const (.cstring v) => cxxStringLiteral v
  | .const (.qstring v) => "QStringLiteral(" ++ cxxStringLiteral v ++ ")"
  | .const .nullPointer => "nullptr"
  | .const .emptyList => "{}"
  | .enumVariant e v => cxxVariant t.env e v
  | .local n _ => formatLocal n
  | .namedObject n _ => formatNamedObject t n
  | .void => "void()"

def memberAccessOp (a : Operand) : String := if a.typeDesc.isPointer then "->" else "."

/-- `enum_operand_type` -/
def enumOperandType (a : Operand) : Option TypeKind :=
  match a.typeDesc with
  | .concrete (.just (.enum e)) => some (.just (.enum e))
  | _ => none

/-- `is_double_rem` -/
def isDoubleRem (op : BinaryOp) (l r : Operand) : Bool :=
  op = .arith .rem && (l.typeDesc = .double || r.typeDesc = .double)

/-- `uint_template_argument` -/
def uintTemplateArgument (args : List Operand) : String :=
  if args.any (·.typeDesc = .uint) && args.any (·.typeDesc = .constInteger) then "<uint>" else ""

def isConstRefPreferred : TypeKind → Bool
  | .just (.prim .qstring) | .just (.prim .qvariant) => true
  | .just (.prim _) => false
  | .just (.cls _) | .just (.comp _) => true
  | .just (.enum _) | .just (.ns _) => false
  | .pointer _ => false
  | .list _ => true

/-- `format_signal_pointer` -/
def formatSignalPointer (m : MethodInfo) : String :=
  let args := m.args.map fun ty => if isConstRefPreferred ty then "const " ++ ty.cxxName ++ " &" else ty.cxxName
  "QOverload<" ++ joinWith ", " args ++ ">::of(&" ++ m.cls ++ "::" ++ m.name ++ ")"

/-- `format_rvalue` -/
def formatRvalue (t : Tr) : Rvalue → String
  | .copy a => formatOperand t a
  | .unary op a =>
    let expr := op.symbol ++ formatOperand t a
    if op = .bitNot then
      match enumOperandType a with
      | some ty => "static_cast<" ++ ty.cxxName ++ ">(static_cast<int>(" ++ expr ++ "))"
      | none => expr
    else expr
  | .binary op l r =>
    let plain := formatOperand t l ++ " " ++ op.symbol ++ " " ++ formatOperand t r
    (match op with
     | .bitwise _ =>
       (match (enumOperandType l).orElse fun _ => enumOperandType r with
        | some ty => "static_cast<" ++ ty.cxxName ++ ">(static_cast<int>(" ++ plain ++ "))"
        | none => plain)
     | _ =>
       if isDoubleRem op l r then "std::fmod(" ++ formatOperand t l ++ ", " ++ formatOperand t r ++ ")" else plain)
  | .staticCast ty a => "static_cast<" ++ ty.cxxName ++ ">(" ++ formatOperand t a ++ ")"
  | .variantCast ty a => formatOperand t a ++ memberAccessOp a ++ "value<" ++ ty.cxxName ++ ">()"
  | .callBuiltin f args =>
    let fa := args.map (formatOperand t)
    (match f with
     | .consoleLog lv =>
       let handler := match lv with
         | .log | .debug => "qDebug" | .info => "qInfo" | .warn => "qWarning" | .error => "qCritical"
       joinWith " << " ((handler ++ "().noquote()") :: fa)
     | .max => "std::max" ++ uintTemplateArgument args ++ "(" ++ joinWith ", " fa ++ ")"
     | .min => "std::min" ++ uintTemplateArgument args ++ "(" ++ joinWith ", " fa ++ ")"
     | .tr => "QCoreApplication::translate(" ++ cxxStringLiteral t.trContext.toList ++ ", " ++ joinWith ", " fa ++ ")")
  | .callMethod obj m args =>
    formatOperand t obj ++ memberAccessOp obj ++ m.name ++ "(" ++ joinWith ", " (args.map (formatOperand t)) ++ ")"
  | .readProperty obj p => formatOperand t obj ++ memberAccessOp obj ++ p.readFn ++ "()"
  | .writeProperty obj p v => formatOperand t obj ++ memberAccessOp obj ++ p.writeFn ++ "(" ++ formatOperand t v ++ ")"
  | .readSubscript obj i => formatOperand t obj ++ memberAccessOp obj ++ "at(" ++ formatOperand t i ++ ")"
  | .writeSubscript obj i v => formatOperand t obj ++ "[" ++ formatOperand t i ++ "] = " ++ formatOperand t v
  | .makeList ty xs => ty.cxxName ++ "{" ++ joinWith ", " (xs.map (formatOperand t)) ++ "}"

/-! ### lines (the `CodeWriter`: four spaces per level) -/

def indent (level : Nat) (s : String) : String := String.ofList (List.replicate (4 * level) ' ') ++ s

/-- `write_statement` at indent level `lv` -/
def statementLines (t : Tr) (lv : Nat) : Statement → List String
  | .assign l r => [indent lv (formatLocal l ++ " = " ++ formatRvalue t r ++ ";")]
  | .exec r => [indent lv (formatRvalue t r ++ ";")]
  | .observeProperty h l sig =>
    let observer := s!"observed[{h}]"
    let sender := formatLocal l
    [ indent lv ("if (Q_UNLIKELY(!" ++ observer ++ ".connection || " ++ observer ++ ".object != " ++ sender ++ ")) {"),
      indent (lv + 1) ("QObject::disconnect(" ++ observer ++ ".connection);"),
      indent (lv + 1) ("if (" ++ sender ++ ") {"),
      indent (lv + 2) (observer ++ ".connection = QObject::connect(" ++ sender ++ ", " ++ formatSignalPointer sig ++
        ", this->root_, update);"),
      indent (lv + 1) "}",
      indent (lv + 1) (observer ++ ".object = " ++ sender ++ ";"),
      indent lv "}" ]

/-- the terminator part of `write_basic_block` (a block without terminator makes `terminator()` panic) -/
def terminatorLines (t : Tr) (lv : Nat) : Option Terminator → Option (List String)
  | none => none
  | some (.br x) => some [indent lv ("goto " ++ formatBlock x ++ ";")]
  | some (.brCond c y z) =>
    some [ indent lv ("if (" ++ formatOperand t c ++ ")"), indent (lv + 1) ("goto " ++ formatBlock y ++ ";"),
           indent lv "else", indent (lv + 1) ("goto " ++ formatBlock z ++ ";") ]
  | some (.ret .void) => some [indent lv "return;"]
  | some (.ret x) =>
    if t.returnsValue then some [indent lv ("return " ++ formatOperand t x ++ ";")]
    else some [indent lv ("static_cast<void>(" ++ formatOperand t x ++ ");"), indent lv "return;"]
  | some .unreachable => some [indent lv "Q_UNREACHABLE();"]

def blockLines (t : Tr) (i : Nat) (b : BasicBlock) : Option (List String) :=
  (terminatorLines t 2 b.terminator).map fun tl =>
    [indent 1 (formatBlock i ++ ":")] ++ b.statements.flatMap (statementLines t 2) ++ tl

def allBlocks (t : Tr) : Nat → List BasicBlock → Option (List String)
  | _, [] => some []
  | i, b :: rest =>
    match blockLines t i b, allBlocks t (i + 1) rest with
    | some x, some y => some (x ++ y)
    | _, _ => none

/-- `translate` (writer at indent level 1): declarations of the non-parameter locals, then the labelled blocks -/
def translate (t : Tr) (code : CodeBody) : Option (List String) :=
  let decls := (code.locals.zipIdx.drop code.parameterCount).map fun (ty, n) => indent 2 (ty.cxxName ++ " " ++ formatLocal n ++ ";")
  (allBlocks t 0 code.blocks).map fun bl => decls ++ bl

/-- `to_ascii_capitalized` -/
def capitalize (s : String) : String :=
  match s.toList with
  | c :: rest => if 'a' ≤ c ∧ c ≤ 'z' then String.ofList (Char.ofNat (c.toNat - 32) :: rest) else s
  | [] => s

/-- `CxxEvalExprFunction::write_function` (at class-member indentation), joined with newlines -/
def evalFunction (env : Env) (fmtFloat : Nat → String) (rootName name : String) (valueTy : TypeKind) (code : CodeBody) : String :=
  let t : Tr := { env, fmtFloat, rootName, trContext := "MyType", returnsValue := true }
  let pre := if code.observerCount > 0 then
      [ indent 2 ("auto &observed = observed" ++ name ++ "_;"),
        indent 2 ("const auto update = [this]() { this->update" ++ name ++ "(); };") ]
    else []
  match translate t code with
  | some body =>
    joinWith "\n" ([indent 1 (valueTy.cxxName ++ " eval" ++ name ++ "()"), indent 1 "{"] ++ pre ++ body ++ [indent 1 "}"])
  | none => "PANIC: terminator must have been set by builder"

/-- `CodeBody::resolve_return_type` followed by `is_assignable` (`verify_code_return_type`) -/
def returnTypeOk (env : Env) (code : CodeBody) (expected : TypeKind) : Bool :=
  let operands := code.blocks.filterMap fun b => match b.terminator with | some (.ret a) => some a | _ => none
  match operands with
  | [] => isAssignable env expected .void
  | first :: rest =>
    let r := rest.foldl (fun (acc : Option TypeDesc) a =>
      match acc with
      | none => none
      | some known => match deduceType env known a.typeDesc with | .ok t => some t | .error _ => none) (some first.typeDesc)
    match r with
    | some t => isAssignable env expected t
    | none => false

end QV.Model.CxxBody
