/-
  IR builder: mirrors /repo/lib/src/tir/builder.rs (`CodeBuilder` and its `ExpressionVisitor` impl) on top of the
  primitives of tir/core.rs (`push_statement`, `finalize`, `set_completion_value`, `alloca`, new block).
  Every Rust `assert!/expect/panic!` is an explicit branch that records the panic site in `Builder.panic`
  (the operation then proceeds like the release-build code would not — the flag is what the theorems and the
  correspondence look at; nothing is silently totalised).
-/
import QV.Model.Ceval

namespace QV.Model

structure Builder where
  code : CodeBody := {}
  panic : Option String := none
deriving Repr, Inhabited

namespace Builder

def fail (b : Builder) (site : String) : Builder :=
  { b with panic := b.panic.or (some site) }

/-- `alloca`: `Ok(local)` unless the type is void -/
def alloca (b : Builder) (ty : TypeKind) : Option Operand × Builder :=
  if ty ≠ .void then
    (some (.local b.code.locals.length ty), { b with code := { b.code with locals := b.code.locals ++ [ty] } })
  else (none, b)

/-- `current_basic_block_ref` -/
def currentRef (b : Builder) : Nat := b.code.blocks.length - 1

def modifyBlock (b : Builder) (i : Nat) (f : BasicBlock → BasicBlock) : Builder :=
  match b.code.blocks[i]? with
  | some blk => { b with code := { b.code with blocks := b.code.blocks.set i (f blk) } }
  | none => b.fail "basic block index out of range"

def blockHasTerminator (b : Builder) (i : Nat) : Bool :=
  match b.code.blocks[i]? with
  | some blk => blk.terminator.isSome
  | none => false

/-- `BasicBlock::push_statement` on block `i` (asserts: no terminator yet) -/
def pushStatementAt (b : Builder) (i : Nat) (s : Statement) : Builder :=
  let b := if b.blockHasTerminator i then b.fail "push_statement: terminator already set" else b
  b.modifyBlock i fun blk => { blk with statements := blk.statements ++ [s] }

def pushStatement (b : Builder) (s : Statement) : Builder := b.pushStatementAt b.currentRef s

/-- `BasicBlock::finalize` on block `i` (asserts: no terminator yet) -/
def finalizeAt (b : Builder) (i : Nat) (t : Terminator) : Builder :=
  let b := if b.blockHasTerminator i then b.fail "finalize: terminator already set" else b
  b.modifyBlock i fun blk => { blk with terminator := some t }

/-- `BasicBlock::set_completion_value` on the current block -/
def setCompletionValue (b : Builder) (v : Operand) : Builder :=
  let i := b.currentRef
  let b := if b.blockHasTerminator i then b.fail "set_completion_value: terminator already set" else b
  b.modifyBlock i fun blk => { blk with completionValue := some v }

/-- `mark_branch_point` / the `basic_blocks.push(BasicBlock::empty())` of break/return -/
def newBlock (b : Builder) : Nat × Builder :=
  (b.currentRef, { b with code := { b.code with blocks := b.code.blocks ++ [{}] } })

/-- `emit_result` -/
def emitResult (b : Builder) (ty : TypeKind) (rv : Rvalue) : Operand × Builder :=
  match b.alloca ty with
  | (some (.local n t), b) => (.local n t, b.pushStatement (.assign n rv))
  | (_, b) => (.void, b.pushStatement (.exec rv))

end Builder

/-- `ensure_concrete_string` -/
def ensureConcreteString : Operand → Operand
  | .const (.cstring s) => .const (.qstring s)
  | x => x

def toOperationTypeError (op : String) : TypeError → ExprError
  | .incompatible l r => .opIncompatible op l r
  | .undetermined t => .opUndetermined op t

def deduceConcrete (env : Env) (op : String) (l r : TypeDesc) : Except ExprError TypeKind :=
  match deduceConcreteType env l r with
  | .ok t => .ok t
  | .error e => .error (toOperationTypeError op e)

def toConcrete (op : String) (t : TypeDesc) : Except ExprError TypeKind :=
  match toConcreteType t with
  | .ok t => .ok t
  | .error e => .error (toOperationTypeError op e)

def isEnumKind : TypeKind → Bool
  | .just (.enum _) => true
  | _ => false

abbrev VisitResult := Except ExprError (Operand × Builder)

/-- `visit_integer`: `u64 → i64` (`try_into`) -/
def visitInteger (b : Builder) (v : Nat) : VisitResult :=
  if (v : Int) ≤ i64Max then .ok (.const (.integer v), b) else .error .integerConversion

/-- `visit_array` -/
def visitArray (env : Env) (b : Builder) (elements : List Operand) : VisitResult :=
  let operands := elements.map ensureConcreteString
  match operands with
  | [] => .ok (.const .emptyList, b)
  | first :: rest =>
    let rec go (known : TypeDesc) (i : Nat) : List Operand → Except ExprError TypeDesc
      | [] => .ok known
      | a :: as =>
        match deduceType env known a.typeDesc with
        | .ok t => go t (i + 1) as
        | .error (.incompatible l r) => .error (.incompatibleArrayElement i l r)
        | .error e => .error (toOperationTypeError "array" e)
    match go first.typeDesc 1 rest with
    | .error e => .error e
    | .ok elemT =>
      match toConcrete "array" elemT with
      | .error e => .error e
      | .ok et =>
        let ty := TypeKind.list et
        .ok (b.emitResult ty (.makeList ty operands))

/-- `visit_local_ref`: `locals[name]` (index must be valid) -/
def visitLocalRef (b : Builder) (name : Nat) : VisitResult :=
  match b.code.locals[name]? with
  | some ty => .ok (.local name ty, b)
  | none => .ok (.void, b.fail "visit_local_ref: local index out of range")

/-- `visit_local_declaration` -/
def visitLocalDeclaration (b : Builder) (ty : TypeKind) : Except ExprError (Nat × Builder) :=
  match b.alloca ty with
  | (some (.local n _), b) => .ok (n, b)
  | _ => .error (.opUnsupported "local declaration" .void)

/-- `visit_local_assignment` -/
def visitLocalAssignment (env : Env) (b : Builder) (name : Nat) (right : Operand) : VisitResult :=
  match b.code.locals[name]? with
  | none => .ok (.void, b.fail "visit_local_assignment: local index out of range")
  | some ty =>
    let right := ensureConcreteString right
    if !isAssignable env ty right.typeDesc then
      .error (.opIncompatible "=" (.concrete ty) right.typeDesc)
    else .ok (.void, b.pushStatement (.assign name (.copy right)))

/-- `visit_function_parameter` -/
def visitFunctionParameter (b : Builder) (ty : TypeKind) : Except ExprError (Nat × Builder) :=
  let b := if b.code.locals.length ≠ b.code.parameterCount then
      b.fail "function parameters must be declared prior to any local declarations" else b
  match b.alloca ty with
  | (some (.local n _), b) =>
    .ok (n, { b with code := { b.code with parameterCount := b.code.locals.length } })
  | _ => .error (.opUnsupported "function parameter" .void)

/-- `visit_object_property` -/
def visitObjectProperty (b : Builder) (object : Operand) (p : PropInfo) : VisitResult :=
  if !p.readable then .error .unreadableProperty
  else .ok (b.emitResult p.ty (.readProperty (ensureConcreteString object) p))

/-- `visit_object_property_assignment` -/
def visitObjectPropertyAssignment (env : Env) (b : Builder) (object : Operand) (p : PropInfo) (right : Operand) :
    VisitResult :=
  if !p.writable then .error .unwritableProperty
  else
    let object := ensureConcreteString object
    let right := ensureConcreteString right
    if !isAssignable env p.ty right.typeDesc then
      .error (.opIncompatible "=" (.concrete p.ty) right.typeDesc)
    else .ok (b.emitResult .void (.writeProperty object p right))

/-- `check_object_subscript_type` -/
def checkObjectSubscriptType (object index : Operand) : Except ExprError TypeKind :=
  match toConcrete "subscript" object.typeDesc with
  | .error e => .error e
  | .ok (.list ty) =>
    (match index.typeDesc with
     | .constInteger => .ok ty
     | .concrete k => if k = .int ∨ k = .uint then .ok ty else .error (.incompatibleIndex index.typeDesc)
     | t => .error (.incompatibleIndex t))
  | .ok ty => .error (.opUnsupported "subscript" (.concrete ty))

/-- `visit_object_subscript` -/
def visitObjectSubscript (b : Builder) (object index : Operand) : VisitResult :=
  match checkObjectSubscriptType object index with
  | .error e => .error e
  | .ok elemTy => .ok (b.emitResult elemTy (.readSubscript object index))

/-- `visit_object_subscript_assignment` -/
def visitObjectSubscriptAssignment (env : Env) (b : Builder) (object index right : Operand) : VisitResult :=
  match checkObjectSubscriptType object index with
  | .error e => .error e
  | .ok elemTy =>
    if !isAssignable env elemTy right.typeDesc then
      .error (.opIncompatible "=" (.concrete elemTy) right.typeDesc)
    else .ok (.void, b.pushStatement (.exec (.writeSubscript object index right)))

def joinWith (sep : String) : List String → String
  | [] => ""
  | [x] => x
  | x :: xs => x ++ sep ++ joinWith sep xs

/-- `visit_object_method_call`: the first overload with matching arity whose parameters all accept the arguments -/
def visitObjectMethodCall (env : Env) (b : Builder) (object : Operand) (methods : List MethodInfo)
    (arguments : List Operand) : VisitResult :=
  let object := ensureConcreteString object
  let arguments := arguments.map ensureConcreteString
  let compatible (m : MethodInfo) : Bool :=
    m.args.length = arguments.length &&
      (m.args.zip arguments).all fun (ty, v) => isAssignable env ty v.typeDesc
  match methods.find? compatible with
  | some m => .ok (b.emitResult m.ret (.callMethod object m arguments))
  | none =>
    let expects := joinWith ") | (" (methods.map fun m => joinWith ", " (m.args.map TypeKind.cxxName))
    let actual := joinWith ", " (arguments.map fun v => v.typeDesc.qualifiedName)
    .error (.invalidArgument s!"expects ({expects}), but got ({actual})")

/-- `visit_builtin_call` -/
def visitBuiltinCall (env : Env) (b : Builder) (f : Builtin) (arguments : List Operand) : VisitResult :=
  match f with
  | .consoleLog _ => .ok (b.emitResult .void (.callBuiltin f arguments))
  | .max | .min =>
    (match arguments with
     | [a0, a1] =>
       let op := if f = .max then "max" else "min"
       let a0 := ensureConcreteString a0
       let a1 := ensureConcreteString a1
       match deduceConcrete env op a0.typeDesc a1.typeDesc with
       | .error e => .error e
       | .ok ty =>
         if ty = .bool ∨ ty = .double ∨ ty = .int ∨ ty = .uint ∨ ty = .string then
           .ok (b.emitResult ty (.callBuiltin f [a0, a1]))
         else .error (.opUnsupported op (.concrete ty))
     | _ => .error (.invalidArgument s!"expects 2 arguments, but got {arguments.length}"))
  | .tr =>
    (match arguments with
     | [a] =>
       (match a.typeDesc with
        | .constString => .ok (b.emitResult .string (.callBuiltin f arguments))
        | t => .error (.invalidArgument t.qualifiedName))
     | _ => .error (.invalidArgument s!"expects 1 argument, but got {arguments.length}"))

/-- `emit_unary_expression` -/
def emitUnaryExpression (b : Builder) (unary : UnaryOp) (argument : Operand) : VisitResult :=
  let argument := ensureConcreteString argument
  let tyR : Except ExprError TypeKind :=
    match unary with
    | .plus | .minus =>
      (match toConcrete unary.symbol argument.typeDesc with
       | .error e => .error e
       | .ok ty => if ty = .int ∨ ty = .uint ∨ ty = .double then .ok ty
                   else .error (.opUnsupported unary.symbol (.concrete ty)))
    | .bitNot =>
      (match toConcrete unary.symbol argument.typeDesc with
       | .error e => .error e
       | .ok ty => if ty = .int ∨ ty = .uint ∨ isEnumKind ty then .ok ty
                   else .error (.opUnsupported unary.symbol (.concrete ty)))
    | .logNot =>
      if argument.typeDesc = .bool then .ok .bool else .error (.opUnsupported unary.symbol argument.typeDesc)
  match tyR with
  | .error e => .error e
  | .ok ty => .ok (b.emitResult ty (.unary unary argument))

/-- `visit_unary_expression` -/
def visitUnaryExpression (F : FloatOps) (b : Builder) (unary : UnaryOp) (argument : Operand) : VisitResult :=
  match argument with
  | .const a =>
    let r := match unary with
      | .plus | .minus => evalUnaryArith F unary a
      | .bitNot => evalUnaryBitwise a
      | .logNot => evalUnaryLogical a
    (match r with
     | .ok v => .ok (.const v, b)
     | .error e => .error e)
  | _ => emitUnaryExpression b unary argument

/-- `emit_binary_expression` -/
def emitBinaryExpression (env : Env) (b : Builder) (binary : BinaryOp) (left right : Operand) : VisitResult :=
  let left := ensureConcreteString left
  let right := ensureConcreteString right
  let unsupported (t : TypeDesc) : ExprError := .opUnsupported binary.symbol t
  let tyR : Except ExprError TypeKind × Builder :=
    match binary with
    | .arith op =>
      (match deduceConcrete env op.symbol left.typeDesc right.typeDesc with
       | .error e => (.error e, b)
       | .ok ty =>
         if ty = .int ∨ ty = .uint ∨ ty = .double then (.ok ty, b)
         else if ty = .string then
           (if op = .add then (.ok ty, b) else (.error (unsupported (.concrete ty)), b))
         else (.error (unsupported (.concrete ty)), b))
    | .bitwise op =>
      (match deduceConcrete env op.symbol left.typeDesc right.typeDesc with
       | .error e => (.error e, b)
       | .ok ty =>
         if ty = .bool ∨ ty = .int ∨ ty = .uint ∨ isEnumKind ty then (.ok ty, b)
         else (.error (unsupported (.concrete ty)), b))
    | .shift op =>
      (match toConcrete op.symbol left.typeDesc with
       | .error e => (.error e, b)
       | .ok lty =>
         let rt := right.typeDesc
         if (lty = .int ∨ lty = .uint) ∧ (rt = .constInteger ∨ rt = .int ∨ rt = .uint) then (.ok lty, b)
         else (.error (.opUnsupportedTypes op.symbol (.concrete lty) rt), b))
    | .logical _ => (.ok .bool, b.fail "visit_binary_logical_expression() should be called")
    | .cmp op =>
      (match deduceConcrete env op.symbol left.typeDesc right.typeDesc with
       | .error e => (.error e, b)
       | .ok ty =>
         -- pointers: only `==` / `!=` (after the repair 5a4a210: `ptr < nullptr` is ill-formed C++)
         if ty = .bool ∨ ty = .int ∨ ty = .uint ∨ ty = .double ∨ ty = .string ∨ isEnumKind ty
            ∨ (ty.isPointer ∧ (op = .eq ∨ op = .ne))
         then (.ok .bool, b)
         else (.error (unsupported (.concrete ty)), b))
  match tyR with
  | (.error e, _) => .error e
  | (.ok ty, b) => .ok (b.emitResult ty (.binary binary left right))

/-- `visit_binary_expression` -/
def visitBinaryExpression (F : FloatOps) (env : Env) (b : Builder) (binary : BinaryOp) (left right : Operand) :
    VisitResult :=
  match left, right with
  | .const l, .const r =>
    let r' : Except ExprError ConstantValue × Builder := match binary with
      | .arith op => (evalBinaryArith F op l r, b)
      | .bitwise op => (evalBinaryBitwise op l r, b)
      | .shift op => (evalShift op l r, b)
      | .logical _ => (.ok (.bool false), b.fail "visit_binary_logical_expression() should be called")
      | .cmp op => (evalComparison F op l r, b)
    (match r' with
     | (.ok v, b) => .ok (.const v, b)
     | (.error e, _) => .error e)
  | _, _ => emitBinaryExpression env b binary left right

/-- `visit_binary_logical_expression` -/
def visitBinaryLogicalExpression (b : Builder) (op : LogicOp) (left : Operand) (leftRef : Nat)
    (right : Operand) (rightRef : Nat) : Operand × Builder :=
  let b := if left.typeDesc ≠ .bool ∨ right.typeDesc ≠ .bool then b.fail "logical operand must be bool" else b
  let (initValue, trueRef, falseRef) := match op with
    | .and => (false, leftRef + 1, rightRef + 1)
    | .or => (true, rightRef + 1, leftRef + 1)
  match b.alloca .bool with
  | (some (.local n t), b) =>
    let b := b.pushStatementAt leftRef (.assign n (.copy (.const (.bool initValue))))
    let b := b.finalizeAt leftRef (.brCond left trueRef falseRef)
    let b := b.pushStatementAt rightRef (.assign n (.copy right))
    let b := b.finalizeAt rightRef (.br (rightRef + 1))
    (.local n t, b)
  | (_, b) => (.void, b.fail "alloca(bool) failed")

/-- `visit_as_expression` -/
def visitAsExpression (env : Env) (b : Builder) (value : Operand) (ty : TypeKind) : VisitResult :=
  let value := ensureConcreteString value
  match pickTypeCast env ty value.typeDesc with
  | .noop => .ok (value, b)
  | .implicit => .ok (b.emitResult ty (.copy value))
  | .static => .ok (b.emitResult ty (.staticCast ty value))
  | .variant => .ok (b.emitResult ty (.variantCast ty value))
  | .invalid => .error (.opIncompatible "as" value.typeDesc (.concrete ty))

/-- `visit_ternary_expression` -/
def visitTernaryExpression (env : Env) (b : Builder) (condition : Operand) (conditionRef : Nat)
    (consequence : Operand) (consequenceRef : Nat) (alternative : Operand) (alternativeRef : Nat) : VisitResult :=
  let consequence := ensureConcreteString consequence
  let alternative := ensureConcreteString alternative
  match deduceConcrete env "ternary" consequence.typeDesc alternative.typeDesc with
  | .error e => .error e
  | .ok ty =>
    let (sink, b) := b.alloca ty
    let b := b.finalizeAt conditionRef (.brCond condition (conditionRef + 1) (consequenceRef + 1))
    let store (b : Builder) (src : Operand) (srcRef : Nat) : Builder :=
      let b := match sink with
        | some (.local n _) => b.pushStatementAt srcRef (.assign n (.copy src))
        | _ => b
      b.finalizeAt srcRef (.br (alternativeRef + 1))
    let b := store b consequence consequenceRef
    let b := store b alternative alternativeRef
    .ok (sink.getD .void, b)

/-- `visit_expression_statement` -/
def visitExpressionStatement (b : Builder) (value : Operand) : Builder :=
  b.setCompletionValue (ensureConcreteString value)

/-- `visit_if_statement` -/
def visitIfStatement (b : Builder) (condition : Operand) (conditionRef consequenceRef : Nat)
    (alternativeRef : Option Nat) : Builder :=
  let b := b.finalizeAt conditionRef (.brCond condition (conditionRef + 1) (consequenceRef + 1))
  let endRef := (alternativeRef.getD consequenceRef) + 1
  let b := b.finalizeAt consequenceRef (.br endRef)
  match alternativeRef with
  | some l => b.finalizeAt l (.br endRef)
  | none => b

/-- `Vec::remove(p)`; out of range panics -/
def removeAt {α} : List α → Nat → Option (α × List α)
  | [], _ => none
  | x :: xs, 0 => some (x, xs)
  | x :: xs, n + 1 => (removeAt xs n).map fun (y, ys) => (y, x :: ys)

/-- `visit_switch_statement` -/
def visitSwitchStatement (b : Builder) (caseConditions : List (Operand × Nat)) (bodies : List Nat)
    (defaultPos : Option Nat) (headRef exitRef : Nat) : Builder :=
  let lastBodyRef := bodies.getLast?.getD exitRef
  -- (after the repair of F17: no start reference when there is no body at all)
  let starts0 : List Nat := if bodies.isEmpty then [] else (exitRef + 1) :: (bodies.dropLast.map (· + 1))
  let (defaultStart, starts, b) : Option Nat × List Nat × Builder :=
    match defaultPos with
    | none => (none, starts0, b)
    | some p =>
      (match removeAt starts0 p with
       | some (d, rest) => (some d, rest, b)
       | none => (none, starts0, b.fail "case_body_start_refs.remove(default_pos) out of range"))
  let b := if caseConditions.length ≠ starts.length then b.fail "assert_eq!(case_conditions.len(), case_body_start_refs.len())" else b
  -- connect case branches
  let rec connect (b : Builder) (i : Nat) : List ((Operand × Nat) × Nat) → Builder
    | [] => b
    | ((condition, conditionRef), bodyStart) :: rest =>
      let nextRef := if i + 1 < starts.length then conditionRef + 1 else defaultStart.getD (lastBodyRef + 1)
      connect (b.finalizeAt conditionRef (.brCond condition bodyStart nextRef)) (i + 1) rest
  let b := connect b 0 (caseConditions.zip starts)
  -- connect fall-through paths
  let b := bodies.foldl (fun b bodyRef => b.finalizeAt bodyRef (.br (bodyRef + 1))) b
  -- connect enter/exit paths
  let b := b.finalizeAt headRef (.br (exitRef + 1))
  b.finalizeAt exitRef (.br (lastBodyRef + 1))

/-- `visit_break_statement` -/
def visitBreakStatement (b : Builder) (exitRef : Nat) : Builder :=
  (b.finalizeAt b.currentRef (.br exitRef)).newBlock.2

/-- `visit_return_statement` -/
def visitReturnStatement (b : Builder) (value : Operand) : Builder :=
  (b.finalizeAt b.currentRef (.ret (ensureConcreteString value))).newBlock.2

end QV.Model
