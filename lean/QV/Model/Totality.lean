/-
  QV.Model.Totality — the part of C07 ("totality") a proof can carry.  Import-free.

  (i)  The value-shape contract between the type check and the `unwrap_*` calls:
         * `TypeKind`/`TypeDesc`, `pickTypeCast`, `isAssignable`, `deduceType`      ↔ lib/src/typeutil.rs
         * `EvaluatedValue`, `evaluateCode` (every index/`unreachable!()` explicit)  ↔ lib/src/tir/interpret.rs
         * `resolveReturnType`                                                       ↔ lib/src/tir/core.rs
         * `buildExpr`/`parseAsValueType`/`buildItemModel`/`buildObjectRefList`
           (every `unwrap_*`/`panic!` an explicit `.error site`)                    ↔ lib/src/uigen/expr.rs
         * `widgetActions` (`expect("object ref must be valid")`)                   ↔ lib/src/uigen/object.rs
       The IR is abstracted to what the interpreter looks at: operands with their static types, the five
       rvalue forms it evaluates (everything else is `other`), `br`-chains.  `wfCode` collects the
       post-conditions of the TIR builder the interpreter relies on (indices in range, `Copy` only between
       assignable types, …); it is *not* proved here that the builder establishes them (C05/C06).
  (ii) How diagnostic byte ranges are formed (`Rng`): node ranges, `end..end`, and the `s..e` span of
       `verify_callback_parameter_type`.
  (ii') Positions produced by the parser adapter and consumed by `Vec::insert` / `Vec::remove` (implicit panic sites):
       the clause loop of `SwitchStatement::with_cursor` (lib/src/qmlast/stmt.rs) over the child kinds of a switch body,
       the `body_statements.insert(d.position, …)` of `walk_stmt` (lib/src/typedexpr.rs) and the
       `case_body_start_refs.remove(p)` of `visit_switch_statement` (lib/src/tir/builder.rs).
  (iii) All functions are structurally recursive, except `runFrom` which recurses on the shrinking list
       of unvisited blocks (the interpreter's `visited_blocks` bitmap) — Lean's acceptance is the termination proof.
-/
namespace QV.Model.Totality

/-! ## types (typemap::TypeKind with NamedType flattened; typedexpr::TypeDesc) -/

inductive Prim | bool | int | uint | double | qstring | void | variant
  deriving DecidableEq, Repr

inductive TypeKind
  | prim (p : Prim)        -- Just(Primitive)
  | enum (e : Nat)         -- Just(Enum)
  | gadget (c : Nat)       -- Just(Class): QColor, QBrush, QCursor, QKeySequence, QPixmap, QFont, …
  | other                  -- Just(Namespace | QmlComponent)
  | ptr (c : Nat)          -- Pointer(Class)
  | ptrOther               -- Pointer(anything else)
  | list (t : TypeKind)    -- List
  deriving DecidableEq, Repr

inductive TypeDesc
  | constInteger | constString | nullPointer | emptyList
  | concrete (t : TypeKind)
  deriving DecidableEq, Repr

/-- what the type map says (abstract): class ancestry, enum alias compatibility, flag-ness, and the
    well-known classes of `KnownClasses` -/
structure Env where
  derives : Nat → Nat → Bool        -- `a.is_derived_from(e)` as `derives a e`
  enumCompat : Nat → Nat → Bool     -- `is_compatible_enum` (its `Err` case ends in a diagnostic, not modelled)
  isFlag : Nat → Bool
  brush : Nat
  color : Nat
  cursor : Nat
  keySequence : Nat
  pixmap : Nat
  cursorShape : Nat                 -- enum Qt::CursorShape
  standardKey : Nat                 -- enum QKeySequence::StandardKey

inductive CastKind | noop | implicit | static | variant | invalid
  deriving DecidableEq, Repr

def TypeKind.isNumeric : TypeKind → Bool
  | .prim .double | .prim .int | .prim .uint => true
  | _ => false

def TypeKind.isIntLike : TypeKind → Bool
  | .prim .int | .prim .uint => true
  | _ => false

/-- the arms of `pick_concrete_type_cast` after the same-type, enum/enum and pointer/pointer arms -/
def fallbackCast (e a : TypeKind) : CastKind :=
  if e.isNumeric && a.isNumeric then .static
  else if e.isIntLike && (match a with | .enum _ => true | .prim .bool => true | _ => false) then .static
  else if e = .prim .void then .static
  else if a = .prim .variant then .variant
  else .invalid

/-- `typeutil::pick_concrete_type_cast` (arms in source order; for enum/enum and pointer/pointer a failed guard
    falls through to arms none of which applies, i.e. to `Invalid`) -/
def pickConcreteTypeCast (env : Env) (expected actual : TypeKind) : CastKind :=
  if expected = actual then .noop
  else match expected, actual with
    | .enum e, .enum a => if env.enumCompat e a then .implicit else .invalid
    | .ptr e, .ptr a => if env.derives a e then .implicit else .invalid
    | e, a => fallbackCast e a

/-- `typeutil::pick_type_cast` -/
def pickTypeCast (env : Env) (expected : TypeKind) (actual : TypeDesc) : CastKind :=
  match expected, actual with
  | e, .concrete t => pickConcreteTypeCast env e t
  | .prim .int, .constInteger => .implicit
  | .prim .uint, .constInteger => .implicit
  | .prim .double, .constInteger => .static
  | .prim .qstring, .constString => .implicit
  | .ptr _, .nullPointer => .implicit
  | .ptrOther, .nullPointer => .implicit
  | .list _, .emptyList => .implicit
  | .prim .void, _ => .static
  | _, _ => .invalid

/-- `typeutil::is_assignable` -/
def isAssignable (env : Env) (expected : TypeKind) (actual : TypeDesc) : Bool :=
  match pickTypeCast env expected actual with
  | .noop | .implicit => true
  | _ => false

/-- `typeutil::deduce_type`; `none` = `IncompatibleTypes` -/
def deduceType (env : Env) (l r : TypeDesc) : Option TypeDesc :=
  if l = r then some l
  else match l, r with
    | .concrete (.prim .int), .constInteger => some l
    | .concrete (.prim .uint), .constInteger => some l
    | .constInteger, .concrete (.prim .int) => some r
    | .constInteger, .concrete (.prim .uint) => some r
    | .concrete (.prim .qstring), .constString => some l
    | .constString, .concrete (.prim .qstring) => some r
    | .concrete (.enum a), .concrete (.enum b) => if env.enumCompat a b then some l else none
    | .concrete (.ptr _), .nullPointer => some l
    | .concrete .ptrOther, .nullPointer => some l
    | .nullPointer, .concrete (.ptr _) => some r
    | .nullPointer, .concrete .ptrOther => some r
    | .concrete (.list _), .emptyList => some l
    | .emptyList, .concrete (.list _) => some r
    | _, _ => none

/-- `typeutil::to_concrete_type`; `none` = `UndeterminedType` -/
def toConcrete : TypeDesc → Option TypeKind
  | .concrete t => some t
  | .constInteger => some (.prim .int)
  | .constString => some (.prim .qstring)
  | .nullPointer | .emptyList => none

/-! ## the IR as the interpreter sees it (tir/core.rs) -/

inductive ConstantValue
  | bool (b : Bool) | integer (i : Int) | float (bits : Nat)
  | cstring (s : String) | qstring (s : String) | nullPointer | emptyList
  deriving DecidableEq, Repr

def ConstantValue.typeDesc : ConstantValue → TypeDesc
  | .bool _ => .concrete (.prim .bool)
  | .integer _ => .constInteger
  | .float _ => .concrete (.prim .double)
  | .cstring _ => .constString
  | .qstring _ => .concrete (.prim .qstring)
  | .nullPointer => .nullPointer
  | .emptyList => .emptyList

inductive Operand
  | const (c : ConstantValue)
  | enumVariant (e : Nat) (cxx : String)
  | local_ (i : Nat) (ty : TypeKind)
  | namedObject (name : String) (cls : Nat)
  | void
  deriving DecidableEq, Repr

def Operand.typeDesc : Operand → TypeDesc
  | .const c => c.typeDesc
  | .enumVariant e _ => .concrete (.enum e)
  | .local_ _ ty => .concrete ty
  | .namedObject _ c => .concrete (.ptr c)
  | .void => .concrete (.prim .void)

inductive Rvalue
  | copy (a : Operand)
  | bitOr (l r : Operand)                                   -- BinaryOp(Bitwise(Or), l, r)
  | tr (args : List Operand)                                -- CallBuiltinFunction(Tr, args)
  | callMethod (obj : Operand) (isQMenuMenuAction : Bool)   -- CallMethod(obj, meth, _)
  | makeList (ty : TypeKind) (args : List Operand)
  | other                                                   -- every rvalue the interpreter gives up on
  deriving Repr

inductive Statement
  | assign (l : Nat) (r : Rvalue)
  | exec
  | observe
  deriving Repr

inductive Terminator
  | br (target : Nat)
  | brCond
  | ret (a : Operand)
  | unreachable
  deriving Repr

structure Block where
  stmts : List Statement
  term : Option Terminator
  deriving Repr

structure Code where
  blocks : List Block
  locals : List TypeKind
  deriving Repr

/-! ## evaluated values (tir/interpret.rs) -/

inductive EvaluatedValue
  | bool (b : Bool)
  | integer (i : Int)
  | float (bits : Nat)
  | string (s : String) (tr : Bool)
  | stringList (xs : List (String × Bool))
  | enumSet (es : List String)
  | objectRef (name : String)
  | objectRefList (names : List String)
  | emptyList
  deriving DecidableEq, Repr

/-- every place of the modelled code that panics by construction -/
inductive Site
  | unwrapString | unwrapStringList | unwrapEnumSet | unwrapObjectRef | simpleValue
  | interpUnreachable | interpBlockIndex | interpLocalIndex | interpArgIndex | interpNoTerminator
  | objectRefMustBeValid
  deriving DecidableEq, Repr

/-- `Ok(Some v)` a value, `Ok(None)` "no constant value / diagnostic pushed", `Err site` a panic -/
abbrev Out (α : Type) := Except Site (Option α)

abbrev Locals := List (Option EvaluatedValue)

/-- `to_evaluated_value` -/
def toEvaluatedValue (locals : Locals) (a : Operand) (tr : Bool) : Out EvaluatedValue :=
  match a with
  | .const (.bool v) => .ok (some (.bool v))
  | .const (.integer v) => .ok (some (.integer v))
  | .const (.float v) => .ok (some (.float v))
  | .const (.cstring v) => .ok (some (.string v tr))
  | .const (.qstring v) => .ok (some (.string v tr))
  | .const .nullPointer => .ok none
  | .const .emptyList => .ok (some .emptyList)
  | .enumVariant _ cxx => .ok (some (.enumSet [cxx]))
  | .local_ i _ =>
    match locals[i]? with
    | some v => .ok v
    | none => .error .interpLocalIndex          -- `locals[x.name.0]`
  | .namedObject name _ => .ok (some (.objectRef name))
  | .void => .ok none

def evalAll (locals : Locals) : List Operand → Except Site (List (Option EvaluatedValue))
  | [] => .ok []
  | a :: rest =>
    match toEvaluatedValue locals a false with
    | .error s => .error s
    | .ok v => match evalAll locals rest with
      | .error s => .error s
      | .ok vs => .ok (v :: vs)

def allStrings : List (Option EvaluatedValue) → Option (List (String × Bool))
  | [] => some []
  | some (.string s k) :: rest => (allStrings rest).map ((s, k) :: ·)
  | _ :: _ => none

def allObjectRefs : List (Option EvaluatedValue) → Option (List String)
  | [] => some []
  | some (.objectRef s) :: rest => (allObjectRefs rest).map (s :: ·)
  | _ :: _ => none

/-- `to_evaluated_list` (the Rust iterator is lazy: only operands up to the first mismatch are evaluated;
    the model evaluates all of them, which can only add `interpLocalIndex` panics — excluded by `wfCode`) -/
def toEvaluatedList (locals : Locals) (args : List Operand) : Out EvaluatedValue :=
  match evalAll locals args with
  | .error s => .error s
  | .ok vs =>
    match vs with
    | some (.string _ _) :: _ => .ok ((allStrings vs).map .stringList)
    | some (.objectRef _) :: _ => .ok ((allObjectRefs vs).map .objectRefList)
    | _ => .ok none

/-- `to_evaluated_enum_set` -/
def toEvaluatedEnumSet (locals : Locals) (l r : Operand) : Out EvaluatedValue :=
  match toEvaluatedValue locals l false with
  | .error s => .error s
  | .ok none => .ok none
  | .ok (some lv) =>
    match toEvaluatedValue locals r false with
    | .error s => .error s
    | .ok none => .ok none
    | .ok (some rv) =>
      match lv, rv with
      | .enumSet ls, .enumSet rs => .ok (some (.enumSet (ls ++ rs)))
      | _, _ => .ok none

/-- value of an rvalue; the outer `Option` is `None` for "give up: `return None`" -/
def evalRvalue (locals : Locals) : Rvalue → Except Site (Option (Option EvaluatedValue))
  | .copy a => (toEvaluatedValue locals a false).map some
  | .bitOr l r => (toEvaluatedEnumSet locals l r).map some
  | .tr args =>
    match args with
    | a :: _ => (toEvaluatedValue locals a true).map some
    | [] => .error .interpArgIndex                 -- `args[0]`
  | .callMethod (.namedObject name _) true => .ok (some (some (.objectRef name)))
  | .callMethod _ _ => .ok none
  | .makeList _ args => (toEvaluatedList locals args).map some
  | .other => .ok none

/-- statements of one block; `Ok(None)` = the interpreter returned `None` -/
def evalStmts (locals : Locals) : List Statement → Except Site (Option Locals)
  | [] => .ok (some locals)
  | .assign l r :: rest =>
    match evalRvalue locals r with
    | .error s => .error s
    | .ok none => .ok none
    | .ok (some v) =>
      if l < locals.length then evalStmts (locals.set l v) rest
      else .error .interpLocalIndex                -- `locals[l.0] = …`
  | .exec :: rest => evalStmts locals rest
  | .observe :: rest => evalStmts locals rest

/-- the main loop from block `idx`; `unvisited` plays the role of the `visited_blocks` bitmap -/
def runFrom (code : Code) (unvisited : List Nat) (idx : Nat) (locals : Locals) : Out EvaluatedValue :=
  match code.blocks[idx]? with
  | none => .error .interpBlockIndex               -- `visited_blocks[r.0]`
  | some b =>
    if h : idx ∈ unvisited then
      match evalStmts locals b.stmts with
      | .error s => .error s
      | .ok none => .ok none
      | .ok (some locals') =>
        match b.term with
        | none => .error .interpNoTerminator       -- `terminator().expect(..)`
        | some (.br r) => runFrom code (unvisited.erase idx) r locals'
        | some .brCond => .ok none
        | some (.ret a) => toEvaluatedValue locals' a false
        | some .unreachable => .error .interpUnreachable   -- `unreachable!()`
    else .ok none                                  -- "prevent infinite loop"
termination_by unvisited.length
decreasing_by
  simp only [List.length_erase_of_mem h]
  have : 0 < unvisited.length := List.length_pos_of_mem h
  omega

/-- `evaluate_code` -/
def evaluateCode (code : Code) : Out EvaluatedValue :=
  match code.blocks with
  | [] => .error .interpBlockIndex                 -- `code.basic_blocks[0]`
  | b0 :: _ =>
    match b0.term with
    | none => .error .interpNoTerminator
    | some (.ret (.const c)) => toEvaluatedValue [] (.const c) false     -- fast path
    | _ => runFrom code (List.range code.blocks.length) 0 (List.replicate code.locals.length none)

/-! ## return type (tir/core.rs `resolve_return_type`) -/

def returnOperands (code : Code) : List Operand :=
  code.blocks.filterMap (fun b => match b.term with | some (.ret a) => some a | _ => none)

def foldDeduce (env : Env) (known : TypeDesc) : List TypeDesc → Option TypeDesc
  | [] => some known
  | t :: rest => match deduceType env known t with
    | some k => foldDeduce env k rest
    | none => none

/-- `none` = a diagnostic ("cannot deduce return type …") -/
def resolveReturnType (env : Env) (code : Code) : Option TypeDesc :=
  match (returnOperands code).map Operand.typeDesc with
  | [] => some (.concrete (.prim .void))
  | t :: rest => foldDeduce env t rest

/-! ## what the builder guarantees and the interpreter relies on -/

def operandOk (code : Code) : Operand → Bool
  | .local_ i ty => code.locals[i]? = some ty
  | _ => true

def rvalueOk (env : Env) (code : Code) (lty : TypeKind) : Rvalue → Bool
  | .copy a => operandOk code a && isAssignable env lty a.typeDesc
  | .bitOr l r =>
    operandOk code l && operandOk code r &&
      (match deduceType env l.typeDesc r.typeDesc with
       | some t => toConcrete t = some lty
       | none => false)
  | .tr args => (match args with | [.const (.cstring _)] => true | _ => false) && lty = .prim .qstring
  | .callMethod obj isMenuAction =>
    operandOk code obj && (!isMenuAction || (match lty with | .ptr _ => true | _ => false))
  | .makeList ty args =>
    ty = lty && args.all (operandOk code) &&
      (match ty with
       | .list elem => !args.isEmpty && args.all (fun a => deduceType env (.concrete elem) a.typeDesc = some (.concrete elem))
       | _ => false)
  | .other => true

def stmtOk (env : Env) (code : Code) : Statement → Bool
  | .assign l r => match code.locals[l]? with
    | some lty => rvalueOk env code lty r
    | none => false
  | _ => true

def termOk (code : Code) : Option Terminator → Bool
  | none => false
  | some (.br r) => r < code.blocks.length
  | some (.ret a) => operandOk code a
  | some _ => true

def wfCode (env : Env) (code : Code) : Bool :=
  !code.blocks.isEmpty && code.blocks.all (fun b => b.stmts.all (stmtOk env code) && termOk code b.term)

/-! ## uigen/expr.rs: from an evaluated value to a serialisable value -/

inductive SV
  | simple (v : EvaluatedValue)
  | cstring (s : String)
  | enum_ (s : List String) | set (s : List String) | cursorShape (s : List String)
  | pixmap (s : String)
  | color (s : String) | brush (s : String)
  | stringList (ss : List String) (tr : Bool)
  deriving DecidableEq, Repr

def unwrapString : EvaluatedValue → Except Site (String × Bool)
  | .string s k => .ok (s, k)
  | _ => .error .unwrapString

def unwrapStringList : EvaluatedValue → Except Site (List (String × Bool))
  | .stringList xs => .ok xs
  | .emptyList => .ok []
  | _ => .error .unwrapStringList

def unwrapEnumSet : EvaluatedValue → Except Site (List String)
  | .enumSet es => .ok es
  | _ => .error .unwrapEnumSet

def unwrapObjectRef : EvaluatedValue → Except Site String
  | .objectRef s => .ok s
  | _ => .error .unwrapObjectRef

def unwrapIntoSimpleValue : EvaluatedValue → Except Site SV
  | v@(.bool _) | v@(.integer _) | v@(.float _) | v@(.string _ _) => .ok (.simple v)
  | _ => .error .simpleValue

/-- `verify_code_return_type`: `false` = a diagnostic was pushed (`?` returns `None`) -/
def verifyCodeReturnType (env : Env) (expected : TypeKind) (ret : Option TypeDesc) : Bool :=
  match ret with
  | none => false
  | some rt => isAssignable env expected rt

/-- `extract_static_string` -/
def extractStaticString (res : EvaluatedValue) : Out String :=
  match unwrapString res with
  | .error s => .error s
  | .ok (s, false) => .ok (some s)
  | .ok (_, true) => .ok none

/-- `extract_string_list` -/
def extractStringList (res : EvaluatedValue) : Out SV :=
  match unwrapStringList res with
  | .error s => .error s
  | .ok xs =>
    let kind := match xs with | (_, k) :: _ => k | [] => false
    if xs.all (fun p => p.2 == kind) then .ok (some (.stringList (xs.map (·.1)) kind)) else .ok none

/-- `parse_color_value` (the colour syntax check of C19 is a diagnostic, not a panic: abstracted to "any string") -/
def parseColorValue (env : Env) (ret : Option TypeDesc) (res : EvaluatedValue) : Out String :=
  if verifyCodeReturnType env (.prim .qstring) ret then extractStaticString res else .ok none

def enumOrSet (env : Env) (e : Nat) (es : List String) : SV := if env.isFlag e then .set es else .enum_ es

/-- `parse_as_value_type` for `TypeKind::Just(t)` -/
def parseAsValueType (env : Env) (ty : TypeKind) (ret : Option TypeDesc) (res : EvaluatedValue) : Out SV :=
  match ty with
  | .gadget c =>
    if c = env.brush then (parseColorValue env ret res).map (·.map .brush)
    else if c = env.color then (parseColorValue env ret res).map (·.map .color)
    else if c = env.cursor then
      if verifyCodeReturnType env (.enum env.cursorShape) ret then (unwrapEnumSet res).map (fun es => some (.cursorShape es))
      else .ok none
    else if c = env.keySequence then
      match ret with
      | none => .ok none
      | some rt =>
        if isAssignable env (.enum env.standardKey) rt then
          (unwrapEnumSet res).map (fun es => some (enumOrSet env env.standardKey es))
        else if isAssignable env (.prim .qstring) rt then (unwrapIntoSimpleValue res).map some
        else .ok none
    else if c = env.pixmap then
      if verifyCodeReturnType env (.prim .qstring) ret then (extractStaticString res).map (·.map .pixmap) else .ok none
    else .ok none                                   -- "unsupported constant expression type"
  | .enum e =>
    if verifyCodeReturnType env ty ret then (unwrapEnumSet res).map (fun es => some (enumOrSet env e es)) else .ok none
  | .prim .bool | .prim .int | .prim .uint | .prim .double | .prim .qstring =>
    if verifyCodeReturnType env ty ret then (unwrapIntoSimpleValue res).map some else .ok none
  | _ => .ok none                                   -- void / namespace / QVariant / component: diagnostic

/-- `SerializableValue::build_unchecked`, branch `PropertyCodeKind::Expr(ty, code)` after `evaluate()?` -/
def buildExpr (env : Env) (ty : TypeKind) (ret : Option TypeDesc) (res : EvaluatedValue) : Out SV :=
  match ty with
  | .ptr _ =>
    if verifyCodeReturnType env ty ret then (unwrapObjectRef res).map (fun s => some (.cstring s)) else .ok none
  | .list t =>
    if t = .prim .qstring then
      if verifyCodeReturnType env ty ret then extractStringList res else .ok none
    else .ok none                                   -- "unexpected value type"
  | .ptrOther => .ok none
  | t => parseAsValueType env t ret res

/-- `build_item_model` (`model:` of a combo box / list widget) -/
def buildItemModel (env : Env) (ret : Option TypeDesc) (res : EvaluatedValue) : Out (List (String × Bool)) :=
  if verifyCodeReturnType env (.list (.prim .qstring)) ret then (unwrapStringList res).map some else .ok none

/-- `build_object_ref_list` (`actions:`): `into_object_ref_list` is total -/
def buildObjectRefList (env : Env) (ty : TypeKind) (ret : Option TypeDesc) (res : EvaluatedValue) : Out (List String) :=
  if verifyCodeReturnType env ty ret then
    match res with
    | .objectRefList ss => .ok (some ss)
    | .emptyList => .ok (some [])
    | _ => .ok none
  else .ok none

/-- the whole constant path of one property binding: evaluate, then build -/
def buildProperty (env : Env) (ty : TypeKind) (code : Code) : Out SV :=
  match evaluateCode code with
  | .error s => .error s
  | .ok none => .ok none
  | .ok (some res) => buildExpr env ty (resolveReturnType env code) res

/-- uigen/object.rs `Widget::build`: every evaluated reference is looked up among the *ids*
    (`expect("object ref must be valid")`) -/
def widgetActions (ids : List String) (refs : List String) : Except Site (List String) :=
  if refs.all (ids.contains ·) then .ok refs else .error .objectRefMustBeValid

/-- the proposed repair (.work/C07.fix-1.diff): a reference that is not an id is used as it is (it is the
    object's own generated name) -/
def widgetActionsRepaired (_ids : List String) (refs : List String) : Except Site (List String) := .ok refs

/-! ## (ii) diagnostic byte ranges -/

structure Rng where
  start : Nat
  stop : Nat
  deriving DecidableEq, Repr

/-- inside a text of `len` bytes -/
def Rng.valid (len : Nat) (r : Rng) : Prop := r.start ≤ r.stop ∧ r.stop ≤ len

/-- the ways lib/src builds the range of a diagnostic or label -/
inductive RangeExpr
  | node (r : Rng)                       -- `node.byte_range()` / an operand's stored range
  | endPoint (r : Rng)                   -- `end..end` (implicit return, tir/core.rs)
  | span (first last : Rng)              -- `s..e` with s = first.start, e = last.end (objcode.rs)
  | zero                                 -- `0..0` ("directory module not found")

def RangeExpr.eval : RangeExpr → Rng
  | .node r => r
  | .endPoint r => ⟨r.stop, r.stop⟩
  | .span a b => ⟨a.start, b.stop⟩
  | .zero => ⟨0, 0⟩

/-- the node ranges a range expression is made of -/
def RangeExpr.parts : RangeExpr → List Rng
  | .node r => [r]
  | .endPoint r => [r]
  | .span a b => [a, b]
  | .zero => []

/-- ranges of the callback parameters, in source order: each valid, none starts before its predecessor ends -/
def ordered : List Rng → Prop
  | [] => True
  | [_] => True
  | a :: b :: rest => a.stop ≤ b.start ∧ ordered (b :: rest)

/-- `verify_callback_parameter_type`: `code.locals[desc.arguments_len()].byte_range.start ..
    code.locals[code.parameter_count - 1].byte_range.end`; `none` = an index panic -/
def callbackSpan (params : List Rng) (argumentsLen parameterCount : Nat) : Option RangeExpr :=
  match params[argumentsLen]?, params[parameterCount - 1]? with
  | some a, some b => some (.span a b)
  | _, _ => none

/-! ## positions handed from the parser adapter to `Vec::insert` / `Vec::remove` (switch clauses)

The concrete syntax tree is abstracted to the KINDS of the named children of a `switch_body` node, in source order.
Comments are *extras* of the grammar: they may appear anywhere among the clauses. -/

inductive ClauseKind
  | case          -- "switch_case"
  | default       -- "switch_default"
  | extra         -- node.is_extra(): a comment
  | other         -- anything else (error recovery)
  deriving DecidableEq, Repr

inductive SwitchParseError | multipleDefaultLabels | unexpectedNodeKind
  deriving DecidableEq, Repr

/-- what `SwitchStatement { cases, default }` carries as far as indices are concerned:
    `cases.len()` and `default.map(|d| d.position)` -/
structure SwitchShape where
  cases : Nat
  defaultPos : Option Nat
  deriving DecidableEq, Repr

/-- the `match node.kind()` of the loop body; `i` is the `enumerate()` index -/
def clauseLoop : List ClauseKind → Nat → SwitchShape → Except SwitchParseError SwitchShape
  | [], _, s => .ok s
  | .case :: rest, i, s => clauseLoop rest (i + 1) { s with cases := s.cases + 1 }
  | .default :: rest, i, s =>
    if s.defaultPos.isSome then .error .multipleDefaultLabels
    else clauseLoop rest (i + 1) { s with defaultPos := some i }
  | _ :: _, _, _ => .error .unexpectedNodeKind

/-- `SwitchStatement::with_cursor` since repair fe4f921 (finding F60):
    `switch_body_node.named_children(cursor).filter(|n| !n.is_extra()).enumerate()` -/
def switchWithCursor (children : List ClauseKind) : Except SwitchParseError SwitchShape :=
  clauseLoop (children.filter (· ≠ .extra)) 0 ⟨0, none⟩

/-- the loop of seeded change C07/1: extras are skipped INSIDE the loop, after `enumerate()` counted them -/
def clauseLoopCountingExtras : List ClauseKind → Nat → SwitchShape → Except SwitchParseError SwitchShape
  | [], _, s => .ok s
  | .case :: rest, i, s => clauseLoopCountingExtras rest (i + 1) { s with cases := s.cases + 1 }
  | .default :: rest, i, s =>
    if s.defaultPos.isSome then .error .multipleDefaultLabels
    else clauseLoopCountingExtras rest (i + 1) { s with defaultPos := some i }
  | .extra :: rest, i, s => clauseLoopCountingExtras rest (i + 1) s
  | .other :: _, _, _ => .error .unexpectedNodeKind

def switchWithCursorCountingExtras (children : List ClauseKind) : Except SwitchParseError SwitchShape :=
  clauseLoopCountingExtras children 0 ⟨0, none⟩

/-- `Vec::insert(index, x)` on a vector of length `len`: `none` = the panic
    "insertion index (is {index}) should be <= len (is {len})"; otherwise the new length -/
def vecInsertLen (len index : Nat) : Option Nat := if index ≤ len then some (len + 1) else none

/-- `Vec::remove(index)`: `none` = the panic "removal index (is {index}) should be < len (is {len})" -/
def vecRemoveLen (len index : Nat) : Option Nat := if index < len then some (len - 1) else none

/-- `walk_stmt`, `Statement::Switch`: `body_statements` = one entry per case, then
    `if let Some(d) = &x.default { body_statements.insert(d.position, &d.body) }`; result = its length -/
def walkSwitchBodies (s : SwitchShape) : Option Nat :=
  match s.defaultPos with
  | none => some s.cases
  | some p => vecInsertLen s.cases p

/-- `visit_switch_statement`: `case_body_start_refs` has one entry per body (the visitor is only called when every
    body was built); `default_pos.map(|p| case_body_start_refs.remove(p))`; result = remaining length -/
def visitSwitchStarts (s : SwitchShape) : Option Nat :=
  match s.defaultPos with
  | none => some s.cases
  | some p => vecRemoveLen (s.cases + 1) p

end QV.Model.Totality
