/-
  Model of how strings reach the `.ui` text:
    * quick-xml 0.39 `escape::escape` (used by `BytesText::new` and by `Attribute::from((&str,&str))`):
      `< > & ' "` → `&lt; &gt; &amp; &apos; &quot;`, everything else verbatim;
    * /repo/lib/src/uigen/xmlutil.rs `escaped_text` (additionally CR → `&#13;`) and `escaped_attribute`
      (additionally TAB/LF/CR → `&#9; &#10; &#13;`) — the code after the repair of finding F4.
-/
namespace QV.Model.Xml

abbrev Str := List Char

/-- quick-xml `escape_char` for the five markup characters -/
def escapeMarkup (c : Char) : Str :=
  if c = '<' then "&lt;".toList
  else if c = '>' then "&gt;".toList
  else if c = '&' then "&amp;".toList
  else if c = '\'' then "&apos;".toList
  else if c = '"' then "&quot;".toList
  else [c]

/-- `xmlutil::escaped_text`: `escape(content).replace('\r', "&#13;")` -/
def escapeTextChar (c : Char) : Str :=
  if c = '\r' then "&#13;".toList else escapeMarkup c

def escapeText : Str → Str
  | [] => []
  | c :: rest => escapeTextChar c ++ escapeText rest

/-- `xmlutil::escaped_attribute` -/
def escapeAttrChar (c : Char) : Str :=
  if c = '\t' then "&#9;".toList
  else if c = '\n' then "&#10;".toList
  else if c = '\r' then "&#13;".toList
  else escapeMarkup c

def escapeAttr : Str → Str
  | [] => []
  | c :: rest => escapeAttrChar c ++ escapeAttr rest

end QV.Model.Xml
