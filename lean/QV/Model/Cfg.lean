/-
  A certificate checker for the control flow of a function body (C06), applied to the REAL IR of every accepted
  binding/callback and to the model's IR:
    * every jump targets an existing block;
    * every block reachable from the entry has a terminator that is not `unreachable`;
    * every local is assigned on every path before it is read (parameters are assigned on entry).
  The checker does not compute fixpoints itself: it *verifies* a candidate reachable-set and candidate
  "definitely assigned at block entry" sets produced by the untrusted `computeReach` / `computeIns`.
  `QV.Props.C06.checkCfg_sound` proves that a passing check implies the three properties for EVERY path.
-/
import QV.Model.Tir

namespace QV.Model.Cfg
open QV.Model

def operandReads : Operand → List Nat
  | .local n _ => [n]
  | _ => []

def rvalueReads : Rvalue → List Nat
  | .copy a | .unary _ a | .staticCast _ a | .variantCast _ a => operandReads a
  | .binary _ l r | .readSubscript l r => operandReads l ++ operandReads r
  | .callBuiltin _ args | .makeList _ args => args.flatMap operandReads
  | .callMethod o _ args => operandReads o ++ args.flatMap operandReads
  | .readProperty o _ => operandReads o
  | .writeProperty o _ v => operandReads o ++ operandReads v
  | .writeSubscript o i v => operandReads o ++ operandReads i ++ operandReads v

def stmtReads : Statement → List Nat
  | .assign _ r | .exec r => rvalueReads r
  | .observeProperty _ l _ => [l]

def stmtDef : Statement → List Nat
  | .assign l _ => [l]
  | _ => []

def termReads : Terminator → List Nat
  | .brCond c _ _ => operandReads c
  | .ret a => operandReads a
  | _ => []

def successors : Option Terminator → List Nat
  | some (.br l) => [l]
  | some (.brCond _ a b) => [a, b]
  | _ => []

/-- reads of a block are covered: each read is in `known` or defined by an earlier statement of the block -/
def stmtsOk : List Statement → List Nat → Bool
  | [], _ => true
  | s :: rest, known => (stmtReads s).all (known.contains ·) && stmtsOk rest (stmtDef s ++ known)

def defsOf (stmts : List Statement) : List Nat := stmts.flatMap stmtDef

def subsetOf (a b : List Nat) : Bool := a.all (b.contains ·)

/-- the check of one block `i` against the certificate -/
def blockOk (n : Nat) (params : Nat) (reach : List Bool) (ins : List (List Nat)) (i : Nat) (b : BasicBlock) : Bool :=
  if reach.getD i false then
    let known := ins.getD i [] ++ List.range params
    match b.terminator with
    | none => false
    | some .unreachable => false
    | some t =>
      stmtsOk b.statements known &&
      (termReads t).all ((defsOf b.statements ++ known).contains ·) &&
      (successors (some t)).all fun j =>
        j < n && reach.getD j false &&
          subsetOf (ins.getD j []) (defsOf b.statements ++ known)
  else true

def blocksOk (n params : Nat) (reach : List Bool) (ins : List (List Nat)) : Nat → List BasicBlock → Bool
  | _, [] => true
  | i, b :: rest => blockOk n params reach ins i b && blocksOk n params reach ins (i + 1) rest

/-- all jump targets exist, in every block (reachable or not) -/
def targetsOk (n : Nat) (blocks : List BasicBlock) : Bool :=
  blocks.all fun b => (successors b.terminator).all (· < n)

/-- **the checker** -/
def checkCfg (c : CodeBody) (reach : List Bool) (ins : List (List Nat)) : Bool :=
  let n := c.blocks.length
  0 < n && reach.getD 0 false && (ins.getD 0 []).isEmpty &&
  targetsOk n c.blocks && blocksOk n c.parameterCount reach ins 0 c.blocks

/-! ### untrusted certificate producers -/

def computeReach (c : CodeBody) : List Bool :=
  let n := c.blocks.length
  let step (r : List Bool) : List Bool :=
    (List.range n).map fun j =>
      r.getD j false || (List.range n).any fun i =>
        r.getD i false && (successors ((c.blocks.getD i {}).terminator)).contains j
  (List.range n).foldl (fun r _ => step r) ((List.range n).map (· == 0))

def inter (a b : List Nat) : List Nat := a.filter (b.contains ·)

def computeIns (c : CodeBody) (reach : List Bool) : List (List Nat) :=
  let n := c.blocks.length
  let all := List.range c.locals.length
  let out (ins : List (List Nat)) (i : Nat) : List Nat :=
    defsOf (c.blocks.getD i {}).statements ++ ins.getD i [] ++ List.range c.parameterCount
  let step (ins : List (List Nat)) : List (List Nat) :=
    (List.range n).map fun j =>
      if j = 0 then [] else
      let preds := (List.range n).filter fun i =>
        reach.getD i false && (successors ((c.blocks.getD i {}).terminator)).contains j
      preds.foldl (fun acc i => inter acc (out ins i)) all
  (List.range (n + 1)).foldl (fun ins _ => step ins) ((List.range n).map fun j => if j = 0 then [] else all)

def check (c : CodeBody) : Bool :=
  let reach := computeReach c
  checkCfg c reach (computeIns c reach)

/-- "a value-returning body returns a value on every reachable path": no reachable `return` without a value -/
def retsOk (reach : List Bool) : Nat → List BasicBlock → Bool
  | _, [] => true
  | i, b :: rest =>
    (if reach.getD i false then
       match b.terminator with
       | some (.ret .void) => false
       | _ => true
     else true) && retsOk reach (i + 1) rest

/-- the check of a whole function body as it appears in the support header -/
def checkFn (valueReturning : Bool) (c : CodeBody) : Bool :=
  let reach := computeReach c
  checkCfg c reach (computeIns c reach) && (!valueReturning || retsOk reach 0 c.blocks)

/-- C06 speaks of *compiler-introduced* temporaries: variables the user declared without initialiser (`let x: T`)
    are exempt — reading one before assigning it is the user's error (and outside C01's defined-ness too).
    Exempting = treating them like parameters: they are moved to the front … which would renumber locals, so
    instead every read of an exempt local is erased before the check. -/
def eraseOperand (exempt : List Nat) : Operand → Operand
  -- an exempt read becomes a constant: it still is a VALUE (so `return v` keeps returning one) and reads nothing
  | .local n t => if exempt.contains n then .const (.bool false) else .local n t
  | a => a

def eraseRvalue (ex : List Nat) : Rvalue → Rvalue
  | .copy a => .copy (eraseOperand ex a)
  | .unary op a => .unary op (eraseOperand ex a)
  | .binary op l r => .binary op (eraseOperand ex l) (eraseOperand ex r)
  | .staticCast t a => .staticCast t (eraseOperand ex a)
  | .variantCast t a => .variantCast t (eraseOperand ex a)
  | .callBuiltin f args => .callBuiltin f (args.map (eraseOperand ex))
  | .callMethod o m args => .callMethod (eraseOperand ex o) m (args.map (eraseOperand ex))
  | .readProperty o p => .readProperty (eraseOperand ex o) p
  | .writeProperty o p v => .writeProperty (eraseOperand ex o) p (eraseOperand ex v)
  | .readSubscript o i => .readSubscript (eraseOperand ex o) (eraseOperand ex i)
  | .writeSubscript o i v => .writeSubscript (eraseOperand ex o) (eraseOperand ex i) (eraseOperand ex v)
  | .makeList t args => .makeList t (args.map (eraseOperand ex))

def eraseExempt (ex : List Nat) (c : CodeBody) : CodeBody :=
  { c with blocks := c.blocks.map fun b =>
      { b with
        statements := b.statements.filterMap fun s =>
          match s with
          | .assign l r => some (.assign l (eraseRvalue ex r))
          | .exec r => some (.exec (eraseRvalue ex r))
          | .observeProperty h l m => if ex.contains l then none else some (.observeProperty h l m)
        terminator := b.terminator.map fun t =>
          match t with
          | .brCond cnd x y => .brCond (eraseOperand ex cnd) x y
          | .ret a => .ret (eraseOperand ex a)
          | t => t } }

def checkExempting (exempt : List Nat) (c : CodeBody) : Bool := check (eraseExempt exempt c)

end QV.Model.Cfg
