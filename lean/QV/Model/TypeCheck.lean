/-
  The type checks uigen performs AFTER `tir::build`: mirrors `CodeBody::resolve_return_type` (tir/core.rs),
  `verify_code_return_type` (uigen/expr.rs, called for constant values and by uigen/binding.rs for dynamic
  bindings), `uniquify_methods` and `verify_callback_parameter_type` (uigen/objcode.rs), and the whole-binding
  acceptance verdict (`accepts`) composed from `build`, `analyze_code_property_dependency` and those checks.
-/
import QV.Model.Finalize

namespace QV.Model

/-- operands of all `Terminator::Return`, in block order -/
def returnOperands (code : CodeBody) : List Operand :=
  code.blocks.filterMap fun b =>
    match b.terminator with
    | some (.ret a) => some a
    | _ => none

/-- `CodeBody::resolve_return_type`: `none` = a diagnostic was pushed -/
def resolveReturnType (env : Env) (code : CodeBody) : Option TypeDesc :=
  match returnOperands code with
  | [] => some .void
  | first :: rest =>
    let rec go (known : TypeDesc) : List Operand → Option TypeDesc
      | [] => some known
      | a :: as =>
        match deduceType env known a.typeDesc with
        | .ok t => go t as
        | .error _ => none
    go first.typeDesc rest

/-- `verify_code_return_type` -/
def verifyCodeReturnType (env : Env) (code : CodeBody) (expected : TypeKind) : Bool :=
  match resolveReturnType env code with
  | none => false
  | some t => isAssignable env expected t

/-- insertion into a list sorted by ascending argument count, BEFORE the elements of equal count: folding the
    overloads in table order yields the order in which `uniquify_methods` pops them (`sort_by_key(-len)` is stable
    and the vector is consumed from its end: ascending count, later overloads first among equal counts) -/
def insertByLen (m : MethodInfo) : List MethodInfo → List MethodInfo
  | [] => [m]
  | x :: xs => if m.args.length ≤ x.args.length then m :: x :: xs else x :: insertByLen m xs

/-- `uniquify_methods`: overloads that differ by trailing (default) arguments only count as the longest one -/
def uniquifyMethods (ms : List MethodInfo) : Option MethodInfo :=
  match ms with
  | [] => none
  | [m] => some m
  | _ =>
    match ms.foldl (fun acc m => insertByLen m acc) [] with
    | [] => none
    | first :: rest =>
      rest.foldl (fun (known : Option MethodInfo) m =>
        match known with
        | none => none
        | some k =>
          if k.kind = m.kind ∧ k.ret = m.ret ∧ k.args.isPrefixOf m.args then some m else none) (some first)

/-- `verify_callback_parameter_type` -/
def verifyCallbackParameterType (env : Env) (desc : MethodInfo) (code : CodeBody) : Bool :=
  if code.parameterCount > desc.args.length then false
  else (desc.args.zip (code.locals.take code.parameterCount)).all fun (ty, a) => isConcreteAssignable env a ty

/-- `extract_string_list` (uigen/expr.rs): the `notr` attribute of a `.ui` string list is list-level, so a constant
    list mixing `qsTr()` and bare strings is refused ("cannot mix bare and translatable strings") -/
def stringListKindsAgree : Option EvaluatedValue → Bool
  | some (.stringList ((_, k) :: rest)) => rest.all (·.2 = k)
  | _ => true

/-- property binding: `tir::build`, the dependency analysis, then the return type check (and, for a constant string
    list, `extract_string_list`); accepted = no diagnostic -/
def acceptsBinding (c : Ctx) (propTy : TypeKind) (p : Program) : Bool :=
  let r := build c false p
  match r.code with
  | none => false
  | some code =>
    let (code, d2, _) := analyzePropertyDependency code
    r.diags.isEmpty && d2.isEmpty && verifyCodeReturnType c.env code propTy &&
      (propTy ≠ .list .string ||
        (match evaluateCode c.env code with
         | .value v => stringListKindsAgree v
         | .panic _ => true))

/-- signal callback: `tir::build_callback`, then the parameter check -/
def acceptsCallback (c : Ctx) (desc : MethodInfo) (p : Program) : Bool :=
  let r := build c true p
  match r.code with
  | none => false
  | some code => r.diags.isEmpty && verifyCallbackParameterType c.env desc code

end QV.Model
