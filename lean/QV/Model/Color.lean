/-
  Model of /repo/lib/src/color.rs  (`impl FromStr for Color`, `parse_hex_color`) and of
  `impl From<Color> for Gadget` in /repo/lib/src/uigen/gadget.rs (the alpha attribute).

  Strings are `List Char`.  `u32`/`u8` arithmetic is done on `Nat` exactly as written (shift, mask,
  multiply by 0x11); the one place where the machine width matters (`u32::from_str_radix` overflowing
  on more than 8 significant digits) is an explicit range test.
-/
namespace QV.Model.Color

deriving instance DecidableEq for Except

inductive Color where
  | rgb8 (r g b : Nat)
  | rgba8 (r g b a : Nat)
deriving DecidableEq, Repr

inductive ParseError where
  | invalidHex
  | unknownName
deriving DecidableEq, Repr

/-- `char::is_ascii_hexdigit` together with the digit value `char::to_digit(16)`. -/
def hexDigit? (c : Char) : Option Nat :=
  let n := c.toNat
  if 48 ≤ n ∧ n ≤ 57 then some (n - 48)
  else if 97 ≤ n ∧ n ≤ 102 then some (n - 87)
  else if 65 ≤ n ∧ n ≤ 70 then some (n - 55)
  else none

def isAsciiHexDigit (c : Char) : Bool := (hexDigit? c).isSome

/-- `u32::from_str_radix(hex, 16)` restricted to inputs already known to consist of hex digits
    (the caller checks): `Err` on the empty string and on overflow of `u32`. -/
def fromStrRadix16Loop : List Char → Nat → Option Nat
  | [], acc => some acc
  | c :: cs, acc =>
    match hexDigit? c with
    | none => none
    | some d =>
      let acc' := acc * 16 + d
      if acc' < 4294967296 then fromStrRadix16Loop cs acc' else none

def fromStrRadix16 (hex : List Char) : Option Nat :=
  match hex with
  | [] => none
  | _ => fromStrRadix16Loop hex 0

def parseHexColor (hex : List Char) : Option Color :=
  if hex.any (fun c => !isAsciiHexDigit c) then none
  else
    match fromStrRadix16 hex with
    | none => none
    | some argb =>
      match hex.length with
      | 3 => some (.rgb8 (((argb >>> 8) &&& 0xf) * 0x11) (((argb >>> 4) &&& 0xf) * 0x11)
                ((argb &&& 0xf) * 0x11))
      | 4 => some (.rgba8 (((argb >>> 8) &&& 0xf) * 0x11) (((argb >>> 4) &&& 0xf) * 0x11)
                ((argb &&& 0xf) * 0x11) (((argb >>> 12) &&& 0xf) * 0x11))
      | 6 => some (.rgb8 ((argb >>> 16) &&& 0xff) ((argb >>> 8) &&& 0xff) (argb &&& 0xff))
      | 8 => some (.rgba8 ((argb >>> 16) &&& 0xff) ((argb >>> 8) &&& 0xff) (argb &&& 0xff)
                ((argb >>> 24) &&& 0xff))
      | _ => none

/-- `char::to_ascii_lowercase` -/
def toAsciiLower (c : Char) : Char :=
  if 65 ≤ c.toNat ∧ c.toNat ≤ 90 then Char.ofNat (c.toNat + 32) else c

def asciiLower (s : List Char) : List Char := s.map toAsciiLower

/-- `str::eq_ignore_ascii_case` -/
def eqIgnoreAsciiCase (a b : List Char) : Bool := asciiLower a == asciiLower b

abbrev Table := List (List Char × Nat × Nat × Nat)

/-- `HashMap::from([...]).get(key)`: with duplicate keys the later row wins. -/
def lookupLast (t : Table) (key : List Char) : Option (Nat × Nat × Nat) :=
  match t with
  | [] => none
  | (k, v) :: rest =>
    match lookupLast rest key with
    | some v' => some v'
    | none => if k = key then some v else none

def transparentKw : List Char := ['t','r','a','n','s','p','a','r','e','n','t']

/-- `impl FromStr for Color` over a given keyword table (the table is regenerated from color.rs). -/
def parse (table : Table) (src : List Char) : Except ParseError Color :=
  match src with
  | '#' :: hex =>
    match parseHexColor hex with
    | some c => .ok c
    | none => .error .invalidHex
  | _ =>
    if eqIgnoreAsciiCase src transparentKw then .ok (.rgba8 0 0 0 0)
    else match lookupLast table src with
      | some (r, g, b) => .ok (.rgb8 r g b)
      | none =>
        match lookupLast table (asciiLower src) with
        | some (r, g, b) => .ok (.rgb8 r g b)
        | none => .error .unknownName

/-- `impl From<Color> for Gadget`: (alpha attribute, red, green, blue) as written into the `.ui`. -/
def toGadget : Color → Nat × Nat × Nat × Nat
  | .rgb8 r g b => (0xff, r, g, b)
  | .rgba8 r g b a => (a, r, g, b)

end QV.Model.Color
