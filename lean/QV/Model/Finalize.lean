/-
  `CodeBody::finalize_completion_values` (tir/core.rs), `tir::build` / `build_callback` (tir/builder.rs),
  `analyze_code_property_dependency` (tir/propdep.rs) and `evaluate_code` (tir/interpret.rs).
-/
import QV.Model.Walk

namespace QV.Model

def setBlock (blocks : List BasicBlock) (i : Nat) (b : BasicBlock) : List BasicBlock := blocks.set i b

/-- the reverse-"br" walk; `fuel` bounds the number of pops (each block is reached at most once because a block
    has one `br` and `incoming_map[i]` is taken when used) -/
def finalizeLoop (reachable : List Bool) :
    Nat → List Nat → List (List Nat) → List BasicBlock → Option String → List BasicBlock × Option String
  | 0, stack, _, blocks, panic =>
    (blocks, if stack.isEmpty then panic else panic.or (some "finalize_completion_values: fuel exhausted"))
  | fuel + 1, stack, incoming, blocks, panic =>
    match stack.getLast? with
    | none => (blocks, panic)
    | some i =>
      let stack := stack.dropLast
      match blocks[i]? with
      | none => (blocks, panic.or (some "finalize_completion_values: block index out of range"))
      | some b =>
        let panic := match b.terminator with
          | some (.br _) | none => panic
          | _ => panic.or (some "assert!(matches!(b.terminator, Some(Terminator::Br(_)) | None))")
        match b.completionValue with
        | some a =>
          finalizeLoop reachable fuel stack incoming
            (setBlock blocks i { b with completionValue := none, terminator := some (.ret a) }) panic
        | none =>
          -- (after the repair of F1: a block with statements gets the implicit return)
          let term := if reachable.getD i false || !b.statements.isEmpty then Terminator.ret .void else Terminator.unreachable
          let blocks := setBlock blocks i { b with terminator := some term }
          if b.statements.isEmpty then
            finalizeLoop reachable fuel (stack ++ incoming.getD i []) (incoming.set i []) blocks panic
          else finalizeLoop reachable fuel stack incoming blocks panic

/-- `finalize_completion_values` -/
def finalizeCompletionValues (code : CodeBody) (startRef : Nat) : CodeBody × Option String :=
  match code.blocks[startRef]? with
  | none => (code, some "finalize_completion_values: start block out of range")
  | some start =>
    let panic := if start.terminator.isSome then some "assert!(start_block.terminator.is_none())" else none
    match start.completionValue with
    | some a =>
      let nb : BasicBlock := { start with completionValue := none, terminator := some (.ret a) }
      ({ code with blocks := setBlock code.blocks startRef nb }, panic)
    | none =>
      let n := code.blocks.length
      -- reverse "br" map and the set of blocks entered through a conditional branch (or block 0)
      let incoming : List (List Nat) := (List.range n).map fun l =>
        (List.range n).filter fun i =>
          match code.blocks[i]? with
          | some b => b.terminator = some (.br l)
          | none => false
      let reachable : List Bool := (List.range n).map fun l =>
        l = 0 || code.blocks.any fun b =>
          match b.terminator with
          | some (.brCond _ x y) => x = l || y = l
          | _ => false
      let (blocks, panic) := finalizeLoop reachable (n + 1) [startRef] incoming code.blocks panic
      ({ code with blocks := blocks }, panic)

structure BuildResult where
  code : Option CodeBody
  diags : List String
  panic : Option String
  /-- locals declared by the user without initialiser (see `WState.userUninit`) -/
  userUninit : List Nat := []
deriving Repr

/-- `tir::build` (`callback = false`) / `tir::build_callback` -/
def build (c : Ctx) (callback : Bool) (p : Program) : BuildResult :=
  let (r, st) := (walkProgram c callback p).run {}
  match r with
  | none => { code := none, diags := st.diags, panic := st.b.panic }
  | some () =>
    let (code, panic) := finalizeCompletionValues st.b.code st.b.currentRef
    { code := some code, diags := st.diags, panic := st.b.panic.or panic, userUninit := st.userUninit }

/-! ### tir/propdep.rs -/

/-- one block of `analyze_block`: returns the statements with `ObserveProperty` inserted, the static
    dependencies found, the diagnostics, the next observer number, and a panic site if any -/
def analyzeBlock (stmts : List Statement) (nLocals : Nat) (observerStart : Nat) :
    List Statement × List (String × MethodInfo) × List String × Nat × Option String :=
  -- pass 1: scan with the per-block "local holds this named object" table
  let rec scan (locals : List (Option String)) (line : Nat) :
      List Statement → List (Nat × Nat × MethodInfo) × List (String × MethodInfo) × List String × Option String
    | [] => ([], [], [], none)
    | stmt :: rest =>
      let here : List (Nat × Nat × MethodInfo) × List (String × MethodInfo) × List String × Option String :=
        match stmt with
        | .assign _ (.readProperty a p) | .exec (.readProperty a p) =>
          if a.typeDesc.isPointer && !p.constant then
            match p.notify with
            | some (some signal) =>
              (match a with
               | .namedObject x _ => ([], [(x, signal)], [], none)
               | .local x _ =>
                 (match locals.getD x none with
                  | some n => ([], [(n, signal)], [], none)
                  | none => ([(line, x, signal)], [], [], none))
               | _ => ([], [], [], some "invald read_property"))
            | none => ([], [], [s!"unobservable property: {p.name}"], none)
            | some none => ([], [], ["type resolution failed"], none)
          else ([], [], [], none)
        | _ => ([], [], [], none)
      let locals := match stmt with
        | .assign l r =>
          locals.set l (match r with
            | .copy (.local x _) => locals.getD x none
            | .copy (.namedObject x _) => some x
            | _ => none)
        | _ => locals
      let (o, d, g, p) := scan locals (line + 1) rest
      (here.1 ++ o, here.2.1 ++ d, here.2.2.1 ++ g, here.2.2.2.or p)
  let (toObserve, deps, diags, panic) := scan (List.replicate nLocals none) 0 stmts
  -- pass 2: insert the observe statements (in reverse so that the recorded line numbers stay valid)
  let numbered := toObserve.zipIdx
  let withObs := numbered.foldr (fun ((line, obj, signal), k) (acc : List Statement) =>
      (acc.take line) ++ [Statement.observeProperty (observerStart + k) obj signal] ++ (acc.drop line)) stmts
  (withObs, deps, diags, observerStart + toObserve.length, panic)

/-- `analyze_code_property_dependency` -/
def analyzePropertyDependency (code : CodeBody) : CodeBody × List String × Option String :=
  let step (acc : List BasicBlock × List (String × MethodInfo) × List String × Nat × Option String)
      (b : BasicBlock) :=
    let (blocks, deps, diags, obs, panic) := acc
    let (stmts, d, g, obs', p) := analyzeBlock b.statements code.locals.length obs
    (blocks ++ [{ b with statements := stmts }], deps ++ d, diags ++ g, obs', panic.or p)
  let (blocks, deps, diags, obs, panic) :=
    code.blocks.foldl step ([], code.staticDeps, [], code.observerCount, none)
  ({ code with blocks := blocks, staticDeps := deps, observerCount := obs }, diags, panic)

/-! ### tir/interpret.rs -/

inductive StringKind where | noTr | tr
deriving DecidableEq, Repr

inductive EvaluatedValue where
  | bool (b : Bool)
  | integer (v : Int)
  | float (bits : Nat)
  | string (s : List Char) (k : StringKind)
  | stringList (xs : List (List Char × StringKind))
  | enumSet (es : List String)
  | objectRef (s : String)
  | objectRefList (ss : List String)
  | emptyList
deriving DecidableEq, Repr

/-- `EnumVariant::cxx_expression` = `Enum::qualify_cxx_variant_name` -/
def cxxVariant (env : Env) (e v : String) : String :=
  match env.findEnum e with
  | some ei => if ei.variantScope = "" then v else ei.variantScope ++ "::" ++ v
  | none => e ++ "::" ++ v

/-- `to_evaluated_value` -/
def toEvaluatedValue (env : Env) (locals : List (Option EvaluatedValue)) (a : Operand) (k : StringKind) :
    Option EvaluatedValue :=
  match a with
  | .const (.bool v) => some (.bool v)
  | .const (.integer v) => some (.integer v)
  | .const (.float v) => some (.float v)
  | .const (.cstring v) | .const (.qstring v) => some (.string v k)
  | .const .nullPointer => none
  | .const .emptyList => some .emptyList
  | .enumVariant e v => some (.enumSet [cxxVariant env e v])
  | .local x _ => (locals.getD x none)
  | .namedObject x _ => some (.objectRef x)
  | .void => none

def allStrings : List (Option EvaluatedValue) → Option (List (List Char × StringKind))
  | [] => some []
  | some (.string s k) :: rest => (allStrings rest).map ((s, k) :: ·)
  | _ => none

def allObjectRefs : List (Option EvaluatedValue) → Option (List String)
  | [] => some []
  | some (.objectRef s) :: rest => (allObjectRefs rest).map (s :: ·)
  | _ => none

/-- `to_evaluated_list` -/
def toEvaluatedList (env : Env) (locals : List (Option EvaluatedValue)) (args : List Operand) : Option EvaluatedValue :=
  let items := args.map fun a => toEvaluatedValue env locals a .noTr
  match items with
  | some (.string ..) :: _ => (allStrings items).map .stringList
  | some (.objectRef _) :: _ => (allObjectRefs items).map .objectRefList
  | _ => none

inductive EvalOutcome where
  | value (v : Option EvaluatedValue)
  | panic (site : String)
deriving Repr

/-- the statement loop of one block: `none` = `return None` from inside the loop -/
def evalStatements (env : Env) : List Statement → List (Option EvaluatedValue) → Option (List (Option EvaluatedValue))
  | [], locals => some locals
  | .assign l r :: rest, locals =>
    let v : Option (Option EvaluatedValue) :=
      match r with
      | .copy a => some (toEvaluatedValue env locals a .noTr)
      | .binary (.bitwise .or) x y =>
        some (match toEvaluatedValue env locals x .noTr, toEvaluatedValue env locals y .noTr with
          | some (.enumSet ls), some (.enumSet rs) => some (.enumSet (ls ++ rs))
          | _, _ => none)
      | .callBuiltin .tr (a :: _) => some (toEvaluatedValue env locals a .tr)
      | .callMethod (.namedObject x _) m _ =>
        if m.cls = "QMenu" ∧ m.name = "menuAction" ∧ m.args = [] ∧ m.ret = .pointer (.cls "QAction")
        then some (some (.objectRef x)) else none
      | .makeList _ args => some (toEvaluatedList env locals args)
      | _ => none
    (match v with
     | none => none
     | some v => evalStatements env rest (locals.set l v))
  | _ :: rest, locals => evalStatements env rest locals

/-- `evaluate_code` -/
def evaluateCode (env : Env) (code : CodeBody) : EvalOutcome :=
  match code.blocks[0]? with
  | none => .panic "basic_blocks[0]"
  | some b0 =>
    match b0.terminator with
    | none => .panic "terminator must have been set by builder"
    | some (.ret (.const cv)) => .value (toEvaluatedValue env [] (.const cv) .noTr)
    | _ =>
      let rec loop : Nat → Nat → List Bool → List (Option EvaluatedValue) → EvalOutcome
        | 0, _, _, _ => .value none
        | fuel + 1, i, visited, locals =>
          if visited.getD i false then .value none else
          match code.blocks[i]? with
          | none => .panic "basic block index out of range"
          | some blk =>
            match evalStatements env blk.statements locals with
            | none => .value none
            | some locals =>
              match blk.terminator with
              | none => .panic "terminator must have been set by builder"
              | some (.br r) => loop fuel r (visited.set i true) locals
              | some (.brCond ..) => .value none
              | some (.ret a) => .value (toEvaluatedValue env locals a .noTr)
              | some .unreachable => .panic "unreachable!()"
      loop (code.blocks.length + 1) 0 (List.replicate code.blocks.length false)
        (List.replicate code.locals.length none)

end QV.Model
