/-
  Model of the *inventory and arithmetic* of the C++ support header written by
  /repo/lib/src/uigen/binding.rs (`UiSupportCode::build`, `write_header`, `write_binding_index`, `write_fields`,
  `CxxBinding::write_update_function`, `CxxEvalExprFunction::{write_function,write_field}`,
  `CxxEvalGadgetMapFunction::build`, `collect_system_includes`, `format_operand` for string constants — `format_cxx_string_literal` after the repair
  5f82544, the former Rust `{:?}` spelling is kept as `formatStringLiteralOld`) and of the
  observer allocation of /repo/lib/src/tir/propdep.rs (`analyze_block`: `observers.resize_with(n, alloc)`).

  Input of the model: per object (in `ObjectTree::flat_iter` order) the property bindings *in the order the code visits
  them* (`sorted_by_key` on the property name — that the order does not depend on the hash map is C08's theorem; the
  driver sorts), each top-level property as the PRE-ORDER list of its nodes (a gadget map followed by its members,
  depth-tagged), and the callbacks sorted by signal name.  What an expression contributes is summarised by `ExprInfo`.

  Strings are `List Char`.  Nothing here models the C++ statements of a function body (that is C01/C06).
-/
import QV.Model.Names
import QV.Model.RustDebugTable

namespace QV.Model.CxxEmit
open QV.Model.Names

/-! ### string literals: `format_cxx_string_literal` (repair 5f82544) -/

def octDigit (d : Nat) : Char := Char.ofNat (48 + d)

/-- Rust `{:03o}` of a value below 512 -/
def octal3 (n : Nat) : Str := [octDigit (n / 64 % 8), octDigit (n / 8 % 8), octDigit (n % 8)]

/-- the `c if (c as u32) < 0x20 || c == '\x7f'` arm -/
def isCxxControl (c : Char) : Bool := c.toNat < 0x20 || c.toNat == 0x7f

/-- one character of `format_cxx_string_literal` (the match arms in source order) -/
def escapeCxxChar (c : Char) : Str :=
  if c = '"' then ['\\', '"']
  else if c = '\\' then ['\\', '\\']
  else if c = '\n' then ['\\', 'n']
  else if c = '\r' then ['\\', 'r']
  else if c = '\t' then ['\\', 't']
  else if isCxxControl c then '\\' :: octal3 c.toNat
  else [c]

/-- the characters between the quotes of `QStringLiteral("…")`, `translate("…", "…")`, `qDebug() << "…"` -/
def formatStringLiteral (s : Str) : Str := s.flatMap escapeCxxChar

/-! ### the former printer: Rust `{:?}` of a `str` (before 5f82544; finding F3b) -/

def hexDigit (n : Nat) : Char :=
  if n < 10 then Char.ofNat (48 + n) else Char.ofNat (87 + n)

/-- Rust `{:x}` -/
def lowerHex (n : Nat) : Str := (Nat.toDigits 16 n)

/-- `char::escape_debug_ext` with `escape_grapheme_extended = true, escape_single_quote = false,
    escape_double_quote = true` (what `impl Debug for str` uses), parametrised by the Unicode-table predicate. -/
def escapeDebugChar (uni : Char → Bool) (c : Char) : Str :=
  if c = '\x00' then ['\\', '0']
  else if c = '\t' then ['\\', 't']
  else if c = '\r' then ['\\', 'r']
  else if c = '\n' then ['\\', 'n']
  else if c = '\\' then ['\\', '\\']
  else if c = '"' then ['\\', '"']
  else if uni c then ['\\', 'u', '{'] ++ lowerHex c.toNat ++ ['}']
  else [c]

def formatStringLiteralWith (uni : Char → Bool) (s : Str) : Str := s.flatMap (escapeDebugChar uni)

/-- what the code printed before the repair, with the table of the toolchain that builds /repo -/
def formatStringLiteralOld (s : Str) : Str := formatStringLiteralWith RustDebugTable.needsUnicodeEscape s

/-! ### re-entrancy guard (`write_fields`, `write_update_function`) -/

/-- `self.bindings.len().div_ceil(32)` -/
def guardLen (n : Nat) : Nat := (n + 31) / 32

/-- the declaration `quint32 bindingGuard_[N] = {0};` is written only `if !self.bindings.is_empty()` -/
def guardDecl (n : Nat) : Option Nat := if n = 0 then none else some (guardLen n)

/-- `this->bindingGuard_[index >> 5]` -/
def guardWord (index : Nat) : Nat := index >>> 5
/-- `(1U << (index & 0x1f))` -/
def guardBit (index : Nat) : Nat := index &&& 0x1f

/-! ### observers (`propdep.rs::analyze_block` + `alloc_property_observer`) -/

/-- per basic block, in block order: the number of reads through a pointer whose object is not statically known.
    Returns the observer indexes used by each block and the final `property_observer_count`. -/
def allocObservers : (count : Nat) → (perBlock : List Nat) → List (List Nat) × Nat
  | count, [] => ([], count)
  | count, k :: rest =>
    let r := allocObservers (count + k) rest
    (List.range' count k :: r.1, r.2)

/-- `PropertyObserver observedX_[N];` is written only `if self.property_observer_count > 0` -/
def observerDecl (name : Str) (count : Nat) : Option (Str × Nat) :=
  if count = 0 then none else some ("observed".toList ++ name ++ "_".toList, count)

/-! ### the inventory -/

inductive Builtin where
  | max | min | log | tr
  /-- `Rvalue::BinaryOp(Rem)` with a `double` operand (`is_double_rem`): printed as `std::fmod` -/
  | fmod
deriving DecidableEq, Repr

/-- an enumerator operand (`Operand::EnumVariant`): the enumeration it was resolved to -/
structure EnumUse where
  /-- `qualified_cxx_name()` of the enumeration's lexical parent (class or namespace) -/
  parent : Str
  enumName : Str
  /-- `enum class` -/
  isScoped : Bool
  variant : Str
deriving Repr, DecidableEq

def scopeSep : Str := "::".toList

/-- `Enum::qualify_cxx_variant_name` (typemap/enum_.rs) = `EnumVariant::cxx_expression()`: a scoped enumerator is
    qualified with the qualified name of the ENUMERATION, an unscoped one with the enumeration's parent -/
def qualifyCxxVariantName (u : EnumUse) : Str :=
  if u.isScoped then u.parent ++ scopeSep ++ u.enumName ++ scopeSep ++ u.variant
  else u.parent ++ scopeSep ++ u.variant

/-- a bitwise operation with an operand of enumeration type (`enum_operand_type` is `Some`) -/
structure BitUse where
  unary : Bool
  /-- the (left) operand is of scoped enumeration type -/
  lScoped : Bool
  rScoped : Bool
deriving Repr, DecidableEq

/-- `format_bitwise_operand` (4e55b2c): an operand of scoped enumeration type is printed as
    `static_cast<int>(operand)`, any other operand as it is -/
def formatBitwiseOperand (operandIsScoped : Bool) (operand : Str) : Str :=
  if operandIsScoped then "static_cast<int>(".toList ++ operand ++ ")".toList else operand

/-- number of `static_cast<int>(` one bitwise operation prints: the result (`static_cast<T>(static_cast<int>(…))`,
    17832f1) plus one per scoped operand -/
def bitwiseIntCasts (b : BitUse) : Nat :=
  1 + (if b.lScoped then 1 else 0) + (if !b.unary && b.rScoped then 1 else 0)

structure ExprInfo where
  /-- `!is_evaluated_constant()` -/
  dynamic : Bool
  /-- `code.property_observer_count` -/
  observers : Nat
  /-- `Rvalue::CallBuiltinFunction` kinds occurring in the code -/
  uses : List Builtin
  /-- string constants in emission order: (is `ConstantValue::QString`, text) -/
  lits : List (Bool × Str)
  /-- enumerator operands in emission order -/
  enums : List EnumUse := []
  /-- `as int` casts (`Rvalue::StaticCast(int, _)`) printed in the body -/
  asIntCasts : Nat := 0
  /-- bitwise operations with an enumeration operand printed in the body -/
  bitops : List BitUse := []
deriving Repr

inductive Kind where
  | expr (i : ExprInfo)
  | gadget
deriving Repr

/-- one node of a property binding in pre-order: `depth = 0` for the property itself -/
structure PNode where
  depth : Nat
  name : Str
  kind : Kind
deriving Repr

structure Callback where
  signal : Str
  uses : List Builtin
  lits : List (Bool × Str)
  enums : List EnumUse := []
  asIntCasts : Nat := 0
  bitops : List BitUse := []
deriving Repr

structure Obj where
  name : Str
  /-- one pre-order group per property binding, groups sorted by property name -/
  props : List (List PNode)
  /-- sorted by signal name -/
  callbacks : List Callback
deriving Repr

def PNode.isDynamicLeaf (n : PNode) : Bool :=
  match n.kind with
  | .expr i => i.dynamic
  | .gadget => false

/-- `!p.is_evaluated_constant()`: an expression that was not folded, or a map with at least one such descendant -/
def groupDynamic (g : List PNode) : Bool := g.any PNode.isDynamicLeaf

/-- what one `name_gen.generate` call produced -/
structure Item where
  name : Str
  depth : Nat
  kind : Kind
deriving Repr

/-- One property binding: `generate(capitalize(obj) + capitalize(prop))`, then for a gadget map the members
    depth-first: `generate(parentName + capitalize(member))`.  `stack` holds the generated names of the open
    ancestors, innermost first.  `none` = the generator's `expect` fired. -/
def genGroup (objCap : Str) : List PNode → List Str → Gen → Option (List Item × Gen)
  | [], _, g => some ([], g)
  | nd :: rest, stack, g =>
    let stack' := stack.drop (stack.length - nd.depth)
    let pfx := match stack' with
      | [] => objCap ++ toAsciiCapitalized nd.name
      | parent :: _ => parent ++ toAsciiCapitalized nd.name
    match g.generate pfx with
    | none => none
    | some (name, g') =>
      match genGroup objCap rest (name :: stack') g' with
      | none => none
      | some (items, g'') => some ({ name := name, depth := nd.depth, kind := nd.kind } :: items, g'')

def genGroups (objCap : Str) : List (List PNode) → Gen → Option (List (List Item) × Gen)
  | [], g => some ([], g)
  | grp :: rest, g =>
    match genGroup objCap grp [] g with
    | none => none
    | some (items, g') =>
      match genGroups objCap rest g' with
      | none => none
      | some (more, g'') => some (items :: more, g'')

def genCallbacks (objCap : Str) : List Callback → Gen → Option (List (Str × Callback) × Gen)
  | [], g => some ([], g)
  | cb :: rest, g =>
    match g.generate (objCap ++ toAsciiCapitalized cb.signal) with
    | none => none
    | some (name, g') =>
      match genCallbacks objCap rest g' with
      | none => none
      | some (more, g'') => some ((name, cb) :: more, g'')

/-- the loop of `UiSupportCode::build` over `object_tree.flat_iter()`: one shared name generator -/
def genObjects : List Obj → Gen → Option (List (List Item) × List (Str × Callback) × Gen)
  | [], g => some ([], [], g)
  | o :: rest, g =>
    let cap := toAsciiCapitalized o.name
    match genGroups cap (o.props.filter groupDynamic) g with
    | none => none
    | some (bs, g1) =>
      match genCallbacks cap o.callbacks g1 with
      | none => none
      | some (cs, g2) =>
        match genObjects rest g2 with
        | none => none
        | some (bs', cs', g3) => some (bs ++ bs', cs ++ cs', g3)

structure Built where
  /-- one group per `CxxBinding`, head = the binding itself -/
  bindings : List (List Item)
  callbacks : List (Str × Callback)
deriving Repr

def build (objs : List Obj) : Option Built :=
  match genObjects objs {} with
  | none => none
  | some (bs, cs, _) => some { bindings := bs, callbacks := cs }

/-- every name the generator issued during the run, in order of issue per kind -/
def Built.issued (b : Built) : List Str :=
  (b.bindings.flatMap (fun g => g.map (·.name))) ++ b.callbacks.map (·.1)

def bindingName (g : List Item) : Str :=
  match g with
  | [] => []
  | it :: _ => it.name

/-- `enum class BindingIndex : unsigned { … }`: enumerator k has value k -/
def Built.indexEnum (b : Built) : List Str := b.bindings.map bindingName

/-- `static_cast<unsigned>(BindingIndex::X)` of the k-th binding -/
def Built.indexOf (_b : Built) (k : Nat) : Nat := k

def Built.bindingCount (b : Built) : Nat := b.bindings.length

def sSetup : Str := "setup".toList
def sUpdate : Str := "update".toList
def sEval : Str := "eval".toList
def sOn : Str := "on".toList

/-- member functions written for one binding (`write_setup_function`, `write_update_function`,
    `write_value_function`: the eval function of every node in pre-order) -/
def bindingDefs (g : List Item) : List Str :=
  match g with
  | [] => []
  | it :: _ => [sSetup ++ it.name, sUpdate ++ it.name] ++ g.map (fun x => sEval ++ x.name)

def callbackDefs (c : Str × Callback) : List Str := [sSetup ++ c.1, sOn ++ c.1]

/-- all member functions in the order they are defined in the header (constructor and `setup()` excluded) -/
def Built.defs (b : Built) : List Str := b.bindings.flatMap bindingDefs ++ b.callbacks.flatMap callbackDefs

/-- the calls of `void setup()` -/
def Built.setupCalls (b : Built) : List Str :=
  b.bindings.map (fun g => sSetup ++ bindingName g) ++ b.callbacks.map (fun c => sSetup ++ c.1) ++
    b.bindings.map (fun g => sUpdate ++ bindingName g)

def itemObserver (it : Item) : Option (Str × Nat) :=
  match it.kind with
  | .expr i => observerDecl it.name i.observers
  | .gadget => none

/-- `write_fields`: observer arrays, binding by binding, nodes in pre-order -/
def Built.observerDecls (b : Built) : List (Str × Nat) := (b.bindings.flatMap id).filterMap itemObserver

def Built.guard (b : Built) : Option Nat := guardDecl b.bindingCount

def itemLits (it : Item) : List (Bool × Str) :=
  match it.kind with
  | .expr i => i.lits
  | .gadget => []

/-- spelled string literals in header order -/
def Built.lits (b : Built) : List (Bool × Str) :=
  ((b.bindings.flatMap id).flatMap itemLits ++ b.callbacks.flatMap (fun c => c.2.lits)).map
    (fun l => (l.1, formatStringLiteral l.2))

def itemEnums (it : Item) : List EnumUse :=
  match it.kind with
  | .expr i => i.enums
  | .gadget => []

/-- spelled enumerator operands in header order -/
def Built.enums (b : Built) : List Str :=
  ((b.bindings.flatMap id).flatMap itemEnums ++ b.callbacks.flatMap (fun c => c.2.enums)).map qualifyCxxVariantName

def codeIntCasts (asInt : Nat) (bitops : List BitUse) : Nat := asInt + (bitops.map bitwiseIntCasts).sum

def itemIntCasts (it : Item) : Nat :=
  match it.kind with
  | .expr i => codeIntCasts i.asIntCasts i.bitops
  | .gadget => 0

/-- how many times the header spells `static_cast<int>(` -/
def Built.intCasts (b : Built) : Nat :=
  ((b.bindings.flatMap id).map itemIntCasts).sum + (b.callbacks.map (fun c => codeIntCasts c.2.asIntCasts c.2.bitops)).sum

/-! ### signal pointers (`format_signal_pointer`) and non-finite double constants (`format_operand`) -/

/-- what `TypeKind::is_const_ref_preferred` distinguishes (typemap/mod.rs, `NamedType`, `PrimitiveType`) -/
inductive ArgKind where
  /-- bool, int, uint, double -/
  | prim
  | enum
  /-- `TypeKind::Pointer` (the C++ name ends in `*`) -/
  | pointer
  | qstring
  | qvariant
  /-- `NamedType::Class` by value: gadgets (QFont, QSize, QColor, …) -/
  | cls
  /-- `TypeKind::List`: QStringList, QList<T> -/
  | list
deriving DecidableEq, Repr

/-- `TypeKind::is_const_ref_preferred` -/
def isConstRefPreferred : ArgKind → Bool
  | .prim | .enum | .pointer => false
  | .qstring | .qvariant | .cls | .list => true

structure SignalUse where
  /-- `signal.object_class().qualified_cxx_name()`: the class that declares the signal -/
  cls : Str
  name : Str
  /-- (`qualified_cxx_name()` of the argument type, kind) -/
  args : List (Str × ArgKind)
deriving Repr

def overloadArg (a : Str × ArgKind) : Str :=
  if isConstRefPreferred a.2 then "const ".toList ++ a.1 ++ " &".toList else a.1

def joinWith (sep : Str) : List Str → Str
  | [] => []
  | [x] => x
  | x :: rest => x ++ sep ++ joinWith sep rest

/-- `format_signal_pointer`: `QOverload<{arg_types}>::of(&{class}::{sig_name})` with `arg_types` joined by ", " -/
def formatSignalPointer (u : SignalUse) : Str :=
  "QOverload<".toList ++ joinWith ", ".toList (u.args.map overloadArg) ++ ">::of(&".toList ++ u.cls ++ scopeSep ++ u.name ++
    ")".toList

/-- the double constants that `{:e}` cannot print as a C++ token -/
inductive NonFinite where
  | posInf | negInf | nan
deriving DecidableEq, Repr

/-- `format_operand`, `ConstantValue::Float` arms for NaN and the infinities (61d18c3) -/
def formatNonFinite : NonFinite → Str
  | .nan => "qQNaN()".toList
  | .posInf => "qInf()".toList
  | .negInf => "-qInf()".toList

/-! ### includes (`collect_system_includes` scans EVERY code body, also those folded to constants) -/

def nodeUses (n : PNode) : List Builtin :=
  match n.kind with
  | .expr i => i.uses
  | .gadget => []

def objUses (o : Obj) : List Builtin := (o.props.flatMap id).flatMap nodeUses ++ o.callbacks.flatMap (·.uses)

def allUses (objs : List Obj) : List Builtin := objs.flatMap objUses

def incQtDebug : Str := "QtDebug".toList
def incAlgorithm : Str := "algorithm".toList
def incCmath : Str := "cmath".toList

/-- `HashSet<&'static str>` written `.iter().sorted()`: "QtDebug" < "algorithm" < "cmath" in byte order -/
def systemIncludes (objs : List Obj) : List Str :=
  (if (allUses objs).contains .log then [incQtDebug] else []) ++
  (if (allUses objs).contains .max || (allUses objs).contains .min then [incAlgorithm] else []) ++
  (if (allUses objs).contains .fmod then [incCmath] else [])

/-- builtin uses of the code that is actually emitted -/
def Built.emittedUses (b : Built) : List Builtin :=
  (b.bindings.flatMap id).flatMap (fun it => match it.kind with | .expr i => i.uses | .gadget => []) ++
    b.callbacks.flatMap (fun c => c.2.uses)

/-! ### operators and builtin calls as spelled in C++ (`format_rvalue`) — small typing tables

  `…Old` = the code before the repairs (F3a 0f767b2, F13 bd13865, F24 5a4a210, F23 17832f1, F70 4e55b2c). -/

inductive PTy where
  | int | uint | double | bool | qstring
deriving DecidableEq, Repr

inductive ArithOp where
  | add | sub | mul | div | rem
deriving DecidableEq, Repr

/-- `emit_binary_expression`, `BinaryOp::Arith`: both operands have the deduced type `t` -/
def implAcceptsArith (op : ArithOp) (t : PTy) : Bool :=
  match t with
  | .int | .uint | .double => true
  | .qstring => op == .add
  | .bool => false

/-- does C++17 accept `a op b` for two operands of that type?
    (`%` needs integral or unscoped enumeration operands [expr.mul]/2; QString has `operator+` only) -/
def cxxAcceptsInfix (op : ArithOp) (t : PTy) : Bool :=
  match t, op with
  | .int, _ | .uint, _ | .bool, _ => true
  | .double, .rem => false
  | .double, _ => true
  | .qstring, .add => true
  | .qstring, _ => false

inductive ArithSpelling where
  /-- `"{} {} {}"` -/
  | infix
  /-- `std::fmod({}, {})` -/
  | fmod
deriving DecidableEq, Repr

/-- `format_rvalue`: the `is_double_rem` arm comes first -/
def spellArith (op : ArithOp) (t : PTy) : ArithSpelling :=
  if op = .rem ∧ t = .double then .fmod else .infix

/-- before 0f767b2 every arithmetic operator was printed infix -/
def spellArithOld (_op : ArithOp) (_t : PTy) : ArithSpelling := .infix

/-- `std::fmod(double, double)` is declared by `<cmath>` -/
def cxxAcceptsArith (sp : ArithSpelling) (op : ArithOp) (t : PTy) : Bool :=
  match sp with
  | .infix => cxxAcceptsInfix op t
  | .fmod => t == .double

/-- the builtin use that `collect_system_includes` records for the spelling -/
def arithUses (sp : ArithSpelling) : List Builtin :=
  match sp with
  | .infix => []
  | .fmod => [.fmod]

/-! comparison -/

inductive CmpOp where
  | eq | ne | lt | le | gt | ge
deriving DecidableEq, Repr

def CmpOp.isEquality : CmpOp → Bool
  | .eq | .ne => true
  | _ => false

/-- operand pairs of a comparison after type deduction -/
inductive CmpOperands where
  | prim (t : PTy)
  | enums
  /-- two pointer values of the same class -/
  | pointers
  /-- a pointer value and the `null` literal (printed `nullptr`) -/
  | pointerNull
deriving DecidableEq, Repr

/-- `emit_binary_expression`, `BinaryOp::Comparison` after 5a4a210: pointers only with `==`/`!=` -/
def implAcceptsCmp (op : CmpOp) (o : CmpOperands) : Bool :=
  match o with
  | .prim _ | .enums => true
  | .pointers | .pointerNull => op.isEquality

def implAcceptsCmpOld (_op : CmpOp) (_o : CmpOperands) : Bool := true

/-- C++17: relational operators on a pointer and `nullptr` are ill-formed ([expr.rel]: `std::nullptr_t` is not a
    pointer type and there is no conversion for relational comparison); everything else in the table is accepted
    (QString and QFlags have the six operators) -/
def cxxAcceptsCmp (op : CmpOp) (o : CmpOperands) : Bool :=
  match o with
  | .pointerNull => op.isEquality
  | _ => true

/-! bitwise operators on enumerations (Qt 5 `QFlags`: only `operator|` is declared for two enumerators) -/

inductive BitOp where
  | and | xor | or
deriving DecidableEq, Repr

/-- C++ type of an enumeration-typed operand or expression -/
inductive ETy where
  /-- the enumeration itself -/
  | enum
  /-- `QFlags<Enum>` -/
  | qflags
  | int
  /-- a scoped enumeration (`enum class`): no implicit conversion to int, no built-in bitwise operators -/
  | scopedEnum
deriving DecidableEq, Repr

/-- type of `l op r`; `flagOps` = `Q_DECLARE_OPERATORS_FOR_FLAGS` is in effect for the enumeration -/
def bitResult (flagOps : Bool) (op : BitOp) (l r : ETy) : ETy :=
  match l, r with
  | .qflags, _ => .qflags                       -- member operators of QFlags take Enum, QFlags (| ^) or int (&)
  | .enum, .qflags => if flagOps && op == .or then .qflags else .int
  | .enum, .enum => if flagOps && op == .or then .qflags else .int
  | _, _ => .int

/-- type of `~a` -/
def notResult (a : ETy) : ETy :=
  match a with
  | .qflags => .qflags
  | _ => .int

/-- implicit conversion in `local = expr;` -/
def assignable (target : ETy) (e : ETy) : Bool :=
  match target, e with
  | .enum, .enum => true
  | .qflags, .qflags | .qflags, .enum => true      -- QFlags(Enum)
  | .int, _ => true
  | _, _ => false

/-- `static_cast<T>(static_cast<int>(e))`: every operand type converts to int (enumerations; `QFlags::operator Int`),
    and int converts explicitly to the enumeration / to `QFlags` (through `QFlag`) -/
def castable (_target : ETy) (_e : ETy) : Bool := true

/-- is the inner expression `l op r` / `~a` itself well-formed?  Scoped enumerations have no bitwise operators
    ([expr.bit.and] needs integral or unscoped enumeration operands) -/
def bitOperandOk : ETy → Bool
  | .scopedEnum => false
  | _ => true

/-- `format_bitwise_operand` on the level of types (4e55b2c): a scoped operand is cast to int -/
def castScopedOperand : ETy → ETy
  | .scopedEnum => .int
  | t => t

/-- the code today: operands through `format_bitwise_operand`, the result wrapped in the two casts (17832f1); the
    local has the type of the (first) enumeration operand -/
def cxxAcceptsBit (flagOps : Bool) (op : BitOp) (l r : ETy) : Bool :=
  bitOperandOk (castScopedOperand l) && bitOperandOk (castScopedOperand r) &&
    castable l (bitResult flagOps op (castScopedOperand l) (castScopedOperand r))
def cxxAcceptsNot (a : ETy) : Bool := bitOperandOk (castScopedOperand a) && castable a (notResult (castScopedOperand a))

/-- before 4e55b2c (finding F70): the operands were printed as they are -/
def cxxAcceptsBitPre70 (flagOps : Bool) (op : BitOp) (l r : ETy) : Bool :=
  bitOperandOk l && bitOperandOk r && castable l (bitResult flagOps op l r)
def cxxAcceptsNotPre70 (a : ETy) : Bool := bitOperandOk a && castable a (notResult a)

/-- before 17832f1 (finding F23): no casts at all -/
def cxxAcceptsBitOld (flagOps : Bool) (op : BitOp) (l r : ETy) : Bool :=
  bitOperandOk l && bitOperandOk r && assignable l (bitResult flagOps op l r)
def cxxAcceptsNotOld (a : ETy) : Bool := bitOperandOk a && assignable a (notResult a)

/-- operands the type checker admits: of enumeration type (the enum, its flags alias, or a scoped enumeration) -/
def isEnumOperand : ETy → Bool
  | .enum | .qflags | .scopedEnum => true
  | .int => false

/-! `Math.max` / `Math.min` -/

/-- how an operand of `Math.max/min` is typed by a C++ compiler: a local of the concrete type, or an untyped integer
    constant printed as a decimal literal (type `int` when it fits) -/
inductive MaxArg where
  | typed (t : PTy)
  | intLiteral
deriving DecidableEq, Repr

def MaxArg.cxxType : MaxArg → PTy
  | .typed t => t
  | .intLiteral => .int

/-- `visit_builtin_call`: `deduce_concrete_type` of the two arguments must be bool/double/int/uint/QString;
    an untyped integer constant unifies with `int` and `uint` (typeutil::deduce_type); string constants are turned into
    QString before (ensure_concrete_string), two integer constants are folded to `int` -/
def implAcceptsMax (a b : MaxArg) : Bool :=
  match a, b with
  | .typed s, .typed t => s == t
  | .typed .int, .intLiteral | .intLiteral, .typed .int => true
  | .typed .uint, .intLiteral | .intLiteral, .typed .uint => true
  | .intLiteral, .intLiteral => true
  | _, _ => false

/-- `uint_template_argument` (bd13865): `<uint>` iff a `uint` value meets an untyped integer constant -/
def uintTemplateArgument (a b : MaxArg) : Bool :=
  (a == .typed .uint || b == .typed .uint) && (a == .intLiteral || b == .intLiteral)

/-- `std::max(a, b)` without explicit template argument: `template<class T> const T& max(const T&, const T&)` —
    deduction succeeds iff both arguments have the same type -/
def cxxAcceptsMaxOld (a b : MaxArg) : Bool := a.cxxType == b.cxxType

/-- with `std::max<uint>(a, b)` both arguments only have to convert to `uint` (int and uint do) -/
def convertsToUint (t : PTy) : Bool :=
  match t with
  | .int | .uint | .bool | .double => true
  | .qstring => false

def cxxAcceptsMax (a b : MaxArg) : Bool :=
  if uintTemplateArgument a b then convertsToUint a.cxxType && convertsToUint b.cxxType
  else a.cxxType == b.cxxType

end QV.Model.CxxEmit
