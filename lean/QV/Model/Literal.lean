/-
  Literal decoding: mirrors /repo/lib/src/qmlast/astutil.rs `parse_number_str`, `parse_integer_str_radix`,
  `strip_radix_prefix`, `unescape_char`, `char_from_str_radix`, and the integer formatting used for the `.ui`
  (`impl Display for i64`, reached through `SimpleValue::Integer` after the repair of F7).
  Float literals are opaque here (`str::parse::<f64>` is trusted).
-/
namespace QV.Model.Literal

/-- value of an ASCII alphanumeric as a digit of radix 36 -/
def digitVal36 (c : Char) : Option Nat :=
  if 48 ≤ c.toNat ∧ c.toNat ≤ 57 then some (c.toNat - 48)
  else if 97 ≤ c.toNat ∧ c.toNat ≤ 122 then some (c.toNat - 87)
  else if 65 ≤ c.toNat ∧ c.toNat ≤ 90 then some (c.toNat - 55)
  else none

/-- `char::to_digit(radix)` -/
def toDigit (radix : Nat) (c : Char) : Option Nat :=
  match digitVal36 c with
  | some d => if d < radix then some d else none
  | none => none

def u64Max : Nat := 18446744073709551615

/-- the digit loop of `u64::from_str_radix` (checked multiply-add) -/
def digitsLoop (radix : Nat) : List Char → Nat → Option Nat
  | [], acc => some acc
  | c :: cs, acc =>
    match toDigit radix c with
    | none => none
    | some d => if acc * radix + d ≤ u64Max then digitsLoop radix cs (acc * radix + d) else none

/-- `u64::from_str_radix(s, radix)`: empty string and a lone sign are errors; a leading `+` is accepted -/
def fromStrRadix (radix : Nat) (s : List Char) : Option Nat :=
  match s with
  | [] => none
  | ['+'] => none
  | ['-'] => none
  | '+' :: rest => digitsLoop radix rest 0
  | _ => digitsLoop radix s 0

/-- `parse_integer_str_radix`: as is, or else with every `_` removed -/
def parseIntegerStrRadix (s : List Char) (radix : Nat) : Option Nat :=
  match fromStrRadix radix s with
  | some v => some v
  | none => fromStrRadix radix (s.filter (· ≠ '_'))

def isOctalDigit (c : Char) : Bool := 48 ≤ c.toNat && c.toNat ≤ 55

/-- `strip_radix_prefix` -/
def stripRadixPrefix (s : List Char) : Option (Nat × List Char) :=
  match s with
  | '0' :: 'b' :: t | '0' :: 'B' :: t => some (2, t)
  | '0' :: 'o' :: t | '0' :: 'O' :: t => some (8, t)
  | '0' :: 'x' :: t | '0' :: 'X' :: t => some (16, t)
  | '0' :: t => if !t.isEmpty && s.all isOctalDigit then some (8, t) else none
  | _ => none

inductive Number where
  | integer (v : Nat)
  | float            -- the text goes to `str::parse::<f64>` (opaque)
deriving DecidableEq, Repr

/-- `parse_number_str`; `floatOk` tells whether `s.parse::<f64>()` succeeds -/
def parseNumberStr (floatOk : List Char → Bool) (s : List Char) : Option Number :=
  match stripRadixPrefix s with
  | some (radix, t) => (parseIntegerStrRadix t radix).map .integer
  | none =>
    if s.contains 'e' || s.contains '.' then (if floatOk s then some .float else none)
    else (parseIntegerStrRadix s 10).map .integer

/-- `impl Display for i64` -/
def formatInt (v : Int) : List Char :=
  if v < 0 then '-' :: Nat.toDigits 10 v.natAbs else Nat.toDigits 10 v.natAbs

end QV.Model.Literal

namespace QV.Model.Literal

/-- `char::from_u32` -/
def charFromU32 (n : Nat) : Option Char :=
  if n < 0xD800 ∨ (0xE000 ≤ n ∧ n < 0x110000) then some (Char.ofNat n) else none

def u32Max : Nat := 4294967295

/-- the digit loop of `u32::from_str_radix` -/
def digitsLoop32 (radix : Nat) : List Char → Nat → Option Nat
  | [], acc => some acc
  | c :: cs, acc =>
    match toDigit radix c with
    | none => none
    | some d => if acc * radix + d ≤ u32Max then digitsLoop32 radix cs (acc * radix + d) else none

/-- `u32::from_str_radix` -/
def fromStrRadix32 (radix : Nat) (s : List Char) : Option Nat :=
  match s with
  | [] => none
  | ['+'] => none
  | ['-'] => none
  | '+' :: rest => digitsLoop32 radix rest 0
  | _ => digitsLoop32 radix s 0

/-- `char_from_str_radix` -/
def charFromStrRadix (s : List Char) (radix : Nat) : Option Char :=
  match fromStrRadix32 radix s with
  | some n => charFromU32 n
  | none => none

/-- `unescape_char`: the text of one `escape_sequence` node (backslash included); lengths are in bytes (`str::len`) -/
def unescapeChar (escaped : List Char) : Option Char :=
  match escaped with
  | '\\' :: tail =>
    let len := (tail.map Char.utf8Size).sum
    if len = 1 then
      (match tail with
       | ['0'] => some (Char.ofNat 0)
       | ['\''] => some '\''
       | ['"'] => some '"'
       | ['\\'] => some '\\'
       | ['n'] => some '\n'
       | ['r'] => some '\r'
       | ['v'] => some (Char.ofNat 11)
       | ['t'] => some '\t'
       | ['b'] => some (Char.ofNat 8)
       | ['f'] => some (Char.ofNat 12)
       | _ => none)
    else
      (match tail with
       | 'u' :: '{' :: rest =>
         if rest.getLast? = some '}' then charFromStrRadix rest.dropLast 16
         else if len = 5 then charFromStrRadix ('{' :: rest) 16 else none
       | 'u' :: rest => if len = 5 then charFromStrRadix rest 16 else none
       | 'x' :: rest => if len = 3 then charFromStrRadix rest 16 else none
       | _ => none)
  | _ => none

/-- a string literal as the CST presents it: fragments and escape sequences -/
inductive Segment where
  | fragment (s : List Char)
  | escape (s : List Char)
deriving DecidableEq, Repr

/-- `parse_string` -/
def parseString : List Segment → Option (List Char)
  | [] => some []
  | .fragment s :: rest => (parseString rest).map (s ++ ·)
  | .escape e :: rest =>
    match unescapeChar e with
    | some c => (parseString rest).map (c :: ·)
    | none => none

end QV.Model.Literal
