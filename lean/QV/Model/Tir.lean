/-
  Typed intermediate representation: mirrors /repo/lib/src/tir/core.rs (`CodeBody`, `BasicBlock`, `Statement`,
  `Terminator`, `Operand`, `Rvalue`, `ConstantValue`) and /repo/lib/src/opcode.rs.  Source byte ranges are not
  modelled (they influence diagnostics only).  Floats are kept as their IEEE-754 bit pattern (a `Nat`).
-/
import QV.Model.Types

namespace QV.Model

inductive UnaryOp where
  | plus | minus      -- arith
  | bitNot            -- bitwise
  | logNot            -- logical
deriving DecidableEq, Repr, Inhabited

def UnaryOp.symbol : UnaryOp → String
  | .plus => "+" | .minus => "-" | .bitNot => "~" | .logNot => "!"

inductive ArithOp where | add | sub | mul | div | rem
deriving DecidableEq, Repr, Inhabited
inductive BitOp where | and | xor | or
deriving DecidableEq, Repr, Inhabited
inductive ShiftOp where | shr | shl
deriving DecidableEq, Repr, Inhabited
inductive LogicOp where | and | or
deriving DecidableEq, Repr, Inhabited
inductive CmpOp where | eq | ne | lt | le | gt | ge
deriving DecidableEq, Repr, Inhabited

inductive BinaryOp where
  | arith (op : ArithOp)
  | bitwise (op : BitOp)
  | shift (op : ShiftOp)
  | logical (op : LogicOp)
  | cmp (op : CmpOp)
deriving DecidableEq, Repr, Inhabited

def ArithOp.symbol : ArithOp → String
  | .add => "+" | .sub => "-" | .mul => "*" | .div => "/" | .rem => "%"
def BitOp.symbol : BitOp → String
  | .and => "&" | .xor => "^" | .or => "|"
def ShiftOp.symbol : ShiftOp → String
  | .shr => ">>" | .shl => "<<"
def LogicOp.symbol : LogicOp → String
  | .and => "&&" | .or => "||"
def CmpOp.symbol : CmpOp → String
  | .eq => "==" | .ne => "!=" | .lt => "<" | .le => "<=" | .gt => ">" | .ge => ">="
def BinaryOp.symbol : BinaryOp → String
  | .arith o => o.symbol | .bitwise o => o.symbol | .shift o => o.symbol | .logical o => o.symbol
  | .cmp o => o.symbol

inductive LogLevel where | log | debug | info | warn | error
deriving DecidableEq, Repr, Inhabited

inductive Builtin where
  | consoleLog (lv : LogLevel)
  | max | min | tr
deriving DecidableEq, Repr, Inhabited

inductive ConstantValue where
  | bool (b : Bool)
  | integer (v : Int)          -- i64
  | float (bits : Nat)         -- f64 bit pattern
  | cstring (s : List Char)
  | qstring (s : List Char)
  | nullPointer
  | emptyList
deriving DecidableEq, Repr, Inhabited

def ConstantValue.typeDesc : ConstantValue → TypeDesc
  | .bool _ => .bool
  | .integer _ => .constInteger
  | .float _ => .double
  | .cstring _ => .constString
  | .qstring _ => .string
  | .nullPointer => .nullPointer
  | .emptyList => .emptyList

inductive Operand where
  | const (v : ConstantValue)
  | enumVariant (enum : String) (variant : String)
  | local (name : Nat) (ty : TypeKind)
  | namedObject (name : String) (cls : String)
  | void
deriving DecidableEq, Repr, Inhabited

def Operand.typeDesc : Operand → TypeDesc
  | .const v => v.typeDesc
  | .enumVariant e _ => .concrete (.just (.enum e))
  | .local _ ty => .concrete ty
  | .namedObject _ cls => .concrete (.pointer (.cls cls))
  | .void => .void

inductive Rvalue where
  | copy (a : Operand)
  | unary (op : UnaryOp) (a : Operand)
  | binary (op : BinaryOp) (l r : Operand)
  | staticCast (ty : TypeKind) (a : Operand)
  | variantCast (ty : TypeKind) (a : Operand)
  | callBuiltin (f : Builtin) (args : List Operand)
  | callMethod (obj : Operand) (m : MethodInfo) (args : List Operand)
  | readProperty (obj : Operand) (p : PropInfo)
  | writeProperty (obj : Operand) (p : PropInfo) (v : Operand)
  | readSubscript (obj idx : Operand)
  | writeSubscript (obj idx v : Operand)
  | makeList (ty : TypeKind) (args : List Operand)
deriving DecidableEq, Repr, Inhabited

inductive Statement where
  | assign (l : Nat) (r : Rvalue)
  | exec (r : Rvalue)
  | observeProperty (h : Nat) (l : Nat) (signal : MethodInfo)
deriving DecidableEq, Repr, Inhabited

inductive Terminator where
  | br (l : Nat)
  | brCond (c : Operand) (t f : Nat)
  | ret (a : Operand)
  | unreachable
deriving DecidableEq, Repr, Inhabited

structure BasicBlock where
  statements : List Statement := []
  completionValue : Option Operand := none
  terminator : Option Terminator := none
deriving DecidableEq, Repr, Inhabited

structure CodeBody where
  blocks : List BasicBlock := [{}]
  locals : List TypeKind := []
  parameterCount : Nat := 0
  staticDeps : List (String × MethodInfo) := []
  observerCount : Nat := 0
deriving DecidableEq, Repr, Inhabited

end QV.Model
