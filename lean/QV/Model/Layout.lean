/-
  Model of /repo/lib/src/uigen/layout.rs:
    LayoutFlow, LayoutIndexCounter::{new,next,parse_next}, maybe_parse_layout_index,
    maybe_insert_into_opt_i32_array, format_opt_i32_array, process_{vbox,hbox,form,grid}_layout_children,
    LayoutFlow::parse (count checks).
  `i32` values are `Int` (all values that reach this code went through `f64 as i32`, and the guards
  `MAX_INDEX`/`MAX_COUNT` keep every sum far inside the `i32` range — theorem `next_in_range`).
-/
namespace QV.Model.Layout

inductive Flow where
  | leftToRight (columns : Int)
  | topToBottom (rows : Int)
deriving DecidableEq, Repr

structure Counter where
  flow : Flow
  nextRow : Int
  nextColumn : Int
deriving DecidableEq, Repr

def Counter.new (flow : Flow) : Counter := { flow, nextRow := 0, nextColumn := 0 }

/-- first half of `LayoutIndexCounter::next`: an explicit row and/or column repositions the cursor -/
def Counter.reposition (s : Counter) (row column : Option Int) : Counter :=
  match row, column with
  | some r, some c => { s with nextRow := r, nextColumn := c }
  | some r, none =>
    { s with nextRow := r,
             nextColumn := match s.flow with
               | .leftToRight _ => 0
               | .topToBottom _ => s.nextColumn }
  | none, some c =>
    { s with nextColumn := c,
             nextRow := match s.flow with
               | .leftToRight _ => s.nextRow
               | .topToBottom _ => 0 }
  | none, none => s

/-- second half of `LayoutIndexCounter::next`: move to the following cell (`%` is Rust's truncating
    remainder, `(x == 0) as i32` is 1 or 0) -/
def Counter.advance (s : Counter) : Counter :=
  match s.flow with
  | .leftToRight columns =>
    let nc := Int.tmod (s.nextColumn + 1) columns
    { s with nextColumn := nc, nextRow := s.nextRow + (if nc = 0 then 1 else 0) }
  | .topToBottom rows =>
    let nr := Int.tmod (s.nextRow + 1) rows
    { s with nextRow := nr, nextColumn := s.nextColumn + (if nr = 0 then 1 else 0) }

/-- `LayoutIndexCounter::next` -/
def Counter.next (s : Counter) (row column : Option Int) : (Int × Int) × Counter :=
  let s1 := s.reposition row column
  ((s1.nextRow, s1.nextColumn), s1.advance)

inductive Diag where
  | negativeIndex (field : String)        -- "negative {field} is not allowed"
  | indexTooLarge (field : String)        -- "{field} is too large"
  | mismatch (previous : Int)             -- "mismatched with the value previously set: {v0}"
  | nonPositiveCount (name : String)      -- "negative or zero {name} is not allowed"
  | countTooLarge (name : String)         -- "{name} is too large"
  | unusedAttached                        -- "unused or unsupported dynamic binding to attached property"
deriving DecidableEq, Repr

def Diag.message : Diag → String
  | .negativeIndex f => s!"negative {f} is not allowed"
  | .indexTooLarge f => s!"{f} is too large"
  | .mismatch v => s!"mismatched with the value previously set: {v}"
  | .nonPositiveCount n => s!"negative or zero {n} is not allowed"
  | .countTooLarge n => s!"{n} is too large"
  | .unusedAttached => "unused or unsupported dynamic binding to attached property"

def maxIndex : Int := 65535
def maxCount : Int := 65536

/-- `maybe_parse_layout_index` -/
def parseIndex (field : String) (index : Option Int) (max : Int) : Option Int × List Diag :=
  match index with
  | none => (none, [])
  | some v =>
    if v < 0 then (none, [.negativeIndex field])
    else if v > max then (none, [.indexTooLarge field])
    else (some v, [])

/-- the `pop_count_property` closure of `LayoutFlow::parse` -/
def popCount (name : String) (c : Option Int) : Int × List Diag :=
  match c with
  | none => (maxCount, [])
  | some c =>
    if c ≤ 0 then (maxCount, [.nonPositiveCount name])
    else if c > maxCount then (maxCount, [.countTooLarge name])
    else (c, [])

/-- `LayoutFlow::parse` given the already evaluated pseudo properties (`leftToRight` = flow value). -/
def parseFlow (leftToRight : Bool) (columns rows : Option Int) : Flow × List Diag :=
  let (cs, d1) := popCount "columns" columns
  let (rs, d2) := popCount "rows" rows
  (if leftToRight then .leftToRight cs else .topToBottom rs, d1 ++ d2)

/-- `LayoutIndexCounter::parse_next` -/
def Counter.parseNext (s : Counter) (row column : Option Int) : ((Int × Int) × Counter) × List Diag :=
  let (maxRow, maxColumn) :=
    match s.flow with
    | .leftToRight columns => (maxIndex, columns - 1)
    | .topToBottom rows => (rows - 1, maxIndex)
  let (r, d1) := parseIndex "row" row maxRow
  let (c, d2) := parseIndex "column" column maxColumn
  (s.next r c, d1 ++ d2)

/-- `Vec::resize_with(index + 1, Default::default)` then `array[index] = Some(v)` -/
def setAt (arr : List (Option Int)) (index : Nat) (v : Int) : List (Option Int) :=
  (arr ++ List.replicate (index + 1 - arr.length) none).set index (some v)

/-- `maybe_insert_into_opt_i32_array` -/
def maybeInsert (arr : List (Option Int)) (index : Nat) (value : Option Int) :
    List (Option Int) × List Diag :=
  match value with
  | none => (arr, [])
  | some v1 =>
    let arr' := arr ++ List.replicate (index + 1 - arr.length) none
    match arr'.getD index none with
    | some v0 => if v0 ≠ v1 then (arr', [.mismatch v0]) else (arr'.set index (some v1), [])
    | none => (arr'.set index (some v1), [])

structure Attached where
  row : Option Int := none
  column : Option Int := none
  rowSpan : Option Int := none
  columnSpan : Option Int := none
  rowStretch : Option Int := none
  columnStretch : Option Int := none
  rowMinimumHeight : Option Int := none
  columnMinimumWidth : Option Int := none
deriving DecidableEq, Repr

structure Item where
  row : Option Int
  column : Option Int
  rowSpan : Option Int
  columnSpan : Option Int
deriving DecidableEq, Repr

structure Attributes where
  columnMinimumWidth : List (Option Int) := []
  columnStretch : List (Option Int) := []
  rowMinimumHeight : List (Option Int) := []
  rowStretch : List (Option Int) := []
  stretch : List (Option Int) := []
deriving DecidableEq, Repr

def Item.ofAttached (row column : Option Int) (a : Attached) : Item :=
  { row, column, rowSpan := a.rowSpan, columnSpan := a.columnSpan }

/-- `process_grid_layout_children`: the `.map(|n| …).collect()` over the children, threading the
    index counter and the attribute arrays. -/
def gridGo (counter : Counter) (attrs : Attributes) : List Attached → Attributes × List Item × List Diag
  | [] => (attrs, [], [])
  | a :: rest =>
    let (((row, column), counter'), d0) := counter.parseNext a.row a.column
    let (cmw, d1) := maybeInsert attrs.columnMinimumWidth column.toNat a.columnMinimumWidth
    let (cs, d2) := maybeInsert attrs.columnStretch column.toNat a.columnStretch
    -- NOTE: the code inserts the row minimum height at the *column* index (finding F9)
    let (rmh, d3) := maybeInsert attrs.rowMinimumHeight column.toNat a.rowMinimumHeight
    let (rs, d4) := maybeInsert attrs.rowStretch row.toNat a.rowStretch
    let attrs1 : Attributes :=
      { attrs with columnMinimumWidth := cmw, columnStretch := cs, rowMinimumHeight := rmh, rowStretch := rs }
    let (attrs', items, diags) := gridGo counter' attrs1 rest
    (attrs', Item.ofAttached (some row) (some column) a :: items, d0 ++ d1 ++ d2 ++ d3 ++ d4 ++ diags)

def processGrid (flow : Flow) (children : List Attached) : Attributes × List Item × List Diag :=
  gridGo (Counter.new flow) {} children

/-- Attached values nobody evaluated are reported by `uigen::build` ("unused or unsupported dynamic
    binding to attached property": `is_evaluated_constant()` is false for never-evaluated code). -/
def unused (vals : List (Option Int)) : List Diag :=
  (vals.filter Option.isSome).map fun _ => .unusedAttached

/-- `process_form_layout_children`: fixed two-column left-to-right flow, no array attributes -/
def formGo (counter : Counter) : List Attached → List Item × List Diag
  | [] => ([], [])
  | a :: rest =>
    let (((row, column), counter'), d0) := counter.parseNext a.row a.column
    let (items, diags) := formGo counter' rest
    (Item.ofAttached (some row) (some column) a :: items,
      d0 ++ unused [a.rowStretch, a.columnStretch, a.rowMinimumHeight, a.columnMinimumWidth] ++ diags)

def processForm (children : List Attached) : Attributes × List Item × List Diag :=
  let (items, diags) := formGo (Counter.new (.leftToRight 2)) children
  ({}, items, diags)

/-- `process_vbox_layout_children` (`vertical = true`: stretch from rowStretch) and
    `process_hbox_layout_children` (stretch from columnStretch), recorded at the child's position -/
def boxGo (vertical : Bool) (index : Nat) (stretch : List (Option Int)) :
    List Attached → List (Option Int) × List Item × List Diag
  | [] => (stretch, [], [])
  | a :: rest =>
    let (arr, d) := maybeInsert stretch index (if vertical then a.rowStretch else a.columnStretch)
    let (arr', items, diags) := boxGo vertical (index + 1) arr rest
    (arr', Item.ofAttached none none a :: items,
      d ++ unused [a.row, a.column, if vertical then a.columnStretch else a.rowStretch,
                   a.rowMinimumHeight, a.columnMinimumWidth] ++ diags)

def processBox (vertical : Bool) (children : List Attached) : Attributes × List Item × List Diag :=
  let (arr, items, diags) := boxGo vertical 0 [] children
  ({ stretch := arr }, items, diags)

/-- `format_opt_i32_array` as the list of numbers it joins with "," -/
def formatArray (arr : List (Option Int)) (default : Int) : List Int := arr.map (·.getD default)

end QV.Model.Layout
