/-
  Model of the file-system shell of `qmluic generate-ui`:
    /repo/src/main.rs        generate_ui, generate_ui_file, with_output_file
    /repo/lib/src/qtname.rs  FileNameRules
    /repo/lib/src/qmldir.rs  is_qml_file           /repo/lib/src/qmldoc.rs  UiDocument::read (type name = file stem)
  plus the pieces of std/camino the code relies on: `Path::components`, `file_name`, `file_stem`, `extension`,
  `with_file_name`, `join`, `parent`, `fs::create_dir_all`, and tempfile's `NamedTempFile::new_in` + `persist`.

  The translation itself (type map, uigen::build, serialisation) is a parameter: each source comes with its
  `Outcome`.  Everything the code does to the file system is emitted as a trace of `Spec.Fs.Op`s; the file
  system is read only through `fs : FS` (compare-then-skip, which directories exist, O_EXCL freshness).

  Imports only QV.Spec.Fs (itself import-free), so the driver still links as a `lean_exe`.
-/
import QV.Spec.Fs

namespace QV.Model.Cli
open QV.Spec.Fs

/-! ### std / camino path functions on component lists -/

/-- one segment of the path text; `none` = skipped by `Components` (empty segment, interior `.`) -/
def compOf (seg : Name) : Option Component :=
  if seg = [] then none
  else if seg = ['.'] then none
  else if seg = ['.', '.'] then some .parentDir
  else some (.normal seg)

/-- `Utf8Path::new(s).components()` on Unix: a leading `/` is `RootDir`; a leading `.` (no root) is `CurDir`;
    empty segments and every other `.` disappear; `..` is `ParentDir` -/
def parsePath (s : List Char) : Path :=
  if s.head? = some '/' then .rootDir :: (splitSlash s).filterMap compOf
  else
    match splitSlash s with
    | [] => []
    | first :: rest => (if first = ['.'] then [.curDir] else (compOf first).toList) ++ rest.filterMap compOf

/-- `Path::file_name`: the last component if it is `Normal` -/
def fileName (p : Path) : Option Name :=
  match p.getLast? with
  | some (.normal n) => some n
  | _ => none

/-- position-independent `rsplit` at the last `.`: `(before, after)`; `none` if there is no dot -/
def rsplitDot : Name → Option (Name × Name)
  | [] => none
  | c :: cs =>
    match rsplitDot cs with
    | some (b, a) => some (c :: b, a)
    | none => if c = '.' then some ([], cs) else none

/-- std `rsplit_file_at_dot`: `(stem, extension)` -/
def splitFileAtDot (n : Name) : Name × Option Name :=
  if n = ['.', '.'] then (n, none)
  else match rsplitDot n with
    | none => (n, none)
    | some (before, after) => if before = [] then (n, none) else (before, some after)

def fileStem (p : Path) : Option Name := (fileName p).map fun n => (splitFileAtDot n).1
def extension (p : Path) : Option Name := (fileName p).bind fun n => (splitFileAtDot n).2

/-- `char::to_ascii_lowercase` -/
def asciiLower (c : Char) : Char :=
  if 65 ≤ c.toNat ∧ c.toNat ≤ 90 then Char.ofNat (c.toNat + 32) else c

/-- qmldir.rs `is_qml_file` (the `path.is_file()` half is part of the `Outcome`) -/
def isQmlFile (p : Path) : Bool :=
  match extension p with
  | some e => e.map asciiLower == ['q', 'm', 'l']
  | none => false

/-- `Path::with_file_name` = `set_file_name`: pop the last component if it is a file name, then push -/
def withFileName (p : Path) (n : Name) : Path :=
  (if (fileName p).isSome then p.dropLast else p) ++ [.normal n]

def hasRoot (p : Path) : Bool := p.head? == some .rootDir

/-- what `components()` returns for the concatenated text: a `.` survives only in first position -/
def norm : Path → Path
  | [] => []
  | c :: cs => c :: cs.filter (· ≠ .curDir)

/-- `Utf8Path::join` / `PathBuf::push`: an absolute argument replaces the base -/
def join (d p : Path) : Path := if hasRoot p then p else norm (d ++ p)

/-- `Path::parent` -/
def parent (p : Path) : Option Path :=
  match p.getLast? with
  | none => none
  | some .rootDir => none
  | some _ => some p.dropLast

/-- identity of a file: `.` components do not matter (no symlinks; `..` is opaque, see Spec.Fs) -/
def key (p : Path) : Path := p.filter (· ≠ .curDir)

/-! ### qtname.rs `FileNameRules` -/

structure FileNameRules where
  cxxHeaderSuffix : Name := ['h']
  lowercase : Bool := true
deriving Repr

def FileNameRules.applyCaseChange (r : FileNameRules) (fileName : Name) : Name :=
  if r.lowercase then fileName.map asciiLower else fileName

def FileNameRules.typeNameToUiName (r : FileNameRules) (typeName : Name) : Name :=
  r.applyCaseChange (typeName ++ ['.', 'u', 'i'])

def FileNameRules.typeNameToUiSupportCxxHeaderName (r : FileNameRules) (typeName : Name) : Name :=
  r.applyCaseChange (['u', 'i', 's', 'u', 'p', 'p', 'o', 'r', 't', '_'] ++ typeName ++ '.' :: r.cxxHeaderSuffix)

/-! ### main.rs -/

structure Options where
  outputDirectory : Option Path := none
  noDynamicBinding : Bool := false
  noLowercaseFileName : Bool := false
deriving Repr

def Options.rules (o : Options) : FileNameRules := { lowercase := !o.noLowercaseFileName }

/-- what the unmodelled part of the pipeline does with one source -/
inductive Outcome where
  /-- `populate_directories` fails (missing file, unreadable directory): the whole command fails first -/
  | unreadable
  /-- `docs_cache.get(source)` is `None` (a directory, …) -/
  | notLoaded
  /-- syntax error or an error diagnostic: `CommandError::DiagnosticGenerated` -/
  | failed
  /-- translated: serialised `.ui` and (used unless `--no-dynamic-binding`) the support header -/
  | ok (ui header : Bytes)
deriving DecidableEq, Repr

structure Source where
  path : Path
  outcome : Outcome
deriving Repr

inductive Status where
  | ok
  | refused          -- "source file paths must be relative if --output-directory is specified"
  | populateError
  | notLoaded        -- "QML source not loaded (bad file suffix?)"
  | diagnostic       -- exit 1 after diagnostics
  | invalidFileName  -- with_output_file: `path.parent()` is `None`
  | ioMkdir          -- "failed to create output directory"
  | ioTemp           -- NamedTempFile::new_in failed (here: the candidate name exists — O_EXCL)
  | ioPersist        -- "failed to persist temporary file" (destination is a directory)
deriving DecidableEq, Repr

/-- generate_ui, first statement: with `--output-directory` every component of every source must be
    `CurDir` or `Normal` -/
def acceptedComponent : Component → Bool
  | .curDir => true
  | .normal _ => true
  | _ => false

def refuses (opts : Options) (sources : List Path) : Bool :=
  opts.outputDirectory.isSome && sources.any fun p => !p.all acceptedComponent

/-- the two output paths of generate_ui_file, as the code computes them -/
def outputPaths (opts : Options) (source : Path) (typeName : Name) : Path × Path :=
  let uiPath := withFileName source (opts.rules.typeNameToUiName typeName)
  let hPath := withFileName source (opts.rules.typeNameToUiSupportCxxHeaderName typeName)
  match opts.outputDirectory with
  | some dir => (join dir uiPath, join dir hPath)
  | none => (uiPath, hPath)

/-! #### fs::create_dir_all -/

/-- paths that exist as directories in every state: the cwd (`[]`), `/`, `.`, `..`, `../..` … -/
def implicitDir (p : Path) : Bool :=
  p.all fun c => match c with
    | .normal _ => false
    | _ => true

def isDir (fs : FS) (p : Path) : Bool := implicitDir p || fs p == some .dir

def mkdirWalk (fs : FS) : List Path → Option (List Op)
  | [] => some []
  | q :: qs =>
    if isDir fs q then mkdirWalk fs qs
    else match fs q with
      | some _ => none                                  -- EEXIST / ENOTDIR and not a directory
      | none => (mkdirWalk fs qs).map (Op.mkdir q :: ·)

/-- all non-empty prefixes, shortest first -/
def prefixes (p : Path) : List Path := (List.range p.length).map fun i => p.take (i + 1)

/-- the successful `mkdir`s of `create_dir_all(d)`, or `none` if a non-directory is in the way -/
def mkdirAll (fs : FS) (d : Path) : Option (List Op) := mkdirWalk fs (prefixes d)

/-! #### with_output_file and the compare-then-write around it -/

/-- `with_output_file(path, perm, |out| out.write_all(bytes))`; `tmpName` is the name tempfile picks.
    Note: when `persist` fails the temp file is NOT removed (the `NamedTempFile` lives inside the
    `anyhow::Error` and `process::exit` runs no destructors) — observed on the real binary. -/
def withOutputFile (fs : FS) (tmpName : Name) (path : Path) (bytes : Bytes) : List Op × Status :=
  match parent path with
  | none => ([], .invalidFileName)
  | some dir =>
    match mkdirAll fs dir with
    | none => ([], .ioMkdir)
    | some mk =>
      let tmp := dir ++ [.normal tmpName]
      if fs tmp ≠ none then (mk, .ioTemp)
      else
        let ops := mk ++ [.createTemp tmp, .write tmp bytes, .chmod tmp]
        if isDir fs path then (ops, .ioPersist)
        else (ops ++ [.rename tmp path], .ok)

/-- "do not touch the output file if unchanged" -/
def writeIfChanged (fs : FS) (tmpName : Name) (path : Path) (bytes : Bytes) : List Op × Status :=
  if fs path = some (.file bytes) then ([], .ok) else withOutputFile fs tmpName path bytes

/-- generate_ui_file, the part before any output is touched: is the source translated, and which two
    (path, content) pairs are to be written.  `doc.type_name()` is the file stem of the source
    (UiDocument::read; assumption: the source is not reached through a symlink with another name). -/
def planFile (opts : Options) (src : Source) : Except Status ((Path × Bytes) × (Path × Bytes)) :=
  match src.outcome with
  | .unreadable => .error .populateError
  | .notLoaded => .error .notLoaded
  | .failed => if isQmlFile src.path then .error .diagnostic else .error .notLoaded
  | .ok ui header =>
    if isQmlFile src.path then
      match fileStem src.path with
      | some typeName =>
        let out := outputPaths opts src.path typeName
        .ok ((key out.1, ui), (key out.2, header))
      | none => .error .notLoaded
    else .error .notLoaded

/-- generate_ui_file.  `k` numbers the temp files of this run; returns the ops, the next `k`, the status.
    The header is written only if `uigen::build` returned one (`DynamicBindingHandling::Generate`). -/
def generateUiFile (opts : Options) (tmp : Nat → Name) (fs : FS) (k : Nat) (src : Source) :
    List Op × Nat × Status :=
  match planFile opts src with
  | .error st => ([], k, st)
  | .ok (u, h) =>
    let r1 := writeIfChanged fs (tmp k) u.1 u.2
    if r1.2 ≠ .ok then (r1.1, k + 1, r1.2)
    else if opts.noDynamicBinding then (r1.1, k + 1, .ok)
    else
      let r2 := writeIfChanged (run fs r1.1) (tmp (k + 1)) h.1 h.2
      (r1.1 ++ r2.1, k + 2, r2.2)

/-- the loop of generate_ui (as of commit 73d3cab "generate-ui stopped at the first rejected source"):
    a source that ends in `DiagnosticGenerated` is remembered (`diag`) and the loop goes on; any other error
    returns at once; after the last source the remembered failure is reported. -/
def generateUiLoop (opts : Options) (tmp : Nat → Name) : FS → Nat → Bool → List Source → List Op × Status
  | _, _, diag, [] => ([], if diag then .diagnostic else .ok)
  | fs, k, diag, s :: rest =>
    let r := generateUiFile opts tmp fs k s
    if r.2.2 ≠ .ok ∧ r.2.2 ≠ .diagnostic then (r.1, r.2.2)
    else
      let r' := generateUiLoop opts tmp (run fs r.1) r.2.1 (diag || r.2.2 == .diagnostic) rest
      (r.1 ++ r'.1, r'.2)

/-- the (path, content) pairs this source makes generate_ui_file write (none if it is not translated) -/
def sourceOutputs (opts : Options) (src : Source) : List (Path × Bytes) :=
  match planFile opts src with
  | .ok (u, h) => u :: (if opts.noDynamicBinding then [] else [h])
  | .error _ => []

def isUnreadable : Outcome → Bool
  | .unreadable => true
  | _ => false

/-- generate_ui -/
def generateUi (opts : Options) (tmp : Nat → Name) (fs : FS) (sources : List Source) : List Op × Status :=
  if refuses opts (sources.map (·.path)) then ([], .refused)
  else if sources.any fun s => isUnreadable s.outcome then ([], .populateError)
  else generateUiLoop opts tmp fs 0 false sources

end QV.Model.Cli
