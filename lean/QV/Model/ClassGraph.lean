/-
  Model of /repo/lib/src/typemap/{class,namespace,function,enum_,core,module}.rs — the part that answers
  type-information queries on a loaded set of classes:

    ClassData::from_meta (public supers only, property map, sorted method table, nested enums),
    NamespaceData::{extend_classes, extend_enums, get_type_with, get_enum_by_variant_with},
    resolve_class_scoped, SuperClasses, BaseClasses (breadth-first walk with a visited set),
    Class::{find_map_self_and_base_classes, is_derived_from(_pedantic), common_base_class, get_property,
            get_public_method, get_type, get_enum_by_variant}, MethodDataTable::{from_meta, get_method_with},
    Property::new / Method::new (their type names are resolved through the class scope — i.e. through another
    walk over the base classes — before the enclosing scopes are consulted).

  A class handle (`Class<'a>`: pointer to the stored `ClassData` + parent space) is represented by the
  stored declaration; two handles are equal iff they denote the same stored class, which — all handles
  being obtained by name — is equality of class names (`lookupClass_name`).

  Fragment: one module importing the builtins; unscoped super-class names; member types `int`/`void`.
-/
namespace QV.Model.ClassGraph

abbrev Name := String

/-- A member's type name after the type map's decoration stripping ("decorated type") has been applied;
    the stripping itself - string surgery on QList<..>, QVector<..>, QStringList, a trailing star, double colons -
    is done by the driver's reader and tied by the c17 stream; here the result is data.  (named whole segs): a plain
    or pointer type, whole = the stripped name as it appears in InvalidTypeRef, segs = its parts between double
    colons. -/
inductive TypeExpr where
  | named (whole : Name) (segs : List Name)
  | list (elem : TypeExpr)
  | unsupported (whole : Name)
deriving DecidableEq, Repr

def TypeExpr.int : TypeExpr := .named "int" ["int"]
def TypeExpr.void : TypeExpr := .named "void" ["void"]

inductive MethodKind where
  | signal | slot | method
deriving DecidableEq, Repr

/-- `metatype::Method`: name, `access == Public`, number of (`int`) arguments; return type `void` -/
structure MethodDecl where
  name : Name
  isPublic : Bool := true
  nargs : Nat := 0
deriving DecidableEq, Repr

/-- `metatype::Enum`: name, `is_class`, values -/
structure EnumDecl where
  name : Name
  isScoped : Bool := false
  variants : List Name := []
deriving DecidableEq, Repr

/-- `metatype::Class` (the fields the type map reads) -/
structure ClassDecl where
  name : Name
  /-- `super_classes`: (name, `access == Public`) in declaration order -/
  supers : List (Name × Bool) := []
  props : List Name := []
  signals : List MethodDecl := []
  slots : List MethodDecl := []
  methods : List MethodDecl := []
  enums : List EnumDecl := []
deriving DecidableEq, Repr

/-- one module: the classes passed to `ModuleData::extend` (in order) and the names that resolve in the
    module's scope to a type that is not a class (module-level enums, primitive types of the builtins) -/
structure Table where
  classes : List ClassDecl
  others : List Name := []
deriving DecidableEq, Repr

inductive TypeMapError where
  | invalidTypeRef (n : Name)          -- the name resolves to nothing
  | invalidSuperClassType (n : Name)   -- the name resolves to something that is not a class
  | unsupportedDecoration (n : Name)   -- X<..> other than QList<..> / QVector<..> (member types only)
deriving DecidableEq, Repr

/-- `Option<Result<T, TypeMapError>>` -/
inductive Lookup (α : Type) where
  | notFound                      -- `None`
  | found (a : α)                 -- `Some(Ok(a))`
  | error (e : TypeMapError)      -- `Some(Err(e))`
deriving DecidableEq, Repr

/-- `ClassData::from_meta`: only the public super classes are kept -/
def ClassDecl.publicSuperClassNames (d : ClassDecl) : List Name :=
  d.supers.filterMap fun s => if s.2 then some s.1 else none

/-- `NamespaceData::extend_classes` + `name_map.get`: a later class of the same name replaces the entry -/
def lookupClass : List ClassDecl → Name → Option ClassDecl
  | [], _ => none
  | d :: ds, n =>
    match lookupClass ds n with
    | some x => some x
    | none => if d.name = n then some d else none

/-- `resolve_class_scoped(parent_space, name)` for an unscoped name -/
def resolveClass (t : Table) (n : Name) : Except TypeMapError ClassDecl :=
  match lookupClass t.classes n with
  | some d => .ok d
  | none => if n ∈ t.others then .error (.invalidSuperClassType n) else .error (.invalidTypeRef n)

/-- item of the `SuperClasses` / `BaseClasses` iterators: `Result<Class, TypeMapError>` -/
inductive Item where
  | ok (c : ClassDecl)
  | err (e : TypeMapError)
deriving DecidableEq, Repr

/-- `Class::public_super_classes().collect()` -/
def superClasses (t : Table) (d : ClassDecl) : List Item :=
  d.publicSuperClassNames.map fun n =>
    match resolveClass t n with
    | .ok c => .ok c
    | .error e => .err e

/-! ### `BaseClasses`: breadth-first walk with a visited set

  State of the iterator: `pending : VecDeque<SuperClasses>` (each a list of names still to resolve) and
  `visited : HashSet<Class>`.  `bfsAux` is the whole sequence of items `next()` yields until it returns
  `None`; the fuel parameter only makes the recursion structural — `bfsFuel` always suffices
  (`QV.Proofs.ClassGraph.bfsAux_run`: the out-of-fuel branch is never taken). -/
def bfsAux (t : Table) : Nat → List (List Name) → List Name → List Item
  | 0, _, _ => []                                          -- out of fuel (unreachable, see above)
  | _ + 1, [], _ => []                                     -- `None`
  | f + 1, [] :: rest, vis => bfsAux t f rest vis          -- `self.pending.pop_front()`
  | f + 1, (n :: ns) :: rest, vis =>
    match resolveClass t n with
    | .error e => .err e :: bfsAux t f (ns :: rest) vis    -- `Err(_) => Some(r)`
    | .ok c =>
      if c.name ∈ vis then bfsAux t f (ns :: rest) vis     -- `Ok(_) => continue, // already visited`
      else .ok c :: bfsAux t f ((ns :: rest) ++ [c.publicSuperClassNames]) (c.name :: vis)

def pendingSize : List (List Name) → Nat
  | [] => 0
  | l :: rest => l.length + 1 + pendingSize rest

/-- what the classes not yet visited can still add to `pending` -/
def weight : List ClassDecl → List Name → Nat
  | [], _ => 0
  | d :: ds, vis => (if d.name ∈ vis then 0 else d.publicSuperClassNames.length + 1) + weight ds vis

/-- upper bound on the number of loop iterations from a state -/
def bfsFuel (t : Table) (pending : List (List Name)) (vis : List Name) : Nat :=
  pendingSize pending + weight t.classes vis + 1

/-- `Class::base_classes().collect()` -/
def baseClasses (t : Table) (d : ClassDecl) : List Item :=
  bfsAux t (bfsFuel t [d.publicSuperClassNames] []) [d.publicSuperClassNames] []

/-- `iter.find_map(|r| r.and_then(|c| f(&c).transpose()).transpose())`: the first error *or* hit wins -/
def findMapItems {α : Type} (f : ClassDecl → Lookup α) : List Item → Lookup α
  | [] => .notFound
  | .err e :: _ => .error e
  | .ok c :: rest =>
    match f c with
    | .notFound => findMapItems f rest
    | r => r

/-- `Class::find_map_self_and_base_classes` -/
def findMapSelfAndBaseClasses {α : Type} (t : Table) (self : ClassDecl) (f : ClassDecl → Lookup α) : Lookup α :=
  match f self with
  | .notFound => findMapItems f (baseClasses t self)
  | r => r

/-- `Class::is_derived_from_pedantic` -/
def isDerivedFromPedantic (t : Table) (self base : ClassDecl) : Lookup Unit :=
  if self.name = base.name then .found ()
  else findMapItems (fun c => if c.name = base.name then .found () else .notFound) (baseClasses t self)

/-- `Class::is_derived_from`: `pedantic.and_then(|r| r.ok()).is_some()` -/
def isDerivedFrom (t : Table) (self base : ClassDecl) : Bool :=
  match isDerivedFromPedantic t self base with
  | .found () => true
  | _ => false

/-- `Class::common_base_class` -/
def commonBaseClass (t : Table) (self other : ClassDecl) : Lookup ClassDecl :=
  findMapSelfAndBaseClasses t self fun cls =>
    match isDerivedFromPedantic t other cls with
    | .found () => .found cls
    | .error e => .error e
    | .notFound => .notFound

/-! ### nested enums (`inner_type_map`) -/

/-- `extend_enums` + `name_map.get(name)`: the last nested enum of that name -/
def lookupEnum : List EnumDecl → Name → Option EnumDecl
  | [], _ => none
  | e :: es, n =>
    match lookupEnum es n with
    | some x => some x
    | none => if e.name = n then some e else none

/-- `extend_enums` + `enum_variant_map.get(name)`: the last *unscoped* nested enum listing the variant -/
def lookupEnumByVariant : List EnumDecl → Name → Option EnumDecl
  | [], _ => none
  | e :: es, v =>
    match lookupEnumByVariant es v with
    | some x => some x
    | none => if !e.isScoped && v ∈ e.variants then some e else none

/-- `Class::get_type_no_super` (a class stores only enums as nested types) -/
def getTypeNoSuper (d : ClassDecl) (name : Name) : Lookup (ClassDecl × EnumDecl) :=
  match lookupEnum d.enums name with
  | some e => .found (d, e)
  | none => .notFound

/-- `<Class as TypeSpace>::get_type` -/
def getType (t : Table) (self : ClassDecl) (name : Name) : Lookup (ClassDecl × EnumDecl) :=
  findMapSelfAndBaseClasses t self fun cls => getTypeNoSuper cls name

def getEnumByVariantNoSuper (d : ClassDecl) (v : Name) : Lookup (ClassDecl × EnumDecl) :=
  match lookupEnumByVariant d.enums v with
  | some e => .found (d, e)
  | none => .notFound

/-- `<Class as TypeSpace>::get_enum_by_variant` -/
def getEnumByVariant (t : Table) (self : ClassDecl) (v : Name) : Lookup (ClassDecl × EnumDecl) :=
  findMapSelfAndBaseClasses t self fun cls => getEnumByVariantNoSuper cls v

/-! ### member types

  `Property::new` and `Method::new` resolve their type names with `object_class.resolve_type_scoped(n)`:
  first `Class::get_type(n)` — nested types of the class *and of its base classes*, so an unresolved super
  class met on that walk fails the member — and only if that finds nothing, the enclosing scopes, where
  `int` and `void` are found (builtins import). -/
def resolveMemberType (t : Table) (owner : ClassDecl) (tyName : Name) : Lookup Unit :=
  match getType t owner tyName with
  | .error e => .error e
  | .found _ => .found ()
  | .notFound => .found ()

/-- the first error among the lookups of several type names, in order (`?` / `collect::<Result<_,_>>`) -/
def resolveMemberTypes (t : Table) (owner : ClassDecl) : List Name → Lookup Unit
  | [] => .found ()
  | n :: ns =>
    match resolveMemberType t owner n with
    | .error e => .error e
    | _ => resolveMemberTypes t owner ns

/-! ### properties -/

/-- `Class::get_property_no_super`: `property_map.get(name).map(Property::new)`; the property's type is `int` -/
def getPropertyNoSuper (t : Table) (d : ClassDecl) (name : Name) : Lookup ClassDecl :=
  if name ∈ d.props then
    match resolveMemberType t d "int" with
    | .error e => .error e
    | _ => .found d
  else .notFound

/-- `Class::get_property`; the answer is the property's `object_class()` -/
def getProperty (t : Table) (self : ClassDecl) (name : Name) : Lookup ClassDecl :=
  findMapSelfAndBaseClasses t self fun cls => getPropertyNoSuper t cls name

/-! ### methods -/

structure MethodData where
  name : Name
  kind : MethodKind
  nargs : Nat
  /-- return type name / argument type names (QV.Model.ClassGraph.Typed; the untyped fragment of this file
      reads them as void / int) -/
  ret : TypeExpr := .void
  args : List TypeExpr := []
deriving DecidableEq, Repr

def insertByName (m : MethodData) : List MethodData → List MethodData
  | [] => [m]
  | x :: xs => if x.name < m.name then x :: insertByName m xs else m :: x :: xs

/-- `methods.sort_by(|a, b| a.name.cmp(&b.name))` — a stable sort -/
def sortByName (l : List MethodData) : List MethodData := l.foldr insertByName []

/-- `MethodDataTable::from_meta([(signals, Signal), (slots, Slot), (methods, Method)], Public)` -/
def methodTable (d : ClassDecl) : List MethodData :=
  let pick (k : MethodKind) (ms : List MethodDecl) : List MethodData :=
    ms.filterMap fun m => if m.isPublic then some { name := m.name, kind := k, nargs := m.nargs } else none
  sortByName (pick .signal d.signals ++ pick .slot d.slots ++ pick .method d.methods)

/-- `MethodDataTable::get_method_with`, the slice it selects: `partition_point(|d| d.name < name)` on the
    sorted table, then `take_while(|d| d.name == name)` -/
def methodSlice (table : List MethodData) (name : Name) : List MethodData :=
  (table.dropWhile fun d => d.name < name).takeWhile fun d => d.name = name

/-- `Class::get_public_method_no_super`: `None` when the slice is empty, else `Method::new` for each entry
    (return type `void`, then the argument types `int`) -/
def getPublicMethodNoSuper (t : Table) (d : ClassDecl) (name : Name) : Lookup (ClassDecl × List MethodData) :=
  match methodSlice (methodTable d) name with
  | [] => .notFound
  | ms =>
    match resolveMemberTypes t d ((ms.map fun m => "void" :: List.replicate m.nargs "int").flatten) with
    | .error e => .error e
    | _ => .found (d, ms)

/-- `Class::get_public_method`; the answer is the `object_class()` and the matches -/
def getPublicMethod (t : Table) (self : ClassDecl) (name : Name) : Lookup (ClassDecl × List MethodData) :=
  findMapSelfAndBaseClasses t self fun cls => getPublicMethodNoSuper t cls name

end QV.Model.ClassGraph
