/-
  Model of the *pass structure* of `uigen::build` (lib/src/uigen/mod.rs) at the level of binding fates:

    1. `build_object_code_maps`  (objcode.rs)   — which written bindings enter the per-object code maps
    2. `UiForm::build`           (form/object/layout/property/gadget/expr.rs)
                                                — the constant pass: which consumer looks at which binding, which
                                                  bindings are `evaluate()`d (the lazily initialised `OnceCell`), what is
                                                  embedded in the form, what is diagnosed, what is skipped silently
    3. the left-over attached check (mod.rs)
    4. the mode switch generate / reject / omit (mod.rs, binding.rs `UiSupportCode::build`)
    5. `generate_ui_file` (src/main.rs)         — outputs are written only when no error was recorded

  Expressions are abstract: a binding is described by the outcomes the passes can observe (does its code build, does
  `tir::evaluate_code` yield a constant, does the typed conversion of that constant succeed, is the property
  readable / writable, does the return type fit).  The evaluation cache is modelled exactly: `evaluate()` is
  idempotent, so the state of a cell after the constant pass is "initialised or not", and
  `is_evaluated_constant()` is `initialised ∧ constant` — false for code nobody evaluated.

  Every Rust `expect/unwrap/panic!` in the modelled functions is an explicit `panic` outcome.
  Grouped bindings are modelled one level deep (a group of scalar members); nested groups are outside the fragment.
-/
namespace QV.Model.Passes

abbrev Str := List Char
abbrev Value := Nat

inductive Mode where
  | generate | reject | omit
deriving DecidableEq, Repr

/-- typed conversion of an evaluated constant (`parse_as_value_type`, `verify_code_return_type`, `unwrap_*`) -/
inductive Conv where
  | ok (v : Value)
  | fail          -- an error diagnostic is pushed, `None` is returned
  | panic         -- `unwrap_*` / `panic!("evaluated type must be simple value")`
deriving DecidableEq, Repr

/-- diagnostic classes (all are errors) -/
inductive DK where
  | build            -- reported while the code maps are built (unknown property/signal, type error, …)
  | convert          -- constant evaluated, typed conversion failed
  | notWritable      -- "not a writable property" (constant pass)
  | unexpectedType   -- "unexpected value type" (get_simple_value & co, object maps)
  | range            -- the special consumer rejects the value (negative index, zero count, mismatch, flow)
  | unsupportedGadget
  | spBoth           -- "both horizontal and vertical policies must be specified"
  | spStretch        -- "cannot specify stretch without horizontal and vertical policies"
  | spUnknown        -- "unknown property of size policy"
  | notPropertiesMap | notItemModel | notRefList
  | leftover         -- "unused or unsupported dynamic binding to attached property"
  | cxxRetType | cxxNotReadable | cxxNotWritable | cxxNested
  | rejDynamic | rejNotWritable | rejCallback
  | mapFault         -- `build_binding_map` / `build_attached_type_map` failed (duplicated binding)
  | attachedType     -- unknown / invalid attaching type
  | objectType       -- unknown / invalid object type (objtree.rs)
  | rootNotWidget | notUiObject | notLayoutItem | noChildren | unknownLayout
deriving DecidableEq, Repr

structure Diag where
  subj : Nat
  kind : DK
deriving DecidableEq, Repr

/-- names the consumers treat specially -/
inductive Tag where
  | actions | model | separator | flow | columns | rows | hHeader | vHeader | header
  | other
deriving DecidableEq, Repr

def tagOf (n : Str) : Tag :=
  if n = "actions".toList then .actions
  else if n = "model".toList then .model
  else if n = "separator".toList then .separator
  else if n = "flow".toList then .flow
  else if n = "columns".toList then .columns
  else if n = "rows".toList then .rows
  else if n = "horizontalHeader".toList then .hHeader
  else if n = "verticalHeader".toList then .vHeader
  else if n = "header".toList then .header
  else .other

/-- the exclude lists of the consumers, as written in the source (tied to `QV.Gen.PseudoProps` in Props/C04) -/
def widgetPseudo : List Str := ["actions".toList, "model".toList]
def tableViewPseudo : List Str := ["horizontalHeader".toList, "verticalHeader".toList]
def treeViewPseudo : List Str := ["header".toList]
def actionPseudo : List Str := ["separator".toList]
def gridLayoutPseudo : List Str := ["flow".toList, "columns".toList, "rows".toList]
def sizePolicyKnown : List Str :=
  ["horizontalPolicy".toList, "verticalPolicy".toList, "horizontalStretch".toList, "verticalStretch".toList]
def brushExcludes : List Str := ["style".toList]
def iconExcludes : List Str := ["name".toList]

/-- a scalar binding (`PropertyCodeKind::Expr`) as the passes see it -/
structure Leaf where
  id : Nat
  name : Str
  /-- false: rejected with an error while the code map is built; never enters the map -/
  enters : Bool := true
  /-- an error is reported while building although the code enters the map (`analyze_code_property_dependency`) -/
  buildDiag : Bool := false
  /-- `tir::evaluate_code`: `none` = not a constant (dynamic) -/
  const : Option Conv := none
  /-- the converted value has the shape a special consumer expects (`as_bool`, `into_enum`, `into_object_ref_list` …) -/
  shapeOk : Bool := true
  /-- the special consumer accepts the value (index in range, count positive, no conflicting array slot, refs valid) -/
  rangeOk : Bool := true
  writable : Bool := true
  readable : Bool := true
  /-- `verify_code_return_type` against the property type (C++ pass) -/
  retTypeOk : Bool := true
deriving DecidableEq, Repr

inductive GKind where
  | generic | brush | icon | palette | colorGroup | sizePolicy
  | unsupported   -- gadget class without a .ui representation
  | object        -- `PropertyCodeKind::ObjectMap`
deriving DecidableEq, Repr

/-- a grouped binding (`GadgetMap` / `ObjectMap`) with scalar members -/
structure Group where
  id : Nat
  name : Str
  kind : GKind
  /-- false: "binding map cannot be parsed as non-class type"; never enters the map -/
  enters : Bool := true
  writable : Bool := true
  readable : Bool := true
  members : List Leaf
deriving DecidableEq, Repr

inductive Entry where
  | leaf (l : Leaf)
  | group (g : Group)
deriving DecidableEq, Repr

def Entry.name : Entry → Str
  | .leaf l => l.name
  | .group g => g.name

def Entry.id : Entry → Nat
  | .leaf l => l.id
  | .group g => g.id

structure Callback where
  id : Nat
  /-- false: unknown signal, not a signal, overloaded, too many / incompatible parameters, body rejected -/
  enters : Bool := true
deriving DecidableEq, Repr

inductive AttType where
  | layout | tabWidget | other
deriving DecidableEq, Repr

structure AttMap where
  /-- subject of the diagnostic when the attaching type does not resolve -/
  tid : Nat
  ty : AttType
  resolves : Bool := true
  entries : List Entry
deriving DecidableEq, Repr

inductive LayoutKind where
  | vbox | hbox | form | grid | unknown
deriving DecidableEq, Repr

structure Obj where
  oid : Nat
  /-- the object's type resolves to a class (`populate_node_rec`) -/
  resolves : Bool := true
  isAction : Bool := false
  isLayout : Bool := false
  isMenu : Bool := false
  isWidget : Bool := false
  isSpacer : Bool := false
  layoutKind : LayoutKind := .unknown
  isTabWidget : Bool := false
  comboOrList : Bool := false
  tableView : Bool := false
  treeView : Bool := false
  /-- `build_binding_map` fails (duplicated binding): properties and callbacks default to empty -/
  mapFault : Bool := false
  /-- `build_attached_type_map` fails: attached maps default to empty -/
  attFault : Bool := false
  entries : List Entry := []
  callbacks : List Callback := []
  attached : List AttMap := []
deriving DecidableEq, Repr

inductive Forest where
  | nil
  | cons (o : Obj) (children : Forest) (rest : Forest)
deriving DecidableEq, Repr

/-! ### 1. code maps (`ObjectCodeMap::build`) -/

def Entry.enters : Entry → Bool
  | .leaf l => l.enters
  | .group g => g.enters

def leafBuildDiags (l : Leaf) : List Diag :=
  if !l.enters || l.buildDiag then [⟨l.id, .build⟩] else []

def leavesBuildDiags : List Leaf → List Diag
  | [] => []
  | l :: rest => leafBuildDiags l ++ leavesBuildDiags rest

/-- members that enter a group's map -/
def Group.live (g : Group) : Group := { g with members := g.members.filter (·.enters) }

def entryBuildDiags : Entry → List Diag
  | .leaf l => leafBuildDiags l
  | .group g => if g.enters then leavesBuildDiags g.members else [⟨g.id, .build⟩]

def entriesBuildDiags : List Entry → List Diag
  | [] => []
  | e :: rest => entryBuildDiags e ++ entriesBuildDiags rest

/-- the map a consumer sees: entries that entered, groups restricted to the members that entered -/
def liveEntries : List Entry → List Entry
  | [] => []
  | .leaf l :: rest => if l.enters then .leaf l :: liveEntries rest else liveEntries rest
  | .group g :: rest => if g.enters then .group g.live :: liveEntries rest else liveEntries rest

def callbacksBuildDiags : List Callback → List Diag
  | [] => []
  | c :: rest => (if c.enters then [] else [⟨c.id, .build⟩]) ++ callbacksBuildDiags rest

def attBuildDiags : List AttMap → List Diag
  | [] => []
  | a :: rest => (if a.resolves then entriesBuildDiags a.entries else [⟨a.tid, .attachedType⟩]) ++ attBuildDiags rest

/-- the code map of one object -/
structure CodeMap where
  props : List Entry
  callbacks : List Callback
  attached : List AttMap     -- resolved maps only, live entries
deriving DecidableEq, Repr

def liveAttached : List AttMap → List AttMap
  | [] => []
  | a :: rest => if a.resolves then { a with entries := liveEntries a.entries } :: liveAttached rest else liveAttached rest

def codeMap (o : Obj) : CodeMap :=
  { props := if o.mapFault then [] else liveEntries o.entries
    callbacks := if o.mapFault then [] else o.callbacks.filter (·.enters)
    attached := if o.attFault then [] else liveAttached o.attached }

def codeMapDiags (o : Obj) : List Diag :=
  (if o.mapFault then [⟨o.oid, .mapFault⟩] else entriesBuildDiags o.entries ++ callbacksBuildDiags o.callbacks)
  ++ (if o.attFault then [⟨o.oid, .mapFault⟩] else attBuildDiags o.attached)

/-! ### 2. the constant pass -/

/-- how the constant pass reaches a scalar binding -/
inductive Route where
  | untouched   -- nobody calls `evaluate()`: excluded by a pseudo list and not picked up, dead object, unconsumed attached
  | value       -- `make_value_map`, palette roles: `SerializableValue::build`, no setter check
  | ser         -- `make_serializable_map`: `SerializableValue::build`, then `is_writable()`
  | simple      -- `get_simple_value` / `get_bool` / `get_enum` / `get_i32` + the consumer's own value check
  | refList     -- `actions`: `build_object_ref_list`
  | itemModel   -- `model` of a combo box / list widget: `build_item_model`
  | separator   -- the only binding of an action without callbacks: `is_action_separator` → `get_bool`
deriving DecidableEq, Repr

/-- what the constant pass does with one scalar binding -/
structure LeafOut where
  id : Nat
  /-- the cell is initialised (`evaluate()` was called) -/
  evaluated : Bool
  /-- value placed in the form -/
  emb : Option Value
  diags : List DK
  panic : Bool
deriving DecidableEq, Repr

def Leaf.isConst (l : Leaf) : Bool := l.const.isSome

/-- `SerializableValue::build` and the `get_*` family on a scalar binding -/
def constLeaf (r : Route) (l : Leaf) : LeafOut :=
  let none' : LeafOut := { id := l.id, evaluated := r != .untouched, emb := none, diags := [], panic := false }
  match r with
  | .untouched => none'
  | _ =>
    match l.const with
    | none => none'                      -- `evaluate()?` : "no warning; to be processed by cxx pass"
    | some .panic => { none' with panic := true }
    | some .fail => { none' with diags := [.convert] }
    | some (.ok v) =>
      match r with
      | .untouched => none'
      | .value => { none' with emb := some v }
      | .ser => if l.writable then { none' with emb := some v } else { none' with diags := [.notWritable] }
      | .simple =>
        if !l.shapeOk then { none' with diags := [.unexpectedType] }
        else if !l.rangeOk then { none' with diags := [.range] }
        else { none' with emb := some v }
      | .refList =>
        -- `into_object_ref_list()` → `None` gives an empty list without a diagnostic;
        -- `get_by_id(..).expect("object ref must be valid")`
        if !l.shapeOk then none'
        else if !l.rangeOk then { none' with panic := true }
        else { none' with emb := some v }
      | .itemModel => { none' with emb := some v }
      | .separator =>
        if !l.shapeOk then { none' with diags := [.unexpectedType] }
        else if v = 0 then none'         -- `separator: false`: an ordinary action, `separator` stays excluded
        else { none' with emb := some v }

/-- the state of the cell after the pass and `is_evaluated_constant()` -/
def LeafOut.evalConst (o : LeafOut) (l : Leaf) : Bool := o.evaluated && l.isConst

def dropEmb (o : LeafOut) : LeafOut := { o with emb := none }

/-- how a group is reached -/
inductive GRoute where
  | untouched
  | value      -- through `make_value_map`
  | ser        -- through `make_serializable_map` (setter check on the group property)
  | header     -- `flatten_object_properties_into_attributes`
  | simple     -- found by a `get_*` lookup: built, then "unexpected value type"
  | notRefList | notItemModel
deriving DecidableEq, Repr

def memberNamed (n : Str) (ms : List Leaf) : Option Leaf := ms.find? (·.name = n)

/-- `make_size_policy_properties`, member by member; `both` = both policies were obtained -/
def sizePolicyMember (hOk vOk : Bool) (l : Leaf) : LeafOut :=
  if l.name = "horizontalPolicy".toList || l.name = "verticalPolicy".toList then
    -- `get_simple_value`: shape check only
    let o := constLeaf .simple { l with rangeOk := true }
    if hOk && vOk then o
    else if o.emb.isSome then { dropEmb o with diags := o.diags ++ [.spBoth] }
    else o
  else if l.name = "horizontalStretch".toList || l.name = "verticalStretch".toList then
    let o := constLeaf .value l
    if o.emb.isSome && !(hOk && vOk) then { dropEmb o with diags := o.diags ++ [.spStretch] } else o
  else
    { id := l.id, evaluated := false, emb := none, diags := [.spUnknown], panic := false }

def policyOk (n : Str) (ms : List Leaf) : Bool :=
  match memberNamed n ms with
  | some l => (constLeaf .simple { l with rangeOk := true }).emb.isSome
  | none => false

/-- members of a gadget built by `Gadget::new` / `PaletteColorGroup::new` -/
def gadgetMembers (k : GKind) (ms : List Leaf) : List LeafOut :=
  match k with
  | .generic | .palette | .colorGroup => ms.map (constLeaf .value)
  | .brush => ms.map fun l => if l.name = "style".toList then constLeaf .simple { l with rangeOk := true } else constLeaf .value l
  | .icon => ms.map fun l => if l.name = "name".toList then constLeaf .simple { l with rangeOk := true } else constLeaf .value l
  | .sizePolicy =>
    let hOk := policyOk "horizontalPolicy".toList ms
    let vOk := policyOk "verticalPolicy".toList ms
    ms.map (sizePolicyMember hOk vOk)
  | .unsupported | .object => ms.map (constLeaf .untouched)

structure GroupOut where
  id : Nat
  members : List LeafOut
  diags : List DK
deriving DecidableEq, Repr

/-- `SerializableValue::build` on a grouped binding and what the caller does with the result -/
def constGroup (r : GRoute) (g : Group) : GroupOut :=
  let untouched : GroupOut := { id := g.id, members := g.members.map (constLeaf .untouched), diags := [] }
  /- `SerializableValue::build` proper -/
  let built : GroupOut :=
    match g.kind with
    | .unsupported => { untouched with diags := [.unsupportedGadget] }
    | .object => { untouched with diags := [.unexpectedType] }
    | k => { id := g.id, members := gadgetMembers k g.members, diags := [] }
  let isValue : Bool := g.kind != .unsupported && g.kind != .object
  match r with
  | .untouched => untouched
  | .value => built
  | .ser =>
    if isValue && !g.writable then
      { built with members := built.members.map dropEmb, diags := built.diags ++ [.notWritable] }
    else built
  | .header =>
    match g.kind with
    | .object => { id := g.id, members := g.members.map (constLeaf .ser), diags := [] }
    | _ => { untouched with diags := [.notPropertiesMap] }
  | .simple =>
    if isValue then { built with members := built.members.map dropEmb, diags := built.diags ++ [.unexpectedType] }
    else built
  | .notRefList => { untouched with diags := [.notRefList] }
  | .notItemModel => { untouched with diags := [.notItemModel] }

/-- what `UiObject::build` / `LayoutItemContent::build` / `UiForm::build` make of an object -/
inductive Disp where
  | action | layout | widget | spacer
  | dead      -- below an action or a spacer: `confine_children` reports it, nothing builds it
deriving DecidableEq, Repr

/-- where the object sits -/
inductive Reach where
  | root
  | obj       -- child of a widget: `UiObject::build`
  | tabPage   -- child of a tab widget: `process_tab_widget_children`
  | item (k : LayoutKind)   -- child of a layout: `LayoutItemContent::build`
  | dead
deriving DecidableEq, Repr

def dispatch (reach : Reach) (o : Obj) : Disp × List DK :=
  match reach with
  | .dead => (.dead, [])
  | .root => (.widget, if o.isWidget then [] else [.rootNotWidget])
  | .obj | .tabPage =>
    if o.isAction then (.action, [])
    else if o.isLayout then (.layout, [])
    else if o.isMenu then (.widget, [])
    else if o.isWidget then (.widget, [])
    else (.widget, [.notUiObject])
  | .item _ =>
    if o.isLayout then (.layout, [])
    else if o.isSpacer then (.spacer, [])
    else if o.isWidget then (.widget, [])
    else (.widget, [.notLayoutItem])

/-- reach of the children of an object dispatched as `d` -/
def childReach (d : Disp) (o : Obj) : Reach :=
  match d with
  | .action | .spacer | .dead => .dead
  | .layout => .item o.layoutKind
  | .widget => if o.isTabWidget then .tabPage else .obj

/-- route of a top-level scalar property -/
def propLeafRoute (d : Disp) (o : Obj) (sole : Bool) (l : Leaf) : Route :=
  match d with
  | .dead => .untouched
  | .spacer => .value
  | .action => if tagOf l.name = .separator then (if sole then .separator else .untouched) else .ser
  | .layout =>
    if o.layoutKind = .grid && (tagOf l.name = .flow || tagOf l.name = .columns || tagOf l.name = .rows) then .simple
    else .ser
  | .widget =>
    match tagOf l.name with
    | .actions => .refList
    | .model => if o.comboOrList then .itemModel else .untouched
    | .hHeader | .vHeader => if o.tableView then .untouched else .ser
    | .header => if o.treeView then .untouched else .ser
    | _ => .ser

/-- diagnostics attached to a top-level scalar that a header lookup finds ("not a properties map") -/
def propLeafExtra (d : Disp) (o : Obj) (l : Leaf) : List DK :=
  match d with
  | .widget =>
    match tagOf l.name with
    | .hHeader | .vHeader => if o.tableView then [.notPropertiesMap] else []
    | .header => if o.treeView then [.notPropertiesMap] else []
    | _ => []
  | _ => []

def propGroupRoute (d : Disp) (o : Obj) (g : Group) : GRoute :=
  match d with
  | .dead => .untouched
  | .spacer => .value
  | .action => if tagOf g.name = .separator then .untouched else .ser
  | .layout =>
    if o.layoutKind = .grid && (tagOf g.name = .flow || tagOf g.name = .columns || tagOf g.name = .rows) then .simple
    else .ser
  | .widget =>
    match tagOf g.name with
    | .actions => .notRefList
    | .model => if o.comboOrList then .notItemModel else .untouched
    | .hHeader | .vHeader => if o.tableView then .header else .ser
    | .header => if o.treeView then .header else .ser
    | _ => .ser

/-- names of `QLayout.*` a layout of this kind looks up on its children -/
def layoutConsumes (k : LayoutKind) (n : Str) : Bool :=
  let common := n = "alignment".toList || n = "columnSpan".toList || n = "rowSpan".toList
  match k with
  | .vbox | .unknown => common || n = "rowStretch".toList
  | .hbox => common || n = "columnStretch".toList
  | .form => common || n = "row".toList || n = "column".toList
  | .grid => common || n = "row".toList || n = "column".toList || n = "columnMinimumWidth".toList
      || n = "columnStretch".toList || n = "rowMinimumHeight".toList || n = "rowStretch".toList

/-- is this attached map the one the parent looks up (`attached_properties(&cls)`), and how -/
def attLeafRoute (reach : Reach) (d : Disp) (first : Bool) (ty : AttType) (l : Leaf) : Route :=
  if !first then .untouched else
  match reach, ty with
  | .item k, .layout => if layoutConsumes k l.name then .simple else .untouched
  | .tabPage, .tabWidget => if d = .widget then .value else .untouched
  | _, _ => .untouched

def attGroupRoute (reach : Reach) (d : Disp) (first : Bool) (ty : AttType) (g : Group) : GRoute :=
  if !first then .untouched else
  match reach, ty with
  | .item k, .layout => if layoutConsumes k g.name then .simple else .untouched
  | .tabPage, .tabWidget => if d = .widget then .value else .untouched
  | _, _ => .untouched

/-- result of the constant pass for one entry, kept next to the entry (the cell lives inside the `PropertyCode`) -/
inductive EntryOut where
  | leaf (l : Leaf) (o : LeafOut) (extra : List DK)
  | group (g : Group) (o : GroupOut)
deriving DecidableEq, Repr

/-- `is_action_separator`'s precondition -/
def soleSeparator (cm : CodeMap) : Bool :=
  cm.callbacks.isEmpty && cm.props.length == 1 && cm.props.any (fun e => tagOf e.name = .separator)

def constProps (d : Disp) (o : Obj) (sole : Bool) : List Entry → List EntryOut
  | [] => []
  | .leaf l :: rest => .leaf l (constLeaf (propLeafRoute d o sole l) l) (propLeafExtra d o l) :: constProps d o sole rest
  | .group g :: rest => .group g (constGroup (propGroupRoute d o g) g) :: constProps d o sole rest

def constAttEntries (reach : Reach) (d : Disp) (first : Bool) (ty : AttType) : List Entry → List EntryOut
  | [] => []
  | .leaf l :: rest => .leaf l (constLeaf (attLeafRoute reach d first ty l) l) [] :: constAttEntries reach d first ty rest
  | .group g :: rest => .group g (constGroup (attGroupRoute reach d first ty g) g) :: constAttEntries reach d first ty rest

/-- attached maps: only the first map of the looked-up attaching class is consumed -/
def constAttached (reach : Reach) (d : Disp) : (seenLayout seenTab : Bool) → List AttMap → List (List EntryOut)
  | _, _, [] => []
  | sl, st, a :: rest =>
    let first := match a.ty with
      | .layout => !sl
      | .tabWidget => !st
      | .other => false
    constAttEntries reach d first a.ty a.entries ::
      constAttached reach d (sl || a.ty = .layout) (st || a.ty = .tabWidget) rest

/-- an object with its place, its code map and what the constant pass did -/
structure Placed where
  obj : Obj
  reach : Reach
  disp : Disp
  hasChildren : Bool
  cm : CodeMap
  props : List EntryOut
  attached : List (List EntryOut)
  /-- object-level diagnostics -/
  objDiags : List DK
deriving DecidableEq, Repr

def hasResolving : Forest → Bool
  | .nil => false
  | .cons o _ rest => o.resolves || hasResolving rest

def placeOne (reach : Reach) (o : Obj) (hasChildren : Bool) : Placed :=
  let dd := dispatch reach o
  let d := dd.1
  let cm := codeMap o
  let confine : List DK := if (d = .action || d = .spacer) && hasChildren then [.noChildren] else []
  let unk : List DK := if d = .layout && o.layoutKind = .unknown then [.unknownLayout] else []
  { obj := o, reach, disp := d, hasChildren, cm
    props := constProps d o (soleSeparator cm) cm.props
    attached := constAttached reach d false false cm.attached
    objDiags := dd.2 ++ confine ++ unk }

/-- `populate_node_rec` + the visit order of `UiForm::build`: objects whose type does not resolve vanish with their
    subtree (one diagnostic); every other object gets a code map and a place -/
def place (reach : Reach) : Forest → List Placed × List Diag
  | .nil => ([], [])
  | .cons o ch rest =>
    let r := place reach rest
    if o.resolves then
      let p := placeOne reach o (hasResolving ch)
      let c := place (childReach p.disp o) ch
      (p :: c.1 ++ r.1, c.2 ++ r.2)
    else
      (r.1, ⟨o.oid, .objectType⟩ :: r.2)

/-! ### flattening of the per-entry results -/

def EntryOut.leafOuts : EntryOut → List (Leaf × LeafOut)
  | .leaf l o _ => [(l, o)]
  | .group g o => g.members.zip o.members

def EntryOut.diags : EntryOut → List Diag
  | .leaf l o extra => (o.diags ++ extra).map (⟨l.id, ·⟩)
  | .group g o => o.diags.map (⟨g.id, ·⟩) ++ (o.members.flatMap fun m => m.diags.map (⟨m.id, ·⟩))

def EntryOut.panic : EntryOut → Bool
  | .leaf _ o _ => o.panic
  | .group _ o => o.members.any (·.panic)

/-- `PropertyCode::is_evaluated_constant` -/
def EntryOut.evalConst : EntryOut → Bool
  | .leaf l o _ => o.evalConst l
  | .group g o => (g.members.zip o.members).all fun (l, lo) => lo.evalConst l

def Placed.allOuts (p : Placed) : List EntryOut := p.props ++ p.attached.flatten

def Placed.formDiags (p : Placed) : List Diag :=
  p.objDiags.map (⟨p.obj.oid, ·⟩) ++ p.allOuts.flatMap (·.diags)

/-! ### 3. left-over attached check -/

def leftoverDiags (p : Placed) : List Diag :=
  (p.attached.flatten.filter (fun e => !e.evalConst)).map fun e =>
    match e with
    | .leaf l _ _ => ⟨l.id, .leftover⟩
    | .group g _ => ⟨g.id, .leftover⟩

/-! ### 4. the mode switch -/

/-- `CxxUpdateBinding::build` after `verify_code_return_type` for a scalar -/
def cxxLeaf (l : Leaf) : Option DK :=
  if !l.retTypeOk then some .cxxRetType
  else if !l.readable then some .cxxNotReadable
  else if !l.writable then some .cxxNotWritable
  else none

structure Cxx where
  /-- top-level entries that became a `CxxBinding` -/
  bindings : List Nat := []
  /-- scalar bindings with update code that are not evaluated constants -/
  generated : List (Leaf × LeafOut) := []
  /-- evaluated-constant members repeated in a gadget function (their code, hence their value, is the leaf's) -/
  repeated : List (Leaf × LeafOut) := []
  diags : List Diag := []
deriving DecidableEq, Repr

def Cxx.append (a b : Cxx) : Cxx :=
  { bindings := a.bindings ++ b.bindings, generated := a.generated ++ b.generated,
    repeated := a.repeated ++ b.repeated, diags := a.diags ++ b.diags }

def cxxMember (p : Leaf × LeafOut) : Cxx :=
  match cxxLeaf p.1 with
  | some k => { diags := [⟨p.1.id, k⟩] }
  | none => if p.2.evalConst p.1 then { repeated := [p] } else { generated := [p] }

def cxxMembers : List (Leaf × LeafOut) → Cxx
  | [] => {}
  | m :: rest => (cxxMember m).append (cxxMembers rest)

/-- `UiSupportCode::build` for one top-level property -/
def cxxEntry (e : EntryOut) : Cxx :=
  if e.evalConst then {} else
  match e with
  | .leaf l o _ =>
    match cxxLeaf l with
    | some k => { diags := [⟨l.id, k⟩] }
    | none => { bindings := [l.id], generated := [(l, o)] }
  | .group g o =>
    match g.kind with
    | .object => { diags := [⟨g.id, .cxxNested⟩] }
    | _ =>
      let ms := cxxMembers (g.members.zip o.members)
      if !g.readable then { diags := ms.diags ++ [⟨g.id, .cxxNotReadable⟩] }
      else if !g.writable then { diags := ms.diags ++ [⟨g.id, .cxxNotWritable⟩] }
      else { ms with bindings := [g.id] }

def cxxEntries : List EntryOut → Cxx
  | [] => {}
  | e :: rest => (cxxEntry e).append (cxxEntries rest)

def rejectEntry (e : EntryOut) : List Diag :=
  if e.evalConst then [] else
  match e with
  | .leaf l _ _ => [⟨l.id, if l.writable then .rejDynamic else .rejNotWritable⟩]
  | .group g _ => [⟨g.id, if g.writable then .rejDynamic else .rejNotWritable⟩]

def rejectEntries : List EntryOut → List Diag
  | [] => []
  | e :: rest => rejectEntry e ++ rejectEntries rest

/-! ### the whole of `uigen::build` -/

structure Support where
  bindings : List Nat
  generated : List (Leaf × LeafOut)
  repeated : List (Leaf × LeafOut)
  connected : List Nat
deriving DecidableEq, Repr

structure Result where
  /-- `uigen::build` returned `Some` -/
  built : Bool
  panic : Bool
  objects : List Placed
  /-- `None`: no support code object -/
  support : Option Support
  diags : List Diag
deriving DecidableEq, Repr

def cxxAll : List Placed → Cxx
  | [] => {}
  | p :: rest => (cxxEntries p.props).append (cxxAll rest)

def connectedAll : List Placed → List Nat
  | [] => []
  | p :: rest => p.cm.callbacks.map (·.id) ++ connectedAll rest

def rejectAll : List Placed → List Diag
  | [] => []
  | p :: rest => rejectEntries p.props ++ p.cm.callbacks.map (⟨·.id, .rejCallback⟩) ++ rejectAll rest

/-- diagnostics of the phases before the mode switch: object tree, code maps, form, left-over attached -/
def commonDiags (ps : List Placed) (treeDiags : List Diag) : List Diag :=
  treeDiags ++ ps.flatMap (fun p => codeMapDiags p.obj) ++ ps.flatMap (·.formDiags) ++ ps.flatMap leftoverDiags

def anyPanic (ps : List Placed) : Bool := ps.any fun p => p.allOuts.any (·.panic)

def noResult : Result := { built := false, panic := false, objects := [], support := none, diags := [] }

def run (mode : Mode) (doc : Forest) : Result :=
  match doc with
  | .cons root ch .nil =>
    if !root.resolves then { noResult with diags := [⟨root.oid, .objectType⟩] } else
    let pl := place .root (.cons root ch .nil)
    let ps := pl.1
    let common := commonDiags ps pl.2
    let panic := anyPanic ps
    match mode with
    | .omit =>
      -- the support code is built only for its diagnostics and discarded (repair of F21, /repo c47e7fb)
      { built := true, panic, objects := ps, support := none, diags := common ++ (cxxAll ps).diags }
    | .generate =>
      let c := cxxAll ps
      { built := true, panic, objects := ps
        support := some { bindings := c.bindings, generated := c.generated, repeated := c.repeated,
                          connected := connectedAll ps }
        diags := common ++ c.diags }
    | .reject => { built := true, panic, objects := ps, support := none, diags := common ++ rejectAll ps }
  | _ => noResult

/-- the form: per object, the embedded values by binding id (the order inside an object is the sorted order of
    `serialize_properties_to_xml`, applied by the driver) -/
def embOf (p : Placed) : List (Nat × Value) :=
  (p.allOuts.flatMap (·.leafOuts)).filterMap fun (l, o) => o.emb.map fun v => (l.id, v)

/-- place (parent-relative position is implied by the order), identity and kind of every object + its values -/
def Result.form (r : Result) : Option (List (Nat × Disp × List (Nat × Value))) :=
  if r.built && !r.panic then some (r.objects.map fun p => (p.obj.oid, p.disp, embOf p)) else none

def Result.accepted (r : Result) : Bool := r.built && !r.panic && r.diags.isEmpty

/-! ### 5. `generate_ui_file` -/

inductive WriteOp where
  | ui (source : Nat)
  | header (source : Nat)
deriving DecidableEq, Repr

/-- outputs are written only when the build returned a form and no error was recorded (a panic aborts the process) -/
def generateUiFile (source : Nat) (r : Result) : List WriteOp × Bool :=
  if r.built && !r.panic && r.diags.isEmpty then
    (.ui source :: (match r.support with | some _ => [.header source] | none => []), true)
  else ([], false)

/-- `generate_ui`: every source is processed; exit status 0 iff all succeeded (no panic) -/
def generateUi : List (Nat × Result) → List WriteOp × Bool
  | [] => ([], true)
  | (s, r) :: rest =>
    if r.panic then ([], false) else      -- the process aborts: nothing further is written
    let a := generateUiFile s r
    let b := generateUi rest
    (a.1 ++ b.1, a.2 && b.2)

end QV.Model.Passes
