import QV.Model.ClassGraph

/-
  The query functions of QV.Model.ClassGraph *after the proposed repair of finding F10*
  (/verif/.work/C17.fix.diff: an unresolved super class no longer stops the search; the first such error is
  reported only if nothing is found; `Class::get_type` does not report it at all, so that the enclosing
  scopes are still consulted).  Everything not redefined here (name lookup, `resolveClass`, the `BaseClasses`
  walk `baseClasses`, the per-class lookups, the method table) is unchanged and shared.

  While F10 is open this file describes the *candidate* code, not /repo; once the repair is committed the
  driver's `cg` request must be answered from this namespace (see QV.Driver.ClassGraph.handleModel).
-/
namespace QV.Model.ClassGraph.Repaired
open QV.Model.ClassGraph

/-- the repaired loop: `Ok(c)` → first hit of `f` returns; `Err(e)` → `first_err.get_or_insert(e)`;
    at the end `first_err.map(Err)` -/
def findMapItems {α : Type} (f : ClassDecl → Lookup α) : List Item → Option TypeMapError → Lookup α
  | [], none => .notFound
  | [], some e => .error e
  | .err e :: rest, none => findMapItems f rest (some e)
  | .err _ :: rest, some e0 => findMapItems f rest (some e0)
  | .ok c :: rest, fe =>
    match f c with
    | .notFound => findMapItems f rest fe
    | r => r

def findMapSelfAndBaseClasses {α : Type} (t : Table) (self : ClassDecl) (f : ClassDecl → Lookup α) : Lookup α :=
  match f self with
  | .notFound => findMapItems f (baseClasses t self) none
  | r => r

def isDerivedFromPedantic (t : Table) (self base : ClassDecl) : Lookup Unit :=
  if self.name = base.name then .found ()
  else findMapItems (fun c => if c.name = base.name then .found () else .notFound) (baseClasses t self) none

def isDerivedFrom (t : Table) (self base : ClassDecl) : Bool :=
  match isDerivedFromPedantic t self base with
  | .found () => true
  | _ => false

/-- the closure of `common_base_class` (its side effect on `other_err` is accounted for below) -/
def commonBaseStep (t : Table) (other cls : ClassDecl) : Lookup ClassDecl :=
  match isDerivedFromPedantic t other cls with
  | .found () => .found cls
  | _ => .notFound

/-- `common_base_class`: errors of `other`'s walk are remembered by the closure (`other_err`) and reported
    only if the search finds nothing and `self`'s own walk reported nothing -/
def commonBaseClass (t : Table) (self other : ClassDecl) : Lookup ClassDecl :=
  match findMapSelfAndBaseClasses t self (commonBaseStep t other) with
  | .notFound =>
    -- no hit: the closure ran on `self` and on every base class, in order
    let tried := self :: (baseClasses t self).filterMap fun
      | .ok c => some c
      | .err _ => none
    match tried.findSome? fun cls =>
        match isDerivedFromPedantic t other cls with
        | .error e => some e
        | _ => none with
    | some e => .error e
    | none => .notFound
  | r => r

/-- `get_type`: `.filter(|r| r.is_ok())` -/
def getType (t : Table) (self : ClassDecl) (name : Name) : Lookup (ClassDecl × EnumDecl) :=
  match findMapSelfAndBaseClasses t self fun cls => getTypeNoSuper cls name with
  | .error _ => .notFound
  | r => r

def getEnumByVariant (t : Table) (self : ClassDecl) (v : Name) : Lookup (ClassDecl × EnumDecl) :=
  findMapSelfAndBaseClasses t self fun cls => getEnumByVariantNoSuper cls v

def resolveMemberType (t : Table) (owner : ClassDecl) (tyName : Name) : Lookup Unit :=
  match getType t owner tyName with
  | .error e => .error e
  | .found _ => .found ()
  | .notFound => .found ()

def resolveMemberTypes (t : Table) (owner : ClassDecl) : List Name → Lookup Unit
  | [] => .found ()
  | n :: ns =>
    match resolveMemberType t owner n with
    | .error e => .error e
    | _ => resolveMemberTypes t owner ns

def getPropertyNoSuper (t : Table) (d : ClassDecl) (name : Name) : Lookup ClassDecl :=
  if name ∈ d.props then
    match resolveMemberType t d "int" with
    | .error e => .error e
    | _ => .found d
  else .notFound

def getProperty (t : Table) (self : ClassDecl) (name : Name) : Lookup ClassDecl :=
  findMapSelfAndBaseClasses t self fun cls => getPropertyNoSuper t cls name

def getPublicMethodNoSuper (t : Table) (d : ClassDecl) (name : Name) : Lookup (ClassDecl × List MethodData) :=
  match methodSlice (methodTable d) name with
  | [] => .notFound
  | ms =>
    match resolveMemberTypes t d ((ms.map fun m => "void" :: List.replicate m.nargs "int").flatten) with
    | .error e => .error e
    | _ => .found (d, ms)

def getPublicMethod (t : Table) (self : ClassDecl) (name : Name) : Lookup (ClassDecl × List MethodData) :=
  findMapSelfAndBaseClasses t self fun cls => getPublicMethodNoSuper t cls name

end QV.Model.ClassGraph.Repaired
