/-
  Types of the expression language: mirrors `typemap::{PrimitiveType, NamedType, TypeKind}`,
  `typedexpr::TypeDesc` and /repo/lib/src/typeutil.rs (`deduce_type`, `to_concrete_type`, `pick_type_cast`,
  `pick_concrete_type_cast`, `is_assignable`).  Classes and enums are identified by their qualified C++ names;
  what the type map knows about them is an explicit environment `Env` (regenerated from the real type map:
  QV.Gen.VerifEnv).
-/
namespace QV.Model

inductive Prim where
  | bool | double | int | qstring | qvariant | uint | void
deriving DecidableEq, Repr, Inhabited

def Prim.name : Prim → String
  | .bool => "bool" | .double => "double" | .int => "int" | .qstring => "QString"
  | .qvariant => "QVariant" | .uint => "uint" | .void => "void"

inductive NamedTy where
  | prim (p : Prim)
  | enum (name : String)
  | cls (name : String)
  | ns (name : String)
  | comp (name : String)
deriving DecidableEq, Repr, Inhabited

def NamedTy.cxxName : NamedTy → String
  | .prim p => p.name
  | .enum n | .cls n | .ns n | .comp n => n

inductive TypeKind where
  | just (n : NamedTy)
  | pointer (n : NamedTy)
  | list (t : TypeKind)
deriving DecidableEq, Repr, Inhabited

namespace TypeKind
def bool : TypeKind := .just (.prim .bool)
def double : TypeKind := .just (.prim .double)
def int : TypeKind := .just (.prim .int)
def uint : TypeKind := .just (.prim .uint)
def string : TypeKind := .just (.prim .qstring)
def variant : TypeKind := .just (.prim .qvariant)
def void : TypeKind := .just (.prim .void)

def isPointer : TypeKind → Bool
  | .pointer _ => true
  | _ => false

/-- `TypeKind::qualified_cxx_name` -/
def cxxName : TypeKind → String
  | .just n => n.cxxName
  | .pointer n => n.cxxName ++ "*"
  | .list t => if t = string then "QStringList" else "QList<" ++ cxxName t ++ ">"
end TypeKind

inductive TypeDesc where
  | constInteger
  | constString
  | nullPointer
  | emptyList
  | concrete (k : TypeKind)
deriving DecidableEq, Repr, Inhabited

namespace TypeDesc
def bool : TypeDesc := .concrete .bool
def double : TypeDesc := .concrete .double
def int : TypeDesc := .concrete .int
def uint : TypeDesc := .concrete .uint
def string : TypeDesc := .concrete .string
def void : TypeDesc := .concrete .void

/-- `TypeDesc::qualified_name` -/
def qualifiedName : TypeDesc → String
  | .constInteger => "integer"
  | .constString => "string"
  | .nullPointer => "nullptr_t"
  | .emptyList => "list"
  | .concrete k => k.cxxName

def isPointer : TypeDesc → Bool
  | .nullPointer => true
  | .concrete k => k.isPointer
  | _ => false
end TypeDesc

/-! ### what the type map knows -/

inductive MethodKind where
  | signal | slot | method
deriving DecidableEq, Repr, Inhabited

structure MethodInfo where
  /-- class that declares the method (`Method::object_class`) -/
  cls : String
  name : String
  args : List TypeKind
  ret : TypeKind
  kind : MethodKind
deriving DecidableEq, Repr, Inhabited

structure PropInfo where
  /-- class the property was looked up through is irrelevant; this is the declaring class -/
  cls : String
  name : String
  ty : TypeKind
  readable : Bool
  writable : Bool
  constant : Bool
  /-- `notify_signal()`: `none` = no NOTIFY; `some none` = resolution error; `some (some m)` = the signal -/
  notify : Option (Option MethodInfo)
  readFn : String
  writeFn : String
deriving DecidableEq, Repr, Inhabited

structure ClassInfo where
  name : String
  /-- derives from QObject (annotated types become pointers) -/
  isObject : Bool
  /-- reflexive ancestors (`is_derived_from`) -/
  ancestors : List String
  /-- `get_property` for every candidate name, in lookup order -/
  props : List PropInfo
  /-- `get_public_method` per name: the overloads, in table order -/
  methods : List (String × List MethodInfo)
  /-- `get_enum_by_variant`: variant ↦ enum -/
  variants : List (String × String)
  /-- nested types reachable by `get_type` (own and inherited enums) -/
  nested : List (String × NamedTy)
deriving Repr, Inhabited

structure EnumInfo where
  name : String
  alias : Option String
  isFlag : Bool
  isScoped : Bool
  variants : List String
  /-- C++ scope the variants live in (`qualify_cxx_variant_name`): the enum's own name if scoped, else its parent -/
  variantScope : String
deriving Repr, Inhabited

structure Env where
  classes : List ClassInfo
  enums : List EnumInfo
  /-- names resolvable by `type_space.get_type` / `get_type_scoped` from a document importing the module -/
  types : List (String × NamedTy)
deriving Repr, Inhabited

namespace Env
def findClass (env : Env) (n : String) : Option ClassInfo := env.classes.find? (·.name = n)
def findEnum (env : Env) (n : String) : Option EnumInfo := env.enums.find? (·.name = n)

def derives (env : Env) (a b : String) : Bool :=
  match env.findClass a with
  | some c => c.ancestors.contains b
  | none => a = b

/-- `is_compatible_enum` -/
def enumCompat (env : Env) (l r : String) : Bool :=
  l = r ||
  (match env.findEnum l with | some e => e.alias = some r | none => false) ||
  (match env.findEnum r with | some e => e.alias = some l | none => false)
end Env

/-! ### typeutil.rs -/

inductive TypeError where
  | incompatible (l r : TypeDesc)
  | undetermined (t : TypeDesc)
deriving DecidableEq, Repr

def TypeError.message : TypeError → String
  | .incompatible l r => s!"incompatible types: {l.qualifiedName} and {r.qualifiedName}"
  | .undetermined t => s!"undetermined type: {t.qualifiedName}"

/-- `to_concrete_type` -/
def toConcreteType : TypeDesc → Except TypeError TypeKind
  | .concrete ty => .ok ty
  | .constInteger => .ok .int
  | .constString => .ok .string
  | t => .error (.undetermined t)

/-- `deduce_type` -/
def deduceType (env : Env) (left right : TypeDesc) : Except TypeError TypeDesc :=
  if left = right then .ok left
  else match left, right with
    | .concrete (.just (.prim .int)), .constInteger => .ok left
    | .concrete (.just (.prim .uint)), .constInteger => .ok left
    | .constInteger, .concrete (.just (.prim .int)) => .ok right
    | .constInteger, .concrete (.just (.prim .uint)) => .ok right
    | .concrete (.just (.prim .qstring)), .constString => .ok left
    | .constString, .concrete (.just (.prim .qstring)) => .ok right
    | .concrete (.just (.enum l)), .concrete (.just (.enum r)) =>
      if env.enumCompat l r then .ok left else .error (.incompatible left right)
    | .concrete (.pointer _), .nullPointer => .ok left
    | .nullPointer, .concrete (.pointer _) => .ok right
    | .concrete (.list _), .emptyList => .ok left
    | .emptyList, .concrete (.list _) => .ok right
    | _, _ => .error (.incompatible left right)

/-- `deduce_concrete_type` -/
def deduceConcreteType (env : Env) (left right : TypeDesc) : Except TypeError TypeKind :=
  match deduceType env left right with
  | .ok t => toConcreteType t
  | .error e => .error e

inductive TypeCastKind where
  | noop | implicit | static | variant | invalid
deriving DecidableEq, Repr

def isNumeric (k : TypeKind) : Bool := k = .double || k = .int || k = .uint
def isIntegral (k : TypeKind) : Bool := k = .int || k = .uint

/-- `pick_concrete_type_cast` -/
def pickConcreteTypeCast (env : Env) (expected actual : TypeKind) : TypeCastKind :=
  if expected = actual then .noop
  else match expected, actual with
    | .just (.enum e), .just (.enum a) =>
      if env.enumCompat e a then .implicit
      else if actual = .variant then .variant else .invalid
    | .pointer (.cls e), .pointer (.cls a) =>
      if env.derives a e then .implicit else .invalid
    | _, _ =>
      if isNumeric expected && isNumeric actual then .static
      else if isIntegral expected && (match actual with | .just (.enum _) => true | _ => false) then .static
      else if isIntegral expected && actual = .bool then .static
      else if expected = .void then .static
      else if actual = .variant then .variant
      else .invalid

/-- `pick_type_cast` -/
def pickTypeCast (env : Env) (expected : TypeKind) (actual : TypeDesc) : TypeCastKind :=
  match actual with
  | .concrete ty => pickConcreteTypeCast env expected ty
  | .constInteger =>
    if isIntegral expected then .implicit
    else if expected = .double then .static
    else if expected = .void then .static
    else .invalid
  | .constString => if expected = .string then .implicit else if expected = .void then .static else .invalid
  | .nullPointer =>
    (match expected with
     | .pointer _ => .implicit
     | _ => if expected = .void then .static else .invalid)
  | .emptyList =>
    (match expected with
     | .list _ => .implicit
     | _ => if expected = .void then .static else .invalid)

/-- `is_assignable` -/
def isAssignable (env : Env) (expected : TypeKind) (actual : TypeDesc) : Bool :=
  match pickTypeCast env expected actual with
  | .noop | .implicit => true
  | _ => false

/-- `is_concrete_assignable` -/
def isConcreteAssignable (env : Env) (expected actual : TypeKind) : Bool :=
  match pickConcreteTypeCast env expected actual with
  | .noop | .implicit => true
  | _ => false

end QV.Model
