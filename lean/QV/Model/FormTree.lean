/-
  Model of the object-tree plumbing of qmluic:
    * `ObjectTree::populate_node_rec` (lib/src/objtree.rs): the QML object tree is flattened into a post-order
      vector of nodes carrying child *indices*; children whose type does not resolve are skipped with their
      whole subtree;
    * `UiForm::build` / `UiObject::build` / `Widget::build` / `Layout::build` / `LayoutItemContent::build`
      (lib/src/uigen/{form,object,layout}.rs): the form is rebuilt from that vector by following the indices,
      choosing the element kind by class ancestry, wrapping layout children in `<item>`, and adding
      action-like children (or the explicit `actions` list) as `<addaction>`.
  Only the *skeleton* of the form is modelled here (elements with class/name, nesting, order); property
  values are the business of other models.

  Trees are encoded as first-child/next-sibling forests so that every recursion is plain structural.
-/
namespace QV.Model.FormTree

abbrev Str := List Char

structure Info where
  cls : Str
  name : Str
  /-- the object's type resolves to a class (otherwise `populate_node_rec` returns `None`) -/
  resolves : Bool := true
  isAction : Bool := false
  isLayout : Bool := false
  isMenu : Bool := false
  isWidget : Bool := false
  isSpacer : Bool := false
  /-- outcome of `is_action_separator` (a `QAction { separator: true }` and nothing else) -/
  separator : Bool := false
  /-- the explicit `actions: [...]` list, already as names (`"separator"` substituted) -/
  actions : Option (List Str) := none
deriving DecidableEq, Repr

inductive Forest where
  | nil
  | cons (info : Info) (children : Forest) (rest : Forest)
deriving DecidableEq, Repr

/-- XML skeleton, same encoding -/
inductive XF where
  | nil
  | cons (tag : String) (attrs : List (String × Str)) (children : XF) (rest : XF)
deriving DecidableEq, Repr

def XF.append : XF → XF → XF
  | .nil, b => b
  | .cons t a c r, b => .cons t a c (r.append b)

def XF.elem (tag : String) (attrs : List (String × Str)) (children : XF) : XF := .cons tag attrs children .nil

/-- what `UiObject::build` / `LayoutItemContent::build` produce -/
inductive Built where
  | action (name : Str)
  | separator
  | layout (x : XF)
  | menu (name : Str) (x : XF)
  | widget (x : XF)
  | spacer (x : XF)
deriving DecidableEq, Repr

/-- `serialize_to_xml` of the variant (`ActionSeparator => Ok(())`: nothing) -/
def Built.xml : Built → XF
  | .action name => XF.elem "action" [("name", name)] .nil
  | .separator => .nil
  | .layout x | .menu _ x | .widget x | .spacer x => x

/-- `collect_action_like_children` -/
def actionLike : List Built → List Str
  | [] => []
  | .action n :: rest => n :: actionLike rest
  | .separator :: rest => "separator".toList :: actionLike rest
  | .menu n _ :: rest => n :: actionLike rest
  | _ :: rest => actionLike rest

def addActions : List Str → XF
  | [] => .nil
  | n :: rest => .cons "addaction" [("name", n)] .nil (addActions rest)

def xmlOfBuilts : List Built → XF
  | [] => .nil
  | b :: rest => b.xml.append (xmlOfBuilts rest)

def wrapItems : List Built → XF
  | [] => .nil
  | b :: rest => .cons "item" [] b.xml (wrapItems rest)

def sumErrors : List (Built × Nat) → Nat
  | [] => 0
  | (_, e) :: rest => e + sumErrors rest

inductive Mode where
  | obj    -- child of a widget: `UiObject::build`
  | item   -- child of a layout: `LayoutItemContent::build`
deriving DecidableEq, Repr

/-- `Widget::build` + the skeleton part of `Widget::serialize_to_xml`: `<widget class name>`, then the
    `<addaction>`s (explicit list if given, else the action-like children in order), then the children. -/
def widgetOf (info : Info) (kids : List (Built × Nat)) : XF :=
  let children := kids.map (·.1)
  let actions := match info.actions with
    | some l => l
    | none => actionLike children
  XF.elem "widget" [("class", info.cls), ("name", info.name)] ((addActions actions).append (xmlOfBuilts children))

/-- `Layout::build` + skeleton of `Layout::serialize_to_xml` -/
def layoutOf (info : Info) (kids : List (Built × Nat)) : XF :=
  XF.elem "layout" [("class", info.cls), ("name", info.name)] (wrapItems (kids.map (·.1)))

/-- The per-object rule, given how to build the children in a mode (`none` = a panic/stuck below).
    Result: what was built and how many error diagnostics were reported in this subtree.
    `hasChildren` drives `confine_children` (actions and spacers must be leaves). -/
def assemble (mode : Mode) (info : Info) (hasChildren : Bool) (kids : Mode → Option (List (Built × Nat))) :
    Option (Built × Nat) :=
  let confine : Nat := if hasChildren then 1 else 0
  match mode with
  | .obj =>
    if info.isAction then
      some (if info.separator then .separator else .action info.name, confine)
    else if info.isLayout then
      (kids .item).map fun ks => (.layout (layoutOf info ks), sumErrors ks)
    else if info.isMenu then
      (kids .obj).map fun ks => (.menu info.name (widgetOf info ks), sumErrors ks)
    else if info.isWidget then
      (kids .obj).map fun ks => (.widget (widgetOf info ks), sumErrors ks)
    else
      -- "class '…' is not a QAction, QLayout, nor QWidget", but processed as a widget
      (kids .obj).map fun ks => (.widget (widgetOf info ks), 1 + sumErrors ks)
  | .item =>
    if info.isLayout then
      (kids .item).map fun ks => (.layout (layoutOf info ks), sumErrors ks)
    else if info.isSpacer then
      some (.spacer (XF.elem "spacer" [("name", info.name)] .nil), confine)
    else if info.isWidget then
      (kids .obj).map fun ks => (.widget (widgetOf info ks), sumErrors ks)
    else
      (kids .obj).map fun ks => (.widget (widgetOf info ks), 1 + sumErrors ks)

/-! ### flattening (`populate_node_rec`) -/

structure NodeData where
  info : Info
  childIndices : List Nat
deriving DecidableEq, Repr

/-- `populate_node_rec` over a forest of siblings (`filter_map` over the children): returns the extended
    vector and the indices of the siblings that resolved. -/
def populate : Forest → List NodeData → List NodeData × List Nat
  | .nil, ns => (ns, [])
  | .cons info ch rest, ns =>
    if info.resolves then
      let r1 := populate ch ns
      let ns2 := r1.1 ++ [{ info, childIndices := r1.2 }]
      let r3 := populate rest ns2
      (r3.1, r1.1.length :: r3.2)
    else populate rest ns

def mapOpt {α β} (f : α → Option β) : List α → Option (List β)
  | [] => some []
  | a :: rest => match f a, mapOpt f rest with
    | some b, some bs => some (b :: bs)
    | _, _ => none

/-- rebuilding from the vector by following indices; `fuel` bounds the recursion depth -/
def build (nodes : List NodeData) : Nat → Mode → Nat → Option (Built × Nat)
  | 0, _, _ => none
  | fuel + 1, mode, i =>
    match nodes[i]? with
    | none => none
    | some nd =>
      assemble mode nd.info (!nd.childIndices.isEmpty) (fun m => mapOpt (build nodes fuel m) nd.childIndices)

/-- `UiForm::build`: the root is always built as a widget (`Widget::build`), with an error if its class is
    not a QWidget; `None` if the root object's type does not resolve. -/
def buildForm (fuel : Nat) (root : Forest) : Option (XF × Nat) :=
  match root with
  | .cons info ch .nil =>
    if info.resolves then
      let r := populate ch []
      match mapOpt (build r.1 fuel .obj) r.2 with
      | some ks => some (widgetOf info ks, (if info.isWidget then 0 else 1) + sumErrors ks)
      | none => none
    else none
  | _ => none

def depth : Forest → Nat
  | .nil => 0
  | .cons _ ch rest => max (depth ch + 1) (depth rest)

end QV.Model.FormTree
