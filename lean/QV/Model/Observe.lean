/-
  C02 — dynamic bindings stay current.  Three things live here (import-free except QV.Model.*):

  (i)   `covered : CodeBody → Bool` — a checker on a post-analysis IR (output of tir/propdep.rs): every read of a
        non-constant property through a pointer is *covered* by a static dependency or by a preceding
        `ObserveProperty` statement; observer handles are pairwise distinct and inside the observer array; no read of a
        non-constant notify-less property survives.
  (ii)  an abstract signal/slot world: objects with property values (pointer properties may be null), the connections
        that lead to the binding's `update…()` slot, `change obj prop value` steps that emit the notify signal and run
        the connected slot.
  (iii) `run`/`update`/`setup`: executing a binding's IR in that world while performing the observer re-attachment
        exactly as the emitted C++ does.

  The emitted C++ being modelled (/repo/lib/src/uigen/binding.rs):

    void setup()                      { this->setupB1(); …; this->setupBn(); (callbacks) this->updateB1(); …; this->updateBn(); }
    void setupB()                     { for (sender, signal) in static_property_deps (formatted, `.unique()`):
                                          QObject::connect(sender, signal, this->root_, [this]() { this->updateB(); }); }
    void updateB()                    { (debug-only re-entrancy guard "binding loop detected")
                                        receiver->setP(this->evalB()); }
    T evalB()                         { auto &observed = observedB_;  const auto update = [this]() { this->updateB(); };
                                        …the IR as labels/gotos… }
    PropertyObserver observedB_[N];   struct PropertyObserver { QMetaObject::Connection connection; QObject *object = nullptr; };

  and `Statement::ObserveProperty(h, l, signal)` is written (write_statement) as

    if (Q_UNLIKELY(!observed[h].connection || observed[h].object != a<l>)) {
        QObject::disconnect(observed[h].connection);
        if (a<l>) {
            observed[h].connection = QObject::connect(a<l>, signal, this->root_, update);
        }
        observed[h].object = a<l>;
    }

  What is assumed about Qt (direct connections, one thread, no object deletion): `connect` returns a handle that
  converts to `true` until it is disconnected; `QObject::disconnect(handle)` removes exactly that connection and makes
  the handle convert to `false` (an invalid handle is ignored); a default-constructed handle converts to `false`;
  emitting a signal of an object calls, before the emitting setter returns, the slot of at least the connections
  that were live when the emission started (possibly several times — once per connection; connections made or
  removed while the slots run may or may not be served).  Queued connections, threads and deleted senders are outside.
-/
import QV.Model.Tir

namespace QV.Model.Observe
open QV.Model

/-! ### (i) the coverage checker -/

/-- what the analysis is entitled to know about the local assigned by `l = r` (propdep.rs "track object reference") -/
def trackCopy (known : List (Option String)) : Rvalue → Option String
  | .copy (.local x _) => known.getD x none
  | .copy (.namedObject x _) => some x
  | _ => none

/-- is the rvalue, if it is a property read that needs a subscription, covered?
    `known`: local ↦ named object it provably holds here; `obsd`: (local, signal) pairs observed earlier in this block
    with no assignment to that local since. -/
def readOk (deps : List (String × MethodInfo)) (known : List (Option String)) (obsd : List (Nat × MethodInfo)) :
    Rvalue → Bool
  | .readProperty a p =>
    if a.typeDesc.isPointer && !p.constant then
      match p.notify with
      | some (some sig) =>
        (match a with
         | .namedObject x _ => decide ((x, sig) ∈ deps)
         | .local x _ =>
           (match known.getD x none with
            | some n => decide ((n, sig) ∈ deps)
            | none => false) || decide ((x, sig) ∈ obsd)
         | _ => false)
      | _ => false          -- non-constant and no (resolvable) notify signal: must have been diagnosed, not generated
    else true
  | _ => true

def coveredStmts (deps : List (String × MethodInfo)) :
    List (Option String) → List (Nat × MethodInfo) → List Statement → Bool
  | _, _, [] => true
  | known, obsd, .observeProperty _ l sig :: rest => coveredStmts deps known ((l, sig) :: obsd) rest
  | known, obsd, .assign l r :: rest =>
    readOk deps known obsd r &&
      coveredStmts deps (known.set l (trackCopy known r)) (obsd.filter fun e => e.1 != l) rest
  | known, obsd, .exec r :: rest => readOk deps known obsd r && coveredStmts deps known obsd rest

def stmtObs : Statement → List (Nat × MethodInfo)
  | .observeProperty h _ sig => [(h, sig)]
  | _ => []

def blockObs (b : BasicBlock) : List (Nat × MethodInfo) := b.statements.flatMap stmtObs

/-- every `(observer handle, signal)` of the body, in block/statement order -/
def allObs (c : CodeBody) : List (Nat × MethodInfo) := c.blocks.flatMap blockObs

def covered (c : CodeBody) : Bool :=
  c.blocks.all (fun b => coveredStmts c.staticDeps (List.replicate c.locals.length none) [] b.statements)
  && decide ((allObs c).map (·.1)).Nodup
  && (allObs c).all (fun e => decide (e.1 < c.observerCount))

/-- a read of a non-constant notify-less property through a pointer (what "unobservable property" is about) -/
def unobservableRead : Statement → Bool
  | .assign _ (.readProperty a p) | .exec (.readProperty a p) =>
    a.typeDesc.isPointer && !p.constant && p.notify.isNone
  | _ => false

def hasUnobservableRead (c : CodeBody) : Bool := c.blocks.any fun b => b.statements.any unobservableRead

/-! ### (ii) the abstract world -/

inductive Val where
  | ptr (o : Option Nat)
  | bool (b : Bool)
  | int (n : Int)
  | str (s : List Char)
  | other (tag : Nat)
deriving DecidableEq, Repr, Inhabited

/-- property values per (object, property); a property is identified by its full `PropInfo` (declaring class, name,
    notify signal, …), so a change step and a read talk about the same property iff they carry the same `PropInfo` -/
abbrev Store := Nat → PropInfo → Val

def Store.set (s : Store) (o : Nat) (p : PropInfo) (v : Val) : Store :=
  fun o' p' => if o' = o ∧ p' = p then v else s o' p'

/-- `struct PropertyObserver { QMetaObject::Connection connection; QObject *object = nullptr; }` — `conn = some (x, sig)`
    is a live connection from signal `sig` of object `x` to the binding's `update` -/
structure Observer where
  conn : Option (Nat × MethodInfo) := none
  object : Option Nat := none
deriving DecidableEq, Repr, Inhabited

/-- parameters of the abstract semantics -/
structure Sem where
  /-- address of a named object (`this->ui_->name` / `this->root_`): fixed and non-null -/
  named : String → Nat
  /-- value of the constant operands not interpreted here (numbers, strings, enum variants, void) -/
  constVal : Operand → Option Val
  /-- the rvalues that do not touch the world (operators, casts, builtins, gadget/list reads, *pure* method calls):
      any deterministic function of the rvalue and the values of its operands; `none` = undefined -/
  pure : Rvalue → (Operand → Option Val) → Option Val

abbrev Locals := Nat → Option Val

def upd (L : Locals) (l : Nat) (v : Val) : Locals := fun x => if x = l then some v else L x

def opVal (S : Sem) (L : Locals) : Operand → Option Val
  | .local x _ => L x
  | .namedObject x _ => some (.ptr (some (S.named x)))
  | .const (.bool b) => some (.bool b)
  | .const .nullPointer => some (.ptr none)
  | a => S.constVal a

/-- what an evaluation did that matters for subscriptions -/
inductive Ev where
  | read (o : Nat) (p : PropInfo)
  | observe (h : Nat) (a : Option Nat) (sig : MethodInfo)
deriving DecidableEq, Repr

/-- Fragment: `readProperty` through a pointer reads the world (null / non-pointer operand = undefined behaviour);
    `copy` is exact; writes (`writeProperty`, `writeSubscript`) are outside (a binding that writes is not a function of
    the state); every other rvalue goes through `S.pure`. -/
def evalR (S : Sem) (s : Store) (L : Locals) (r : Rvalue) : Option (Val × List Ev) :=
  match r with
  | .readProperty a p =>
    if a.typeDesc.isPointer then
      match opVal S L a with
      | some (.ptr (some o)) => some (s o p, [Ev.read o p])
      | _ => none
    else (S.pure r (opVal S L)).map fun v => (v, [])
  | .copy a => (opVal S L a).map fun v => (v, [])
  | .writeProperty .. => none
  | .writeSubscript .. => none
  | _ => (S.pure r (opVal S L)).map fun v => (v, [])

def execStmts (S : Sem) (s : Store) : List Statement → Locals → Option (Locals × List Ev)
  | [], L => some (L, [])
  | .assign l r :: rest, L =>
    match evalR S s L r with
    | none => none
    | some (v, e1) =>
      match execStmts S s rest (upd L l v) with
      | none => none
      | some (L', e2) => some (L', e1 ++ e2)
  | .exec r :: rest, L =>
    match evalR S s L r with
    | none => none
    | some (_, e1) =>
      match execStmts S s rest L with
      | none => none
      | some (L', e2) => some (L', e1 ++ e2)
  | .observeProperty h l sig :: rest, L =>
    match L l with
    | some (.ptr a) =>
      match execStmts S s rest L with
      | none => none
      | some (L', e2) => some (L', Ev.observe h a sig :: e2)
    | _ => none

/-- `visited`: a block is executed at most once per evaluation (the language has no loops; an evaluation that came
    back to a block is outside the fragment and yields `none`) -/
def runFrom (S : Sem) (c : CodeBody) (s : Store) : Nat → Nat → List Nat → Locals → Option (Val × List Ev)
  | 0, _, _, _ => none
  | fuel + 1, i, visited, L =>
    if i ∈ visited then none else
    match c.blocks[i]? with
    | none => none
    | some b =>
      match execStmts S s b.statements L with
      | none => none
      | some (L', e1) =>
        match b.terminator with
        | some (.ret a) => (opVal S L' a).map fun v => (v, e1)
        | some (.br j) => (runFrom S c s fuel j (i :: visited) L').map fun r => (r.1, e1 ++ r.2)
        | some (.brCond cnd t f) =>
          (match opVal S L' cnd with
           | some (.bool true) => (runFrom S c s fuel t (i :: visited) L').map fun r => (r.1, e1 ++ r.2)
           | some (.bool false) => (runFrom S c s fuel f (i :: visited) L').map fun r => (r.1, e1 ++ r.2)
           | _ => none)
        | _ => none

/-- one evaluation of `eval…()`: the value and the trace of reads / observer statements executed -/
def run (S : Sem) (c : CodeBody) (s : Store) : Option (Val × List Ev) :=
  runFrom S c s (c.blocks.length + 1) 0 [] (fun _ => none)

/-- the value of the binding expression in a state (no subscriptions involved) -/
def evalBody (S : Sem) (c : CodeBody) (s : Store) : Option Val := (run S c s).map (·.1)

/-! ### (iii) observers, update, setup, change -/

/-- the emitted observer snippet -/
def attach (ob : Observer) (a : Option Nat) (sig : MethodInfo) : Observer :=
  if ob.conn.isNone || ob.object != a then
    { conn := a.map fun x => (x, sig), object := a }      -- disconnect; connect if non-null; remember
  else ob

def applyEv (obs : Nat → Observer) : Ev → (Nat → Observer)
  | .observe h a sig => fun k => if k = h then attach (obs h) a sig else obs k
  | .read .. => obs

/-- the observer statements only write observer state and the evaluation never reads it, so running them after the
    evaluation, in trace order, is the same as running them interleaved -/
def applyEvs (obs : Nat → Observer) (evs : List Ev) : Nat → Observer := evs.foldl applyEv obs

structure World where
  store : Store
  obs : Nat → Observer
  target : Option Val

/-- connections made by `setup…()` (the `.unique()` de-duplication does not change membership) -/
def staticConns (S : Sem) (c : CodeBody) : List (Nat × MethodInfo) := c.staticDeps.map fun d => (S.named d.1, d.2)

/-- is there a live connection from `(object, signal)` to `update`? -/
def live (S : Sem) (c : CodeBody) (W : World) (e : Nat × MethodInfo) : Bool :=
  decide (e ∈ staticConns S c) || (List.range c.observerCount).any fun h => decide ((W.obs h).conn = some e)

/-- `update…()`: `receiver->setP(eval…())`; `none` = the evaluation was undefined -/
def update (S : Sem) (c : CodeBody) (W : World) : Option World :=
  match run S c W.store with
  | none => none
  | some (v, evs) => some { W with target := some v, obs := applyEvs W.obs evs }

/-- `setup()` for one binding: observers value-initialised, static connections made, first `update` -/
def setup (S : Sem) (c : CodeBody) (s : Store) : Option World :=
  update S c { store := s, obs := fun _ => {}, target := none }

structure Change where
  obj : Nat
  prop : PropInfo
  val : Val

def World.write (W : World) (ch : Change) : World := { W with store := W.store.set ch.obj ch.prop ch.val }

/-- the slot ran once or more (once per live connection; the abstract world does not fix how many) -/
inductive Delivered (S : Sem) (c : CodeBody) : World → World → Prop
  | one {W W'} : update S c W = some W' → Delivered S c W W'
  | more {W W1 W'} : update S c W = some W1 → Delivered S c W1 W' → Delivered S c W W'

/-- one change of a (non-constant) property through its setter: the value is stored, the notify signal (if any) is
    emitted, and if a connection to `update` is live the slot runs (at least once) before the setter returns -/
inductive Step (S : Sem) (c : CodeBody) : World → Change → World → Prop
  | quiet {W ch} : ch.prop.constant = false →
      (∀ sig, ch.prop.notify = some (some sig) → live S c W (ch.obj, sig) = false) → Step S c W ch (W.write ch)
  | notify {W ch sig W'} : ch.prop.constant = false → ch.prop.notify = some (some sig) →
      live S c W (ch.obj, sig) = true → Delivered S c (W.write ch) W' → Step S c W ch W'

inductive Steps (S : Sem) (c : CodeBody) : World → List Change → World → Prop
  | nil {W} : Steps S c W [] W
  | cons {W W1 W' ch rest} : Step S c W ch W1 → Steps S c W1 rest W' → Steps S c W (ch :: rest) W'

/-- executable step: the slot runs once per connection live at emission time (static connections after `.unique()`,
    then the observers) -/
def stepFn (S : Sem) (c : CodeBody) (W : World) (ch : Change) : Option World :=
  let W1 := W.write ch
  match ch.prop.notify with
  | some (some sig) =>
    let n := ((staticConns S c).eraseDups.filter (· = (ch.obj, sig))).length +
      ((List.range c.observerCount).filter fun h => decide ((W.obs h).conn = some (ch.obj, sig))).length
    n.fold (fun _ _ acc => acc.bind (update S c)) (some W1)
  | _ => some W1

/-! ### typemap/class.rs `Property::find_notify_signal` -/

/-- `m.arguments_len() == 0 || m.argument_type(0) == self.value_type()` -/
def notifyEligible (ty : TypeKind) (m : MethodInfo) : Bool := m.args.length == 0 || m.args.head? == some ty

/-- one iteration of the `for m in matches.filter(signal)` loop -/
def findNotifyStep (ty : TypeKind) (best : Option MethodInfo) (m : MethodInfo) : Option MethodInfo :=
  if (match best with | some k => decide (m.args.length ≤ k.args.length) | none => false) then best   -- `continue`
  else if notifyEligible ty m then some m else best

/-- `find_notify_signal` on the overloads `get_public_method(name)` found (in table order); `none` = `InvalidNotifySignal` -/
def findNotifySignal (overloads : List MethodInfo) (ty : TypeKind) : Option MethodInfo :=
  (overloads.filter fun m => m.kind = .signal).foldl (findNotifyStep ty) none

end QV.Model.Observe
