import QV.Model.ClassGraphRepaired

/-
  Member look-ups with member TYPES (lib/src/typemap/{class,function,util,core}.rs): the part of the type map
  QV.Model.ClassGraph leaves out by fixing every member type to `int`/`void`.

  A property is materialised by Property::new, a method by Method::new; both resolve the declared type names
  through the scope of the class that DECLARES the member (decorated_type over resolve_type_scoped of that
  class): nested types of the class and of its base classes first, then the enclosing module and the builtins.
  A name that resolves to nothing makes the member an `Err(InvalidTypeRef)`, an unknown `X<..>` decoration an
  `Err(UnsupportedDecoration)`.  find_map_self_and_base_classes returns the answer of the FIRST class — the
  class itself, then its base classes in walk order — that declares the name, be it `Ok` or `Err`: an
  unresolvable declaration is reported, it does not fall through to an ancestor.  (Different from an
  unresolved SUPER CLASS, which since the repair of F10 is skipped and only reported if nothing is found.)

  A typed table is read as a plain `Table` by forgetting the types (`erase`); the walk, the handles, "derives
  from", nested enums and enumerators are those of QV.Model.ClassGraph(.Repaired) on the erased table.  The
  per-class look-ups below take a handle of the erased table and find the typed declaration by its class name
  (class identity is the class name).
-/
namespace QV.Model.ClassGraph.Typed
open QV.Model.ClassGraph

/-- `metatype::Property`: name and type name -/
structure PropDecl where
  name : Name
  ty : TypeExpr := .int
deriving DecidableEq, Repr

/-- `metatype::Method`: name, `access == Public`, return type name, argument type names -/
structure MethodDeclT where
  name : Name
  isPublic : Bool := true
  ret : TypeExpr := .void
  args : List TypeExpr := []
deriving DecidableEq, Repr

/-- `metatype::Class` with member types -/
structure ClassDeclT where
  name : Name
  supers : List (Name × Bool) := []
  props : List PropDecl := []
  signals : List MethodDeclT := []
  slots : List MethodDeclT := []
  methods : List MethodDeclT := []
  enums : List EnumDecl := []
deriving DecidableEq, Repr

structure TableT where
  classes : List ClassDeclT
  others : List Name := []
deriving DecidableEq, Repr

/-! ### forgetting the types -/

def MethodDeclT.erase (m : MethodDeclT) : MethodDecl :=
  { name := m.name, isPublic := m.isPublic, nargs := m.args.length }

def ClassDeclT.erase (c : ClassDeclT) : ClassDecl :=
  { name := c.name, supers := c.supers, props := c.props.map (·.name),
    signals := c.signals.map (·.erase), slots := c.slots.map (·.erase), methods := c.methods.map (·.erase),
    enums := c.enums }

def TableT.erase (t : TableT) : Table := { classes := t.classes.map (·.erase), others := t.others }

/-- the typed declaration a class name denotes (the last one loaded under that name, like `lookupClass`) -/
def lookupClassT : List ClassDeclT → Name → Option ClassDeclT
  | [], _ => none
  | d :: ds, n =>
    match lookupClassT ds n with
    | some x => some x
    | none => if d.name = n then some d else none

/-! ### type names in the scope of a class -/

/-- the names of the `Builtins` module: `PrimitiveType::ALL` and the alias `qreal` -/
def builtinNames : List Name := ["bool", "double", "int", "QString", "QVariant", "uint", "void", "qreal"]

/-- what the first part of a (scoped) type name denotes: a class (it has nested types) or a type without
    nested types (enum, primitive) -/
inductive Scope where
  | cls (d : ClassDecl)
  | leaf
deriving DecidableEq, Repr

/-- resolve_type(first part) from class `d`: the class's own and inherited nested enums (unresolved super
    classes are not reported by the nested-type look-up), then the module (classes, module-level types), then the builtins -/
def resolveHead (t : Table) (d : ClassDecl) (n : Name) : Option Scope :=
  match Repaired.getType t d n with
  | .found _ => some .leaf
  | _ =>
    match lookupClass t.classes n with
    | some c => some (.cls c)
    | none => if n ∈ t.others ∨ n ∈ builtinNames then some .leaf else none

/-- the remaining parts: each must be a direct (or inherited) nested type of what came before -/
def resolveTail (t : Table) : Scope → List Name → Bool
  | _, [] => true
  | .leaf, _ :: _ => false
  | .cls c, n :: rest =>
    match Repaired.getType t c n with
    | .found _ => resolveTail t .leaf rest
    | _ => false

/-- resolve_type_scoped(name).unwrap_or_else(|| Err(InvalidTypeRef(name))) -/
def resolveNamed (t : Table) (d : ClassDecl) (whole : Name) : List Name → Except TypeMapError Unit
  | [] => .error (.invalidTypeRef whole)
  | h :: rest =>
    match resolveHead t d h with
    | some s => if resolveTail t s rest then .ok () else .error (.invalidTypeRef whole)
    | none => .error (.invalidTypeRef whole)

/-- decorated_type over the scope of class `d` -/
def resolveTypeExpr (t : Table) (d : ClassDecl) : TypeExpr → Except TypeMapError Unit
  | .named whole segs => resolveNamed t d whole segs
  | .list e => resolveTypeExpr t d e
  | .unsupported whole => .error (.unsupportedDecoration whole)

/-- the first error among several type names, in order (`?` / `collect::<Result<_, _>>`) -/
def resolveAll (t : Table) (d : ClassDecl) : List TypeExpr → Except TypeMapError Unit
  | [] => .ok ()
  | ty :: rest =>
    match resolveTypeExpr t d ty with
    | .error e => .error e
    | .ok _ => resolveAll t d rest

/-! ### properties -/

/-- `property_map` (a hash map collected from the declarations: a later one of the same name replaces the
    earlier one) -/
def lookupProp : List PropDecl → Name → Option PropDecl
  | [], _ => none
  | p :: ps, n =>
    match lookupProp ps n with
    | some x => some x
    | none => if p.name = n then some p else none

/-- get_property_no_super on the class handle `c`: `None` when the class declares no property of that name,
    else Property::new — `Ok` or the error of its type name -/
def propAt (t : TableT) (c : ClassDecl) (name : Name) : Lookup ClassDecl :=
  match lookupClassT t.classes c.name with
  | none => .notFound
  | some d =>
    match lookupProp d.props name with
    | none => .notFound
    | some p =>
      match resolveTypeExpr t.erase c p.ty with
      | .ok _ => .found c
      | .error e => .error e

/-- `Class::get_property`; the answer is the property's object class -/
def getProperty (t : TableT) (self : ClassDecl) (name : Name) : Lookup ClassDecl :=
  Repaired.findMapSelfAndBaseClasses t.erase self fun cls => propAt t cls name

/-! ### methods -/

/-- the public methods in table-construction order (signals, slots, methods), with their type names -/
def publicMethodsT (d : ClassDeclT) : List MethodData :=
  let pick (k : MethodKind) (ms : List MethodDeclT) : List MethodData :=
    ms.filterMap fun m =>
      if m.isPublic then some { name := m.name, kind := k, nargs := m.args.length, ret := m.ret, args := m.args }
      else none
  pick .signal d.signals ++ pick .slot d.slots ++ pick .method d.methods

/-- the method table constructor (MethodDataTable, from-meta): the same stable sort by name as `methodTable` -/
def methodTableT (d : ClassDeclT) : List MethodData := sortByName (publicMethodsT d)

/-- Method::new resolves the return type, then the argument types in order -/
def methodTypes (m : MethodData) : List TypeExpr := m.ret :: m.args

/-- get_public_method_no_super on the class handle `c`: `None` when the slice is empty, else Method::new for
    every entry of the slice in table order — the first error wins, an overload that does not resolve fails
    the whole name -/
def methodAt (t : TableT) (c : ClassDecl) (name : Name) : Lookup (ClassDecl × List MethodData) :=
  match lookupClassT t.classes c.name with
  | none => .notFound
  | some d =>
    match methodSlice (methodTableT d) name with
    | [] => .notFound
    | ms =>
      match resolveAll t.erase c (ms.flatMap methodTypes) with
      | .ok _ => .found (c, ms)
      | .error e => .error e

/-- `Class::get_public_method`; the answer is the object class and the matches -/
def getPublicMethod (t : TableT) (self : ClassDecl) (name : Name) : Lookup (ClassDecl × List MethodData) :=
  Repaired.findMapSelfAndBaseClasses t.erase self fun cls => methodAt t cls name

/-! ### scoped names as a query (get-type-scoped / resolve-type-scoped of core.rs)

  `A::B::C` is looked up part by part.  Only the FIRST part may come from elsewhere (resolve-type-scoped: the enclosing
  scopes of the starting point; get-type-scoped: the starting point alone); every further part must be a nested type of
  what came before — for a class: a nested enum the class or one of its public ancestors declares (unresolved super
  classes are not reported) — never something that is merely VISIBLE from there (a top-level class, a builtin, a module
  enum, the class itself, an enumerator).  Enums and builtins have no nested types. -/

/-- what a (scoped) type name denotes -/
inductive Named where
  | cls (d : ClassDecl)
  /-- a nested enum, with the class that declares it -/
  | nested (owner : ClassDecl) (name : Name)
  /-- a module-level enum -/
  | topEnum (name : Name)
  /-- a type of the builtins (`qreal` is an alias of `double`) -/
  | prim (name : Name)
deriving DecidableEq, Repr

/-- the get-type of what a name denotes: nested types only -/
def namedGetType (t : Table) : Named → Name → Option Named
  | .cls c, n =>
    match Repaired.getType t c n with
    | .found x => some (.nested x.1 x.2.name)
    | _ => none
  | _, _ => none

/-- the module's own names: classes and module-level enums (the builtins are an IMPORT of the module) -/
def moduleGetType (t : Table) (n : Name) : Option Named :=
  match lookupClass t.classes n with
  | some c => some (.cls c)
  | none => if n ∈ t.others ∧ n ∉ builtinNames then some (.topEnum n) else none

/-- resolve-type from the module: its own names, then the builtins -/
def moduleResolveType (t : Table) (n : Name) : Option Named :=
  match moduleGetType t n with
  | some x => some x
  | none => if n ∈ builtinNames then some (.prim (if n = "qreal" then "double" else n)) else none

/-- resolve-type from a class: its nested types (own and inherited), then the enclosing module, then the builtins -/
def classResolveType (t : Table) (c : ClassDecl) (n : Name) : Option Named :=
  match namedGetType t (.cls c) n with
  | some x => some x
  | none => moduleResolveType t n

/-- the fold over the remaining parts: each a nested type of the one before -/
def scopedTail (t : Table) : Option Named → List Name → Option Named
  | acc, [] => acc
  | none, _ :: _ => none
  | some x, n :: rest => scopedTail t (namedGetType t x n) rest

/-- get-type-scoped on the module -/
def moduleGetTypeScoped (t : Table) : List Name → Option Named
  | [] => none
  | h :: rest => scopedTail t (moduleGetType t h) rest

/-- get-type-scoped on a class -/
def classGetTypeScoped (t : Table) (c : ClassDecl) : List Name → Option Named
  | [] => none
  | h :: rest => scopedTail t (namedGetType t (.cls c) h) rest

/-- resolve-type-scoped on a class (what member types go through: `resolveNamed` is its success/failure) -/
def classResolveTypeScoped (t : Table) (c : ClassDecl) : List Name → Option Named
  | [] => none
  | h :: rest => scopedTail t (classResolveType t c h) rest

end QV.Model.ClassGraph.Typed
