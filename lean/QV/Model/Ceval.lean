/-
  Constant folding: mirrors /repo/lib/src/tir/ceval.rs.  `i64` is `Int` plus explicit range tests
  (`checked_add/sub/mul/div/rem/neg`); `checked_shl/shr` test only the shift amount, exactly as Rust's do
  (finding F8, repaired: the result of `<<` is now checked by shifting back).  Floats are opaque bit patterns operated on through `FloatOps` (an abstract
  interface: the theorems hold for any interpretation; the driver instantiates it with Lean's `Float`).
  Strings are compared the way Rust compares `String`: by UTF-8 bytes = by code point (finding F6, repaired: strings are now
  compared by UTF-16 code unit like the run-time QString comparison).
-/
import QV.Model.Tir

namespace QV.Model

inductive ExprError where
  | integerConversion
  | integerOverflow
  | incompatibleArrayElement (i : Nat) (l r : TypeDesc)
  | incompatibleIndex (t : TypeDesc)
  | invalidArgument (msg : String)
  | opIncompatible (op : String) (l r : TypeDesc)
  | opUndetermined (op : String) (t : TypeDesc)
  | opUnsupported (op : String) (t : TypeDesc)
  | opUnsupportedTypes (op : String) (l r : TypeDesc)
  | unreadableProperty
  | unwritableProperty
deriving DecidableEq, Repr

/-- `impl Display for ExpressionError` -/
def ExprError.message : ExprError → String
  | .integerConversion => "integer conversion failed: out of range integral type conversion attempted"
  | .integerOverflow => "integer overflow"
  | .incompatibleArrayElement i l r =>
    s!"incompatible array element types at index {i}: {l.qualifiedName} and {r.qualifiedName}"
  | .incompatibleIndex t => s!"index must be of integer type, but got: {t.qualifiedName}"
  | .invalidArgument m => s!"invalid argument: {m}"
  | .opIncompatible op l r => s!"operation '{op}' on incompatible types: {l.qualifiedName} and {r.qualifiedName}"
  | .opUndetermined op t => s!"operation '{op}' on undetermined type: {t.qualifiedName}"
  | .opUnsupported op t => s!"operation '{op}' on unsupported type: {t.qualifiedName}"
  | .opUnsupportedTypes op l r => s!"operation '{op}' on unsupported types: {l.qualifiedName} and {r.qualifiedName}"
  | .unreadableProperty => "not a readable property"
  | .unwritableProperty => "not a writable property"

def i64Min : Int := -9223372036854775808
def i64Max : Int := 9223372036854775807
def inI64 (v : Int) : Bool := i64Min ≤ v && v ≤ i64Max

def checked (v : Int) : Except ExprError ConstantValue :=
  if inI64 v then .ok (.integer v) else .error .integerOverflow

/-- two's complement view of an `i64` as a 64-bit natural and back -/
def toU64 (v : Int) : Nat := (v % 18446744073709551616).toNat
def ofU64 (n : Nat) : Int := if n < 9223372036854775808 then n else (n : Int) - 18446744073709551616
def wrapI64 (v : Int) : Int := ofU64 (toU64 v)

/-- float operations used by the folder; abstract -/
structure FloatOps where
  neg : Nat → Nat
  add : Nat → Nat → Nat
  sub : Nat → Nat → Nat
  mul : Nat → Nat → Nat
  div : Nat → Nat → Nat
  rem : Nat → Nat → Nat
  eq : Nat → Nat → Bool
  lt : Nat → Nat → Bool
  le : Nat → Nat → Bool
  /-- conversions used by the specification of casts only (the folder itself folds no cast) -/
  ofInt : Int → Nat := fun _ => 0
  truncToInt : Nat → Option Int := fun _ => none

/-- `str::encode_utf16` -/
def utf16 : List Char → List Nat
  | [] => []
  | c :: rest =>
    if c.toNat < 0x10000 then c.toNat :: utf16 rest
    else (0xD800 + (c.toNat - 0x10000) / 0x400) :: (0xDC00 + (c.toNat - 0x10000) % 0x400) :: utf16 rest

/-- `<[u16] as Ord>`: lexicographic -/
def unitsLt : List Nat → List Nat → Bool
  | [], [] => false
  | [], _ :: _ => true
  | _ :: _, [] => false
  | a :: as, b :: bs => if a < b then true else if b < a then false else unitsLt as bs

/-- string order used by the folder after the repair of F6: by UTF-16 code unit, like QString and JavaScript -/
def strLt (l r : List Char) : Bool := unitsLt (utf16 l) (utf16 r)

/-- the order used before the repair: `<str as Ord>`, lexicographic by code point (kept for the F6 witness) -/
def strLtCodePoint : List Char → List Char → Bool
  | [], [] => false
  | [], _ :: _ => true
  | _ :: _, [] => false
  | a :: as, b :: bs => if a.toNat < b.toNat then true else if b.toNat < a.toNat then false else strLtCodePoint as bs

def cmpBy {α} (op : CmpOp) (eq lt : α → α → Bool) (l r : α) : Bool :=
  match op with
  | .eq => eq l r
  | .ne => !eq l r
  | .lt => lt l r
  | .le => lt l r || eq l r
  | .gt => lt r l
  | .ge => lt r l || eq l r

/-- `eval_unary_arith_expression` -/
def evalUnaryArith (F : FloatOps) (op : UnaryOp) (a : ConstantValue) : Except ExprError ConstantValue :=
  match a with
  | .integer v => if op = .plus then .ok (.integer v) else checked (-v)
  | .float v => .ok (.float (if op = .plus then v else F.neg v))
  | _ => .error (.opUnsupported op.symbol a.typeDesc)

/-- `eval_unary_bitwise_expression` -/
def evalUnaryBitwise (a : ConstantValue) : Except ExprError ConstantValue :=
  match a with
  | .integer v => .ok (.integer (-v - 1))
  | _ => .error (.opUnsupported "~" a.typeDesc)

/-- `eval_unary_logical_expression` -/
def evalUnaryLogical (a : ConstantValue) : Except ExprError ConstantValue :=
  match a with
  | .bool v => .ok (.bool (!v))
  | _ => .error (.opUnsupported "!" a.typeDesc)

/-- `eval_binary_arith_expression` -/
def evalBinaryArith (F : FloatOps) (op : ArithOp) (l r : ConstantValue) : Except ExprError ConstantValue :=
  match l, r with
  | .bool _, .bool _ => .error (.opUnsupported op.symbol l.typeDesc)
  | .integer a, .integer b =>
    (match op with
     | .add => checked (a + b)
     | .sub => checked (a - b)
     | .mul => checked (a * b)
     | .div => if b = 0 then .error .integerOverflow else checked (Int.tdiv a b)
     | .rem => if b = 0 then .error .integerOverflow
               else if a = i64Min ∧ b = -1 then .error .integerOverflow else .ok (.integer (Int.tmod a b)))
  | .float a, .float b =>
    .ok (.float (match op with
      | .add => F.add a b | .sub => F.sub a b | .mul => F.mul a b | .div => F.div a b | .rem => F.rem a b))
  | .cstring a, .cstring b =>
    (match op with
     | .add => .ok (.cstring (a ++ b))
     | _ => .error (.opUnsupported op.symbol TypeDesc.constString))
  | .qstring _, .qstring _ => .error (.opUnsupported op.symbol l.typeDesc)
  | _, _ => .error (.opIncompatible op.symbol l.typeDesc r.typeDesc)

def bitNat (op : BitOp) (a b : Nat) : Nat :=
  match op with
  | .and => a &&& b
  | .xor => a ^^^ b
  | .or => a ||| b

/-- `eval_binary_bitwise_expression` -/
def evalBinaryBitwise (op : BitOp) (l r : ConstantValue) : Except ExprError ConstantValue :=
  match l, r with
  | .bool a, .bool b =>
    .ok (.bool (match op with | .and => a && b | .xor => a != b | .or => a || b))
  | .integer a, .integer b => .ok (.integer (ofU64 (bitNat op (toU64 a) (toU64 b))))
  | .float _, .float _ | .cstring _, .cstring _ | .qstring _, .qstring _ =>
    .error (.opUnsupported op.symbol l.typeDesc)
  | _, _ => .error (.opIncompatible op.symbol l.typeDesc r.typeDesc)

/-- `eval_shift_expression`: the count goes through `i64 → u32` (`try_into`), then `checked_shr/shl`
    reject counts ≥ 64; the shifted value itself is NOT range-checked (`checked_shl` wraps). -/
def evalShift (op : ShiftOp) (l r : ConstantValue) : Except ExprError ConstantValue :=
  match l, r with
  | .integer a, .integer b =>
    if b < 0 ∨ b > 4294967295 then .error .integerConversion
    else if b ≥ 64 then .error .integerOverflow
    else
      (match op with
       | .shr => .ok (.integer (a / (2 : Int) ^ b.toNat))      -- arithmetic shift = floor division
       | .shl =>
         -- `l.checked_shl(n).filter(|a| a >> n == l)` (after the repair of F8)
         let w := wrapI64 (a * (2 : Int) ^ b.toNat)
         if w / (2 : Int) ^ b.toNat = a then .ok (.integer w) else .error .integerOverflow)
  | _, _ => .error (.opUnsupportedTypes op.symbol l.typeDesc r.typeDesc)

/-- `eval_comparison_expression` -/
def evalComparison (F : FloatOps) (op : CmpOp) (l r : ConstantValue) : Except ExprError ConstantValue :=
  match l, r with
  | .bool a, .bool b => .ok (.bool (cmpBy op (· == ·) (fun x y => !x && y) a b))
  | .integer a, .integer b => .ok (.bool (cmpBy op (· == ·) (· < ·) a b))
  | .float a, .float b =>
    -- IEEE comparisons are not a total order (NaN): each operator is its own primitive
    .ok (.bool (match op with
      | .eq => F.eq a b | .ne => !F.eq a b | .lt => F.lt a b | .le => F.le a b | .gt => F.lt b a | .ge => F.le b a))
  | .cstring a, .cstring b | .qstring a, .qstring b => .ok (.bool (cmpBy op (· == ·) strLt a b))
  | .nullPointer, .nullPointer =>
    -- only `==` / `!=` (repair 9ae7b5c): pointers are not ordered
    if op = .eq ∨ op = .ne then .ok (.bool (cmpBy op (fun _ _ => true) (fun _ _ => false) () ()))
    else .error (.opUnsupported op.symbol l.typeDesc)
  | _, _ => .error (.opIncompatible op.symbol l.typeDesc r.typeDesc)

end QV.Model
