-- Root of the QV library: everything that `lake build` must check.
import QV.Sexp
import QV.Model.Color
import QV.Spec.QtColor
import QV.Gen.ColorTable
import QV.Proofs.Color
import QV.Props.C19
import QV.Model.Layout
import QV.Spec.Layout
import QV.Proofs.Layout
import QV.Props.C12
import QV.Model.Names
import QV.Spec.Names
import QV.Proofs.Names
import QV.Props.C10
