//! Shared machinery of the C04 / C14 / C20 streams: printing a generated document with byte ranges, classifying every
//! written binding into the abstract attributes of the Lean model (`QV.Model.Passes`), planting faults, encoding the
//! model request, and reading the REAL outputs back (strict XML reader on the .ui, token scan of the header, the
//! read-only hook for the evaluated-constant flags, diagnostics mapped to (subject, message class)).
use crate::docgen::{family_of, Family, Obj};
use crate::env::{self, Mode, Translation};
use crate::propgen::{Fate, Record};
use crate::sexp::{atom, boolean, list, node, num, st, Sexp};
use crate::xml;
use qmluic::typemap::TypeMap;
use std::collections::{BTreeMap, BTreeSet, HashMap};

#[derive(Clone, Debug, PartialEq)]
pub enum Konst {
    Dyn,
    Fail,
    Ok(u64),
}

/// abstract attributes of one scalar binding (the `Leaf` of the Lean model)
#[derive(Clone, Debug)]
pub struct LeafSpec {
    pub enters: bool,
    pub build_diag: bool,
    pub konst: Konst,
    pub shape_ok: bool,
    pub range_ok: bool,
    pub writable: bool,
    pub readable: bool,
    pub ret_ok: bool,
}

impl Default for LeafSpec {
    fn default() -> Self {
        LeafSpec { enters: true, build_diag: false, konst: Konst::Ok(1), shape_ok: true, range_ok: true, writable: true, readable: true, ret_ok: true }
    }
}

#[derive(Clone, Debug, PartialEq)]
pub enum BKind {
    Plain,
    /// member of the group `group` (`font.bold` → group `font`)
    Member { group: String, member: String },
    /// `QLayout.row` → ty `QLayout`, name `row`
    Attached { ty: String, name: String },
    /// `QTabWidget.icon.name`
    AttachedMember { ty: String, group: String, member: String },
    Callback { signal: String },
}

#[derive(Clone, Debug)]
pub struct Binding {
    pub id: usize,
    /// pre-order index of the object
    pub obj: usize,
    pub lhs: String,
    pub rhs: String,
    pub kind: BKind,
    pub spec: LeafSpec,
    /// expected place in the real outputs (clean bindings); `None` for planted faults
    pub fate: Option<Fate>,
    #[allow(dead_code)]
    pub planted: bool,
    /// byte range of `lhs: rhs`
    pub range: (usize, usize),
}

#[derive(Clone, Debug)]
pub struct ObjInfo {
    pub oid: usize,
    pub class: String,
    pub name: Option<String>,
    pub parent: Option<usize>,
    /// byte range of the whole object definition, and of its type name
    pub range: (usize, usize),
    pub type_range: (usize, usize),
    pub resolves: bool,
    pub map_fault: bool,
    pub att_fault: bool,
}

#[derive(Clone, Debug)]
pub struct Doc {
    pub src: String,
    pub objs: Vec<ObjInfo>,
    pub bindings: Vec<Binding>,
    /// path the document is parsed with (its directory module — custom components — is imported), if any
    pub path: Option<String>,
}

/// description of a planted fault, in terms of the generator only
#[derive(Clone, Debug)]
pub struct Fault {
    pub name: &'static str,
    pub obj: usize,
    pub lhs: String,
    pub rhs: String,
    pub spec: LeafSpec,
    /// the binding makes `build_binding_map` / `build_attached_type_map` fail
    pub map_fault: bool,
    pub att_fault: bool,
    /// the attaching type does not resolve
    #[allow(dead_code)]
    pub att_unresolved: bool,
    /// the object's type is replaced by an unknown one
    pub unknown_type: bool,
    /// fragment the error message must contain
    pub message: &'static str,
    /// in which modes the error must be reported: (generate, reject, omit)
    pub reported: (bool, bool, bool),
}

fn print_rec(o: &Obj, out: &mut String, indent: usize, parent: Option<usize>, objs: &mut Vec<ObjInfo>, ranges: &mut Vec<Vec<(usize, usize)>>) {
    let pad = " ".repeat(indent);
    let start = out.len() + indent;
    out.push_str(&format!("{pad}{} {{\n", o.class));
    let idx = objs.len();
    objs.push(ObjInfo {
        oid: idx,
        class: o.class.clone(),
        name: o.id.clone(),
        parent,
        range: (start, 0),
        type_range: (start, start + o.class.len()),
        resolves: !o.class.starts_with("Nope"),
        map_fault: false,
        att_fault: false,
    });
    ranges.push(vec![]);
    if let Some(id) = &o.id {
        out.push_str(&format!("{pad}    id: {id}\n"));
    }
    for (l, r) in &o.bindings {
        let s = out.len() + indent + 4;
        out.push_str(&format!("{pad}    {l}: {r}\n"));
        ranges[idx].push((s, out.len() - 1));
    }
    for c in &o.children {
        print_rec(c, out, indent + 4, Some(idx), objs, ranges);
    }
    out.push_str(&format!("{pad}}}\n"));
    objs[idx].range.1 = out.len() - 1;
}

fn is_callback_name(l: &str) -> bool {
    l.len() > 2 && l.starts_with("on") && l[2..].chars().next().unwrap().is_ascii_uppercase() && !l.contains('.')
}

pub fn split_kind_pub(lhs: &str) -> BKind {
    split_kind(lhs)
}

fn split_kind(lhs: &str) -> BKind {
    let parts: Vec<&str> = lhs.split('.').collect();
    let upper = parts[0].chars().next().map(|c| c.is_ascii_uppercase()).unwrap_or(false);
    if is_callback_name(lhs) {
        let s = &lhs[2..];
        let mut sig = String::new();
        sig.push(s.chars().next().unwrap().to_ascii_lowercase());
        sig.push_str(&s[1..]);
        BKind::Callback { signal: sig }
    } else if upper && parts.len() == 2 {
        BKind::Attached { ty: parts[0].into(), name: parts[1].into() }
    } else if upper && parts.len() == 3 {
        BKind::AttachedMember { ty: parts[0].into(), group: parts[1].into(), member: parts[2].into() }
    } else if parts.len() == 2 {
        BKind::Member { group: parts[0].into(), member: parts[1].into() }
    } else {
        BKind::Plain
    }
}

/// (kind of the group for the model, group readable, group writable, members readable+writable)
pub fn group_info(class: &str, group: &str) -> (&'static str, bool, bool, bool) {
    let spacer = family_of(class) == Family::Spacer;
    match group {
        "font" => ("generic", true, true, true),
        "sizePolicy" => ("sizePolicy", true, true, true),
        "sizeType" => ("sizePolicy", false, false, true),
        "geometry" | "minimumSize" | "maximumSize" | "baseSize" | "iconSize" | "contentsMargins" | "sizeIncrement" => ("generic", true, true, false),
        "sizeHint" if spacer => ("generic", false, false, false),
        "icon" | "windowIcon" => ("icon", true, true, false),
        "palette" => ("palette", true, true, false),
        "horizontalHeader" | "verticalHeader" | "header" => ("object", false, false, true),
        _ => ("generic", true, true, true),
    }
}

fn pseudo_rw(class: &str, name: &str) -> Option<bool> {
    // properties added by metatype_tweak with `Property::new` have neither READ nor WRITE
    let fam = family_of(class);
    match name {
        "actions" | "model" | "horizontalHeader" | "verticalHeader" | "header" => Some(false),
        "flow" | "columns" | "rows" if class == "QGridLayout" => Some(false),
        _ if fam == Family::Spacer => Some(false),
        _ => None,
    }
}

/// document-level options of the printer
#[derive(Clone, Copy, Debug, Default, PartialEq)]
pub struct DocOpts {
    /// `import qmluic.QtWidgets 6.2`: the translator warns "import version is ignored"
    pub import_version: bool,
    /// parse the document as this file: the QML components of its directory module become known types
    pub path: Option<&'static str>,
}

impl DocOpts {
    pub fn header(&self) -> &'static str {
        if self.import_version {
            "import qmluic.QtWidgets 6.2\n\n"
        } else {
            "import qmluic.QtWidgets\n\n"
        }
    }
}

impl Doc {
    pub fn build(root: &Obj, records: &[Record], faults: &[Fault]) -> Doc {
        Doc::build_opts(root, records, faults, DocOpts::default())
    }

    /// Prints the tree and classifies every binding.  `records` is the generator's ledger; `faults` describe the
    /// bindings that were planted on purpose (matched by object index + lhs + rhs, last occurrence).
    pub fn build_opts(root: &Obj, records: &[Record], faults: &[Fault], opts: DocOpts) -> Doc {
        let mut src = String::from(opts.header());
        let mut objs = vec![];
        let mut ranges = vec![];
        print_rec(root, &mut src, 0, None, &mut objs, &mut ranges);
        let pre = root.pre_order();
        let mut bindings = vec![];
        let mut next_id = 1000; // object ids are < 1000
        for (oi, o) in pre.iter().enumerate() {
            for (bi, (l, r)) in o.bindings.iter().enumerate() {
                let fault = faults.iter().find(|f| f.obj == oi && &f.lhs == l && &f.rhs == r && !f.unknown_type && o.bindings.iter().rposition(|(ll, rr)| ll == l && rr == r) == Some(bi));
                let rec = o.id.as_ref().and_then(|id| records.iter().find(|x| &x.object == id && &x.lhs == l));
                let kind = split_kind(l);
                let mut spec = LeafSpec::default();
                let mut fate = None;
                let mut planted = false;
                if let Some(f) = fault {
                    spec = f.spec.clone();
                    planted = true;
                    if f.map_fault {
                        objs[oi].map_fault = true;
                    }
                    if f.att_fault {
                        objs[oi].att_fault = true;
                    }
                } else {
                    // clean binding: from the generator's record, or from the few bindings docgen writes itself
                    let f = match rec {
                        Some(x) => x.fate.clone(),
                        None => match (l.as_str(), r.as_str()) {
                            ("separator", "true") => Fate::Const { tag: "separator".into(), text: "true".into() },
                            ("separator", "false") => Fate::Const { tag: "separator".into(), text: "false".into() },
                            ("actions", _) => Fate::Const { tag: "actions".into(), text: r.clone() },
                            (_, rr) if rr.starts_with('"') => Fate::Const { tag: "string-any".into(), text: rr.trim_matches('"').to_owned() },
                            _ => Fate::Const { tag: "any".into(), text: r.clone() },
                        },
                    };
                    spec.konst = match &f {
                        Fate::Dynamic => Konst::Dyn,
                        Fate::Callback { .. } => Konst::Dyn,
                        Fate::Const { tag, text } if tag == "separator" || tag == "header-const" => Konst::Ok((text == "true") as u64),
                        _ => Konst::Ok(1),
                    };
                    match &kind {
                        BKind::Plain => {
                            if let Some(rw) = pseudo_rw(&o.class, l) {
                                spec.readable = rw;
                                spec.writable = rw;
                            }
                        }
                        BKind::Member { group, .. } => {
                            let (_, _, _, m) = group_info(&o.class, group);
                            spec.readable = m;
                            spec.writable = m;
                        }
                        BKind::Attached { .. } | BKind::AttachedMember { .. } => {
                            spec.readable = false;
                            spec.writable = false;
                        }
                        BKind::Callback { .. } => {}
                    }
                    fate = Some(f);
                }
                bindings.push(Binding { id: next_id, obj: oi, lhs: l.clone(), rhs: r.clone(), kind, spec, fate, planted, range: ranges[oi][bi] });
                next_id += 1;
            }
        }
        for f in faults.iter().filter(|f| f.unknown_type) {
            objs[f.obj].resolves = false;
        }
        // ids of objects that vanish with an unresolved ancestor are no longer defined: a constant reference to one of
        // them (`buddy: inner`) is rejected while the code maps are built
        let mut vanished: Vec<String> = vec![];
        for i in 0..objs.len() {
            let mut cur = Some(i);
            let mut gone = false;
            while let Some(c) = cur {
                if !objs[c].resolves {
                    gone = true;
                }
                cur = objs[c].parent;
            }
            if gone {
                if let Some(n) = &objs[i].name {
                    vanished.push(n.clone());
                }
            }
        }
        for b in &mut bindings {
            if b.lhs == "buddy" && vanished.contains(&b.rhs) {
                b.spec.enters = false;
            }
        }
        Doc { src, objs, bindings, path: opts.path.map(|p| p.to_owned()) }
    }

    pub fn children_of(&self, oi: usize) -> Vec<usize> {
        self.objs.iter().filter(|o| o.parent == Some(oi)).map(|o| o.oid).collect()
    }

    /// id of the top-level entry a binding belongs to: its own id, or the id of the first member of its group
    pub fn entry_id(&self, b: &Binding) -> usize {
        let key = |k: &BKind| match k {
            BKind::Member { group, .. } => Some((String::new(), group.clone())),
            BKind::AttachedMember { ty, group, .. } => Some((ty.clone(), group.clone())),
            _ => None,
        };
        match key(&b.kind) {
            None => b.id,
            Some(k) => self.bindings.iter().filter(|x| x.obj == b.obj && key(&x.kind).as_ref() == Some(&k)).map(|x| x.id).min().unwrap(),
        }
    }

    /// subject id of an unresolved / resolved attached map: the first binding of that attaching type in the object
    pub fn att_tid(&self, obj: usize, ty: &str) -> usize {
        self.bindings
            .iter()
            .filter(|x| x.obj == obj)
            .filter(|x| matches!(&x.kind, BKind::Attached { ty: t, .. } | BKind::AttachedMember { ty: t, .. } if t == ty))
            .map(|x| x.id)
            .min()
            .unwrap()
    }
}

// ---------------------------------------------------------------------------------------------------------
// model request

fn class_flags(o: &ObjInfo) -> (String, &'static str) {
    let mut f = String::new();
    if o.resolves {
        f.push('r');
    }
    let c = o.class.as_str();
    match family_of(c) {
        _ if c == "QButtonGroup" => {}
        Family::Action => f.push('a'),
        Family::Layout => f.push('l'),
        Family::Menu => {
            f.push('m');
            f.push('w');
        }
        Family::Widget => f.push('w'),
        Family::Spacer => f.push('s'),
    }
    if c == "QTabWidget" {
        f.push('t');
    }
    if c == "QComboBox" || c == "QListWidget" || c == "QFontComboBox" {
        f.push('c');
    }
    if c == "QTableView" || c == "QTableWidget" {
        f.push('v');
    }
    if c == "QTreeView" || c == "QTreeWidget" {
        f.push('e');
    }
    if o.map_fault {
        f.push('M');
    }
    if o.att_fault {
        f.push('A');
    }
    let lk = match c {
        "QVBoxLayout" | "VBoxLayout1" => "vbox",
        "QHBoxLayout" => "hbox",
        "QFormLayout" => "form",
        "QGridLayout" => "grid",
        _ => "unknown",
    };
    (f, lk)
}

fn leaf_sexp(id: usize, name: &str, s: &LeafSpec) -> Sexp {
    let mut f = String::new();
    for (c, b) in [('e', s.enters), ('d', s.build_diag), ('s', s.shape_ok), ('g', s.range_ok), ('w', s.writable), ('r', s.readable), ('t', s.ret_ok)] {
        if b {
            f.push(c);
        }
    }
    let k = match &s.konst {
        Konst::Dyn => atom("dyn"),
        Konst::Fail => atom("fail"),
        Konst::Ok(v) => list(vec![atom("ok"), num(*v)]),
    };
    list(vec![atom("l"), num(id), st(name), st(f), k])
}

impl Doc {
    fn entries_sexp(&self, oi: usize, attached_ty: Option<&str>) -> Vec<Sexp> {
        let class = &self.objs[oi].class;
        let mut out = vec![];
        let mut groups_done: BTreeSet<String> = BTreeSet::new();
        for b in self.bindings.iter().filter(|b| b.obj == oi) {
            match (&b.kind, attached_ty) {
                (BKind::Plain, None) => out.push(leaf_sexp(b.id, &b.lhs, &b.spec)),
                (BKind::Attached { ty, name }, Some(t)) if ty == t => out.push(leaf_sexp(b.id, name, &b.spec)),
                (BKind::Member { group, .. }, None) | (BKind::AttachedMember { group, .. }, Some(_)) => {
                    if let (BKind::AttachedMember { ty, .. }, Some(t)) = (&b.kind, attached_ty) {
                        if ty != t {
                            continue;
                        }
                    }
                    if !groups_done.insert(group.clone()) {
                        continue;
                    }
                    let members: Vec<Sexp> = self
                        .bindings
                        .iter()
                        .filter(|m| m.obj == oi)
                        .filter_map(|m| match (&m.kind, attached_ty) {
                            (BKind::Member { group: g, member }, None) if g == group => Some(leaf_sexp(m.id, member, &m.spec)),
                            (BKind::AttachedMember { ty, group: g, member }, Some(t)) if g == group && ty == t => Some(leaf_sexp(m.id, member, &m.spec)),
                            _ => None,
                        })
                        .collect();
                    let (kind, gr, gw, _) = if attached_ty.is_some() { ("icon", false, false, false) } else { group_info(class, group) };
                    let mut f = String::from("e");
                    if gw {
                        f.push('w');
                    }
                    if gr {
                        f.push('r');
                    }
                    out.push(list(vec![atom("g"), num(self.entry_id(b)), st(group.clone()), atom(kind), st(f), list(members)]));
                }
                _ => {}
            }
        }
        out
    }

    fn obj_sexp(&self, oi: usize) -> Sexp {
        let o = &self.objs[oi];
        let (flags, lk) = class_flags(o);
        let callbacks: Vec<Sexp> = self
            .bindings
            .iter()
            .filter(|b| b.obj == oi && matches!(b.kind, BKind::Callback { .. }))
            .map(|b| list(vec![atom("c"), num(b.id), boolean(b.spec.enters)]))
            .collect();
        let mut tys: Vec<String> = vec![];
        for b in self.bindings.iter().filter(|b| b.obj == oi) {
            if let BKind::Attached { ty, .. } | BKind::AttachedMember { ty, .. } = &b.kind {
                if !tys.contains(ty) {
                    tys.push(ty.clone());
                }
            }
        }
        let attached: Vec<Sexp> = tys
            .iter()
            .map(|ty| {
                let (t, resolves) = match ty.as_str() {
                    "QLayout" => ("layout", true),
                    "QTabWidget" => ("tabWidget", true),
                    "QVBoxLayout" | "QGridLayout" | "QHBoxLayout" | "QFormLayout" => ("other", true),
                    _ => ("other", false),
                };
                list(vec![atom("a"), num(self.att_tid(oi, ty)), atom(t), boolean(resolves), list(self.entries_sexp(oi, Some(ty)))])
            })
            .collect();
        let mut v = vec![atom("o"), num(o.oid), st(flags), atom(lk), list(self.entries_sexp(oi, None)), list(callbacks), list(attached)];
        for c in self.children_of(oi) {
            v.push(self.obj_sexp(c));
        }
        list(v)
    }

    /// `(passes <mode> <obj> (src "…") (objs (oid "name" s e ts te parent)…) (binds (id obj "lhs" s e entry const?)…))`
    pub fn request(&self, mode: Mode) -> Sexp {
        let objs: Vec<Sexp> = self
            .objs
            .iter()
            .map(|o| {
                list(vec![
                    num(o.oid),
                    st(o.name.clone().unwrap_or_default()),
                    num(o.range.0),
                    num(o.range.1),
                    num(o.type_range.0),
                    num(o.type_range.1),
                    num(o.parent.map(|p| p as i64).unwrap_or(-1)),
                    st(o.class.clone()),
                ])
            })
            .collect();
        let binds: Vec<Sexp> = self
            .bindings
            .iter()
            .map(|b| {
                let tid = match &b.kind {
                    BKind::Attached { ty, .. } | BKind::AttachedMember { ty, .. } => self.att_tid(b.obj, ty),
                    _ => 0,
                };
                list(vec![num(b.id), num(b.obj), st(b.lhs.clone()), num(b.range.0), num(b.range.1), num(self.entry_id(b)), num(tid)])
            })
            .collect();
        let mut args = vec![atom(mode.name()), self.obj_sexp(0), node("src", vec![st(self.src.clone())]), node("objs", objs), node("binds", binds)];
        if let Some(p) = &self.path {
            args.push(node("path", vec![st(p.clone())]));
        }
        node("passes", args)
    }
}

// ---------------------------------------------------------------------------------------------------------
// reading the real outputs back

pub fn capitalize(s: &str) -> String {
    let mut c = s.chars();
    match c.next() {
        Some(f) => f.to_ascii_uppercase().to_string() + c.as_str(),
        None => String::new(),
    }
}

/// inventory of the real support header by a token scan
#[derive(Debug, Default)]
pub struct HeaderScan {
    pub update_fns: BTreeSet<String>,
    pub eval_fns: BTreeSet<String>,
    pub on_fns: BTreeSet<String>,
    /// (sender, signal, callee) of `QObject::connect(ui_->x, &C::sig, root_, [this](…) { this->onX(…); })`
    pub callback_connects: Vec<(String, String, String)>,
    pub update_connects: usize,
}

pub fn scan_header(h: &str) -> HeaderScan {
    let mut s = HeaderScan::default();
    for line in h.lines() {
        let t = line.trim();
        if let Some(rest) = t.strip_prefix("void ") {
            if let Some(p) = rest.find('(') {
                let name = &rest[..p];
                if let Some(n) = name.strip_prefix("update") {
                    s.update_fns.insert(n.to_owned());
                } else if let Some(n) = name.strip_prefix("on") {
                    s.on_fns.insert(n.to_owned());
                }
            }
        }
        if !t.starts_with("void ") && !t.contains(';') {
            // `<type> eval<Name>()` or `<type> eval<Name>(<type> a)`
            if let Some(p) = t.find(" eval") {
                let rest = &t[p + 5..];
                if let Some(q) = rest.find('(') {
                    if rest[..q].chars().all(|c| c.is_ascii_alphanumeric() || c == '_') {
                        s.eval_fns.insert(rest[..q].to_owned());
                    }
                }
            }
        }
        if t.starts_with("QObject::connect(") {
            if let Some(p) = t.find("this->on") {
                let callee: String = t[p + 8..].chars().take_while(|c| c.is_ascii_alphanumeric() || *c == '_').collect();
                let inner = &t["QObject::connect(".len()..];
                let mut parts = inner.split(", ");
                let sender = parts.next().unwrap_or("").to_owned();
                let signal = parts.next().unwrap_or("").to_owned();
                s.callback_connects.push((sender, signal, callee));
            } else {
                s.update_connects += 1;
            }
        }
    }
    s
}

/// the element of an object in the real .ui, by its `name` attribute
pub fn find_object<'a>(ui: &'a xml::Element, name: &str) -> Option<&'a xml::Element> {
    ui.descendants()
        .into_iter()
        .find(|e| matches!(e.name.as_str(), "widget" | "layout" | "spacer" | "action") && e.attr("name") == Some(name))
}

/// the `<item>` wrapping an object element (for attached layout properties), and the enclosing layout
pub fn find_item<'a>(ui: &'a xml::Element, name: &str) -> Option<(&'a xml::Element, &'a xml::Element)> {
    for lay in ui.descendants().into_iter().filter(|e| e.name == "layout") {
        for it in lay.children_named("item") {
            if it.elems().any(|e| e.attr("name") == Some(name)) {
                return Some((lay, it));
            }
        }
    }
    None
}

fn prop_named<'a>(e: &'a xml::Element, tag: &'a str, name: &str) -> Option<&'a xml::Element> {
    e.children_named(tag).find(|p| p.attr("name") == Some(name))
}

/// Where does the binding show in the real .ui?  Returns (value element name or attribute marker, text).
pub fn locate(ui: &xml::Element, doc: &Doc, b: &Binding) -> Option<(String, String)> {
    let o = &doc.objs[b.obj];
    let name = o.name.as_deref()?;
    let first_value = |p: &xml::Element| p.elems().next().map(|v| (v.name.clone(), v.text(), v.attr("notr").map(|s| s.to_owned())));
    match &b.kind {
        BKind::Plain => {
            if b.lhs == "separator" {
                // static separator: no element of its own, `<addaction name="separator"/>` in the parent
                if find_object(ui, name).is_some() {
                    return None;
                }
                let parent = doc.objs[o.parent?].name.as_deref()?;
                let pe = find_object(ui, parent)?;
                return pe.children_named("addaction").find(|a| a.attr("name") == Some("separator")).map(|_| ("separator".into(), "true".into()));
            }
            let e = find_object(ui, name)?;
            if b.lhs == "actions" {
                let names: Vec<&str> = e.children_named("addaction").filter_map(|a| a.attr("name")).collect();
                return Some(("actions".into(), names.join(",")));
            }
            if b.lhs == "model" {
                let items: Vec<String> = e.children_named("item").map(|i| i.descendants().iter().find(|d| d.name == "string").map(|s| s.text()).unwrap_or_default()).collect();
                return if items.is_empty() { None } else { Some(("items".into(), items.join(","))) };
            }
            if matches!(b.lhs.as_str(), "flow" | "columns" | "rows") && o.class == "QGridLayout" {
                return None; // never a value; consumed by the cell computation
            }
            let pname = if b.lhs == "default_" { "default" } else { b.lhs.as_str() };
            let p = prop_named(e, "property", pname)?;
            let (tag, text, notr) = first_value(p)?;
            let tag = if tag == "string" && notr.as_deref() == Some("true") { "string-notr".to_owned() } else { tag };
            Some((tag, text))
        }
        BKind::Member { group, member } => {
            let e = find_object(ui, name)?;
            if group == "contentsMargins" {
                let p = prop_named(e, "property", &format!("{member}Margin"))?;
                let (tag, text, _) = first_value(p)?;
                return Some((tag, text));
            }
            if matches!(group.as_str(), "horizontalHeader" | "verticalHeader" | "header") {
                let p = prop_named(e, "attribute", &format!("{group}{}", capitalize(member)))?;
                let (tag, text, _) = first_value(p)?;
                return Some((tag, text));
            }
            let p = prop_named(e, "property", group)?;
            let g = p.elems().next()?;
            // size policy: policies are attributes, stretches are <horstretch>/<verstretch>
            match (group.as_str(), member.as_str()) {
                ("sizePolicy" | "sizeType", "horizontalPolicy") => return g.attr("hsizetype").map(|v| ("attr-hsizetype".into(), v.to_owned())),
                ("sizePolicy" | "sizeType", "verticalPolicy") => return g.attr("vsizetype").map(|v| ("attr-vsizetype".into(), v.to_owned())),
                ("sizePolicy" | "sizeType", "horizontalStretch") => return g.child("horstretch").map(|v| ("number".into(), v.text())),
                ("sizePolicy" | "sizeType", "verticalStretch") => return g.child("verstretch").map(|v| ("number".into(), v.text())),
                ("icon" | "windowIcon", "name") => return g.attr("theme").map(|v| ("attr-theme".into(), v.to_owned())),
                _ => {}
            }
            let m = g.child(&member.to_ascii_lowercase())?;
            let tag = match m.elems().next() {
                Some(inner) => inner.name.clone(),
                None => {
                    let t = m.text();
                    if t == "true" || t == "false" {
                        "bool".into()
                    } else if t.parse::<f64>().is_ok() {
                        "number".into()
                    } else {
                        "string-any".into()
                    }
                }
            };
            Some((tag, m.text()))
        }
        BKind::Attached { ty, name: an } => match ty.as_str() {
            "QLayout" => {
                let (lay, it) = find_item(ui, name)?;
                match an.as_str() {
                    "alignment" => it.attr("alignment").map(|v| ("item-alignment".into(), v.to_owned())),
                    "row" => it.attr("row").map(|v| ("item-row".into(), v.to_owned())),
                    "column" => it.attr("column").map(|v| ("item-column".into(), v.to_owned())),
                    "rowSpan" => it.attr("rowspan").map(|v| ("item-rowspan".into(), v.to_owned())),
                    "columnSpan" => it.attr("colspan").map(|v| ("item-colspan".into(), v.to_owned())),
                    "rowStretch" | "columnStretch" => lay.attr("stretch").or(lay.attr(&an.to_ascii_lowercase())).map(|v| ("layout-array".into(), v.to_owned())),
                    "rowMinimumHeight" | "columnMinimumWidth" => lay.attr(&an.to_ascii_lowercase()).map(|v| ("layout-array".into(), v.to_owned())),
                    _ => None,
                }
            }
            "QTabWidget" => {
                let e = find_object(ui, name)?;
                let p = prop_named(e, "attribute", an)?;
                let (tag, text, notr) = first_value(p)?;
                let tag = if tag == "string" && notr.as_deref() == Some("true") { "string-notr".to_owned() } else { tag };
                Some((tag, text))
            }
            _ => None,
        },
        BKind::AttachedMember { ty, group, member } => {
            if ty != "QTabWidget" {
                return None;
            }
            let e = find_object(ui, name)?;
            let p = prop_named(e, "attribute", group)?;
            let g = p.elems().next()?;
            if member == "name" {
                return g.attr("theme").map(|v| ("attr-theme".into(), v.to_owned()));
            }
            g.child(&member.to_ascii_lowercase()).map(|m| ("pixmap".into(), m.text()))
        }
        BKind::Callback { .. } => None,
    }
}

/// name suffix of the update/eval/on function of a binding in the header
pub fn header_names(doc: &Doc, b: &Binding) -> Option<(String, Option<String>)> {
    let on = capitalize(doc.objs[b.obj].name.as_deref()?);
    match &b.kind {
        BKind::Plain => Some((format!("{on}{}", capitalize(&b.lhs)), None)),
        BKind::Member { group, member } => Some((format!("{on}{}", capitalize(group)), Some(format!("{on}{}{}", capitalize(group), capitalize(member))))),
        BKind::Callback { signal } => Some((format!("{on}{}", capitalize(signal)), None)),
        _ => None,
    }
}

/// evaluated-constant flags as the read-only hook reports them in phase "final": (object name, attaching class, path)
pub type Flags = HashMap<(String, Option<String>, String), bool>;

/// In-process translation which also records what the library's own `Diagnostics::has_error()` says (the predicate
/// `generate_ui_file` uses to decide whether outputs are written); `Translation::has_error()` is the harness' own count.
pub fn translate_checked(tm: &TypeMap, src: &str, mode: Mode) -> (Translation, bool) {
    translate_checked_at(tm, src, mode, None)
}

/// … parsed as the file `path` (nothing is read from the file system: the directory module must be in the type map)
pub fn translate_checked_at(tm: &TypeMap, src: &str, mode: Mode, path: Option<&str>) -> (Translation, bool) {
    use qmluic::diagnostic::{DiagnosticKind, Diagnostics};
    use qmluic::qmldoc::UiDocument;
    use qmluic::qtname::FileNameRules;
    use qmluic::uigen::{self, BuildContext, XmlWriter};
    let doc = UiDocument::parse(src, "MyType", path.map(camino::Utf8PathBuf::from));
    let mut t = Translation::default();
    if doc.has_syntax_error() {
        t.syntax_errors = doc.collect_syntax_errors().len().max(1);
        return (t, true);
    }
    let ctx = BuildContext::prepare(tm, FileNameRules::default(), mode.handling()).unwrap();
    let mut diags = Diagnostics::new();
    let r = uigen::build(&ctx, &doc, &mut diags);
    let lib_has_error = diags.has_error();
    t.diags = diags
        .iter()
        .map(|d| env::Diag { is_error: d.kind() == DiagnosticKind::Error, start: d.byte_range().start, end: d.byte_range().end, message: d.message().to_owned() })
        .collect();
    if let Some((form, sup)) = r {
        t.built = true;
        let mut buf = Vec::new();
        form.serialize_to_xml(&mut XmlWriter::new_with_indent(&mut buf, b' ', 1)).unwrap();
        t.ui = Some(String::from_utf8(buf).unwrap());
        t.header = sup.map(|s| {
            let mut b = Vec::new();
            s.write_header(&mut b).unwrap();
            String::from_utf8(b).unwrap()
        });
    }
    (t, lib_has_error)
}

/// `Some(message)` if the library's `has_error()` disagrees with the recorded diagnostics
pub fn has_error_mismatch(t: &Translation, lib_has_error: bool) -> Option<String> {
    if t.syntax_errors == 0 && lib_has_error != t.has_error() {
        let e = t.diags.iter().filter(|d| d.is_error).count();
        Some(format!("Diagnostics::has_error() = {lib_has_error} with {e} error(s) and {} warning(s) recorded", t.diags.len() - e))
    } else {
        None
    }
}

/// would `generate_ui_file` write outputs?
pub fn lib_accepted(t: &Translation, lib_has_error: bool) -> bool {
    t.syntax_errors == 0 && t.built && !lib_has_error
}

#[allow(dead_code)]
pub fn translate_with_flags(tm: &TypeMap, src: &str, mode: Mode) -> (Translation, Flags) {
    let (t, f, _) = translate_with_flags_checked(tm, src, mode);
    (t, f)
}

pub fn translate_with_flags_checked(tm: &TypeMap, src: &str, mode: Mode) -> (Translation, Flags, bool) {
    translate_with_flags_checked_at(tm, src, mode, None)
}

pub fn translate_with_flags_checked_at(tm: &TypeMap, src: &str, mode: Mode, path: Option<&str>) -> (Translation, Flags, bool) {
    use std::cell::RefCell;
    use std::rc::Rc;
    let flags: Rc<RefCell<Flags>> = Rc::new(RefCell::new(HashMap::new()));
    let f2 = flags.clone();
    qmluic::uigen::verif_hook::set_observer(Box::new(move |ev| {
        if ev.phase == "final" && ev.kind != "callback" {
            f2.borrow_mut().insert((ev.object_name.to_owned(), ev.attached_class.clone(), ev.path.clone()), ev.evaluated_constant);
        }
    }));
    let t = std::panic::catch_unwind(std::panic::AssertUnwindSafe(|| translate_checked_at(tm, src, mode, path)));
    qmluic::uigen::verif_hook::clear_observer();
    let out = flags.borrow().clone();
    match t {
        Ok((t, lib)) => (t, out, lib),
        Err(e) => std::panic::resume_unwind(e),
    }
}

pub fn flag_key(doc: &Doc, b: &Binding) -> Option<(String, Option<String>, String)> {
    let on = doc.objs[b.obj].name.clone()?;
    match &b.kind {
        BKind::Plain => Some((on, None, b.lhs.clone())),
        BKind::Member { group, member } => Some((on, None, format!("{group}.{member}"))),
        BKind::Attached { ty, name } => Some((on, Some(ty.clone()), name.clone())),
        BKind::AttachedMember { ty, group, member } => Some((on, Some(ty.clone()), format!("{group}.{member}"))),
        BKind::Callback { .. } => None,
    }
}

/// message class, as the Lean driver prints `DK` (several model kinds share a message, they are merged on both sides)
pub fn message_class(m: &str) -> &'static str {
    let has = |s: &str| m.contains(s);
    if has("unused or unsupported dynamic binding to attached property") {
        "leftover"
    } else if has("unsupported dynamic binding") {
        "rejDynamic"
    } else if has("signal callback cannot be translated") {
        "rejCallback"
    } else if has("nested dynamic binding is not supported") {
        "cxxNested"
    } else if has("not a readable property") {
        "cxxNotReadable"
    } else if has("not a writable property") {
        "notWritable"
    } else if has("expression type mismatch") || has("unsupported constant expression type") || has("must be a static string") || has("cannot mix bare") || has("invalid hex color") || has("unknown color") || has("cannot be represented in XML") || has("invalid expression type") {
        "convert"
    } else if has("unexpected value type") {
        "unexpectedType"
    } else if has("is not allowed") || has("is too large") || has("mismatched with the value previously set") || has("unsupported layout flow") {
        "range"
    } else if has("unsupported gadget type") {
        "unsupportedGadget"
    } else if has("both horizontal and vertical policies") {
        "spBoth"
    } else if has("cannot specify stretch") {
        "spStretch"
    } else if has("unknown property of size policy") {
        "spUnknown"
    } else if has("not a properties map") {
        "notPropertiesMap"
    } else if has("not a static item model") {
        "notItemModel"
    } else if has("not an object ref list") {
        "notRefList"
    } else if has("duplicated binding") {
        "mapFault"
    } else if has("attaching type") || has("attached type") {
        "attachedType"
    } else if has("unknown object type") || has("invalid object type") || has("object type resolution failed") {
        "objectType"
    } else if has("is not a QAction, QLayout, nor QWidget") {
        "notUiObject"
    } else if has("is not a QLayout, QSpacerItem, nor QWidget") {
        "notLayoutItem"
    } else if has("is not a QWidget") {
        "rootNotWidget"
    } else if has("should have no children") {
        "noChildren"
    } else if has("unknown layout class") {
        "unknownLayout"
    } else {
        "build"
    }
}

/// decoded side tables of a request
pub struct Tables {
    pub src: String,
    /// (oid, name, start, end, type_start, type_end, parent, class)
    pub objs: Vec<(usize, String, usize, usize, usize, usize, i64, String)>,
    /// (id, obj, lhs, start, end, entry id, attached tid)
    pub binds: Vec<(usize, usize, String, usize, usize, usize, usize)>,
}

pub fn decode_tables(args: &[Sexp]) -> Tables {
    let mut t = Tables { src: String::new(), objs: vec![], binds: vec![] };
    for a in args {
        if let Some((tag, xs)) = a.as_node() {
            match tag {
                "src" => t.src = xs[0].as_str().unwrap().to_owned(),
                "objs" => {
                    for x in xs {
                        let l = x.as_list().unwrap();
                        t.objs.push((
                            l[0].as_usize().unwrap(),
                            l[1].as_str().unwrap().to_owned(),
                            l[2].as_usize().unwrap(),
                            l[3].as_usize().unwrap(),
                            l[4].as_usize().unwrap(),
                            l[5].as_usize().unwrap(),
                            l[6].as_i64().unwrap(),
                            l[7].as_str().unwrap().to_owned(),
                        ));
                    }
                }
                "binds" => {
                    for x in xs {
                        let l = x.as_list().unwrap();
                        t.binds.push((
                            l[0].as_usize().unwrap(),
                            l[1].as_usize().unwrap(),
                            l[2].as_str().unwrap().to_owned(),
                            l[3].as_usize().unwrap(),
                            l[4].as_usize().unwrap(),
                            l[5].as_usize().unwrap(),
                            l[6].as_usize().unwrap(),
                        ));
                    }
                }
                _ => {}
            }
        }
    }
    t
}

/// subject of a real diagnostic in the model's numbering
pub fn subject(t: &Tables, class: &str, start: usize, end: usize) -> usize {
    let innermost_obj = |s: usize, e: usize| t.objs.iter().filter(|o| o.2 <= s && e <= o.3 + 1).max_by_key(|o| o.2).map(|o| o.0);
    match class {
        "mapFault" => innermost_obj(start, end).unwrap_or(999_999),
        "objectType" => t.objs.iter().find(|o| o.4 <= start && end <= o.5).map(|o| o.0).unwrap_or(999_999),
        "noChildren" => {
            // reported at the first child of the action / spacer
            t.objs.iter().find(|o| o.2 == start).and_then(|o| if o.6 >= 0 { Some(o.6 as usize) } else { None }).unwrap_or(999_999)
        }
        "rootNotWidget" | "notUiObject" | "notLayoutItem" | "unknownLayout" => t.objs.iter().find(|o| o.2 == start).map(|o| o.0).unwrap_or(999_999),
        "attachedType" => t.binds.iter().find(|b| b.3 <= start && end <= b.4).map(|b| b.6).unwrap_or(999_999),
        "build" => t.binds.iter().find(|b| b.3 <= start && end <= b.4).map(|b| b.0).unwrap_or(999_999),
        _ => t.binds.iter().find(|b| b.3 <= start && end <= b.4).map(|b| b.5).unwrap_or(999_999),
    }
}

fn pad6(n: usize) -> String {
    format!("{n:06}")
}

/// The implementation's answer to a `(passes mode obj tables…)` request, in the driver's canonical form.
pub fn real_answer(tm: &TypeMap, req: &Sexp) -> Sexp {
    let (_, args) = req.as_node().expect("request node");
    let mode = match args[0].as_atom().unwrap() {
        "generate" => Mode::Generate,
        "reject" => Mode::Reject,
        _ => Mode::Omit,
    };
    let t = decode_tables(&args[2..]);
    let path = args.iter().find_map(|a| a.as_node().filter(|(t, _)| *t == "path").and_then(|(_, xs)| xs[0].as_str().map(|s| s.to_owned())));
    let (tr, flags, lib_has_error) = translate_with_flags_checked_at(tm, &t.src, mode, path.as_deref());
    if tr.syntax_errors > 0 {
        return node("syntax-error", vec![]);
    }
    let ui = tr.ui.as_ref().map(|u| xml::parse(u).expect("well-formed ui"));
    let scan = tr.header.as_ref().map(|h| scan_header(h)).unwrap_or_default();
    // rebuild a light Doc view from the tables for `locate`
    let doc = Doc {
        src: t.src.clone(),
        objs: t
            .objs
            .iter()
            .map(|o| ObjInfo {
                oid: o.0,
                class: o.7.clone(),
                name: if o.1.is_empty() { None } else { Some(o.1.clone()) },
                parent: if o.6 >= 0 { Some(o.6 as usize) } else { None },
                range: (o.2, o.3),
                type_range: (o.4, o.5),
                resolves: true,
                map_fault: false,
                att_fault: false,
            })
            .collect(),
        bindings: vec![],
        path: None,
    };
    let diag_subjects: BTreeSet<usize> = tr.diags.iter().filter(|d| d.is_error).map(|d| subject(&t, message_class(&d.message), d.start, d.end)).collect();
    let mut embedded = BTreeSet::new();
    let mut evalconst = BTreeSet::new();
    let mut generated = BTreeSet::new();
    let mut repeated = BTreeSet::new();
    let mut bindings = BTreeSet::new();
    let mut connected = BTreeSet::new();
    for b in &t.binds {
        let bb = Binding { id: b.0, obj: b.1, lhs: b.2.clone(), rhs: String::new(), kind: split_kind(&b.2), spec: LeafSpec::default(), fate: None, planted: false, range: (b.3, b.4) };
        let ec = flag_key(&doc, &bb).and_then(|k| flags.get(&k).copied()).unwrap_or(false);
        if ec {
            evalconst.insert(bb.id);
        }
        if let Some(ui) = &ui {
            let consumed_pseudo = matches!(bb.lhs.as_str(), "flow" | "columns" | "rows") && doc.objs[bb.obj].class == "QGridLayout" && ec;
            let positional = matches!(&bb.kind, BKind::Attached { ty, .. } if ty == "QLayout");
            let found = locate(ui, &doc, &bb).is_some();
            let special = matches!(bb.lhs.as_str(), "actions" | "model" | "separator");
            if (found && !positional && (!special || (ec && !diag_subjects.contains(&b.5)))) || ((consumed_pseudo || (positional && found && ec)) && !diag_subjects.contains(&b.5)) {
                embedded.insert(bb.id);
            }
        }
        if let Some((top, member)) = header_names(&doc, &bb) {
            match &bb.kind {
                BKind::Callback { .. } => {
                    if scan.on_fns.contains(&top) && scan.callback_connects.iter().any(|c| c.2 == top) {
                        connected.insert(bb.id);
                    }
                }
                BKind::Plain => {
                    if scan.update_fns.contains(&top) {
                        bindings.insert(b.5);
                        generated.insert(bb.id);
                    }
                }
                BKind::Member { .. } => {
                    if scan.update_fns.contains(&top) {
                        bindings.insert(b.5);
                        if scan.eval_fns.contains(member.as_ref().unwrap()) {
                            if ec {
                                repeated.insert(bb.id);
                            } else {
                                generated.insert(bb.id);
                            }
                        }
                    }
                }
                _ => {}
            }
        }
    }
    let mut ds: Vec<(String, String)> = tr
        .diags
        .iter()
        .filter(|d| d.is_error)
        .map(|d| {
            let c = message_class(&d.message);
            (pad6(subject(&t, c, d.start, d.end)), c.to_owned())
        })
        .collect();
    ds.sort();
    let nums = |tag: &str, s: &BTreeSet<usize>| node(tag, s.iter().map(|n| num(*n)).collect());
    // acceptance as `generate_ui_file` decides it: the library's own has_error()
    let accepted = lib_accepted(&tr, lib_has_error);
    node(
        "result",
        vec![
            node("built", vec![boolean(tr.built)]),
            node("panic", vec![boolean(false)]),
            node("accepted", vec![boolean(accepted)]),
            node("header", vec![boolean(tr.header.is_some())]),
            nums("embedded", &embedded),
            nums("evalconst", &evalconst),
            nums("generated", &generated),
            nums("repeated", &repeated),
            nums("bindings", &bindings),
            nums("connected", &connected),
            node("diags", ds.into_iter().map(|(s, c)| list(vec![atom(s), atom(c)])).collect()),
            node("writes", vec![boolean(accepted), boolean(accepted && tr.header.is_some())]),
        ],
    )
}

/// per-object property inventory of a real .ui, for the "nothing without a ledger record" direction of the oracle
pub fn ui_inventory(ui: &xml::Element) -> BTreeMap<String, BTreeSet<String>> {
    let mut m: BTreeMap<String, BTreeSet<String>> = BTreeMap::new();
    for e in ui.descendants() {
        if matches!(e.name.as_str(), "widget" | "layout" | "spacer" | "action") {
            if let Some(n) = e.attr("name") {
                let set = m.entry(n.to_owned()).or_default();
                for p in e.children_named("property").chain(e.children_named("attribute")) {
                    set.insert(p.attr("name").unwrap_or("").to_owned());
                }
            }
        }
    }
    m
}
