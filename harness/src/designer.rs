//! Qt Designer form grammar (the subset uic reads) as a checker over the harness's XML tree.
//! Independent of qmluic: written from uic's ui4 schema.
use crate::xml::{Element, Node};

const VALUE_TAGS: &[&str] = &[
    "bool", "number", "double", "float", "string", "cstring", "enum", "set", "stringlist", "rect", "rectf", "size", "sizef",
    "font", "sizepolicy", "color", "brush", "palette", "iconset", "pixmap", "cursorShape", "cursor", "point", "pointf",
    "char", "url", "locale", "date", "time", "datetime", "uint", "longlong", "ulonglong", "margins",
];

fn only_ws_text(e: &Element) -> bool {
    e.children.iter().all(|c| match c {
        Node::Text(t) => t.chars().all(|c| matches!(c, ' ' | '\n' | '\t' | '\r')),
        _ => true,
    })
}

fn check_attrs(e: &Element, allowed: &[&str], required: &[&str]) -> Result<(), String> {
    for (k, _) in &e.attrs {
        if !allowed.contains(&k.as_str()) {
            return Err(format!("<{}> has unexpected attribute '{k}'", e.name));
        }
    }
    for r in required {
        if e.attr(r).is_none() {
            return Err(format!("<{}> lacks attribute '{r}'", e.name));
        }
    }
    Ok(())
}

fn check_property(e: &Element) -> Result<(), String> {
    check_attrs(e, &["name", "stdset"], &["name"])?;
    let kids: Vec<&Element> = e.elems().collect();
    if kids.len() != 1 {
        return Err(format!("<{} name={:?}> has {} value elements", e.name, e.attr("name"), kids.len()));
    }
    if !VALUE_TAGS.contains(&kids[0].name.as_str()) {
        return Err(format!("<{}> holds unknown value element <{}>", e.name, kids[0].name));
    }
    if !only_ws_text(e) {
        return Err(format!("<{}> has stray text", e.name));
    }
    Ok(())
}

fn check_props(e: &Element, other_allowed: &[&str]) -> Result<(), String> {
    let mut seen_p: Vec<&str> = vec![];
    let mut seen_a: Vec<&str> = vec![];
    for c in e.elems() {
        match c.name.as_str() {
            "property" => {
                check_property(c)?;
                let n = c.attr("name").unwrap();
                if seen_p.contains(&n) {
                    return Err(format!("duplicate property '{n}' in <{}>", e.name));
                }
                seen_p.push(n);
            }
            "attribute" => {
                check_property(c)?;
                let n = c.attr("name").unwrap();
                if seen_a.contains(&n) {
                    return Err(format!("duplicate attribute '{n}' in <{}>", e.name));
                }
                seen_a.push(n);
            }
            t if other_allowed.contains(&t) => {}
            t => return Err(format!("<{t}> not allowed inside <{}>", e.name)),
        }
    }
    if !only_ws_text(e) {
        return Err(format!("<{}> has stray text", e.name));
    }
    Ok(())
}

fn check_widget(e: &Element) -> Result<(), String> {
    check_attrs(e, &["class", "name", "native"], &["class", "name"])?;
    check_props(e, &["addaction", "item", "widget", "layout", "action", "row", "column", "zorder", "actiongroup"])?;
    let mut layouts = 0;
    for c in e.elems() {
        match c.name.as_str() {
            "addaction" => {
                check_attrs(c, &["name"], &["name"])?;
                if !c.children.is_empty() {
                    return Err("<addaction> is not empty".into());
                }
            }
            "item" => {
                // item of an item widget (combo box, list widget)
                check_attrs(c, &[], &[])?;
                check_props(c, &["item"])?;
            }
            "widget" => check_widget(c)?,
            "layout" => {
                layouts += 1;
                check_layout(c)?
            }
            "action" => check_action(c)?,
            _ => {}
        }
    }
    if layouts > 1 {
        return Err(format!("widget '{}' has {layouts} layouts", e.attr("name").unwrap()));
    }
    Ok(())
}

fn check_action(e: &Element) -> Result<(), String> {
    check_attrs(e, &["name", "menu"], &["name"])?;
    check_props(e, &[])
}

fn check_layout(e: &Element) -> Result<(), String> {
    check_attrs(
        e,
        &["class", "name", "stretch", "rowstretch", "columnstretch", "rowminimumheight", "columnminimumwidth"],
        &["class"],
    )?;
    check_props(e, &["item"])?;
    for c in e.children_named("item") {
        check_attrs(c, &["row", "column", "rowspan", "colspan", "alignment"], &[])?;
        let kids: Vec<&Element> = c.elems().collect();
        if kids.len() != 1 {
            return Err(format!("layout <item> has {} children", kids.len()));
        }
        match kids[0].name.as_str() {
            "widget" => check_widget(kids[0])?,
            "layout" => check_layout(kids[0])?,
            "spacer" => {
                check_attrs(kids[0], &["name"], &["name"])?;
                check_props(kids[0], &[])?;
            }
            t => return Err(format!("layout <item> holds <{t}>")),
        }
        if !only_ws_text(c) {
            return Err("layout <item> has stray text".into());
        }
    }
    Ok(())
}

/// Checks a whole `.ui` document; `expected_class` is the document's type name.
pub fn check_ui(root: &Element, expected_class: &str) -> Result<(), String> {
    if root.name != "ui" {
        return Err(format!("root element is <{}>", root.name));
    }
    if root.attr("version") != Some("4.0") {
        return Err("ui version is not 4.0".into());
    }
    let kids: Vec<&Element> = root.elems().collect();
    let classes: Vec<&&Element> = kids.iter().filter(|e| e.name == "class").collect();
    if classes.len() != 1 {
        return Err(format!("{} <class> elements", classes.len()));
    }
    if classes[0].text() != expected_class {
        return Err(format!("<class> is {:?}, expected {:?}", classes[0].text(), expected_class));
    }
    let widgets: Vec<&&Element> = kids.iter().filter(|e| e.name == "widget").collect();
    if widgets.len() != 1 {
        return Err(format!("{} root <widget> elements", widgets.len()));
    }
    check_widget(widgets[0])?;
    for k in &kids {
        match k.name.as_str() {
            "class" | "widget" => {}
            "customwidgets" => {
                for cw in k.elems() {
                    if cw.name != "customwidget" {
                        return Err(format!("<{}> inside <customwidgets>", cw.name));
                    }
                    for f in ["class", "extends", "header"] {
                        if cw.children_named(f).count() != 1 {
                            return Err(format!("<customwidget> lacks <{f}>"));
                        }
                    }
                }
            }
            t => return Err(format!("<{t}> not allowed inside <ui>")),
        }
    }
    if !only_ws_text(root) {
        return Err("<ui> has stray text".into());
    }
    Ok(())
}
