//! S-expressions of the line protocol (mirror of lean/QV/Sexp.lean).
use std::fmt::Write as _;

#[derive(Clone, Debug, PartialEq, Eq, Hash)]
pub enum Sexp {
    Atom(String),
    Str(String),
    List(Vec<Sexp>),
}

pub fn atom(s: impl Into<String>) -> Sexp {
    Sexp::Atom(s.into())
}
pub fn st(s: impl Into<String>) -> Sexp {
    Sexp::Str(s.into())
}
pub fn list(v: Vec<Sexp>) -> Sexp {
    Sexp::List(v)
}
pub fn num<T: std::fmt::Display>(n: T) -> Sexp {
    Sexp::Atom(n.to_string())
}
pub fn boolean(b: bool) -> Sexp {
    Sexp::Atom(if b { "true" } else { "false" }.to_owned())
}
pub fn opt(o: Option<Sexp>) -> Sexp {
    match o {
        None => atom("none"),
        Some(x) => list(vec![atom("some"), x]),
    }
}
/// `(tag a b c)`
pub fn node(tag: &str, mut args: Vec<Sexp>) -> Sexp {
    let mut v = vec![atom(tag)];
    v.append(&mut args);
    Sexp::List(v)
}

impl Sexp {
    pub fn render(&self) -> String {
        let mut s = String::new();
        self.render_to(&mut s);
        s
    }
    fn render_to(&self, out: &mut String) {
        match self {
            Sexp::Atom(a) => out.push_str(a),
            Sexp::Str(t) => {
                out.push('"');
                for c in t.chars() {
                    match c {
                        '\\' => out.push_str("\\\\"),
                        '"' => out.push_str("\\\""),
                        '\n' => out.push_str("\\n"),
                        '\t' => out.push_str("\\t"),
                        '\r' => out.push_str("\\r"),
                        c if (c as u32) >= 32 && (c as u32) < 127 => out.push(c),
                        c => {
                            write!(out, "\\u{{{:x}}}", c as u32).unwrap();
                        }
                    }
                }
                out.push('"');
            }
            Sexp::List(xs) => {
                out.push('(');
                for (i, x) in xs.iter().enumerate() {
                    if i > 0 {
                        out.push(' ');
                    }
                    x.render_to(out);
                }
                out.push(')');
            }
        }
    }

    pub fn parse(s: &str) -> Option<Sexp> {
        let cs: Vec<char> = s.chars().collect();
        let mut i = 0;
        let r = read_one(&cs, &mut i)?;
        Some(r)
    }

    pub fn as_atom(&self) -> Option<&str> {
        match self {
            Sexp::Atom(a) => Some(a),
            _ => None,
        }
    }
    pub fn as_str(&self) -> Option<&str> {
        match self {
            Sexp::Str(a) => Some(a),
            _ => None,
        }
    }
    pub fn as_list(&self) -> Option<&[Sexp]> {
        match self {
            Sexp::List(a) => Some(a),
            _ => None,
        }
    }
    pub fn as_i64(&self) -> Option<i64> {
        self.as_atom()?.parse().ok()
    }
    pub fn as_usize(&self) -> Option<usize> {
        self.as_atom()?.parse().ok()
    }
    pub fn as_bool(&self) -> Option<bool> {
        match self.as_atom()? {
            "true" => Some(true),
            "false" => Some(false),
            _ => None,
        }
    }
    pub fn as_opt(&self) -> Option<Option<&Sexp>> {
        match self {
            Sexp::Atom(a) if a == "none" => Some(None),
            Sexp::List(v) if v.len() == 2 && v[0].as_atom() == Some("some") => Some(Some(&v[1])),
            _ => None,
        }
    }
    /// `(tag ...)` → (tag, args)
    pub fn as_node(&self) -> Option<(&str, &[Sexp])> {
        let l = self.as_list()?;
        let t = l.first()?.as_atom()?;
        Some((t, &l[1..]))
    }
}

fn is_ws(c: char) -> bool {
    c == ' ' || c == '\t' || c == '\n' || c == '\r'
}
fn is_delim(c: char) -> bool {
    is_ws(c) || c == '(' || c == ')' || c == '"'
}

fn read_one(cs: &[char], i: &mut usize) -> Option<Sexp> {
    while *i < cs.len() && is_ws(cs[*i]) {
        *i += 1;
    }
    if *i >= cs.len() {
        return None;
    }
    match cs[*i] {
        '(' => {
            *i += 1;
            let mut v = vec![];
            loop {
                while *i < cs.len() && is_ws(cs[*i]) {
                    *i += 1;
                }
                if *i >= cs.len() {
                    return None;
                }
                if cs[*i] == ')' {
                    *i += 1;
                    return Some(Sexp::List(v));
                }
                v.push(read_one(cs, i)?);
            }
        }
        ')' => None,
        '"' => {
            *i += 1;
            let mut s = String::new();
            loop {
                if *i >= cs.len() {
                    return None;
                }
                let c = cs[*i];
                *i += 1;
                match c {
                    '"' => return Some(Sexp::Str(s)),
                    '\\' => {
                        let e = *cs.get(*i)?;
                        *i += 1;
                        match e {
                            'n' => s.push('\n'),
                            't' => s.push('\t'),
                            'r' => s.push('\r'),
                            '\\' => s.push('\\'),
                            '"' => s.push('"'),
                            'u' => {
                                if *cs.get(*i)? != '{' {
                                    return None;
                                }
                                *i += 1;
                                let mut n = 0u32;
                                loop {
                                    let d = *cs.get(*i)?;
                                    *i += 1;
                                    if d == '}' {
                                        break;
                                    }
                                    n = n.checked_mul(16)?.checked_add(d.to_digit(16)?)?;
                                }
                                s.push(char::from_u32(n)?);
                            }
                            _ => return None,
                        }
                    }
                    c => s.push(c),
                }
            }
        }
        _ => {
            let st = *i;
            while *i < cs.len() && !is_delim(cs[*i]) {
                *i += 1;
            }
            Some(Sexp::Atom(cs[st..*i].iter().collect()))
        }
    }
}
