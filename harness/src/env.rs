//! Shared environment: type map over the Qt 5 metatypes of /repo (plus optional foreign metatypes),
//! and in-process translation of one document.
use qmluic::diagnostic::{DiagnosticKind, Diagnostics};
use qmluic::metatype;
use qmluic::metatype_tweak;
use qmluic::qmldoc::UiDocument;
use qmluic::qtname::FileNameRules;
use qmluic::typemap::{ModuleData, ModuleId, TypeMap};
use qmluic::uigen::{self, BuildContext, DynamicBindingHandling, XmlWriter};
use std::fs;

pub const REPO: &str = "/repo";

pub fn load_qt_classes() -> Vec<metatype::Class> {
    ["core", "gui", "widgets"]
        .iter()
        .flat_map(|p| {
            let data =
                fs::read_to_string(format!("{REPO}/contrib/metatypes/qt5{p}_metatypes.json"))
                    .unwrap();
            metatype::extract_classes_from_str(&data).unwrap()
        })
        .collect()
}

pub fn load_type_map(extra_metatypes_json: &[&str]) -> TypeMap {
    let mut extra = vec![];
    for j in extra_metatypes_json {
        extra.extend(metatype::extract_classes_from_str(j).unwrap());
    }
    load_type_map_with(extra)
}

/// Classes with names chosen to look like numbered / prefixed Qt names (C10, C16).
pub fn adversarial_classes() -> Vec<metatype::Class> {
    vec![
        metatype::Class::with_supers("Label1", ["QLabel"]),
        metatype::Class::with_supers("QLabel1", ["QLabel"]),
        metatype::Class::with_supers("KLabel", ["QLabel"]),
        metatype::Class::with_supers("Label", ["QLabel"]),
        metatype::Class::with_supers("Widget2", ["QWidget"]),
        metatype::Class::with_supers("QWidget1", ["QWidget"]),
        metatype::Class::with_supers("PushButton1", ["QPushButton"]),
        metatype::Class::with_supers("Action1", ["QAction"]),
        metatype::Class::with_supers("VBoxLayout1", ["QVBoxLayout"]),
    ]
}

/// Type map with the verification classes of harness/metatypes/verif.json (VBase, VDerived, VOther).
pub fn load_verif_type_map() -> TypeMap {
    load_type_map(&[include_str!("../metatypes/verif.json")])
}

/// Everything: Qt + verification classes + adversarially named classes (debug stream).
pub fn load_full_type_map() -> TypeMap {
    let mut extra = metatype::extract_classes_from_str(include_str!("../metatypes/verif.json")).unwrap();
    extra.extend(adversarial_classes());
    load_type_map_with(extra)
}

pub fn load_type_map_with(extra: Vec<metatype::Class>) -> TypeMap {
    let mut type_map = TypeMap::with_primitive_types();
    let mut classes = load_qt_classes();
    classes.extend(extra);
    metatype_tweak::apply_all(&mut classes);
    let mut md = ModuleData::with_builtins();
    md.extend(classes);
    type_map.insert_module(ModuleId::Named("qmluic.QtWidgets"), md);
    type_map
}

#[derive(Clone, Copy, Debug, PartialEq, Eq)]
pub enum Mode {
    Generate,
    Reject,
    Omit,
}

impl Mode {
    pub fn all() -> [Mode; 3] {
        [Mode::Generate, Mode::Reject, Mode::Omit]
    }
    pub fn name(self) -> &'static str {
        match self {
            Mode::Generate => "generate",
            Mode::Reject => "reject",
            Mode::Omit => "omit",
        }
    }
    pub fn handling(self) -> DynamicBindingHandling {
        match self {
            Mode::Generate => DynamicBindingHandling::Generate,
            Mode::Reject => DynamicBindingHandling::Reject,
            Mode::Omit => DynamicBindingHandling::Omit,
        }
    }
}

#[derive(Clone, Debug)]
pub struct Diag {
    pub is_error: bool,
    pub start: usize,
    pub end: usize,
    pub message: String,
}

#[derive(Clone, Debug, Default)]
pub struct Translation {
    pub syntax_errors: usize,
    /// `uigen::build` returned `Some`
    pub built: bool,
    pub ui: Option<String>,
    pub header: Option<String>,
    pub diags: Vec<Diag>,
}

impl Translation {
    pub fn has_error(&self) -> bool {
        self.syntax_errors > 0 || self.diags.iter().any(|d| d.is_error)
    }
    /// accepted = the CLI would write outputs
    pub fn accepted(&self) -> bool {
        self.built && !self.has_error()
    }
}

/// Translates `src` the way `generate_ui_file` / the test helper do.
pub fn translate(tm: &TypeMap, src: &str, type_name: &str, mode: Mode) -> Translation {
    let doc = UiDocument::parse(src, type_name, None);
    translate_doc(tm, &doc, mode)
}

pub fn translate_doc(tm: &TypeMap, doc: &UiDocument, mode: Mode) -> Translation {
    let mut t = Translation::default();
    if doc.has_syntax_error() {
        t.syntax_errors = doc.collect_syntax_errors().len().max(1);
        return t;
    }
    let ctx = BuildContext::prepare(tm, FileNameRules::default(), mode.handling()).unwrap();
    let mut diags = Diagnostics::new();
    let r = uigen::build(&ctx, doc, &mut diags);
    t.diags = diags
        .iter()
        .map(|d| Diag {
            is_error: d.kind() == DiagnosticKind::Error,
            start: d.byte_range().start,
            end: d.byte_range().end,
            message: d.message().to_owned(),
        })
        .collect();
    if let Some((form, sup)) = r {
        t.built = true;
        let mut buf = Vec::new();
        form.serialize_to_xml(&mut XmlWriter::new_with_indent(&mut buf, b' ', 1))
            .unwrap();
        t.ui = Some(String::from_utf8(buf).unwrap());
        t.header = sup.map(|s| {
            let mut b = Vec::new();
            s.write_header(&mut b).unwrap();
            String::from_utf8(b).unwrap()
        });
    }
    t
}

/// A JS/QML double-quoted string literal denoting exactly `s` (trusted pretty-printer).
/// `style` selects among equivalent spellings so that the lexer glue is exercised.
pub fn qml_string_literal(s: &str, style: u32) -> String {
    let mut out = String::from("\"");
    for c in s.chars() {
        match c {
            '\\' => out.push_str("\\\\"),
            '"' => out.push_str("\\\""),
            '\n' => out.push_str("\\n"),
            '\r' => out.push_str("\\r"),
            '\t' => out.push_str(if style & 1 == 0 { "\\t" } else { "\\x09" }),
            '\0' => out.push_str(if style & 2 == 0 { "\\u0000" } else { "\\x00" }),
            c if (c as u32) < 0x20 || c as u32 == 0x7f => {
                if style & 2 == 0 {
                    out.push_str(&format!("\\x{:02x}", c as u32))
                } else {
                    out.push_str(&format!("\\u{:04X}", c as u32))
                }
            }
            c if (c as u32) == 0x2028 || (c as u32) == 0x2029 => {
                out.push_str(&format!("\\u{:04x}", c as u32))
            }
            c if (c as u32) < 0x7f => out.push(c),
            c => match style % 3 {
                0 => out.push(c),
                1 => out.push_str(&format!("\\u{{{:x}}}", c as u32)),
                _ => {
                    if (c as u32) <= 0xffff {
                        out.push_str(&format!("\\u{:04x}", c as u32))
                    } else {
                        out.push(c)
                    }
                }
            },
        }
    }
    out.push('"');
    out
}

/// Path of the `qmluic` CLI binary built from /repo's *current working tree* (release profile) into a target
/// directory under /verif/.work.  Built at most once per process; an exclusive file lock serialises concurrent
/// checks.  Panics (→ the stream fails, the check reports it) if the build fails.
pub fn cli_binary() -> std::path::PathBuf {
    use std::sync::OnceLock;
    static BIN: OnceLock<std::path::PathBuf> = OnceLock::new();
    BIN.get_or_init(|| {
        if let Ok(p) = std::env::var("QV_QMLUIC_BIN") {
            return std::path::PathBuf::from(p);
        }
        let work = std::path::Path::new(env!("CARGO_MANIFEST_DIR")).join("../.work");
        std::fs::create_dir_all(&work).unwrap();
        // the same override as in streams/c15.rs: a run against a copy of /repo must not share the directory
        let target = std::env::var("QV_CLI_TARGET_DIR").map(std::path::PathBuf::from).unwrap_or_else(|_| work.join("cli-target"));
        // serialise with other checks through `flock` (util-linux) so that no extra crate is needed
        let status = std::process::Command::new("flock")
            .arg(work.join("cli-build.lock"))
            .args(["cargo", "build", "--release", "--offline", "--bin", "qmluic", "--manifest-path"])
            .arg(format!("{REPO}/Cargo.toml"))
            .arg("--target-dir")
            .arg(&target)
            .env("CARGO_NET_OFFLINE", "true")
            .stdout(std::process::Stdio::null())
            .stderr(std::process::Stdio::null())
            .status()
            .expect("cargo build of the qmluic CLI could not be started");
        assert!(status.success(), "cargo build of the qmluic CLI failed");
        target.join("release/qmluic")
    })
    .clone()
}
