//! Deterministic PRNG (splitmix64 seeded xoshiro256**); every random choice of a run derives from
//! `VERIF_SEED`.
#[derive(Clone)]
pub struct Rng {
    s: [u64; 4],
}

fn splitmix(x: &mut u64) -> u64 {
    *x = x.wrapping_add(0x9E3779B97F4A7C15);
    let mut z = *x;
    z = (z ^ (z >> 30)).wrapping_mul(0xBF58476D1CE4E5B9);
    z = (z ^ (z >> 27)).wrapping_mul(0x94D049BB133111EB);
    z ^ (z >> 31)
}

impl Rng {
    pub fn new(seed: u64) -> Self {
        let mut x = seed;
        Rng {
            s: [
                splitmix(&mut x),
                splitmix(&mut x),
                splitmix(&mut x),
                splitmix(&mut x),
            ],
        }
    }
    /// Independent stream derived from this seed and a label.
    pub fn fork(seed: u64, label: &str, index: u64) -> Self {
        let mut h = seed ^ 0xcbf29ce484222325;
        for b in label.bytes() {
            h = (h ^ b as u64).wrapping_mul(0x100000001b3);
        }
        Rng::new(h ^ index.wrapping_mul(0x9E3779B97F4A7C15))
    }
    pub fn next_u64(&mut self) -> u64 {
        let r = self.s[1].wrapping_mul(5).rotate_left(7).wrapping_mul(9);
        let t = self.s[1] << 17;
        self.s[2] ^= self.s[0];
        self.s[3] ^= self.s[1];
        self.s[1] ^= self.s[2];
        self.s[0] ^= self.s[3];
        self.s[2] ^= t;
        self.s[3] = self.s[3].rotate_left(45);
        r
    }
    /// uniform in 0..n (n > 0)
    pub fn below(&mut self, n: usize) -> usize {
        (self.next_u64() % (n as u64)) as usize
    }
    pub fn range(&mut self, lo: i64, hi_incl: i64) -> i64 {
        lo + (self.next_u64() % ((hi_incl - lo + 1) as u64)) as i64
    }
    pub fn chance(&mut self, num: u32, den: u32) -> bool {
        (self.next_u64() % den as u64) < num as u64
    }
    pub fn pick<'a, T>(&mut self, xs: &'a [T]) -> &'a T {
        &xs[self.below(xs.len())]
    }
    pub fn shuffle<T>(&mut self, xs: &mut [T]) {
        for i in (1..xs.len()).rev() {
            let j = self.below(i + 1);
            xs.swap(i, j);
        }
    }
}
