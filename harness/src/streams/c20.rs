//! C20 — preview-mode error recovery is local to the faulty object.
//!
//! Requests:
//!   (c20-local (src "faulted qml") (free "fault-free qml") (ids "id"…) (fault "name" start end "message" … ) (at "object id"|"" ))
//!        kind=oracle: omit mode yields a form, the planted error is reported, and the XML tree of the faulted run equals
//!        the tree of the fault-free run outside the faulted object (generated names compared up to renumbering)
//!   (passes omit <obj> (src …) (objs …) (binds …))     kind=model
use crate::docgen::{family_of, Family, Obj};
use crate::env::{self, Mode};
use crate::ledger::{self, Doc};
use crate::rng::Rng;
use crate::sexp::{atom, node, num, st, Sexp};
use crate::streams::c04::{decode_fault, fault_sexp, gen_clean, plant_fault, FAULT_KINDS};
use crate::xml;
use crate::{Case, Stream};
use qmluic::typemap::TypeMap;
use std::collections::BTreeSet;

pub struct C20 {
    tm: TypeMap,
}

impl C20 {
    pub fn new() -> Self {
        C20 { tm: env::load_type_map_with(env::adversarial_classes()) }
    }
}

/// removes the ids of some objects nobody refers to (so that generated names take part in the comparison)
fn anonymise(rng: &mut Rng, o: &mut Obj, referenced: &BTreeSet<String>, keep: Option<&str>, is_root: bool) {
    if let Some(id) = &o.id {
        let dynamic = o.bindings.iter().any(|(l, _)| l.starts_with("on"));
        if !is_root && !referenced.contains(id) && !id.starts_with("src") && Some(id.as_str()) != keep && !dynamic && rng.chance(1, 3) {
            o.id = None;
        }
    }
    for c in &mut o.children {
        anonymise(rng, c, referenced, keep, false);
    }
}

fn referenced_ids(o: &Obj, out: &mut BTreeSet<String>) {
    for (l, r) in &o.bindings {
        if l == "actions" {
            for x in r.trim_matches(|c| c == '[' || c == ']').split(',') {
                out.insert(x.trim().trim_end_matches(".menuAction()").to_owned());
            }
        }
    }
    for c in &o.children {
        referenced_ids(c, out);
    }
}

fn remove_nth(o: &mut Obj, n: &mut usize) -> bool {
    // removes the object with pre-order index n (n > 0)
    let mut i = 0;
    while i < o.children.len() {
        *n -= 1;
        if *n == 0 {
            o.children.remove(i);
            return true;
        }
        if remove_nth(&mut o.children[i], n) {
            return true;
        }
        i += 1;
    }
    false
}

fn all_ids(o: &Obj, out: &mut Vec<String>) {
    if let Some(id) = &o.id {
        out.push(id.clone());
    }
    for c in &o.children {
        all_ids(c, out);
    }
}

impl Stream for C20 {
    fn generate(&self, seed: u64, thorough: bool) -> Vec<Case> {
        let mut cases = vec![];
        let n = if thorough { 10_000 } else { 1_200 };
        let per_doc = if thorough { 6 } else { 4 };
        for k in 0..n {
            let mut rng = Rng::fork(seed, "c20", k as u64);
            let (root, records) = gen_clean(&mut rng);
            for j in 0..per_doc {
                let kind = (k * per_doc + j) % FAULT_KINDS;
                let Some((froot, fault)) = plant_fault(&mut rng, &root, kind) else { continue };
                // faults only the C++ pass sees are not errors of the preview mode
                let labels = vec![format!("fault:{}", fault.name), format!("at:{}", root.pre_order()[fault.obj].class)];
                let fdoc = Doc::build(&froot, &records, std::slice::from_ref(&fault));
                cases.push(Case { kind: "model", labels: labels.clone(), request: fdoc.request(Mode::Omit) });
                // oracle on a variant with anonymous objects
                let mut referenced = BTreeSet::new();
                referenced_ids(&root, &mut referenced);
                let target_id = root.pre_order()[fault.obj].id.clone();
                let mut arng = Rng::fork(seed, "c20-anon", (k * per_doc + j) as u64);
                let mut free = root.clone();
                anonymise(&mut arng, &mut free, &referenced, target_id.as_deref(), true);
                let mut arng = Rng::fork(seed, "c20-anon", (k * per_doc + j) as u64);
                let mut faulted = froot.clone();
                anonymise(&mut arng, &mut faulted, &referenced, target_id.as_deref(), true);
                if fault.unknown_type {
                    let mut idx = fault.obj;
                    remove_nth(&mut free, &mut idx);
                }
                let fd = Doc::build(&faulted, &[], std::slice::from_ref(&fault));
                let mut ids = vec![];
                all_ids(&free, &mut ids);
                let anon = free.pre_order().iter().filter(|o| o.id.is_none()).count();
                let mut l2 = labels.clone();
                l2.push(format!("anonymous{}", anon.min(9)));
                let at = if fault.unknown_type { String::new() } else { target_id.clone().unwrap_or_default() };
                cases.push(Case {
                    kind: "oracle",
                    labels: l2,
                    request: node(
                        "c20-local",
                        vec![
                            node("src", vec![st(fd.src.clone())]),
                            node("free", vec![st(free.to_qml())]),
                            node("ids", ids.into_iter().map(st).collect()),
                            fault_sexp(&fd, &fault, false),
                            node("at", vec![st(at)]),
                            node("lost", vec![st(fault.lhs.split('.').next().unwrap_or("").to_owned())]),
                        ],
                    ),
                });
            }
        }
        let _ = (family_of("QWidget"), Family::Widget);
        cases
    }

    fn answer(&self, req: &Sexp) -> Sexp {
        let (tag, args) = req.as_node().expect("request node");
        match tag {
            "passes" => ledger::real_answer(&self.tm, req),
            "c20-local" => local_oracle(&self.tm, args),
            "c20-cells" => cells_observation(&self.tm, args),
            _ => node("bad-request", vec![]),
        }
    }
}

fn arg<'a>(args: &'a [Sexp], tag: &str) -> Vec<Sexp> {
    args.iter().find_map(|a| a.as_node().filter(|(t, _)| *t == tag).map(|(_, xs)| xs.to_vec())).unwrap_or_default()
}

const OBJECT_TAGS: [&str; 4] = ["widget", "layout", "spacer", "action"];

/// canonical rendering of a .ui tree: generated names replaced by "_", the faulted object's own values blanked
fn canon(e: &xml::Element, ids: &BTreeSet<String>, at: &str, out: &mut String, own: &mut BTreeSet<String>) {
    let is_obj = OBJECT_TAGS.contains(&e.name.as_str());
    let name = e.attr("name").unwrap_or("");
    let faulted = is_obj && !at.is_empty() && name == at;
    out.push('<');
    out.push_str(&e.name);
    for (k, v) in &e.attrs {
        let v = if (is_obj || e.name == "addaction") && k == "name" && !ids.contains(v) && v != "separator" { "_" } else { v.as_str() };
        out.push_str(&format!(" {k}=\"{v}\""));
    }
    out.push('>');
    for c in &e.children {
        match c {
            xml::Node::Elem(ce) => {
                if faulted && matches!(ce.name.as_str(), "property" | "attribute") {
                    own.insert(ce.attr("name").unwrap_or("").to_owned());
                    continue; // the faulted object's own values are compared separately
                }
                if faulted && matches!(ce.name.as_str(), "addaction") {
                    continue;
                }
                if faulted && ce.name == "item" && e.name != "layout" {
                    continue; // item-model rows of the faulted object (its `model` value)
                }
                canon(ce, ids, at, out, own);
            }
            xml::Node::Text(t) => {
                if !t.trim().is_empty() {
                    out.push_str(t);
                }
            }
            #[allow(unreachable_patterns)]
            _ => {}
        }
    }
    out.push_str(&format!("</{}>", e.name));
}

fn local_oracle(tm: &TypeMap, args: &[Sexp]) -> Sexp {
    let fail = |m: String| node("fail", vec![st(m)]);
    let src = arg(args, "src")[0].as_str().unwrap().to_owned();
    let free = arg(args, "free")[0].as_str().unwrap().to_owned();
    let ids: BTreeSet<String> = arg(args, "ids").iter().map(|s| s.as_str().unwrap().to_owned()).collect();
    let at = arg(args, "at")[0].as_str().unwrap().to_owned();
    let lost = arg(args, "lost")[0].as_str().unwrap().to_owned();
    let f = decode_fault(args);
    let a = env::translate(tm, &src, "MyType", Mode::Omit);
    let b = env::translate(tm, &free, "MyType", Mode::Omit);
    if a.syntax_errors > 0 || b.syntax_errors > 0 {
        return fail("syntax error in generated document".into());
    }
    let (Some(ua), Some(ub)) = (&a.ui, &b.ui) else {
        return fail("no form in omit mode".into());
    };
    if b.has_error() {
        return fail(format!("fault-free document has errors: {:?}", b.diags.iter().map(|d| d.message.clone()).collect::<Vec<_>>()));
    }
    let inside: Vec<&env::Diag> = a.diags.iter().filter(|d| d.is_error && f.range.0 <= d.start && d.end <= f.range.1).collect();
    if f.reported.2 {
        if !inside.iter().any(|d| d.message.contains(&f.message)) {
            return fail(format!("fault {}: error '{}' not reported in omit mode; got {:?}", f.name, f.message, a.diags.iter().map(|d| d.message.clone()).collect::<Vec<_>>()));
        }
    }
    let (ta, tb) = (xml::parse(ua).expect("well-formed"), xml::parse(ub).expect("well-formed"));
    let (mut ca, mut cb) = (String::new(), String::new());
    let (mut own_a, mut own_b) = (BTreeSet::new(), BTreeSet::new());
    canon(&ta, &ids, &at, &mut ca, &mut own_a);
    canon(&tb, &ids, &at, &mut cb, &mut own_b);
    if ca != cb {
        // first difference, for the report
        let p = ca.bytes().zip(cb.bytes()).position(|(x, y)| x != y).unwrap_or(ca.len().min(cb.len()));
        let ctx = |s: &str| s[p.saturating_sub(80)..(p + 80).min(s.len())].to_owned();
        return fail(format!("fault {} at '{at}': form differs outside the faulted object: …{}… vs …{}…", f.name, ctx(&ca), ctx(&cb)));
    }
    // the faulted object loses at most its own values (an empty group of the planted member may appear)
    for p in &own_a {
        if !own_b.contains(p) && *p != lost {
            return fail(format!("fault {} at '{at}': property {p} appears only in the faulted run", f.name));
        }
    }
    node("ok", vec![atom("errors"), num(a.diags.len()), atom("lost"), num(own_b.difference(&own_a).count())])
}

/// Observation used by the corpus witness of the duplicated-attached-binding finding: the (row, column) of every layout
/// item in omit mode for the faulted and the fault-free document, and whether an object other than `at` moved.
fn cells_observation(tm: &TypeMap, args: &[Sexp]) -> Sexp {
    let src = arg(args, "src")[0].as_str().unwrap().to_owned();
    let free = arg(args, "free")[0].as_str().unwrap().to_owned();
    let at = arg(args, "at")[0].as_str().unwrap().to_owned();
    let cells = |s: &str| -> Vec<(String, String, String)> {
        let t = env::translate(tm, s, "MyType", Mode::Omit);
        let Some(ui) = t.ui else { return vec![] };
        let e = xml::parse(&ui).expect("well-formed");
        e.descendants()
            .into_iter()
            .filter(|i| i.name == "item" && i.attr("row").is_some())
            .map(|i| (i.elems().next().and_then(|c| c.attr("name")).unwrap_or("").to_owned(), i.attr("row").unwrap_or("").to_owned(), i.attr("column").unwrap_or("").to_owned()))
            .collect()
    };
    let (a, b) = (cells(&src), cells(&free));
    let moved: Vec<&String> = a.iter().zip(&b).filter(|(x, y)| x != y && x.0 != at).map(|(x, _)| &x.0).collect();
    let render = |v: &[(String, String, String)]| v.iter().map(|(n, r, c)| crate::sexp::list(vec![st(n.clone()), atom(r.clone()), atom(c.clone())])).collect::<Vec<_>>();
    node("ok", vec![node("faulted", render(&a)), node("fault-free", render(&b)), node("other-objects-moved", moved.into_iter().map(|n| st(n.clone())).collect())])
}
