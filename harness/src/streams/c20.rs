//! C20 — preview-mode error recovery is local to the faulty object.
//!
//! Requests:
//!   (c20-local (src "faulted qml") (free "fault-free qml") (ids "id"…) (fault "name" start end "message" … ) (at "object id"|"" ))
//!        kind=oracle: omit mode yields a form, the planted error is reported, and the XML tree of the faulted run equals
//!        the tree of the fault-free run outside the faulted object (generated names compared up to renumbering)
//!   (passes omit <obj> (src …) (objs …) (binds …))     kind=model
use crate::docgen::{family_of, Family, Obj};
use crate::env::{self, Mode};
use crate::ledger::{self, Doc};
use crate::rng::Rng;
use crate::sexp::{atom, node, num, st, Sexp};
use crate::streams::c04::{decode_fault, fault_sexp, gen_clean, gen_opts, plant_fault, FAULT_KINDS};
use crate::xml;
use crate::{Case, Stream};
use qmluic::typemap::TypeMap;
use std::collections::BTreeSet;

pub struct C20 {
    tm: TypeMap,
}

impl C20 {
    pub fn new() -> Self {
        let mut tm = env::load_type_map_with(env::adversarial_classes());
        // the in-process equivalent of a directory with several .qml files: the directory module of `DOC_PATH` holds QML
        // components (custom widgets); nothing is read from the file system
        use qmluic::typemap::{ModuleData, ModuleIdBuf, QmlComponentData};
        let dir = camino::Utf8PathBuf::from(DOC_DIR);
        let mut md = ModuleData::default();
        for (name, sup) in COMPONENTS {
            let mut c = QmlComponentData::with_super(*name, *sup);
            c.import_module(ModuleIdBuf::Directory(dir.clone()));
            c.import_module(ModuleIdBuf::Named("qmluic.QtWidgets".into()));
            md.push_qml_component(c);
        }
        tm.insert_module(ModuleIdBuf::Directory(dir), md);
        C20 { tm }
    }
}

pub const DOC_DIR: &str = "/qv-virtual/c20";
pub const DOC_PATH: &str = "/qv-virtual/c20/MyType.qml";
/// (component, Qt super class) of the custom widgets defined next to the document
pub const COMPONENTS: &[(&str, &str)] = &[("MyButton", "QPushButton"), ("MyLabel", "QLabel"), ("MyPanel", "QGroupBox"), ("MyEdit", "QLineEdit")];

/// turns some objects into instances of the custom components (their bindings stay valid: a component inherits its super)
fn customise(rng: &mut Rng, o: &mut Obj, is_root: bool) {
    if !is_root && !o.id.as_deref().map(|i| i.starts_with("src")).unwrap_or(false) {
        if let Some((name, _)) = COMPONENTS.iter().find(|(_, sup)| *sup == o.class) {
            if rng.chance(1, 3) {
                o.class = (*name).to_owned();
            }
        }
    }
    for c in &mut o.children {
        customise(rng, c, false);
    }
}

/// An unknown object type at an object whose subtree holds an instance of a custom component or an object that a
/// surviving object refers to (`None` if the document has no such place).
fn plant_unknown_above(rng: &mut Rng, root: &Obj, referenced: &BTreeSet<String>) -> Option<(Obj, Vec<crate::ledger::Fault>)> {
    let pre = root.pre_order();
    let cands: Vec<usize> = (1..pre.len())
        .filter(|&i| {
            let sub = pre[i].pre_order();
            family_of(&pre[i].class) != Family::Action
                && !sub.iter().any(|o| o.id.as_deref().map(|x| x.starts_with("src")).unwrap_or(false))
                && sub.iter().any(|o| is_custom(&o.class) || o.id.as_ref().map(|x| referenced.contains(x)).unwrap_or(false))
        })
        .collect();
    if cands.is_empty() {
        return None;
    }
    let idx = *rng.pick(&cands);
    let mut new_root = root.clone();
    fn nth<'a>(o: &'a mut Obj, n: &mut usize) -> Option<&'a mut Obj> {
        if *n == 0 {
            return Some(o);
        }
        *n -= 1;
        for c in &mut o.children {
            if let Some(x) = nth(c, n) {
                return Some(x);
            }
        }
        None
    }
    let mut n = idx;
    nth(&mut new_root, &mut n).unwrap().class = "NopeType".into();
    let f = crate::ledger::Fault {
        name: "unknown-object-type",
        obj: idx,
        lhs: String::new(),
        rhs: String::new(),
        spec: crate::ledger::LeafSpec::default(),
        map_fault: false,
        att_fault: false,
        att_unresolved: false,
        unknown_type: true,
        message: "unknown object type",
        reported: (true, true, true),
    };
    Some((new_root, vec![f]))
}

fn is_custom(class: &str) -> bool {
    COMPONENTS.iter().any(|(n, _)| *n == class)
}

/// removes the ids of some objects nobody refers to (so that generated names take part in the comparison)
fn anonymise(rng: &mut Rng, o: &mut Obj, referenced: &BTreeSet<String>, keep: Option<&str>, is_root: bool) {
    if let Some(id) = &o.id {
        let dynamic = o.bindings.iter().any(|(l, _)| l.starts_with("on"));
        if !is_root && !referenced.contains(id) && !id.starts_with("src") && Some(id.as_str()) != keep && !dynamic && rng.chance(1, 3) {
            o.id = None;
        }
    }
    for c in &mut o.children {
        anonymise(rng, c, referenced, keep, false);
    }
}

fn referenced_ids(o: &Obj, out: &mut BTreeSet<String>) {
    for (l, r) in &o.bindings {
        if l == "buddy" {
            out.insert(r.clone());
        }
        if l == "actions" {
            for x in r.trim_matches(|c| c == '[' || c == ']').split(',') {
                out.insert(x.trim().trim_end_matches(".menuAction()").to_owned());
            }
        }
    }
    for c in &o.children {
        referenced_ids(c, out);
    }
}

fn remove_nth(o: &mut Obj, n: &mut usize) -> bool {
    // removes the object with pre-order index n (n > 0)
    let mut i = 0;
    while i < o.children.len() {
        *n -= 1;
        if *n == 0 {
            o.children.remove(i);
            return true;
        }
        if remove_nth(&mut o.children[i], n) {
            return true;
        }
        i += 1;
    }
    false
}

fn all_ids(o: &Obj, out: &mut Vec<String>) {
    if let Some(id) = &o.id {
        out.push(id.clone());
    }
    for c in &o.children {
        all_ids(c, out);
    }
}

impl Stream for C20 {
    fn generate(&self, seed: u64, thorough: bool) -> Vec<Case> {
        let mut cases = vec![];
        let n = if thorough { 10_000 } else { 1_200 };
        let per_doc = if thorough { 6 } else { 4 };
        for k in 0..n {
            let mut rng = Rng::fork(seed, "c20", k as u64);
            let (mut root, records) = gen_clean(&mut rng);
            // half of the documents live in a directory with custom components
            let with_components = k % 2 == 0;
            let mut opts = gen_opts(&mut rng);
            if with_components {
                customise(&mut rng, &mut root, true);
                opts.path = Some(DOC_PATH);
            }
            let mut referenced = BTreeSet::new();
            referenced_ids(&root, &mut referenced);
            for j in 0..=per_doc {
                let kind = (k * per_doc + j) % FAULT_KINDS;
                // the last round of a document: an unknown type placed on purpose above a custom component / a referenced id
                let planted = if j < per_doc { plant_fault(&mut rng, &root, kind) } else { plant_unknown_above(&mut rng, &root, &referenced) };
                let Some((mut froot, mut faults)) = planted else { continue };
                if faults[0].unknown_type {
                    // prefer an unknown type ABOVE objects of a custom component and above objects other objects refer to
                    let interesting = |f: &crate::ledger::Fault| {
                        let sub = root.pre_order()[f.obj];
                        sub.pre_order().iter().any(|o| is_custom(&o.class) || o.id.as_ref().map(|i| referenced.contains(i)).unwrap_or(false))
                    };
                    let mut tries = 0;
                    while !interesting(&faults[0]) && tries < 6 {
                        if let Some((r2, f2)) = plant_fault(&mut rng, &root, kind) {
                            froot = r2;
                            faults = f2;
                        }
                        tries += 1;
                    }
                }
                let fault = &faults[0];
                let mut labels = vec![format!("fault:{}", fault.name), format!("at:{}", root.pre_order()[fault.obj].class)];
                if with_components {
                    labels.push("components".into());
                }
                if fault.unknown_type {
                    let sub = root.pre_order()[fault.obj];
                    if sub.pre_order().iter().any(|o| is_custom(&o.class)) {
                        labels.push("above-custom-component".into());
                    }
                    if sub.pre_order().iter().any(|o| o.id.as_ref().map(|i| referenced.contains(i)).unwrap_or(false)) {
                        labels.push("above-referenced-id".into());
                    }
                }
                if faults.len() > 1 {
                    labels.push(format!("planted{}", faults.len()));
                }
                let fdoc = Doc::build_opts(&froot, &records, &faults, opts);
                cases.push(Case { kind: "model", labels: labels.clone(), request: fdoc.request(Mode::Omit) });
                // oracle on a variant with anonymous objects
                let mut l2 = labels.clone();
                let (req, anon) = local_case(seed, (k * per_doc + j) as u64, &root, &froot, &faults, opts, true);
                l2.push(format!("anonymous{}", anon.min(9)));
                cases.push(Case { kind: "oracle", labels: l2, request: req });
            }
        }
        cases
    }

    fn answer(&self, req: &Sexp) -> Sexp {
        let (tag, args) = req.as_node().expect("request node");
        match tag {
            "passes" => ledger::real_answer(&self.tm, req),
            "c20-local" => local_oracle(&self.tm, args),
            "c20-cells" => cells_observation(&self.tm, args),
            "c20-witness" => witness_request(args[0].as_str().unwrap()),
            _ => node("bad-request", vec![]),
        }
    }
}


/// The `c20-local` request for (fault-free root, faulted root, fault); with `anon` a third of the unreferenced objects
/// lose their ids (the same ones in both documents).  Returns the request and the number of anonymous objects.
pub fn local_case(seed: u64, index: u64, root: &Obj, froot: &Obj, faults: &[crate::ledger::Fault], opts: crate::ledger::DocOpts, anon: bool) -> (Sexp, usize) {
    let fault = &faults[0];
    let mut referenced = BTreeSet::new();
    referenced_ids(root, &mut referenced);
    referenced_ids(froot, &mut referenced); // ids a planted binding refers to keep their names too
    let target_id = root.pre_order()[fault.obj].id.clone();
    let mut free = root.clone();
    let mut faulted = froot.clone();
    if anon {
        let mut arng = Rng::fork(seed, "c20-anon", index);
        anonymise(&mut arng, &mut free, &referenced, target_id.as_deref(), true);
        let mut arng = Rng::fork(seed, "c20-anon", index);
        anonymise(&mut arng, &mut faulted, &referenced, target_id.as_deref(), true);
    }
    let mut vanished: BTreeSet<String> = BTreeSet::new();
    if fault.unknown_type {
        let mut gone = vec![];
        all_ids(root.pre_order()[fault.obj], &mut gone);
        vanished.extend(gone);
        let mut idx = fault.obj;
        remove_nth(&mut free, &mut idx);
        // the twin: exactly that subtree removed; references of surviving objects to the vanished ids are gone with it
        // (in the faulted document they must be diagnosed or dropped, never written)
        fn strip(o: &mut Obj, vanished: &BTreeSet<String>) {
            o.bindings.retain(|(l, r)| !(l == "buddy" && vanished.contains(r)));
            for c in &mut o.children {
                strip(c, vanished);
            }
        }
        strip(&mut free, &vanished);
    }
    let fd = Doc::build_opts(&faulted, &[], faults, opts);
    // ranges of the dangling references in the faulted document (outside the vanished subtree)
    let gone_objs: BTreeSet<usize> = (0..fd.objs.len())
        .filter(|&i| {
            let mut cur = Some(i);
            while let Some(c) = cur {
                if !fd.objs[c].resolves {
                    return true;
                }
                cur = fd.objs[c].parent;
            }
            false
        })
        .collect();
    let dangling: Vec<Sexp> = fd
        .bindings
        .iter()
        .filter(|b| b.lhs == "buddy" && vanished.contains(&b.rhs) && !gone_objs.contains(&b.obj))
        .map(|b| crate::sexp::list(vec![num(b.range.0), num(b.range.1), st(b.rhs.clone())]))
        .collect();
    let free_src = Doc::build_opts(&free, &[], &[], opts).src;
    let mut ids = vec![];
    all_ids(&free, &mut ids);
    let n_anon = free.pre_order().iter().filter(|o| o.id.is_none()).count();
    let at = if fault.unknown_type { String::new() } else { target_id.clone().unwrap_or_default() };
    let req = node(
        "c20-local",
        vec![
            node("src", vec![st(fd.src.clone())]),
            node("free", vec![st(free_src)]),
            node("ids", ids.into_iter().map(st).collect()),
            fault_sexp(&fd, fault, false),
            crate::streams::c04::also_sexp(&fd, faults),
            node("at", vec![st(at)]),
            node("lost", vec![st(fault.lhs.split('.').next().unwrap_or("").to_owned())]),
            node("dangling", dangling),
            node("path", opts.path.map(|p| vec![st(p)]).unwrap_or_default()),
        ],
    );
    (req, n_anon)
}

/// hand-written witnesses of the known findings (used once, to write corpus/C20)
fn witness_request(name: &str) -> Sexp {
    use crate::ledger::{Fault, Konst, LeafSpec};
    let root = |children: Vec<Obj>| {
        let mut r = Obj::new("QWidget").with_id("root");
        r.children = children;
        r
    };
    let base = LeafSpec::default();
    let mk = |name: &'static str, obj: usize, lhs: &str, rhs: &str, spec: LeafSpec, att_fault: bool, message: &'static str, reported: (bool, bool, bool)| Fault {
        name,
        obj,
        lhs: lhs.into(),
        rhs: rhs.into(),
        spec,
        map_fault: false,
        att_fault,
        att_unresolved: false,
        unknown_type: false,
        message,
        reported,
    };
    match name {
        // F19
        "duplicated-attached" => {
            let grid = |a: Obj| root(vec![Obj::new("QGridLayout").with_id("g").bind("columns", "2").child(a).child(Obj::new("QLabel").with_id("b"))]);
            let free = grid(Obj::new("QLabel").with_id("a").bind("QLayout.row", "3"));
            let faulted = grid(Obj::new("QLabel").with_id("a").bind("QLayout.row", "3").bind("QLayout.row", "3"));
            let f = mk("duplicated-attached-binding", 2, "QLayout.row", "3", base.clone(), true, "duplicated binding", (true, true, true));
            local_case(0, 0, &free, &faulted, std::slice::from_ref(&f), crate::ledger::DocOpts::default(), false).0
        }
        // F20
        "separator-plus-fault" => {
            let free = root(vec![Obj::new("QAction").with_id("a").bind("separator", "true")]);
            let faulted = root(vec![Obj::new("QAction").with_id("a").bind("separator", "true").bind("text", "42")]);
            let f = mk("faulty-binding-on-separator", 1, "text", "42", LeafSpec { konst: Konst::Fail, ret_ok: false, ..base.clone() }, false, "expression type mismatch", (true, true, true));
            local_case(0, 0, &free, &faulted, std::slice::from_ref(&f), crate::ledger::DocOpts::default(), false).0
        }
        // F21
        "dynamic-type-mismatch" => {
            let doc = |l: Obj| root(vec![Obj::new("QSpinBox").with_id("srcSpin"), l]);
            let free = doc(Obj::new("QLabel").with_id("l"));
            let faulted = doc(Obj::new("QLabel").with_id("l").bind("text", "srcSpin.value"));
            let f = mk("dynamic-type-mismatch", 2, "text", "srcSpin.value", LeafSpec { konst: Konst::Dyn, ret_ok: false, ..base.clone() }, false, "expression type mismatch", (true, true, true));
            local_case(0, 0, &free, &faulted, std::slice::from_ref(&f), crate::ledger::DocOpts::default(), false).0
        }
        // round 3: an ill-typed constant `actions` value is reported in preview mode; the form is the twin's
        "ill-typed-actions" => {
            let doc = |acts: bool| {
                let mut w = Obj::new("QWidget").with_id("w").child(Obj::new("QAction").with_id("open").bind("text", "\"Open\""));
                if acts {
                    w = w.bind("actions", "open");
                }
                root(vec![w])
            };
            let f = mk("ill-typed-actions", 1, "actions", "open", LeafSpec { konst: Konst::Fail, ret_ok: false, readable: false, writable: false, ..base.clone() }, false, "expression type mismatch", (true, true, true));
            local_case(0, 0, &doc(false), &doc(true), std::slice::from_ref(&f), crate::ledger::DocOpts::default(), false).0
        }
        // an unknown type above an instance of a custom component and above an object a surviving label refers to
        "unknown-above-component" => {
            let doc = |mid: Option<Obj>, buddy: bool| {
                let mut head = Obj::new("QLabel").with_id("head").bind("text", "\"head\"");
                if buddy {
                    head = head.bind("buddy", "inner");
                }
                let mut lay = Obj::new("QVBoxLayout").with_id("lay").child(head);
                if let Some(m) = mid {
                    lay = lay.child(m);
                }
                root(vec![lay.child(Obj::new("MyLabel").with_id("tail"))])
            };
            let boxed = |class: &str| Obj::new(class).with_id("box").bind("title", "\"t\"").child(Obj::new("MyButton").with_id("inner"));
            let free = doc(Some(boxed("QGroupBox")), true);
            let faulted = doc(Some(boxed("NopeType")), true);
            let mut f = mk("unknown-object-type", 3, "", "", base.clone(), false, "unknown object type", (true, true, true));
            f.unknown_type = true;
            local_case(0, 0, &free, &faulted, std::slice::from_ref(&f), crate::ledger::DocOpts { import_version: false, path: Some(DOC_PATH) }, false).0
        }
        _ => node("bad-request", vec![]),
    }
}

fn arg<'a>(args: &'a [Sexp], tag: &str) -> Vec<Sexp> {
    args.iter().find_map(|a| a.as_node().filter(|(t, _)| *t == tag).map(|(_, xs)| xs.to_vec())).unwrap_or_default()
}

const OBJECT_TAGS: [&str; 4] = ["widget", "layout", "spacer", "action"];

#[derive(Clone, Copy, Default)]
struct CanonOpts {
    /// blank row/column of every item of the layout that holds the faulted object
    blank_sibling_cells: bool,
    /// treat the faulted action as a static separator: its <action> element is dropped, its addaction reads "separator"
    as_separator: bool,
}

const LAYOUT_ARRAY_ATTRS: [&str; 5] = ["stretch", "rowstretch", "columnstretch", "rowminimumheight", "columnminimumwidth"];
const ITEM_OWN_ATTRS: [&str; 5] = ["alignment", "row", "column", "rowspan", "colspan"];

/// canonical rendering of a .ui tree: generated names replaced by "_"; the faulted object's own values (properties,
/// attributes, addactions, item-model rows, and the attributes of the <item> that wraps it) are left out
fn canon(e: &xml::Element, ids: &BTreeSet<String>, at: &str, opts: CanonOpts, item_mode: u8, out: &mut String, own: &mut BTreeSet<String>) {
    let is_obj = OBJECT_TAGS.contains(&e.name.as_str());
    let name = e.attr("name").unwrap_or("");
    let faulted = is_obj && !at.is_empty() && name == at;
    out.push('<');
    out.push_str(&e.name);
    let holds_at_here = e.name == "layout" && !at.is_empty() && e.children_named("item").any(|it| it.elems().any(|c| c.attr("name") == Some(at)));
    for (k, v) in &e.attrs {
        if e.name == "item" && item_mode == 1 && ITEM_OWN_ATTRS.contains(&k.as_str()) {
            continue; // values of the faulted object's own attached bindings
        }
        if e.name == "item" && item_mode == 2 && (k == "row" || k == "column") {
            continue;
        }
        if e.name == "layout" && holds_at_here && LAYOUT_ARRAY_ATTRS.contains(&k.as_str()) {
            continue; // per-row / per-column values contributed by the attached bindings of the children (incl. the faulted one)
        }
        let mut v = if (is_obj || e.name == "addaction") && k == "name" && !ids.contains(v) && v != "separator" { "_" } else { v.as_str() };
        if opts.as_separator && e.name == "addaction" && k == "name" && v == at {
            v = "separator";
        }
        out.push_str(&format!(" {k}=\"{v}\""));
    }
    out.push('>');
    let holds_at = e.name == "layout" && !at.is_empty() && e.children_named("item").any(|it| it.elems().any(|c| c.attr("name") == Some(at)));
    for c in &e.children {
        match c {
            xml::Node::Elem(ce) => {
                if faulted && matches!(ce.name.as_str(), "property" | "attribute") {
                    own.insert(ce.attr("name").unwrap_or("").to_owned());
                    continue; // the faulted object's own values are compared separately
                }
                if faulted && matches!(ce.name.as_str(), "addaction") {
                    continue;
                }
                if faulted && ce.name == "item" && e.name != "layout" {
                    continue; // item-model rows of the faulted object (its `model` value)
                }
                if opts.as_separator && ce.name == "action" && ce.attr("name") == Some(at) {
                    continue;
                }
                let mode = if ce.name == "item" && holds_at {
                    if ce.elems().any(|x| x.attr("name") == Some(at)) {
                        1
                    } else if opts.blank_sibling_cells {
                        2
                    } else {
                        0
                    }
                } else {
                    0
                };
                canon(ce, ids, at, opts, mode, out, own);
            }
            xml::Node::Text(t) => {
                if !t.trim().is_empty() {
                    out.push_str(t);
                }
            }
            #[allow(unreachable_patterns)]
            _ => {}
        }
    }
    out.push_str(&format!("</{}>", e.name));
}

/// (name, row, column) of the items of the layout that holds `at`
fn cells_around(ui: &xml::Element, at: &str) -> Vec<(String, String, String)> {
    for lay in ui.descendants().into_iter().filter(|e| e.name == "layout") {
        if lay.children_named("item").any(|it| it.elems().any(|c| c.attr("name") == Some(at))) {
            return lay
                .children_named("item")
                .map(|i| (i.elems().next().and_then(|c| c.attr("name")).unwrap_or("").to_owned(), i.attr("row").unwrap_or("-").to_owned(), i.attr("column").unwrap_or("-").to_owned()))
                .collect();
        }
    }
    vec![]
}

fn local_oracle(tm: &TypeMap, args: &[Sexp]) -> Sexp {
    let fail = |m: String| node("fail", vec![st(m)]);
    let src = arg(args, "src")[0].as_str().unwrap().to_owned();
    let free = arg(args, "free")[0].as_str().unwrap().to_owned();
    let ids: BTreeSet<String> = arg(args, "ids").iter().map(|s| s.as_str().unwrap().to_owned()).collect();
    let at = arg(args, "at")[0].as_str().unwrap().to_owned();
    let lost = arg(args, "lost")[0].as_str().unwrap().to_owned();
    let f = decode_fault(args);
    let path: Option<String> = arg(args, "path").first().and_then(|p| p.as_str().map(|s| s.to_owned()));
    let translate = |s: &str, mode: Mode| ledger::translate_checked_at(tm, s, mode, path.as_deref()).0;
    let a = translate(&src, Mode::Omit);
    let b = translate(&free, Mode::Omit);
    if a.syntax_errors > 0 || b.syntax_errors > 0 {
        return fail("syntax error in generated document".into());
    }
    let (Some(ua), Some(ub)) = (&a.ui, &b.ui) else {
        return fail("no form in omit mode".into());
    };
    if b.has_error() {
        return fail(format!("fault-free document has errors: {:?}", b.diags.iter().map(|d| d.message.clone()).collect::<Vec<_>>()));
    }
    let inside = |t: &env::Translation| -> Vec<String> { t.diags.iter().filter(|d| d.is_error && f.range.0 <= d.start && d.end <= f.range.1).map(|d| d.message.clone()).collect() };
    let omit_inside = inside(&a);
    // every error is still reported: what generate mode reports inside the planted binding, omit mode must report too
    // (errors only `UiSupportCode::build` can see: F21, repaired in /repo c47e7fb — this check fails if that is reverted)
    let g = translate(&src, Mode::Generate);
    if let Some(m) = inside(&g).iter().find(|m| !omit_inside.contains(m)) {
        return fail(format!(
            "fault {} at '{at}': error reported in generate mode only (C++ pass): '{m}'; omit mode reports {}",
            f.name,
            if omit_inside.is_empty() { "nothing for this binding".to_owned() } else { format!("{omit_inside:?}") }
        ));
    }
    // the planted error(s) are reported (the fault-free twin has no error, so any error of that class stems from the fault;
    // whether the range lies inside the faulty binding is C04's clause)
    let mut planted = vec![(f.range.0, f.range.1, f.message.clone())];
    for x in arg(args, "also") {
        let l = x.as_list().unwrap();
        planted.push((l[0].as_usize().unwrap(), l[1].as_usize().unwrap(), l[2].as_str().unwrap().to_owned()));
    }
    if f.reported.2 {
        for (k, (s, e, message)) in planted.iter().enumerate() {
            let here = a.diags.iter().any(|d| d.is_error && *s <= d.start && d.end <= *e && d.message.contains(message));
            let n_class = a.diags.iter().filter(|d| d.is_error && d.message.contains(message)).count();
            if !here && (k > 0 || n_class == 0 || planted.len() > 1) {
                return fail(format!("fault {} (planted binding {k}): error '{message}' not reported in omit mode; got {:?}", f.name, a.diags.iter().map(|d| d.message.clone()).collect::<Vec<_>>()));
            }
        }
    }
    // a reference of a surviving object to an id that vanished with the unknown-type subtree is diagnosed …
    for d in arg(args, "dangling") {
        let l = d.as_list().unwrap();
        let (s, e, id) = (l[0].as_usize().unwrap(), l[1].as_usize().unwrap(), l[2].as_str().unwrap());
        if !a.diags.iter().any(|x| x.is_error && s <= x.start && x.end <= e) {
            // … or at least never written: the tree comparison below decides; say what was expected
            if ua.contains(&format!("<cstring>{id}</cstring>")) {
                return fail(format!("fault {}: reference to the vanished object '{id}' is written to the form (<cstring>{id}</cstring>) without a diagnostic", f.name));
            }
        }
    }
    let (ta, tb) = (xml::parse(ua).expect("well-formed"), xml::parse(ub).expect("well-formed"));
    let render = |t: &xml::Element, o: CanonOpts| {
        let (mut s, mut own) = (String::new(), BTreeSet::new());
        canon(t, &ids, &at, o, 0, &mut s, &mut own);
        (s, own)
    };
    let ((ca, own_a), (cb, own_b)) = (render(&ta, CanonOpts::default()), render(&tb, CanonOpts::default()));
    // failures of the known classes are reported last, so that any other difference is reported first
    let mut known: Option<String> = None;
    if ca != cb {
        let cells = CanonOpts { blank_sibling_cells: true, ..Default::default() };
        let sep = CanonOpts { as_separator: true, ..Default::default() };
        let exists = |t: &xml::Element| ledger::find_object(t, &at).is_some();
        if !at.is_empty() && render(&ta, cells).0 == render(&tb, cells).0 {
            let (xa, xb) = (cells_around(&ta, &at), cells_around(&tb, &at));
            let moved: Vec<String> = xa.iter().zip(&xb).filter(|(x, y)| x != y && x.0 != at).map(|(x, y)| format!("'{}' ({},{}) -> ({},{})", if ids.contains(&y.0) { y.0.as_str() } else { "_" }, y.1, y.2, x.1, x.2)).collect();
            known = Some(format!("fault {} at '{at}': sibling moved: {} after '{at}' lost its attached row/column", f.name, moved.join(", ")));
        } else if !at.is_empty() && exists(&ta) != exists(&tb) && render(&ta, sep).0 == render(&tb, sep).0 {
            known = Some(format!("fault {} at '{at}': object changed kind: static separator '{at}' became an action", f.name));
        } else {
            // first difference, for the report
            let p = ca.bytes().zip(cb.bytes()).position(|(x, y)| x != y).unwrap_or(ca.len().min(cb.len()));
            let ctx = |s: &str| {
                let (mut lo, mut hi) = (p.saturating_sub(80), (p + 80).min(s.len()));
                while !s.is_char_boundary(lo) {
                    lo -= 1;
                }
                while !s.is_char_boundary(hi) {
                    hi += 1;
                }
                s[lo..hi].to_owned()
            };
            return fail(format!("fault {} at '{at}': form differs outside the faulted object: …{}… vs …{}…", f.name, ctx(&ca), ctx(&cb)));
        }
    }
    // the faulted object loses at most its own values (an empty group of the planted member may appear)
    if known.is_none() {
        for p in &own_a {
            if !own_b.contains(p) && *p != lost {
                return fail(format!("fault {} at '{at}': property {p} appears only in the faulted run", f.name));
            }
        }
    }
    if let Some(k) = known {
        return fail(k);
    }
    node("ok", vec![atom("errors"), num(a.diags.len()), atom("lost"), num(own_b.difference(&own_a).count())])
}

/// Observation used by the corpus witness of the duplicated-attached-binding finding: the (row, column) of every layout
/// item in omit mode for the faulted and the fault-free document, and whether an object other than `at` moved.
fn cells_observation(tm: &TypeMap, args: &[Sexp]) -> Sexp {
    let src = arg(args, "src")[0].as_str().unwrap().to_owned();
    let free = arg(args, "free")[0].as_str().unwrap().to_owned();
    let at = arg(args, "at")[0].as_str().unwrap().to_owned();
    let cells = |s: &str| -> Vec<(String, String, String)> {
        let t = env::translate(tm, s, "MyType", Mode::Omit);
        let Some(ui) = t.ui else { return vec![] };
        let e = xml::parse(&ui).expect("well-formed");
        e.descendants()
            .into_iter()
            .filter(|i| i.name == "item" && i.attr("row").is_some())
            .map(|i| (i.elems().next().and_then(|c| c.attr("name")).unwrap_or("").to_owned(), i.attr("row").unwrap_or("").to_owned(), i.attr("column").unwrap_or("").to_owned()))
            .collect()
    };
    let (a, b) = (cells(&src), cells(&free));
    let moved: Vec<&String> = a.iter().zip(&b).filter(|(x, y)| x != y && x.0 != at).map(|(x, _)| &x.0).collect();
    let render = |v: &[(String, String, String)]| v.iter().map(|(n, r, c)| crate::sexp::list(vec![st(n.clone()), atom(r.clone()), atom(c.clone())])).collect::<Vec<_>>();
    node("ok", vec![node("faulted", render(&a)), node("fault-free", render(&b)), node("other-objects-moved", moved.into_iter().map(|n| st(n.clone())).collect())])
}
